(* General theorems about the concurrency model of Model/Conc.v, proved once for every program
   given as event lists, any number of goroutines, locks and locations:
     drf            well_locked programs have no reachable state with two conflicting accesses enabled
     serialised_W/R while a goroutine holds a lock in W mode only its own family touches the
                    locations the lock guards; while one holds it in R mode nobody writes them
     deadlock_free  programs without nested acquisition never get stuck
   plus the transfer of the checkers along injective renamings of locks/locations (relative
   names -> concrete instances) and the C14 snapshot lemma.                                  *)
From Coq Require Import List Bool Arith NArith Lia.
From IpfsLog Require Import Model.Conc.
Import ListNotations.
Open Scope list_scope.

(* ------------------------------------------------------------------------------------- *)
(** * Lists *)
Section ListFacts.
  Context {A : Type}.

  Lemma nth_upd_eq (s : list A) i t t' : nth_error s i = Some t -> nth_error (upd s i t') i = Some t'.
  Proof. revert i; induction s as [|x r IH]; intros [|i] H; simpl in *; try discriminate; auto. Qed.

  Lemma nth_upd_neq (s : list A) i j t' : i <> j -> nth_error (upd s i t') j = nth_error s j.
  Proof.
    revert i j; induction s as [|x r IH]; intros [|i] [|j] H; simpl; auto; try congruence.
  Qed.

  Lemma length_upd (s : list A) i t' : length (upd s i t') = length s.
  Proof. revert i; induction s as [|x r IH]; intros [|i]; simpl; auto. Qed.

  Lemma nth_upd_inv (s : list A) i t' j u :
    nth_error (upd s i t') j = Some u ->
    (j = i /\ u = t' /\ i < length s) \/ (j <> i /\ nth_error s j = Some u).
  Proof.
    intros H. destruct (Nat.eq_dec j i) as [->|N].
    - left. assert (L : i < length s).
      { rewrite <- (length_upd s i t'). apply nth_error_Some. congruence. }
      destruct (nth_error s i) eqn:E; [|apply nth_error_None in E; lia].
      rewrite (nth_upd_eq _ _ _ _ E) in H. inversion H; auto.
    - right. split; auto. rewrite nth_upd_neq in H; auto.
  Qed.

  Lemma nth_snoc_inv (s : list A) c j u :
    nth_error (s ++ [c]) j = Some u ->
    (j < length s /\ nth_error s j = Some u) \/ (j = length s /\ u = c).
  Proof.
    intros H. destruct (Nat.lt_ge_cases j (length s)) as [L|L].
    - left. rewrite nth_error_app1 in H; auto.
    - right. rewrite nth_error_app2 in H; auto.
      destruct (j - length s) as [|n] eqn:E; simpl in H.
      + inversion H. split; auto. lia.
      + destruct n; discriminate.
  Qed.

  Lemma nth_lt (s : list A) j u : nth_error s j = Some u -> j < length s.
  Proof. intros H. apply nth_error_Some. congruence. Qed.
End ListFacts.

(* ------------------------------------------------------------------------------------- *)
Section Gen.
  Variable lock loc : Type.
  Variable lock_eqb : lock -> lock -> bool.
  Hypothesis lock_eqb_spec : forall a b, lock_eqb a b = true <-> a = b.
  Variable guard : loc -> lock.
  Variable ro priv : loc -> bool.
  Variable owner : loc -> nat.
  Variable leaf : lock -> bool.

  Notation act := (act lock loc).
  Notation ev := (ev lock loc).
  Notation thread := (thread lock loc).
  Notation state := (state lock loc).
  Notation step := (step lock loc lock_eqb).
  Notation reach := (reach lock loc lock_eqb).
  Notation init := (init lock loc).
  Notation wl := (wl lock loc lock_eqb guard ro priv).
  Notation wlb := (wlb lock loc lock_eqb guard ro priv).
  Notation nn := (nn lock loc lock_eqb leaf).
  Notation nnb := (nnb lock loc lock_eqb leaf).
  Notation acc_ok := (acc_ok lock loc lock_eqb guard ro priv).
  Notation pv := (pv lock loc priv owner).
  Notation rm1 := (rm1 lock lock_eqb).
  Notation memh := (memh lock lock_eqb).
  Notation has := (has lock lock_eqb).
  Notation hasW := (hasW lock lock_eqb).
  Notation infroz := (infroz lock lock_eqb).
  Notation locks := (locks lock).
  Notation froz := (froz lock).
  Notation hm_eqb := (hm_eqb lock lock_eqb).
  Notation list_eqb := (list_eqb lock lock_eqb).

  Lemma lock_eqb_refl a : lock_eqb a a = true.
  Proof. now apply lock_eqb_spec. Qed.

  Lemma mode_eqb_spec a b : mode_eqb a b = true <-> a = b.
  Proof. destruct a, b; simpl; split; intros; congruence. Qed.

  Lemma hm_eqb_spec a b : hm_eqb a b = true <-> a = b.
  Proof.
    unfold Conc.hm_eqb. destruct a as [l m], b as [l' m']; simpl.
    rewrite andb_true_iff, lock_eqb_spec, mode_eqb_spec. split; [intros [-> ->]|intros E; inversion E]; auto.
  Qed.

  Lemma memh_spec x h : memh x h = true <-> In x h.
  Proof.
    unfold Conc.memh. rewrite existsb_exists. split.
    - intros [y [I E]]. apply hm_eqb_spec in E. now subst.
    - intros I. exists x. split; auto. now apply hm_eqb_spec.
  Qed.

  Lemma has_spec l h : has l h = true <-> exists m, In (l, m) h.
  Proof.
    unfold Conc.has. rewrite existsb_exists. split.
    - intros [[l' m] [I E]]. simpl in E. apply lock_eqb_spec in E. subst. eauto.
    - intros [m I]. exists (l, m). split; auto. simpl. apply lock_eqb_refl.
  Qed.

  Lemma hasW_spec l h : hasW l h = true <-> In (l, W) h.
  Proof.
    unfold Conc.hasW. rewrite existsb_exists. split.
    - intros [[l' m] [I E]]. simpl in E. apply andb_true_iff in E as [E1 E2].
      apply lock_eqb_spec in E1. apply mode_eqb_spec in E2. now subst.
    - intros I. exists (l, W). split; auto. simpl. now rewrite lock_eqb_refl.
  Qed.

  Lemma infroz_spec l F : infroz l F = true <-> In l (froz F).
  Proof.
    unfold Conc.infroz. rewrite existsb_exists. split.
    - intros [y [I E]]. apply lock_eqb_spec in E. now subst.
    - intros I. exists l. split; auto. apply lock_eqb_refl.
  Qed.

  Lemma list_eqb_spec a b : list_eqb a b = true <-> a = b.
  Proof.
    revert b; induction a as [|x a IH]; intros [|y b]; simpl; split; intros H; try congruence; auto.
    - apply andb_true_iff in H as [H1 H2]. apply lock_eqb_spec in H1. apply IH in H2. now subst.
    - inversion H; subst. rewrite lock_eqb_refl. simpl. now apply IH.
  Qed.

  Lemma in_rm1 x y h : In y (rm1 x h) -> In y h.
  Proof.
    induction h as [|z r IH]; simpl; auto.
    destruct (hm_eqb x z); simpl; intuition.
  Qed.

  Lemma in_rm1_other x y h : In y h -> y <> x -> In y (rm1 x h).
  Proof.
    induction h as [|z r IH]; simpl; auto.
    intros [->|I] N.
    - destruct (hm_eqb x y) eqn:E; [apply hm_eqb_spec in E; congruence|now left].
    - destruct (hm_eqb x z); [auto|right; auto].
  Qed.

  Lemma is_nil_spec {A} (l : list A) : is_nil l = true <-> l = [].
  Proof. destruct l; simpl; split; congruence. Qed.

  Lemma is_none_spec {A} (o : option A) : is_none o = true <-> o = None.
  Proof. destruct o; simpl; split; congruence. Qed.

  Definition is_child (t : thread) : bool := match parent t with Some _ => true | None => false end.
  Definition root (i : nat) (t : thread) : nat := match parent t with Some p => p | None => i end.

  Lemma wl_child_map h F b : wl true h F (map EB b) = wlb h F b.
  Proof.
    revert h; induction b as [|a b IH]; intros h; simpl.
    - now rewrite andb_true_r.
    - destruct a; simpl; rewrite ?IH; auto.
  Qed.

  Lemma nn_child_map h b : nn true h (map EB b) = nnb h b.
  Proof.
    revert h; induction b as [|a b IH]; intros h; simpl; auto.
    destruct a; simpl; rewrite ?IH; auto.
  Qed.

  (* ----------------------------------------------------------------------------------- *)
  (** * Invariant behind drf / serialised *)

  Record inv_wl (s : state) : Prop := {
    iC : forall i t, nth_error s i = Some t -> wl (is_child t) (held t) (frozen t) (code t) = true;
    iE : forall i j ti tj l m, nth_error s i = Some ti -> nth_error s j = Some tj ->
           In (l, W) (held ti) -> In (l, m) (held tj) -> i = j /\ m = W;
    iP : forall i t F l, nth_error s i = Some t -> parent t = None -> frozen t = Some F -> In l F ->
           exists m, In (l, m) (held t);
    iF : forall c tc p, nth_error s c = Some tc -> parent tc = Some p ->
           exists tp, nth_error s p = Some tp /\ parent tp = None /\
             (code tc <> [] -> exists F, frozen tp = Some F /\ incl (froz (frozen tc)) F);
    iV : forall i t, nth_error s i = Some t -> pv (root i t) (code t) = true
  }.

  Lemma pv_tail r e k : pv r (e :: k) = true -> pv r k = true.
  Proof. unfold Conc.pv. simpl. intros H. now apply andb_true_iff in H. Qed.

  Lemma inv_wl_init progs :
    (forall i p, nth_error progs i = Some p -> wl false [] None p = true /\ pv i p = true) ->
    inv_wl (init progs).
  Proof.
    intros H. unfold Conc.init.
    assert (L : forall i t, nth_error (map (fun p => mkT p [] None None None) progs) i = Some t ->
                exists p, nth_error progs i = Some p /\ t = mkT p [] None None None).
    { intros i t E. rewrite nth_error_map in E. destruct (nth_error progs i); inversion E; eauto. }
    split.
    - intros i t E. apply L in E as [p [E ->]]. simpl. now apply H in E.
    - intros i j ti tj l m Ei Ej I. apply L in Ei as [p [_ ->]]. simpl in I. contradiction.
    - intros i t F l E _ Fz. apply L in E as [p [_ ->]]. simpl in Fz. discriminate.
    - intros c tc p E Pa. apply L in E as [q [_ ->]]. simpl in Pa. discriminate.
    - intros i t E. apply L in E as [p [E ->]]. unfold root; simpl. now apply H in E.
  Qed.

  (* a step of thread i that only consumes the head event and keeps frozen/parent: the common part *)
  Ltac look H :=
    let N := fresh "N" in let E := fresh "E" in
    apply nth_upd_inv in H as [[-> [-> _]]|[N E]].

  Lemma inv_wl_step s i l s' : inv_wl s -> step s i l s' -> inv_wl s'.
  Proof.
    intros I St. destruct I as [C E P F V].
    destruct St as [i t l k Hi Hc Ha Hfree
                   |i t l k Hi Hc Ha Hfree
                   |i t l k Hi Hc Hfree
                   |i t l m k Hi Hc Hin
                   |i t a k Hi Hc Hacc
                   |i t alts body k Hi Hc Hin
                   |i t k Hi Hc Hdone].
    - (* announce *)
      split.
      + intros j u Hj. look Hj; simpl; [|eauto]. unfold is_child; simpl. apply (C _ _ Hi).
      + intros a b ta tb l0 m Ha' Hb' I1 I2.
        look Ha'; look Hb'; simpl in *; eauto.
      + intros j u F0 l0 Hj Pa Fz I0. look Hj; simpl in *; eauto.
      + intros c tc p Hcn Pa. look Hcn; simpl in *.
        * destruct (F _ _ _ Hi Pa) as [tp [Hp [Pp Q]]].
          destruct (Nat.eq_dec p i) as [->|Np].
          -- rewrite Hi in Hp. inversion Hp; subst tp. congruence.
          -- exists tp. rewrite nth_upd_neq by auto. auto.
        * destruct (F _ _ _ E0 Pa) as [tp [Hp [Pp Q]]].
          destruct (Nat.eq_dec p i) as [->|Np].
          -- rewrite Hi in Hp. inversion Hp; subst tp.
             eexists. split; [eapply nth_upd_eq; eauto|]. simpl. auto.
          -- exists tp. rewrite nth_upd_neq by auto. auto.
      + intros j u Hj. look Hj; [|eauto]. unfold root; simpl. apply (V _ _ Hi).
    - (* acquire W *)
      pose proof (C _ _ Hi) as Ci. rewrite Hc in Ci. simpl in Ci.
      split.
      + intros j u Hj. look Hj; simpl; [|eauto]. exact Ci.
      + intros a b ta tb l0 m Ha' Hb' I1 I2.
        look Ha'; look Hb'; simpl in *.
        * destruct I1 as [I1|I1]; destruct I2 as [I2|I2].
          -- inversion I2; auto.
          -- inversion I1; subst. exfalso. eapply Hfree; eauto.
          -- inversion I2; subst. exfalso. eapply Hfree; eauto.
          -- destruct (E _ _ _ _ _ _ Hi Hi I1 I2); auto.
        * destruct I1 as [I1|I1].
          -- inversion I1; subst. exfalso. eapply Hfree; eauto.
          -- destruct (E _ _ _ _ _ _ Hi E0 I1 I2); auto.
        * destruct I2 as [I2|I2].
          -- inversion I2; subst. exfalso. eapply Hfree; eauto.
          -- destruct (E _ _ _ _ _ _ E0 Hi I1 I2); auto.
        * eauto.
      + intros j u F0 l0 Hj Pa Fz I0. look Hj; simpl in *; [|eauto].
        destruct (P _ _ _ _ Hi Pa Fz I0) as [m0 I1]. exists m0. now right.
      + intros c tc p Hcn Pa. look Hcn; simpl in *.
        * destruct (F _ _ _ Hi Pa) as [tp [Hp [Pp Q]]].
          destruct (Nat.eq_dec p i) as [->|Np].
          -- rewrite Hi in Hp. inversion Hp; subst tp. congruence.
          -- exists tp. rewrite nth_upd_neq by auto. repeat split; auto.
             intros Nk. apply Q. rewrite Hc. discriminate.
        * destruct (F _ _ _ E0 Pa) as [tp [Hp [Pp Q]]].
          destruct (Nat.eq_dec p i) as [->|Np].
          -- rewrite Hi in Hp. inversion Hp; subst tp.
             eexists. split; [eapply nth_upd_eq; eauto|]. simpl. auto.
          -- exists tp. rewrite nth_upd_neq by auto. auto.
      + intros j u Hj. look Hj; [|eauto]. unfold root; simpl.
        pose proof (V _ _ Hi) as Vi. rewrite Hc in Vi. apply pv_tail in Vi. exact Vi.
    - (* acquire R *)
      pose proof (C _ _ Hi) as Ci. rewrite Hc in Ci. simpl in Ci.
      split.
      + intros j u Hj. look Hj; simpl; [|eauto]. exact Ci.
      + intros a b ta tb l0 m Ha' Hb' I1 I2.
        look Ha'; look Hb'; simpl in *.
        * destruct I1 as [I1|I1]; [inversion I1|].
          destruct I2 as [I2|I2].
          -- inversion I2; subst. exfalso. eapply Hfree; eauto.
          -- destruct (E _ _ _ _ _ _ Hi Hi I1 I2); auto.
        * destruct I1 as [I1|I1]; [inversion I1|].
          destruct (E _ _ _ _ _ _ Hi E0 I1 I2); auto.
        * destruct I2 as [I2|I2].
          -- inversion I2; subst. exfalso. eapply Hfree; eauto.
          -- destruct (E _ _ _ _ _ _ E0 Hi I1 I2); auto.
        * eauto.
      + intros j u F0 l0 Hj Pa Fz I0. look Hj; simpl in *; [|eauto].
        destruct (P _ _ _ _ Hi Pa Fz I0) as [m0 I1]. exists m0. now right.
      + intros c tc p Hcn Pa. look Hcn; simpl in *.
        * destruct (F _ _ _ Hi Pa) as [tp [Hp [Pp Q]]].
          destruct (Nat.eq_dec p i) as [->|Np].
          -- rewrite Hi in Hp. inversion Hp; subst tp. congruence.
          -- exists tp. rewrite nth_upd_neq by auto. repeat split; auto.
             intros Nk. apply Q. rewrite Hc. discriminate.
        * destruct (F _ _ _ E0 Pa) as [tp [Hp [Pp Q]]].
          destruct (Nat.eq_dec p i) as [->|Np].
          -- rewrite Hi in Hp. inversion Hp; subst tp.
             eexists. split; [eapply nth_upd_eq; eauto|]. simpl. auto.
          -- exists tp. rewrite nth_upd_neq by auto. auto.
      + intros j u Hj. look Hj; [|eauto]. unfold root; simpl.
        pose proof (V _ _ Hi) as Vi. rewrite Hc in Vi. apply pv_tail in Vi. exact Vi.
    - (* release *)
      pose proof (C _ _ Hi) as Ci. rewrite Hc in Ci. simpl in Ci.
      apply andb_true_iff in Ci as [Ci Ck]. apply andb_true_iff in Ci as [_ Cf].
      apply negb_true_iff in Cf.
      split.
      + intros j u Hj. look Hj; simpl; [|eauto]. exact Ck.
      + intros a b ta tb l0 m0 Ha' Hb' I1 I2.
        look Ha'; look Hb'; simpl in *; try apply in_rm1 in I1; try apply in_rm1 in I2; eauto.
      + intros j u F0 l0 Hj Pa Fz I0. look Hj; simpl in *; [|eauto].
        destruct (P _ _ _ _ Hi Pa Fz I0) as [m0 I1]. exists m0.
        apply in_rm1_other; auto. intros Eq. inversion Eq; subst.
        assert (X : infroz l (frozen t) = true) by (apply infroz_spec; rewrite Fz; exact I0). congruence.
      + intros c tc p Hcn Pa. look Hcn; simpl in *.
        * destruct (F _ _ _ Hi Pa) as [tp [Hp [Pp Q]]].
          destruct (Nat.eq_dec p i) as [->|Np].
          -- rewrite Hi in Hp. inversion Hp; subst tp. congruence.
          -- exists tp. rewrite nth_upd_neq by auto. repeat split; auto.
             intros Nk. apply Q. rewrite Hc. discriminate.
        * destruct (F _ _ _ E0 Pa) as [tp [Hp [Pp Q]]].
          destruct (Nat.eq_dec p i) as [->|Np].
          -- rewrite Hi in Hp. inversion Hp; subst tp.
             eexists. split; [eapply nth_upd_eq; eauto|]. simpl. auto.
          -- exists tp. rewrite nth_upd_neq by auto. auto.
      + intros j u Hj. look Hj; [|eauto]. unfold root; simpl.
        pose proof (V _ _ Hi) as Vi. rewrite Hc in Vi. apply pv_tail in Vi. exact Vi.
    - (* access / nop *)
      pose proof (C _ _ Hi) as Ci. rewrite Hc in Ci.
      assert (Ck : wl (is_child t) (held t) (frozen t) k = true).
      { destruct a; simpl in Hacc; try discriminate; simpl in Ci;
          try (apply andb_true_iff in Ci as [_ Ci]); exact Ci. }
      split.
      + intros j u Hj. look Hj; simpl; [|eauto]. exact Ck.
      + intros a0 b ta tb l0 m0 Ha' Hb' I1 I2.
        look Ha'; look Hb'; simpl in *; eauto.
      + intros j u F0 l0 Hj Pa Fz I0. look Hj; simpl in *; eauto.
      + intros c tc p Hcn Pa. look Hcn; simpl in *.
        * destruct (F _ _ _ Hi Pa) as [tp [Hp [Pp Q]]].
          destruct (Nat.eq_dec p i) as [->|Np].
          -- rewrite Hi in Hp. inversion Hp; subst tp. congruence.
          -- exists tp. rewrite nth_upd_neq by auto. repeat split; auto.
             intros Nk. apply Q. rewrite Hc. discriminate.
        * destruct (F _ _ _ E0 Pa) as [tp [Hp [Pp Q]]].
          destruct (Nat.eq_dec p i) as [->|Np].
          -- rewrite Hi in Hp. inversion Hp; subst tp.
             eexists. split; [eapply nth_upd_eq; eauto|]. simpl. auto.
          -- exists tp. rewrite nth_upd_neq by auto. auto.
      + intros j u Hj. look Hj; [|eauto]. unfold root; simpl.
        pose proof (V _ _ Hi) as Vi. rewrite Hc in Vi. apply pv_tail in Vi. exact Vi.
    - (* spawn *)
      pose proof (C _ _ Hi) as Ci. rewrite Hc in Ci. simpl in Ci.
      apply andb_true_iff in Ci as [Ci Ck]. apply andb_true_iff in Ci as [Ci Calts].
      apply andb_true_iff in Ci as [Cch Ceq]. apply negb_true_iff in Cch.
      assert (Pt : parent t = None).
      { unfold is_child in Cch. destruct (parent t); [discriminate|auto]. }
      rewrite forallb_forall in Calts. specialize (Calts _ Hin).
      set (t' := mkT k (held t) (ann t)
                     (Some (match frozen t with Some F0 => F0 | None => locks (held t) end)) (parent t)).
      set (ch := mkT (map EB body) [] None (Some (locks (held t))) (Some i)).
      assert (Lk : forall j u, nth_error (upd s i t' ++ [ch]) j = Some u ->
                   (j = i /\ u = t') \/ (j <> i /\ j < length s /\ nth_error s j = Some u) \/ (j = length s /\ u = ch)).
      { intros j u Hj. apply nth_snoc_inv in Hj as [[Lj Hj]|[Lj Hj]].
        - rewrite length_upd in Lj. apply nth_upd_inv in Hj as [[-> [-> _]]|[Nj Hj]]; auto.
        - rewrite length_upd in Lj. auto. }
      assert (Li : i < length s) by (eapply nth_lt; eauto).
      assert (Nth_i : nth_error (upd s i t' ++ [ch]) i = Some t').
      { rewrite nth_error_app1 by (rewrite length_upd; auto). eapply nth_upd_eq; eauto. }
      assert (Nth_o : forall j, j <> i -> j < length s -> nth_error (upd s i t' ++ [ch]) j = nth_error s j).
      { intros j Nj Lj. rewrite nth_error_app1 by (rewrite length_upd; auto). apply nth_upd_neq; auto. }
      split.
      + intros j u Hj. apply Lk in Hj as [[-> ->]|[[Nj [Lj Hj]]|[-> ->]]].
        * unfold is_child; simpl. unfold is_child in Ck. exact Ck.
        * eauto.
        * unfold is_child; simpl. rewrite wl_child_map. exact Calts.
      + intros a b ta tb l0 m0 Ha' Hb' I1 I2.
        apply Lk in Ha' as [[-> ->]|[[Na [La Ha']]|[-> ->]]];
          apply Lk in Hb' as [[-> ->]|[[Nb [Lb Hb']]|[-> ->]]]; simpl in *; eauto; contradiction.
      + intros j u F0 l0 Hj Pa Fz I0.
        apply Lk in Hj as [[-> ->]|[[Nj [Lj Hj]]|[-> ->]]]; simpl in *; eauto; [|discriminate].
        inversion Fz; subst F0. destruct (frozen t) as [F1|] eqn:Fr.
        * eapply P; eauto.
        * unfold Conc.locks in I0. apply in_map_iff in I0 as [[l1 m1] [Eq I0]]. simpl in Eq; subst. eauto.
      + intros c tc p Hcn Pa.
        apply Lk in Hcn as [[-> ->]|[[Nj [Lj Hcn]]|[-> ->]]]; simpl in *.
        * congruence.
        * destruct (F _ _ _ Hcn Pa) as [tp [Hp [Pp Q]]].
          destruct (Nat.eq_dec p i) as [->|Np].
          -- rewrite Hi in Hp. inversion Hp; subst tp.
             exists t'. split; auto. split; auto. intros Nk. destruct (Q Nk) as [F0 [Fz Inc]].
             exists F0. simpl. rewrite Fz. auto.
          -- exists tp. rewrite Nth_o; auto. eapply nth_lt; eauto.
        * inversion Pa; subst p. exists t'. split; auto. split; auto. intros _.
          simpl. eexists. split; [reflexivity|].
          destruct (frozen t) as [F1|] eqn:Fr.
          -- apply list_eqb_spec in Ceq. rewrite Ceq. apply incl_refl.
          -- apply incl_refl.
      + intros j u Hj. apply Lk in Hj as [[-> ->]|[[Nj [Lj Hj]]|[-> ->]]]; eauto.
        * unfold root; simpl. pose proof (V _ _ Hi) as Vi. rewrite Hc in Vi. apply pv_tail in Vi. exact Vi.
        * unfold root; simpl. pose proof (V _ _ Hi) as Vi. rewrite Hc in Vi. unfold root in Vi. rewrite Pt in Vi.
          unfold Conc.pv in Vi. simpl in Vi. apply andb_true_iff in Vi as [Vi _].
          rewrite forallb_forall in Vi. specialize (Vi _ Hin).
          unfold Conc.pv. rewrite forallb_forall. intros e Ie. apply in_map_iff in Ie as [a [<- Ia]].
          simpl. rewrite forallb_forall in Vi. auto.
    - (* wait *)
      pose proof (C _ _ Hi) as Ci. rewrite Hc in Ci. simpl in Ci.
      apply andb_true_iff in Ci as [Cch Ck]. apply negb_true_iff in Cch.
      split.
      + intros j u Hj. look Hj; simpl; [|eauto]. exact Ck.
      + intros a b ta tb l0 m0 Ha' Hb' I1 I2.
        look Ha'; look Hb'; simpl in *; eauto.
      + intros j u F0 l0 Hj Pa Fz I0. look Hj; simpl in *; eauto. discriminate.
      + intros c tc p Hcn Pa. look Hcn; simpl in *.
        * unfold is_child in Cch. rewrite Pa in Cch. discriminate.
        * destruct (F _ _ _ E0 Pa) as [tp [Hp [Pp Q]]].
          destruct (Nat.eq_dec p i) as [->|Np].
          -- rewrite Hi in Hp. inversion Hp; subst tp.
             eexists. split; [eapply nth_upd_eq; eauto|]. simpl. split; auto.
             intros Nk. exfalso. apply Nk. eapply Hdone; eauto.
          -- exists tp. rewrite nth_upd_neq by auto. auto.
      + intros j u Hj. look Hj; [|eauto]. unfold root; simpl.
        pose proof (V _ _ Hi) as Vi. rewrite Hc in Vi. apply pv_tail in Vi. exact Vi.
  Qed.

  Lemma inv_wl_reach progs s :
    (forall i p, nth_error progs i = Some p -> wl false [] None p = true /\ pv i p = true) ->
    reach (init progs) s -> inv_wl s.
  Proof.
    intros H Rch. induction Rch as [|s i l s' _ IH St].
    - now apply inv_wl_init.
    - eapply inv_wl_step; eauto.
  Qed.


  (* ----------------------------------------------------------------------------------- *)
  (** * Data-race freedom and serialisation *)

  Definition good (progs : list (list ev)) : Prop :=
    forall i p, nth_error progs i = Some p -> wl false [] None p = true /\ pv i p = true.

  Lemma rd_cases s i t x k : inv_wl s -> nth_error s i = Some t -> code t = EB (ARd x) :: k ->
    ro x = true \/ (exists m, In (guard x, m) (held t)) \/ In (guard x) (froz (frozen t))
    \/ (priv x = true /\ parent t = None /\ frozen t = None).
  Proof.
    intros I Hi Hc. pose proof (iC _ I _ _ Hi) as Ci. rewrite Hc in Ci. simpl in Ci.
    apply andb_true_iff in Ci as [Ci _]. repeat (apply orb_true_iff in Ci as [Ci|Ci]).
    - auto.
    - right; left. now apply has_spec.
    - right; right; left. now apply infroz_spec.
    - right; right; right. unfold Conc.alone in Ci.
      apply andb_true_iff in Ci as [Ci C3]. apply andb_true_iff in Ci as [C1 C2].
      apply negb_true_iff in C2. apply is_none_spec in C3. unfold is_child in C2.
      destruct (parent t); [discriminate|auto].
  Qed.

  Lemma wr_cases s i t x k : inv_wl s -> nth_error s i = Some t -> code t = EB (AWr x) :: k ->
    ro x = false /\ ((In (guard x, W) (held t) /\ ~ In (guard x) (froz (frozen t)))
                     \/ (priv x = true /\ parent t = None /\ frozen t = None)).
  Proof.
    intros I Hi Hc. pose proof (iC _ I _ _ Hi) as Ci. rewrite Hc in Ci. simpl in Ci.
    apply andb_true_iff in Ci as [Ci _]. apply andb_true_iff in Ci as [C0 Ci].
    apply negb_true_iff in C0. split; auto.
    apply orb_true_iff in Ci as [Ci|Ci].
    - left. apply andb_true_iff in Ci as [C1 C2]. apply hasW_spec in C1. apply negb_true_iff in C2.
      split; auto. intros X. apply infroz_spec in X. congruence.
    - right. unfold Conc.alone in Ci.
      apply andb_true_iff in Ci as [Ci C3]. apply andb_true_iff in Ci as [C1 C2].
      apply negb_true_iff in C2. apply is_none_spec in C3. unfold is_child in C2.
      destruct (parent t); [discriminate|auto].
  Qed.

  (* a lock a goroutine relies on through its family is really held: by itself or by its parent *)
  Lemma family_holds s j tj g : inv_wl s -> nth_error s j = Some tj -> In g (froz (frozen tj)) -> code tj <> [] ->
    exists p tp m, nth_error s p = Some tp /\ In (g, m) (held tp) /\
                   (p = j \/ (parent tj = Some p /\ In g (froz (frozen tp)))).
  Proof.
    intros I Hj Ig Nk. destruct (parent tj) as [p|] eqn:Pa.
    - destruct (iF _ I _ _ _ Hj Pa) as [tp [Hp [Pp Q]]]. destruct (Q Nk) as [F0 [Fz Inc]].
      assert (Ig' : In g F0) by (apply Inc; auto).
      destruct (iP _ I _ _ _ _ Hp Pp Fz Ig') as [m Im].
      exists p, tp, m. repeat split; auto. right. split; auto. rewrite Fz. exact Ig'.
    - destruct (frozen tj) as [F0|] eqn:Fz; [|simpl in Ig; contradiction].
      destruct (iP _ I _ _ _ _ Hj Pa Fz Ig) as [m Im]. exists j, tj, m. auto.
  Qed.

  Definition acc_of (a : act) (x : loc) : Prop := a = ARd x \/ a = AWr x.

  (* a top-level goroutine without live children is the only one that can touch its private locations *)
  Lemma alone_excl s i j ti tj x a b ki kj : inv_wl s -> i <> j ->
    nth_error s i = Some ti -> nth_error s j = Some tj ->
    parent ti = None -> frozen ti = None -> priv x = true ->
    code ti = EB a :: ki -> acc_of a x -> code tj = EB b :: kj -> acc_of b x -> False.
  Proof.
    intros I N Hi Hj Pa Fz Px Hci Ha Hcj Hb.
    pose proof (iV _ I _ _ Hi) as Vi. pose proof (iV _ I _ _ Hj) as Vj.
    rewrite Hci in Vi. rewrite Hcj in Vj. unfold Conc.pv in Vi, Vj. simpl in Vi, Vj.
    apply andb_true_iff in Vi as [Vi _]. apply andb_true_iff in Vj as [Vj _].
    assert (Oi : owner x = root i ti).
    { destruct Ha as [->| ->]; simpl in Vi; rewrite Px in Vi; simpl in Vi; now apply Nat.eqb_eq in Vi. }
    assert (Oj : owner x = root j tj).
    { destruct Hb as [->| ->]; simpl in Vj; rewrite Px in Vj; simpl in Vj; now apply Nat.eqb_eq in Vj. }
    unfold root in Oi, Oj. rewrite Pa in Oi. destruct (parent tj) as [p|] eqn:Pj; [|congruence].
    assert (Epi : p = i) by congruence. clear Oi Oj. subst p.
    destruct (iF _ I _ _ _ Hj Pj) as [tp [Hp [_ Q]]]. rewrite Hi in Hp. inversion Hp; subst tp.
    destruct Q as [F0 [Fz' _]]; [rewrite Hcj; discriminate|congruence].
  Qed.

  Theorem drf_inv s i j ti tj x ki kj : inv_wl s -> i <> j ->
    nth_error s i = Some ti -> nth_error s j = Some tj ->
    code ti = EB (AWr x) :: ki ->
    (code tj = EB (AWr x) :: kj \/ code tj = EB (ARd x) :: kj) -> False.
  Proof.
    intros I N Hi Hj Hci Hcj.
    destruct (wr_cases _ _ _ _ _ I Hi Hci) as [Ro [[Wi NF]|[Px [Pa Fz]]]].
    - destruct Hcj as [Hcj|Hcj].
      + destruct (wr_cases _ _ _ _ _ I Hj Hcj) as [_ [[Wj _]|[Px [Pa Fz]]]].
        * destruct (iE _ I _ _ _ _ _ _ Hi Hj Wi Wj); auto.
        * eapply (alone_excl s j i tj ti x); eauto; unfold acc_of; auto.
      + destruct (rd_cases _ _ _ _ _ I Hj Hcj) as [Ro'|[[m Hm]|[Fr|[Px [Pa Fz]]]]].
        * congruence.
        * destruct (iE _ I _ _ _ _ _ _ Hi Hj Wi Hm); auto.
        * destruct (family_holds _ _ _ _ I Hj Fr) as [p [tp [m [Hp [Hm Q]]]]]; [rewrite Hcj; discriminate|].
          destruct (iE _ I _ _ _ _ _ _ Hi Hp Wi Hm) as [<- _].
          destruct Q as [->|[_ Q]]; [auto|]. rewrite Hi in Hp. inversion Hp; subst tp. auto.
        * eapply (alone_excl s j i tj ti x); eauto; unfold acc_of; auto.
    - destruct Hcj as [Hcj|Hcj]; eapply (alone_excl s i j ti tj x); eauto; unfold acc_of; auto.
  Qed.

  (** drf: in no reachable state of a well_locked program are a write and another access to the
      same location, by different goroutines, both the next event (accesses are always enabled). *)
  Theorem drf progs s : good progs -> reach (init progs) s ->
    forall i j ti tj x ki kj, i <> j ->
      nth_error s i = Some ti -> nth_error s j = Some tj ->
      code ti = EB (AWr x) :: ki ->
      (code tj = EB (AWr x) :: kj \/ code tj = EB (ARd x) :: kj) -> False.
  Proof. intros G Rch. intros. eapply drf_inv; eauto. eapply inv_wl_reach; eauto. Qed.

  (** serialised, writer side: while goroutine i holds lock g in W mode, every other goroutine
      about to access a (shared, mutable) location guarded by g is a child spawned by i. *)
  Theorem serialised_W progs s : good progs -> reach (init progs) s ->
    forall i j ti tj g a x k, i <> j ->
      nth_error s i = Some ti -> nth_error s j = Some tj ->
      In (g, W) (held ti) -> code tj = EB a :: k -> acc_of a x ->
      guard x = g -> ro x = false -> priv x = false -> parent tj = Some i.
  Proof.
    intros G Rch i j ti tj g a x k N Hi Hj Wi Hc Ha Hg Ro Px.
    assert (I : inv_wl s) by (eapply inv_wl_reach; eauto). subst g.
    destruct Ha as [->| ->].
    - destruct (rd_cases _ _ _ _ _ I Hj Hc) as [Ro'|[[m Hm]|[Fr|[Px' _]]]]; try congruence.
      + destruct (iE _ I _ _ _ _ _ _ Hi Hj Wi Hm); contradiction.
      + destruct (family_holds _ _ _ _ I Hj Fr) as [p [tp [m [Hp [Hm Q]]]]]; [rewrite Hc; discriminate|].
        destruct (iE _ I _ _ _ _ _ _ Hi Hp Wi Hm) as [<- _].
        destruct Q as [->|[Q _]]; [contradiction|auto].
    - destruct (wr_cases _ _ _ _ _ I Hj Hc) as [_ [[Wj _]|[Px' _]]]; try congruence.
      destruct (iE _ I _ _ _ _ _ _ Hi Hj Wi Wj); contradiction.
  Qed.

  (** serialised, reader side: while some goroutine holds g in R mode, no goroutine is about to
      write a location guarded by g (critical sections under R only read). *)
  Theorem serialised_R progs s : good progs -> reach (init progs) s ->
    forall i j ti tj g x k,
      nth_error s i = Some ti -> nth_error s j = Some tj ->
      In (g, R) (held ti) -> code tj = EB (AWr x) :: k -> guard x = g -> priv x = false -> False.
  Proof.
    intros G Rch i j ti tj g x k Hi Hj Ri Hc Hg Px.
    assert (I : inv_wl s) by (eapply inv_wl_reach; eauto). subst g.
    destruct (wr_cases _ _ _ _ _ I Hj Hc) as [_ [[Wj _]|[Px' _]]]; try congruence.
    destruct (iE _ I _ _ _ _ _ _ Hj Hi Wj Ri) as [_ X]. discriminate.
  Qed.

  (** mutual exclusion itself: a lock held in W mode is held by nobody else, in any mode *)
  Theorem exclusion progs s : good progs -> reach (init progs) s ->
    forall i j ti tj l m, nth_error s i = Some ti -> nth_error s j = Some tj ->
      In (l, W) (held ti) -> In (l, m) (held tj) -> i = j /\ m = W.
  Proof. intros G Rch. intros. eapply iE; eauto. eapply inv_wl_reach; eauto. Qed.


  (* ----------------------------------------------------------------------------------- *)
  (** * Deadlock freedom *)

  Record inv_nn (s : state) : Prop := {
    nC : forall i t, nth_error s i = Some t -> nn (is_child t) (held t) (code t) = true;
    nA : forall i t l, nth_error s i = Some t -> ann t = Some l -> exists k, code t = EB (AAcq l W) :: k
  }.

  Lemma inv_nn_init progs :
    (forall p, In p progs -> nn false [] p = true) -> inv_nn (init progs).
  Proof.
    intros H. unfold Conc.init.
    assert (L : forall i t, nth_error (map (fun p => mkT p [] None None None) progs) i = Some t ->
                exists p, In p progs /\ t = mkT p [] None None None).
    { intros i t E. rewrite nth_error_map in E. destruct (nth_error progs i) eqn:E'; inversion E.
      apply nth_error_In in E'. eauto. }
    split.
    - intros i t E. apply L in E as [p [E ->]]. simpl. auto.
    - intros i t l E A. apply L in E as [p [_ ->]]. discriminate.
  Qed.

  Lemma inv_nn_step s i l s' : inv_nn s -> step s i l s' -> inv_nn s'.
  Proof.
    intros [C A] St.
    destruct St as [i t l k Hi Hc Ha Hfree
                   |i t l k Hi Hc Ha Hfree
                   |i t l k Hi Hc Hfree
                   |i t l m k Hi Hc Hin
                   |i t a k Hi Hc Hacc
                   |i t alts body k Hi Hc Hin
                   |i t k Hi Hc Hdone];
      pose proof (C _ _ Hi) as Ci; rewrite Hc in Ci; simpl in Ci.
    - split.
      + intros j u Hj. look Hj; [|eauto]. unfold is_child; simpl. rewrite Hc. exact Ci.
      + intros j u l0 Hj Au. look Hj; [|eauto]. simpl in *. inversion Au; subst. eauto.
    - apply andb_true_iff in Ci as [_ Ci]. split.
      + intros j u Hj. look Hj; [|eauto]. exact Ci.
      + intros j u l0 Hj Au. look Hj; [|eauto]. simpl in Au. discriminate.
    - apply andb_true_iff in Ci as [_ Ci]. split.
      + intros j u Hj. look Hj; [|eauto]. exact Ci.
      + intros j u l0 Hj Au. look Hj; [|eauto]. simpl in Au.
        destruct (A _ _ _ Hi Au) as [k' Hk]. congruence.
    - apply andb_true_iff in Ci as [_ Ci]. split.
      + intros j u Hj. look Hj; [|eauto]. exact Ci.
      + intros j u l0 Hj Au. look Hj; [|eauto]. simpl in Au.
        destruct (A _ _ _ Hi Au) as [k' Hk]. congruence.
    - split.
      + intros j u Hj. look Hj; [|eauto]. simpl. destruct a; simpl in Hacc; try discriminate; exact Ci.
      + intros j u l0 Hj Au. look Hj; [|eauto]. simpl in Au.
        destruct (A _ _ _ Hi Au) as [k' Hk]. rewrite Hk in Hc. inversion Hc; subst. discriminate.
    - apply andb_true_iff in Ci as [Ci Ck]. apply andb_true_iff in Ci as [_ Calts].
      rewrite forallb_forall in Calts. specialize (Calts _ Hin).
      split.
      + intros j u Hj. apply nth_snoc_inv in Hj as [[Lj Hj]|[Lj ->]].
        * look Hj; [|eauto]. exact Ck.
        * unfold is_child; simpl. rewrite nn_child_map. exact Calts.
      + intros j u l0 Hj Au. apply nth_snoc_inv in Hj as [[Lj Hj]|[Lj ->]].
        * look Hj; [|eauto]. simpl in Au. destruct (A _ _ _ Hi Au) as [k' Hk]. congruence.
        * discriminate.
    - apply andb_true_iff in Ci as [_ Ck]. split.
      + intros j u Hj. look Hj; [|eauto]. exact Ck.
      + intros j u l0 Hj Au. look Hj; [|eauto]. simpl in Au.
        destruct (A _ _ _ Hi Au) as [k' Hk]. congruence.
  Qed.

  Lemma inv_nn_reach progs s :
    (forall p, In p progs -> nn false [] p = true) -> reach (init progs) s -> inv_nn s.
  Proof.
    intros H Rch. induction Rch as [|s i l s' _ IH St].
    - now apply inv_nn_init.
    - eapply inv_nn_step; eauto.
  Qed.

  Definition can_step (s : state) : Prop := exists i l s', step s i l s'.

  Lemma find_dec (P : thread -> bool) (s : state) :
    (exists i t, nth_error s i = Some t /\ P t = true) \/ (forall i t, nth_error s i = Some t -> P t = false).
  Proof.
    induction s as [|x r IH].
    - right. intros [|i] t H; discriminate.
    - destruct (P x) eqn:Px.
      + left. exists 0, x. auto.
      + destruct IH as [[i [t [H1 H2]]]|IH].
        * left. exists (S i), t. auto.
        * right. intros [|i] t H; simpl in H; [inversion H; subst; auto|eauto].
  Qed.

  Lemma has_leaf_spec h : has_leaf lock leaf h = true <-> exists l m, In (l, m) h /\ leaf l = true.
  Proof.
    unfold Conc.has_leaf. rewrite existsb_exists. split.
    - intros [[l m] [I E]]. eauto.
    - intros [l [m [I E]]]. exists (l, m). auto.
  Qed.

  (* heads that never block *)
  Lemma progress_easy s i t e k : inv_nn s -> nth_error s i = Some t -> code t = e :: k ->
    match e with EB (AAcq _ _) => False | EWait => False | _ => True end -> can_step s.
  Proof.
    intros I Hi Hc He. pose proof (nC _ I _ _ Hi) as Ci. rewrite Hc in Ci. simpl in Ci.
    destruct e as [a|alts|]; [destruct a as [l m|l m|x|x|]|..]; try contradiction.
    - apply andb_true_iff in Ci as [Ci _]. apply memh_spec in Ci.
      do 3 eexists. eapply st_rel; eauto.
    - do 3 eexists. eapply st_acc; eauto.
    - do 3 eexists. eapply st_acc; eauto.
    - do 3 eexists. eapply st_acc; eauto.
    - apply andb_true_iff in Ci as [Ci _]. apply andb_true_iff in Ci as [Ci _].
      apply andb_true_iff in Ci as [_ Ci]. destruct alts as [|body r]; [discriminate|].
      do 3 eexists. eapply st_spawn with (body := body); eauto. now left.
  Qed.

  Theorem deadlock_free_inv s : inv_nn s ->
    (exists i t, nth_error s i = Some t /\ code t <> []) -> can_step s.
  Proof.
    intros I [i0 [t0 [Hi0 Hn0]]].
    (* 1. a goroutine holding a leaf lock can always move *)
    destruct (find_dec (fun t => has_leaf lock leaf (held t)) s) as [[i [t [Hi Ht]]]|F1].
    { pose proof (nC _ I _ _ Hi) as Ci. destruct (code t) as [|e k] eqn:Hc.
      - simpl in Ci. apply is_nil_spec in Ci. rewrite Ci in Ht. discriminate.
      - destruct e as [a|alts|]; [destruct a as [l m|l m|x|x|]|..];
          try (eapply progress_easy; eauto; exact Logic.I); simpl in Ci; exfalso.
        + destruct (leaf l).
          * rewrite Ht in Ci. discriminate.
          * destruct (held t); [discriminate|]. rewrite andb_false_r in Ci. discriminate.
        + rewrite Ht in Ci. rewrite andb_false_r in Ci. discriminate. }
    assert (NoLeafHeld : forall j u l m, nth_error s j = Some u -> In (l, m) (held u) -> leaf l = false).
    { intros j u l m Hj Hin. destruct (leaf l) eqn:Ll; auto.
      assert (X : has_leaf lock leaf (held u) = true) by (apply has_leaf_spec; eauto).
      rewrite (F1 _ _ Hj) in X. discriminate. }
    (* 2. a writer announced on a leaf lock can take it *)
    destruct (find_dec (fun t => match ann t with Some l => leaf l | None => false end) s) as [[i [t [Hi Ht]]]|F2].
    { destruct (ann t) as [l|] eqn:At; [|discriminate].
      destruct (nA _ I _ _ _ Hi At) as [k Hc].
      do 3 eexists. eapply st_acqW; eauto. intros j u Hj m Hin.
      rewrite (NoLeafHeld _ _ _ _ Hj Hin) in Ht. discriminate. }
    assert (NoLeafAnn : forall j u l, nth_error s j = Some u -> ann u = Some l -> leaf l = false).
    { intros j u l Hj Au. specialize (F2 _ _ Hj). rewrite Au in F2. exact F2. }
    (* 3. so every leaf lock is free: acquiring one is possible *)
    destruct (find_dec (fun t => match code t with EB (AAcq l _) :: _ => leaf l | _ => false end) s)
      as [[i [t [Hi Ht]]]|F3].
    { destruct (code t) as [|[[l m|? ?|?|?|]|?|] k] eqn:Hc; try discriminate.
      assert (Free : forall j u, nth_error s j = Some u -> ann u <> Some l /\ ~ In (l, W) (held u)).
      { intros j u Hj. split.
        - intros Au. rewrite (NoLeafAnn _ _ _ Hj Au) in Ht. discriminate.
        - intros Hin. rewrite (NoLeafHeld _ _ _ _ Hj Hin) in Ht. discriminate. }
      destruct m.
      - do 3 eexists. eapply st_acqR; eauto.
      - destruct (ann t) as [l'|] eqn:At.
        + destruct (nA _ I _ _ _ Hi At) as [k' Hk]. rewrite Hk in Hc. inversion Hc; subst l'.
          rewrite (NoLeafAnn _ _ _ Hi At) in Ht. discriminate.
        + do 3 eexists. eapply st_ann; eauto. }
    assert (NoLeafAcq : forall j u l m k, nth_error s j = Some u -> code u = EB (AAcq l m) :: k -> leaf l = false).
    { intros j u l m k Hj Hc. specialize (F3 _ _ Hj). rewrite Hc in F3. exact F3. }
    (* 4. spawned goroutines only take leaf locks: each unfinished one can move *)
    destruct (find_dec (fun t => is_child t && negb (is_nil (code t))) s) as [[i [t [Hi Ht]]]|F4].
    { apply andb_true_iff in Ht as [Hch Hne]. pose proof (nC _ I _ _ Hi) as Ci. rewrite Hch in Ci.
      destruct (code t) as [|e k] eqn:Hc; [discriminate|].
      destruct e as [a|alts|]; [destruct a as [l m|l m|x|x|]|..];
        try (eapply progress_easy; eauto; exact Logic.I); simpl in Ci; exfalso.
      - rewrite (NoLeafAcq _ _ _ _ _ Hi Hc) in Ci. discriminate.
      - discriminate. }
    assert (ChildDone : forall j u p, nth_error s j = Some u -> parent u = Some p -> code u = []).
    { intros j u p Hj Pu. specialize (F4 _ _ Hj). unfold is_child in F4. rewrite Pu in F4. simpl in F4.
      apply negb_false_iff in F4. now apply is_nil_spec. }
    (* 5. hence every wait can proceed *)
    destruct (find_dec (fun t => match code t with EWait :: _ => true | _ => false end) s) as [[i [t [Hi Ht]]]|F5].
    { destruct (code t) as [|[?|?|] k] eqn:Hc; try discriminate.
      do 3 eexists. eapply st_wait; eauto. }
    assert (NoWait : forall j u k, nth_error s j = Some u -> code u = EWait :: k -> False).
    { intros j u k Hj Hc. specialize (F5 _ _ Hj). rewrite Hc in F5. discriminate. }
    (* 6. a goroutine that holds a lock does not try to take another one *)
    destruct (find_dec (fun t => negb (is_nil (held t))) s) as [[i [t [Hi Ht]]]|F6].
    { pose proof (nC _ I _ _ Hi) as Ci. destruct (code t) as [|e k] eqn:Hc.
      - simpl in Ci. rewrite Ci in Ht. discriminate.
      - destruct e as [a|alts|]; [destruct a as [l m|l m|x|x|]|..];
          try (eapply progress_easy; eauto; exact Logic.I); simpl in Ci; exfalso.
        + rewrite (NoLeafAcq _ _ _ _ _ Hi Hc) in Ci. apply negb_true_iff in Ht. rewrite Ht in Ci.
          rewrite andb_false_r in Ci. discriminate.
        + eapply NoWait; eauto. }
    assert (NoHeld : forall j u, nth_error s j = Some u -> held u = []).
    { intros j u Hj. specialize (F6 _ _ Hj). apply negb_false_iff in F6. now apply is_nil_spec. }
    (* 7. nobody holds anything: an announced writer gets the lock *)
    destruct (find_dec (fun t => negb (is_none (ann t))) s) as [[i [t [Hi Ht]]]|F7].
    { destruct (ann t) as [l|] eqn:At; [|discriminate].
      destruct (nA _ I _ _ _ Hi At) as [k Hc].
      do 3 eexists. eapply st_acqW; eauto. intros j u Hj m Hin. rewrite (NoHeld _ _ Hj) in Hin. contradiction. }
    assert (NoAnn : forall j u, nth_error s j = Some u -> ann u = None).
    { intros j u Hj. specialize (F7 _ _ Hj). apply negb_false_iff in F7. now apply is_none_spec. }
    (* 8. and nobody has announced: the first event of the unfinished goroutine is enabled *)
    destruct (code t0) as [|e k] eqn:Hc; [congruence|].
    destruct e as [a|alts|]; [destruct a as [l m|l m|x|x|]|..];
      try (eapply progress_easy; eauto; exact Logic.I).
    - assert (Free : forall j u, nth_error s j = Some u -> ann u <> Some l /\ ~ In (l, W) (held u)).
      { intros j u Hj. rewrite (NoAnn _ _ Hj), (NoHeld _ _ Hj). split; [discriminate|auto]. }
      destruct m.
      + do 3 eexists. eapply st_acqR; eauto.
      + do 3 eexists. eapply st_ann; eauto.
    - exfalso. eapply NoWait; eauto.
  Qed.

  (** deadlock_free: a program in which no goroutine acquires a (non-leaf) lock while holding a
      lock never reaches a state where some goroutine is unfinished and nothing can move. *)
  Theorem deadlock_free progs s :
    (forall p, In p progs -> nn false [] p = true) -> reach (init progs) s ->
    (exists i t, nth_error s i = Some t /\ code t <> []) -> can_step s.
  Proof. intros H Rch. apply deadlock_free_inv. eapply inv_nn_reach; eauto. Qed.

End Gen.

(* ------------------------------------------------------------------------------------- *)
(** * The checkers are invariant under injective renaming of locks and compatible renaming of
      locations (relative names self/other/local -> concrete instances) *)
Lemma forallb_map' {A B} (f : A -> B) (p : B -> bool) l : forallb p (map f l) = forallb (fun a => p (f a)) l.
Proof. induction l as [|a l IH]; simpl; auto. now rewrite IH. Qed.

Lemma forallb_ext' {A} (p q : A -> bool) l : (forall a, p a = q a) -> forallb p l = forallb q l.
Proof. intros H. induction l as [|a l IH]; simpl; auto. now rewrite H, IH. Qed.

Section RenameFacts.
  Variables lock1 loc1 lock2 loc2 : Type.
  Variable eqb1 : lock1 -> lock1 -> bool.
  Variable eqb2 : lock2 -> lock2 -> bool.
  Variable fl : lock1 -> lock2.
  Variable fx : loc1 -> loc2.
  Hypothesis fl_inj : forall a b, eqb2 (fl a) (fl b) = eqb1 a b.
  Variable guard1 : loc1 -> lock1.
  Variable guard2 : loc2 -> lock2.
  Hypothesis guard_ok : forall x, guard2 (fx x) = fl (guard1 x).
  Variables (ro1 priv1 : loc1 -> bool) (ro2 priv2 : loc2 -> bool).
  Hypothesis ro_ok : forall x, ro2 (fx x) = ro1 x.
  Hypothesis priv_ok : forall x, priv2 (fx x) = priv1 x.
  Variable leaf1 : lock1 -> bool.
  Variable leaf2 : lock2 -> bool.
  Hypothesis leaf_ok : forall l, leaf2 (fl l) = leaf1 l.

  Definition mh (h : list (lock1 * mode)) : list (lock2 * mode) := map (fun p => (fl (fst p), snd p)) h.
  Definition mF (F : option (list lock1)) : option (list lock2) := option_map (map fl) F.

  Notation ra := (ren_act lock1 loc1 lock2 loc2 fl fx).
  Notation rc := (ren_code lock1 loc1 lock2 loc2 fl fx).

  Lemma ren_has l h : has lock2 eqb2 (fl l) (mh h) = has lock1 eqb1 l h.
  Proof. unfold has, mh. induction h as [|[l' m] r IH]; simpl; auto. now rewrite fl_inj, IH. Qed.

  Lemma ren_hasW l h : hasW lock2 eqb2 (fl l) (mh h) = hasW lock1 eqb1 l h.
  Proof. unfold hasW, mh. induction h as [|[l' m] r IH]; simpl; auto. now rewrite fl_inj, IH. Qed.

  Lemma ren_memh l m h : memh lock2 eqb2 (fl l, m) (mh h) = memh lock1 eqb1 (l, m) h.
  Proof.
    unfold memh, mh. induction h as [|[l' m'] r IH]; simpl; auto. rewrite IH. f_equal.
    unfold hm_eqb; simpl. now rewrite fl_inj.
  Qed.

  Lemma ren_infroz l F : infroz lock2 eqb2 (fl l) (mF F) = infroz lock1 eqb1 l F.
  Proof.
    unfold infroz. destruct F as [F|]; simpl; auto.
    induction F as [|l' r IH]; simpl; auto. now rewrite fl_inj, IH.
  Qed.

  Lemma ren_rm1 l m h : rm1 lock2 eqb2 (fl l, m) (mh h) = mh (rm1 lock1 eqb1 (l, m) h).
  Proof.
    unfold mh. induction h as [|[l' m'] r IH]; simpl; auto.
    unfold hm_eqb; simpl. rewrite fl_inj. destruct (eqb1 l l' && mode_eqb m m'); simpl; auto.
    now rewrite IH.
  Qed.

  Lemma ren_locks h : locks lock2 (mh h) = map fl (locks lock1 h).
  Proof. unfold locks, mh. rewrite !map_map. reflexivity. Qed.

  Lemma ren_list_eqb a b : list_eqb lock2 eqb2 (map fl a) (map fl b) = list_eqb lock1 eqb1 a b.
  Proof. revert b; induction a as [|x a IH]; intros [|y b]; simpl; auto. now rewrite fl_inj, IH. Qed.

  Lemma ren_is_nil h : is_nil (mh h) = is_nil h.
  Proof. destruct h; reflexivity. Qed.

  Lemma ren_is_none F : is_none (mF F) = is_none F.
  Proof. destruct F; reflexivity. Qed.

  Lemma ren_acc_ok c h F a :
    acc_ok lock2 loc2 eqb2 guard2 ro2 priv2 c (mh h) (mF F) (ra a) = acc_ok lock1 loc1 eqb1 guard1 ro1 priv1 c h F a.
  Proof.
    destruct a; simpl; auto; unfold alone;
      rewrite ?guard_ok, ?ro_ok, ?priv_ok, ?ren_has, ?ren_hasW, ?ren_infroz, ?ren_is_none; reflexivity.
  Qed.

  Lemma ren_wlb h F b :
    wlb lock2 loc2 eqb2 guard2 ro2 priv2 (mh h) (mF F) (map ra b) = wlb lock1 loc1 eqb1 guard1 ro1 priv1 h F b.
  Proof.
    revert h; induction b as [|a b IH]; intros h; simpl.
    - apply ren_is_nil.
    - destruct a; simpl.
      + change ((fl l, m) :: mh h) with (mh ((l, m) :: h)). apply IH.
      + rewrite ren_memh, ren_infroz, ren_rm1, IH. reflexivity.
      + rewrite <- IH. f_equal. apply (ren_acc_ok true h F (ARd x)).
      + rewrite <- IH. f_equal. apply (ren_acc_ok true h F (AWr x)).
      + apply IH.
  Qed.

  Lemma ren_wl c h F p :
    wl lock2 loc2 eqb2 guard2 ro2 priv2 c (mh h) (mF F) (rc p) = wl lock1 loc1 eqb1 guard1 ro1 priv1 c h F p.
  Proof.
    revert h F; induction p as [|e p IH]; intros h F; simpl.
    - now rewrite ren_is_nil, ren_is_none.
    - destruct e as [a|alts|]; simpl.
      + destruct a; simpl.
        * change ((fl l, m) :: mh h) with (mh ((l, m) :: h)). apply IH.
        * rewrite ren_memh, ren_infroz, ren_rm1, IH. reflexivity.
        * rewrite <- IH. f_equal. apply (ren_acc_ok c h F (ARd x)).
        * rewrite <- IH. f_equal. apply (ren_acc_ok c h F (AWr x)).
        * apply IH.
      + f_equal; [f_equal; [f_equal|]|].
        * destruct F as [F|]; simpl; auto. rewrite ren_locks. apply ren_list_eqb.
        * rewrite forallb_map'. apply forallb_ext'. intros body.
          rewrite ren_locks. change (Some (map fl (locks lock1 h))) with (mF (Some (locks lock1 h))).
          change (@nil (lock2 * mode)) with (mh []). apply ren_wlb.
        * destruct F as [F|]; simpl.
          -- apply (IH h (Some F)).
          -- rewrite ren_locks. apply (IH h (Some (locks lock1 h))).
      + f_equal. apply (IH h None).
  Qed.

  Lemma ren_has_leaf h : has_leaf lock2 leaf2 (mh h) = has_leaf lock1 leaf1 h.
  Proof. unfold has_leaf, mh. induction h as [|[l m] r IH]; simpl; auto. now rewrite leaf_ok, IH. Qed.

  Lemma ren_nnb h b : nnb lock2 loc2 eqb2 leaf2 (mh h) (map ra b) = nnb lock1 loc1 eqb1 leaf1 h b.
  Proof.
    revert h; induction b as [|a b IH]; intros h; simpl.
    - apply ren_is_nil.
    - destruct a; simpl; auto.
      + rewrite leaf_ok, ren_has_leaf. change ((fl l, m) :: mh h) with (mh ((l, m) :: h)). now rewrite IH.
      + now rewrite ren_memh, ren_rm1, IH.
  Qed.

  Lemma ren_nn c h p : nn lock2 loc2 eqb2 leaf2 c (mh h) (rc p) = nn lock1 loc1 eqb1 leaf1 c h p.
  Proof.
    revert h; induction p as [|e p IH]; intros h; simpl.
    - apply ren_is_nil.
    - destruct e as [a|alts|]; simpl.
      + destruct a; simpl; auto.
        * rewrite leaf_ok, ren_has_leaf, ren_is_nil.
          change ((fl l, m) :: mh h) with (mh ((l, m) :: h)). now rewrite IH.
        * now rewrite ren_memh, ren_rm1, IH.
      + rewrite ren_has_leaf, IH. f_equal. f_equal; [f_equal|].
        * destruct alts; reflexivity.
        * rewrite forallb_map'. apply forallb_ext'. intros body.
          change (@nil (lock2 * mode)) with (mh []). apply ren_nnb.
      + now rewrite ren_has_leaf, IH.
  Qed.
End RenameFacts.

(* ------------------------------------------------------------------------------------- *)
(** * Concrete instances *)

Lemma clock_eqb_spec a b : clock_eqb a b = true <-> a = b.
Proof.
  destruct a as [i|i], b as [j|j]; simpl; rewrite ?N.eqb_eq; split; intros H; try congruence; try discriminate.
Qed.

Lemma inst_lock_inj inv self other : self <> other ->
  forall a b, clock_eqb (inst_lock inv self other a) (inst_lock inv self other b) = rlock_eqb a b.
Proof.
  intros N a b. destruct a, b; simpl; auto; try apply N.eqb_refl.
  - now apply N.eqb_neq.
  - apply N.eqb_neq. congruence.
Qed.

Lemma inst_guard inv self other x : cguard (inst_loc inv self other x) = inst_lock inv self other (rguard x).
Proof. destruct x as [[|] f|[|] f|y]; reflexivity. Qed.

Lemma inst_ro rof inv self other x : cro rof (inst_loc inv self other x) = rro rof x.
Proof. destruct x as [[|] f|[|] f|y]; reflexivity. Qed.

Lemma inst_priv inv self other x : cpriv (inst_loc inv self other x) = rpriv x.
Proof. destruct x as [[|] f|[|] f|y]; reflexivity. Qed.

Lemma inst_leaf inv self other l : cleaf (inst_lock inv self other l) = rleaf l.
Proof. destruct l; reflexivity. Qed.

Lemma inst_pv k self other c :
  pv clock cloc cpriv cowner k (instantiate (N.of_nat k) self other c) = true.
Proof.
  assert (A : forall a, pv_act clock cloc cpriv cowner k
                 (ren_act _ _ _ _ (inst_lock (N.of_nat k) self other) (inst_loc (N.of_nat k) self other) a) = true).
  { intros [l m|l m|x|x|]; simpl; auto; destruct x as [[|] f|[|] f|y]; simpl; auto;
      rewrite Nat2N.id; apply Nat.eqb_refl. }
  unfold pv, instantiate, ren_code. rewrite forallb_map'. apply forallb_forall. intros e _.
  destruct e as [a|alts|]; simpl; auto.
  rewrite forallb_map'. apply forallb_forall. intros body _.
  rewrite forallb_map'. apply forallb_forall. intros a _. apply A.
Qed.

(* numbered invocations: the k-th top-level goroutine runs a program given in relative names on
   log [iv_self] with argument log [iv_other]; its local mutex and captured locals are number k *)
Record invocation := mkInv { iv_self : N; iv_other : N; iv_code : list (ev rlock rloc) }.

Fixpoint progs_from (k : nat) (ivs : list invocation) : list (list (ev clock cloc)) :=
  match ivs with
  | [] => []
  | iv :: r => instantiate (N.of_nat k) (iv_self iv) (iv_other iv) (iv_code iv) :: progs_from (S k) r
  end.
Definition progs_of := progs_from 0.

Lemma progs_from_nth k ivs i p : nth_error (progs_from k ivs) i = Some p ->
  exists iv, In iv ivs /\ p = instantiate (N.of_nat (k + i)) (iv_self iv) (iv_other iv) (iv_code iv).
Proof.
  revert k i; induction ivs as [|iv r IH]; intros k [|i] H; simpl in H; try discriminate.
  - inversion H. exists iv. rewrite Nat.add_0_r. split; [now left|reflexivity].
  - apply IH in H as [iv' [I E]]. exists iv'. split; [now right|]. now rewrite <- plus_n_Sm.
Qed.

Section Composed.
  Variable ro_fields : list String.string.
  Notation wl_c := (wl clock cloc clock_eqb cguard (cro ro_fields) cpriv).
  Notation nn_c := (nn clock cloc clock_eqb cleaf).
  Notation wl_rr := (wl rlock rloc rlock_eqb rguard (rro ro_fields) rpriv).
  Notation nn_rr := (nn rlock rloc rlock_eqb rleaf).

  Lemma wl_instantiate inv self other c : self <> other ->
    wl_c false [] None (instantiate inv self other c) = wl_rr false [] None c.
  Proof.
    intros N.
    apply (ren_wl rlock rloc clock cloc rlock_eqb clock_eqb (inst_lock inv self other) (inst_loc inv self other)
                  (inst_lock_inj inv self other N) rguard cguard (inst_guard inv self other)
                  (rro ro_fields) rpriv (cro ro_fields) cpriv (inst_ro ro_fields inv self other) (inst_priv inv self other)
                  false [] None c).
  Qed.

  Lemma nn_instantiate inv self other c : self <> other ->
    nn_c false [] (instantiate inv self other c) = nn_rr false [] c.
  Proof.
    intros N.
    apply (ren_nn rlock rloc clock cloc rlock_eqb clock_eqb (inst_lock inv self other) (inst_loc inv self other)
                  (inst_lock_inj inv self other N) rleaf cleaf (inst_leaf inv self other) false [] c).
  Qed.

  Definition iv_wl (iv : invocation) : Prop := iv_self iv <> iv_other iv /\ wl_rr false [] None (iv_code iv) = true.
  Definition iv_nn (iv : invocation) : Prop := iv_self iv <> iv_other iv /\ nn_rr false [] (iv_code iv) = true.

  Lemma good_progs ivs : (forall iv, In iv ivs -> iv_wl iv) ->
    good clock cloc clock_eqb cguard (cro ro_fields) cpriv cowner (progs_of ivs).
  Proof.
    intros H i p E. apply progs_from_nth in E as [iv [I ->]]. simpl.
    destruct (H _ I) as [N W]. split.
    - now rewrite wl_instantiate.
    - apply inst_pv.
  Qed.

  Lemma nn_progs ivs : (forall iv, In iv ivs -> iv_nn iv) ->
    forall p, In p (progs_of ivs) -> nn_c false [] p = true.
  Proof.
    intros H p I. apply In_nth_error in I as [i E]. apply progs_from_nth in E as [iv [I ->]].
    destruct (H _ I) as [N W]. now rewrite nn_instantiate.
  Qed.
End Composed.

(* generated tables: from the boolean fact over all paths to each expanded program *)
Lemma all_paths_In chk ops name ps p :
  all_paths chk ops = true -> In (name, ps) ops -> In p ps -> chk p = true.
Proof.
  unfold all_paths. rewrite forallb_forall. intros H I1 I2. specialize (H _ I1). simpl in H.
  rewrite forallb_forall in H. auto.
Qed.

(* ------------------------------------------------------------------------------------- *)
(** * Why the premises matter: concrete reachable deadlocks *)

Section Witness.
  Notation T := (thread nat nat).
  Notation stp := (step nat nat Nat.eqb).
  Notation rch := (reach nat nat Nat.eqb).

  (* (a) OrderedMap.UnsafeGet: RLock; (Get: RLock; RUnlock); RUnlock -- against one Set (Lock; Unlock)
         on the same map: the reader holds the lock, the writer announces itself, the reader's
         second RLock now waits behind the writer, which waits for the reader. *)
  Definition p_unsafeget : list (ev nat nat) :=
    [EB (AAcq 0 R); EB (AAcq 0 R); EB (ARd 0); EB (ARel 0 R); EB (ARel 0 R)].
  Definition p_set : list (ev nat nat) := [EB (AAcq 0 W); EB (AWr 0); EB (ARel 0 W)].

  Definition stuck_rr : state nat nat :=
    [ mkT (tl p_unsafeget) [(0, R)] None None None; mkT p_set [] (Some 0) None None ].

  Lemma step_to s i l s1 s' : stp s i l s1 -> s1 = s' -> stp s i l s'.
  Proof. intros H <-. exact H. Qed.

  Ltac side := intros [|[|j]] u H; simpl in H; inversion H; subst; simpl;
               try (destruct j; discriminate); try split; try discriminate; auto;
               try (intros m [X|X]; [inversion X|contradiction]);
               try (intros [X|X]; [inversion X|contradiction]).

  Definition T0 (c : list (ev nat nat)) : T := mkT c [] None None None.

  Lemma recursive_rlock_reachable : rch (init nat nat [p_unsafeget; p_set]) stuck_rr.
  Proof.
    pose (s1 := [mkT (tl p_unsafeget) [(0, R)] None None None; T0 p_set]).
    assert (R1 : rch (init nat nat [p_unsafeget; p_set]) s1).
    { eapply reach_step; [apply reach_refl|]. eapply step_to.
      - apply (st_acqR nat nat Nat.eqb _ 0 (T0 p_unsafeget) 0 (tl p_unsafeget)); try reflexivity. side.
      - reflexivity. }
    eapply reach_step; [exact R1|]. eapply step_to.
    - apply (st_ann nat nat Nat.eqb s1 1 (T0 p_set) 0 (tl p_set)); try reflexivity. side.
    - reflexivity.
  Qed.

  Lemma recursive_rlock_stuck : ~ can_step nat nat Nat.eqb stuck_rr.
  Proof.
    intros [i [l [s' St]]]. inversion St as [i0 t l0 k Hi Hc Ha Hf|i0 t l0 k Hi Hc Ha Hf|i0 t l0 k Hi Hc Hf
                                            |i0 t l0 m k Hi Hc Hin|i0 t a k Hi Hc Hacc|i0 t alts body k Hi Hc Hin|i0 t k Hi Hc Hd];
      subst; destruct i as [|[|i]]; simpl in Hi; inversion Hi; subst; simpl in *; try discriminate;
        try (destruct i; discriminate).
    - inversion Hc; subst. destruct (Hf 0 _ eq_refl R). now left.
    - inversion Hc; subst. destruct (Hf 1 _ eq_refl) as [X _]. now apply X.
    - inversion Hc; subst. discriminate.
    - inversion Hc; subst. discriminate.
  Qed.

  (** recursive read locking deadlocks against a single writer *)
  Theorem recursive_rlock_can_deadlock :
    exists s, rch (init nat nat [p_unsafeget; p_set]) s /\
              (exists i t, nth_error s i = Some t /\ code t <> []) /\ ~ can_step nat nat Nat.eqb s.
  Proof.
    exists stuck_rr. split; [apply recursive_rlock_reachable|]. split; [|apply recursive_rlock_stuck].
    exists 0. eexists. split; [reflexivity|discriminate].
  Qed.

  (* (b) a.Join(b) || b.Join(a) when Join calls the other log's locking accessor under its own lock *)
  Definition p_join (self other : nat) : list (ev nat nat) :=
    [EB (AAcq self W); EB (AAcq other R); EB (ARd other); EB (ARel other R); EB (AWr self); EB (ARel self W)].

  Definition stuck_cross : state nat nat :=
    [ mkT (tl (p_join 0 1)) [(0, W)] None None None; mkT (tl (p_join 1 0)) [(1, W)] None None None ].

  Lemma cross_join_reachable : rch (init nat nat [p_join 0 1; p_join 1 0]) stuck_cross.
  Proof.
    pose (s1 := [mkT (p_join 0 1) [] (Some 0) None None; T0 (p_join 1 0)]).
    pose (s2 := [mkT (tl (p_join 0 1)) [(0, W)] None None None; T0 (p_join 1 0)]).
    pose (s3 := [mkT (tl (p_join 0 1)) [(0, W)] None None None; mkT (p_join 1 0) [] (Some 1) None None]).
    assert (R1 : rch (init nat nat [p_join 0 1; p_join 1 0]) s1).
    { eapply reach_step; [apply reach_refl|]. eapply step_to.
      - apply (st_ann nat nat Nat.eqb _ 0 (T0 (p_join 0 1)) 0 (tl (p_join 0 1))); try reflexivity. side.
      - reflexivity. }
    assert (R2 : rch (init nat nat [p_join 0 1; p_join 1 0]) s2).
    { eapply reach_step; [exact R1|]. eapply step_to.
      - apply (st_acqW nat nat Nat.eqb s1 0 (mkT (p_join 0 1) [] (Some 0) None None) 0 (tl (p_join 0 1))); try reflexivity. side.
      - reflexivity. }
    assert (R3 : rch (init nat nat [p_join 0 1; p_join 1 0]) s3).
    { eapply reach_step; [exact R2|]. eapply step_to.
      - apply (st_ann nat nat Nat.eqb s2 1 (T0 (p_join 1 0)) 1 (tl (p_join 1 0))); try reflexivity. side.
      - reflexivity. }
    eapply reach_step; [exact R3|]. eapply step_to.
    - apply (st_acqW nat nat Nat.eqb s3 1 (mkT (p_join 1 0) [] (Some 1) None None) 1 (tl (p_join 1 0))); try reflexivity. side.
    - reflexivity.
  Qed.

  Lemma cross_join_stuck : ~ can_step nat nat Nat.eqb stuck_cross.
  Proof.
    intros [i [l [s' St]]]. inversion St as [i0 t l0 k Hi Hc Ha Hf|i0 t l0 k Hi Hc Ha Hf|i0 t l0 k Hi Hc Hf
                                            |i0 t l0 m k Hi Hc Hin|i0 t a k Hi Hc Hacc|i0 t alts body k Hi Hc Hin|i0 t k Hi Hc Hd];
      subst; destruct i as [|[|i]]; simpl in Hi; inversion Hi; subst; simpl in *; try discriminate;
        try (destruct i; discriminate).
    - inversion Hc; subst. destruct (Hf 1 _ eq_refl) as [_ X]. apply X. now left.
    - inversion Hc; subst. destruct (Hf 0 _ eq_refl) as [_ X]. apply X. now left.
    - inversion Hc; subst. discriminate.
    - inversion Hc; subst. discriminate.
  Qed.

  (** two logs merging each other while each holds its own lock can deadlock *)
  Theorem cross_join_can_deadlock :
    exists s, rch (init nat nat [p_join 0 1; p_join 1 0]) s /\
              (exists i t, nth_error s i = Some t /\ code t <> []) /\ ~ can_step nat nat Nat.eqb s.
  Proof.
    exists stuck_cross. split; [apply cross_join_reachable|]. split; [|apply cross_join_stuck].
    exists 0. eexists. split; [reflexivity|discriminate].
  Qed.
End Witness.

(* ------------------------------------------------------------------------------------- *)
(** * C14: reading heads first, entries later, from a log that only grows *)

Definition sub_ents (A A' : list entry) : Prop := forall h e, lookup A h = Some e -> lookup A' h = Some e.
Definition dom (A : list entry) (h : N) : Prop := lookup A h <> None.
(* history closed: every `next` of a member is a member *)
Definition closed (A : list entry) : Prop :=
  forall h e, lookup A h = Some e -> forall n, In n (e_next e) -> dom A n.

Lemma push_nexts_dom A inB ns stack trav :
  Forall (dom A) stack -> Forall (dom A) ns -> Forall (dom A) (fst (push_nexts inB ns stack trav)).
Proof.
  revert stack trav; induction ns as [|n r IH]; intros stack trav Hs Hn; simpl; auto.
  inversion Hn; subst.
  destruct (negb (memN n trav) && negb (inB n)); apply IH; auto.
  apply Forall_app. split; auto.
Qed.

Lemma diff_walk_mono A A' inB : sub_ents A A' -> closed A ->
  forall fuel stack trav res, Forall (dom A) stack ->
    diff_walk fuel A' inB stack trav res = diff_walk fuel A inB stack trav res.
Proof.
  intros Sub Cl. induction fuel as [|f IH]; intros stack trav res Hs; simpl; auto.
  destruct stack as [|h st]; auto. inversion Hs as [|? ? Hh Hst]; subst.
  unfold dom in Hh. destruct (lookup A h) as [e|] eqn:E; [|congruence].
  rewrite (Sub _ _ E).
  destruct (inB h); [now apply IH|].
  destruct (push_nexts inB (e_next e) st (h :: trav)) as [st' trav'] eqn:P.
  apply IH. change st' with (fst (st', trav')). rewrite <- P. apply push_nexts_dom; auto.
  apply Forall_forall. intros n In_n. eapply Cl; eauto.
Qed.

(** snapshot: a source that only grows (entries monotone, every state history closed and
    containing its heads), read as heads at t1 and entries at t2 >= t1, gives the difference
    walk exactly the result it has on the consistent state source@t1. *)
Theorem snapshot_heads_then_entries (S : nat -> lstate) :
  (forall t t', t <= t' -> sub_ents (ents (S t)) (ents (S t'))) ->
  (forall t, closed (ents (S t)) /\ Forall (dom (ents (S t))) (hds (S t))) ->
  forall t1 t2 fuel inB, t1 <= t2 ->
    difference fuel (ents (S t2)) (hds (S t1)) inB = difference fuel (ents (S t1)) (hds (S t1)) inB.
Proof.
  intros Mono HC t1 t2 fuel inB L. unfold difference.
  destruct (HC t1) as [Cl Hd]. apply diff_walk_mono; auto.
Qed.

(* the other order (entries first, heads later - what Join did before the repair) is torn:
   source = [e1], then e2 -> e1 is appended *)
Definition src_demo (t : nat) : lstate :=
  match t with
  | O => mkL [mkE 1 []] [1%N]
  | _ => mkL [mkE 2 [1%N]; mkE 1 []] [2%N]
  end.

Local Opaque N.eqb.
Lemma src_demo_ok :
  (forall t t', t <= t' -> sub_ents (ents (src_demo t)) (ents (src_demo t'))) /\
  (forall t, closed (ents (src_demo t)) /\ Forall (dom (ents (src_demo t))) (hds (src_demo t))).
Proof.
  split.
  - intros [|t] [|t'] L h e X; simpl in *; auto; try lia.
    destruct (N.eqb 1 h) eqn:E1; [|discriminate X]. apply N.eqb_eq in E1; subst h.
    inversion X; subst. reflexivity.
  - intros [|t]; simpl; split.
    + intros h e X. simpl in X. destruct (N.eqb 1 h); [|discriminate X]. inversion X; subst. simpl. contradiction.
    + repeat constructor. unfold dom. vm_compute. intros X; discriminate X.
    + intros h e X. simpl in X. destruct (N.eqb 2 h).
      * inversion X; subst. simpl. intros n [<-|[]]. unfold dom. vm_compute. intros Y; discriminate Y.
      * destruct (N.eqb 1 h); [|discriminate X]. inversion X; subst. simpl. contradiction.
    + repeat constructor. unfold dom. vm_compute. intros X; discriminate X.
Qed.
Local Transparent N.eqb.

Theorem entries_then_heads_is_torn :
  exists S t1 t2 inB,
    (forall t t', t <= t' -> sub_ents (ents (S t)) (ents (S t'))) /\
    (forall t, closed (ents (S t)) /\ Forall (dom (ents (S t))) (hds (S t))) /\
    t1 <= t2 /\
    (* entries read at t1, heads at t2: the new head 2 is not among the collected entries *)
    difference 10 (ents (S t1)) (hds (S t2)) inB = Some [] /\
    difference 10 (ents (S t2)) (hds (S t2)) inB = Some [mkE 2 [1%N]; mkE 1 []] /\
    difference 10 (ents (S t1)) (hds (S t1)) inB = Some [mkE 1 []].
Proof.
  exists src_demo, 0, 1, (fun _ => false). destruct src_demo_ok as [M C].
  repeat split; auto; try apply C.
Qed.

Lemma assoc_In {A} k (l : list (String.string * A)) v : assoc k l = Some v -> In (k, v) l.
Proof.
  induction l as [|[k' v'] r IH]; simpl; [discriminate|].
  destruct (String.eqb k k') eqn:E.
  - intros X; inversion X; subst. apply String.eqb_eq in E. subst. now left.
  - intros X. right. auto.
Qed.
