(* C10 at the loader level: the limited fetch delivers a window that contains the n most recent
   entries of the stored log; "sort, keep the last n" then gives exactly the last n of the whole
   log's order, for every schedule.                                                            *)
From Coq Require Import List ZArith NArith Bool Lia Permutation Sorted.
From IpfsLog Require Import Model.Order Model.Fetcher Proofs.SortProofs Proofs.OrderProofs
  Proofs.FetcherBasics Proofs.FetcherProofs Proofs.LoaderProofs Proofs.LimitProofs Proofs.WindowProofs.
Import ListNotations.
Open Scope Z_scope.

Lemma fentry_eq_dec (a b : fentry) : {a = b} + {a <> b}.
Proof.
  decide equality; try apply N.eq_dec; try apply Z.eq_dec; apply (list_eq_dec N.eq_dec).
Qed.

(* both comparators the loaders sort with (NoZeroes(LastWriteWins) and Compare) order two
   entries with different (time, id) by the clock comparison *)
Definition cless (a b : fentry) : bool :=
  clock_compare N ncmp (fe_time a) (fe_id a) (fe_time b) (fe_id b) <? 0.

Definition times_ok (S : list fentry) : Prop := forall e, In e S -> int64_range (fe_time e).
Definition tie_free (S : list fentry) : Prop :=
  forall a b, In a S -> In b S -> fe_time a = fe_time b -> fe_id a = fe_id b -> a = b.

Section ClockOrder.
  Variable S : list fentry.
  Hypothesis Htimes : times_ok S.
  Hypothesis Hties : tie_free S.
  Notation P := (fun e => In e S).

  Lemma cless_irrefl a : P a -> cless a a = false.
  Proof.
    intros _. unfold cless, clock_compare. rewrite Z.eqb_refl.
    rewrite (kcmp_refl N ncmp ncmp_ord). reflexivity.
  Qed.

  Lemma cless_trans a b c : P a -> P b -> P c -> cless a b = true -> cless b c = true -> cless a c = true.
  Proof.
    unfold cless. intros Ha Hb Hc H1 H2. apply Z.ltb_lt in H1, H2. apply Z.ltb_lt.
    apply (clock_compare_trans N ncmp ncmp_ord (fe_time a) (fe_id a) (fe_time b) (fe_id b) (fe_time c) (fe_id c));
      try assumption; apply Htimes; assumption.
  Qed.

  Lemma cless_total a b : P a -> P b -> a <> b -> cless a b = true \/ cless b a = true.
  Proof.
    unfold cless. intros Ha Hb Hne.
    pose proof (clock_compare_anti N ncmp ncmp_ord (fe_time a) (fe_id a) (fe_time b) (fe_id b)
                  (Htimes a Ha) (Htimes b Hb)) as Hanti.
    assert (Hnz : clock_compare N ncmp (fe_time a) (fe_id a) (fe_time b) (fe_id b) <> 0).
    { intro Hz. apply (clock_compare_zero N ncmp ncmp_ord) in Hz; auto. destruct Hz. apply Hne. now apply Hties. }
    rewrite !Z.ltb_lt. lia.
  Qed.

  Lemma cless_time a b : P a -> P b -> fe_time a < fe_time b -> cless a b = true.
  Proof.
    intros Ha Hb H. unfold cless. apply Z.ltb_lt.
    apply (clock_compare_time N ncmp); auto.
  Qed.

  Lemma clock_val_eq_lww a b : P a -> P b -> a <> b ->
    lww_val N ncmp (fkey a) (fkey b) = clock_compare N ncmp (fe_time a) (fe_id a) (fe_time b) (fe_id b).
  Proof.
    intros Ha Hb Hne. unfold lww_val, clock_compare. cbn [fkey sk_time sk_id].
    destruct (fe_time a =? fe_time b) eqn:E; [|reflexivity].
    destruct (ncmp (fe_id a) (fe_id b) =? 0) eqn:E2; [|reflexivity].
    exfalso. apply Hne. apply Z.eqb_eq in E, E2. apply (k_eq _ _ ncmp_ord) in E2. now apply Hties.
  Qed.

  Lemma less_lww a b : P a -> P b -> sort_less cmp_lww false a b = cless a b.
  Proof.
    intros Ha Hb. unfold sort_less, cmp_lww.
    assert (Ta : time_ok N (fkey a)) by (apply Htimes; assumption).
    assert (Tb : time_ok N (fkey b)) by (apply Htimes; assumption).
    rewrite (no_zeroes_spec N _ _ _ _ (lww_spec N ncmp (fkey a) (fkey b) Ta Tb)).
    pose proof (lww_nonzero N ncmp (fkey a) (fkey b) Ta Tb) as Hnz. apply Z.eqb_neq in Hnz. rewrite Hnz.
    destruct (fentry_eq_dec a b) as [->|Hne].
    - rewrite cless_irrefl by assumption. unfold lww_val. rewrite Z.eqb_refl.
      rewrite (kcmp_refl N ncmp ncmp_ord). reflexivity.
    - rewrite clock_val_eq_lww by assumption. reflexivity.
  Qed.

  Lemma less_clock a b : sort_less cmp_clock false a b = cless a b.
  Proof. reflexivity. Qed.

  Lemma sort_lww_cless l : incl l S -> sort_go cmp_lww false l = gosort cless l.
  Proof. intros Hi. unfold sort_go. apply gosort_ext. intros a b Ha Hb. apply less_lww; auto. Qed.

  Lemma sort_clock_cless l : sort_go cmp_clock false l = gosort cless l.
  Proof. reflexivity. Qed.

  (* the window lemma for entries: R delivers every entry with fewer than n strictly newer ones *)
  Lemma window_entries (R : list fentry) n :
    NoDup S -> NoDup R -> incl R S -> 0 <= n ->
    (forall e, In e S -> newer_in (fe_time e) S < n -> In e R) ->
    last_n n (gosort cless R) = last_n n (gosort cless S).
  Proof.
    intros HndS HndR Hi Hn Hwin. change (lastn (Z.to_nat n) (gosort cless R) = lastn (Z.to_nat n) (gosort cless S)).
    apply (window_lastn fentry fentry_eq_dec cless (fun e => In e S) cless_irrefl cless_trans cless_total);
      auto.
    - rewrite Forall_forall. auto.
    - intros e He.
      assert (HeS : In e S).
      { unfold lastn in He. apply (skipn_In fentry) in He. now apply gosort_in in He. }
      apply Hwin; [assumption|].
      pose proof (lastn_sorted_count fentry cless (fun e => In e S) cless_irrefl cless_trans cless_total
                    S (Z.to_nat n) e) as Hc.
      assert (HF : Forall (fun e => In e S) S) by (rewrite Forall_forall; auto).
      specialize (Hc HF HndS He).
      assert (Hle : newer_in (fe_time e) S <= zlen (filter (fun x => cless e x) S)).
      { apply zlen_filter_mono. intros x Hx Ht. apply Z.ltb_lt in Ht. now apply cless_time. }
      unfold zlen in Hle. lia.
  Qed.
End ClockOrder.

Lemma last_n_length {A} n (l : list A) : 0 <= n -> zlen (last_n n l) = Z.min n (zlen l).
Proof. intros Hn. unfold last_n, zlen. rewrite skipn_length. lia. Qed.

Lemma last_n_incl {A} n (l : list A) : incl (last_n n l) l.
Proof. apply skipn_incl. Qed.

Lemma last_n_nodup_hashes n l : NoDup (hashes l) -> NoDup (hashes (last_n n l)).
Proof.
  unfold last_n. intros H. rewrite <- (firstn_skipn (length l - Z.to_nat n) l), map_app in H.
  now apply NoDup_app_r in H.
Qed.

(* ---------------------------------------------------------------------------------------- *)
(* a stored log, fetched with a limit                                                        *)

Section LimitedLoad.
  Variable cfg : config.
  Variable S : list fentry.
  Variable source : list fentry.       (* the entries whose hashes the fetcher is started with *)
  Hypothesis CW : closure_wf cfg S source.
  Notation sget := (store_get (cf_store cfg)).
  Notation n := (cf_length cfg).
  Hypothesis Hlim : 0 <= n.
  (* I3: a predecessor has a strictly smaller clock time *)
  Hypothesis Hclock : forall e e', In e S -> In e' S -> In (fe_hash e') (fe_next e) -> fe_time e' < fe_time e.

  (* top n (closure) <= results <= closure, at every terminal state of every schedule *)
  Theorem fetch_window starts s :
    (forall h, In h starts <-> In h (hashes source)) ->
    reachable_state cfg starts s -> terminal s -> st_timedout s = false ->
    NoDup (hashes (st_results s)) /\ incl (st_results s) S /\
    (forall e, In e S -> newer_in (fe_time e) S < n -> In e (st_results s)).
  Proof.
    intros Hst Hr T Ht. pose proof (inv_reachable cfg starts s Hr) as I.
    assert (Hreq : forall h, requested cfg starts h -> In h (hashes S)).
    { intros h Hh. apply (cw_requested_in_S cfg S source CW).
      eapply requested_ext; [|exact Hh]. intros x Hx. now apply Hst. }
    assert (Hincl : incl (st_results s) S).
    { intros e He. destruct (inv_results cfg starts s I e He) as [Hd Hs].
      apply (cw_entry_of_hash cfg S source CW (fe_hash e)); [|assumption].
      apply Hreq. apply (inv_cached cfg starts s I). apply cached_true. eauto. }
    split; [apply (inv_results_nodup cfg starts s I)|]. split; [assumption|].
    intros e He Hnew.
    assert (Hnr : next_reach cfg starts (fe_hash e)).
    { eapply next_reach_ext; [|apply (cw_closure _ _ _ CW); now apply in_map].
      intros x Hx. now apply Hst. }
    assert (Hmono : forall h e0 h' e0', next_reach cfg starts h -> sget h = Some e0 ->
               In h' (fe_next e0) -> wanted cfg h' -> sget h' = Some e0' -> fe_time e0' < fe_time e0).
    { intros h e0 h' e0' Hnr0 Hs0 Hin0 Hw0 Hs0'.
      assert (H0 : In h (hashes S)).
      { apply (cw_closure _ _ _ CW). eapply next_reach_ext; [|exact Hnr0]. intros x Hx. now apply Hst. }
      pose proof (cw_entry_of_hash cfg S source CW h e0 H0 Hs0) as He0.
      assert (H0' : In h' (hashes S)).
      { apply (cw_closure _ _ _ CW).
        eapply nr_link; [apply (cw_closure _ _ _ CW); exact H0|exact Hs0|exact Hin0|exact Hw0]. }
      pose proof (cw_entry_of_hash cfg S source CW h' e0' H0' Hs0') as He0'.
      apply (Hclock e0 e0' He0 He0'). rewrite (store_get_hash _ _ _ Hs0'). exact Hin0. }
    destruct (limited_terminal cfg starts Hlim Hmono s Hr T Ht (fe_hash e) e Hnr
                (cw_stored _ _ _ CW e He)) as [Hin|Hb]; [assumption|].
    exfalso.
    assert (Hle : newer_in (fe_time e) (st_results s) <= newer_in (fe_time e) S).
    { apply zlen_filter_incl; [|assumption]. apply NoDup_hashes_NoDup.
      apply (inv_results_nodup cfg starts s I). }
    lia.
  Qed.
End LimitedLoad.

(* ---------------------------------------------------------------------------------------- *)
(* the loaders on a window                                                                   *)

Section WindowLoaders.
  Variable S : list fentry.
  Hypothesis HndS : NoDup (hashes S).
  Hypothesis Htimes : times_ok S.
  Hypothesis Hties : tie_free S.

  (* R: a fetch result that is a window of S for limit n *)
  Definition window (n : Z) (R : list fentry) : Prop :=
    NoDup (hashes R) /\ incl R S /\ (forall e, In e S -> newer_in (fe_time e) S < n -> In e R).

  Lemma window_lww n R : 0 <= n -> window n R ->
    last_n n (sort_go cmp_lww false R) = last_n n (sort_go cmp_lww false S).
  Proof.
    intros Hn [H1 [H2 H3]]. rewrite (sort_lww_cless S Htimes Hties R H2).
    rewrite (sort_lww_cless S Htimes Hties S (incl_refl S)).
    apply (window_entries S Htimes Hties); auto; now apply NoDup_hashes_NoDup.
  Qed.

  Lemma window_clock n R : 0 <= n -> window n R ->
    last_n n (sort_go cmp_clock false R) = last_n n (sort_go cmp_clock false S).
  Proof.
    intros Hn [H1 [H2 H3]]. rewrite !sort_clock_cless.
    apply (window_entries S Htimes Hties); auto; now apply NoDup_hashes_NoDup.
  Qed.

  Lemma sorted_nodup_hashes (cmp : fentry -> fentry -> cres) : NoDup (hashes (sort_go cmp false S)).
  Proof.
    eapply Permutation_NoDup; [apply Permutation_map; symmetry; apply sort_go_perm|exact HndS].
  Qed.

  Lemma new_log_entries id0 l hs : NoDup (hashes l) -> lg_entries (new_log id0 l hs) = l.
  Proof. intros H. unfold new_log. cbn [lg_entries]. now apply ordered_map_id. Qed.

  (* NewFromMultihash, every n >= 0 *)
  Lemma limited_multihash id0 mheads n R : 0 <= n -> window n R ->
    lg_entries (load_multihash id0 mheads n R) = last_n n (sort_go cmp_lww false S).
  Proof.
    intros Hn HW. unfold load_multihash.
    assert (E : -1 <? n = true) by (apply Z.ltb_lt; lia). rewrite E.
    rewrite (window_lww n R) by assumption.
    apply new_log_entries. apply last_n_nodup_hashes, sorted_nodup_hashes.
  Qed.

  (* NewFromJSON, every n >= 0 *)
  Lemma limited_json id0 n R : 0 <= n -> window n R ->
    lg_entries (load_json id0 n R) = last_n n (sort_go cmp_clock false S).
  Proof.
    intros Hn HW. unfold load_json.
    assert (E : -1 <? n = true) by (apply Z.ltb_lt; lia). rewrite E.
    rewrite (window_clock n R) by assumption.
    apply new_log_entries. apply last_n_nodup_hashes, sorted_nodup_hashes.
  Qed.

  Lemma last_n_sorted_length (cmp : fentry -> fentry -> cres) n : 0 <= n ->
    zlen (last_n n (sort_go cmp false S)) = Z.min n (zlen S).
  Proof.
    intros Hn. rewrite last_n_length by assumption. unfold zlen, sort_go. now rewrite gosort_length.
  Qed.
End WindowLoaders.

(* ---------------------------------------------------------------------------------------- *)
(* the repaired NewFromEntry: all supplied entries, then the most recent others              *)

Lemma filter_perm {A} (p : A -> bool) l l' : Permutation l l' -> Permutation (filter p l) (filter p l').
Proof.
  induction 1 as [|x l l' Hp IH|x y l|l l' l'' H1 IH1 H2 IH2]; cbn.
  - constructor.
  - destruct (p x); [now constructor|assumption].
  - destruct (p x), (p y); try reflexivity. apply perm_swap.
  - etransitivity; eauto.
Qed.

Section EntryLoader.
  Variable S : list fentry.
  Hypothesis HndS : NoDup (hashes S).
  Hypothesis Htimes : times_ok S.
  Hypothesis Hties : tie_free S.
  Variable source : list fentry.
  Hypothesis Hsrc_in : incl source S.
  Hypothesis Hsrc_nd : NoDup (hashes source).

  Notation notsrc := (fun e => negb (has_hash (fe_hash e) source)).

  Lemma notsrc_false e : In e S -> (has_hash (fe_hash e) source = true <-> In e source).
  Proof.
    intros He. rewrite has_hash_In. split.
    - intros Hin. apply in_map_iff in Hin. destruct Hin as [e' [Heq He']].
      assert (e' = e); [|now subst]. apply (hash_inj_in S); auto.
    - intros Hin. now apply in_map.
  Qed.

  Lemma filter_src_length : zlen (filter notsrc S) + zlen source = zlen S.
  Proof.
    pose proof (filter_split_perm fentry (fun e => has_hash (fe_hash e) source) S) as Hp.
    assert (Hp2 : Permutation (filter (fun e => has_hash (fe_hash e) source) S) source).
    { apply NoDup_Permutation.
      - apply NoDup_filter. now apply NoDup_hashes_NoDup.
      - now apply NoDup_hashes_NoDup.
      - intros e. rewrite filter_In. split.
        + intros [He Hh]. now apply notsrc_false.
        + intros He. split; [now apply Hsrc_in|]. apply notsrc_false; auto. }
    apply Permutation_length in Hp. rewrite app_length in Hp.
    apply Permutation_length in Hp2. unfold zlen. lia.
  Qed.

  Lemma window_notsrc L R : window S L R ->
    window (filter notsrc S) (L - zlen source) (filter notsrc R).
  Proof.
    intros [H1 [H2 H3]]. split; [now apply filter_hashes_nodup|]. split.
    - intros e He. apply filter_In in He. apply filter_In. split; [apply H2|]; tauto.
    - intros e He Hnew. apply filter_In in He. destruct He as [HeS Hns].
      apply filter_In. split; [|assumption]. apply H3; [assumption|].
      (* entries of S newer than e: those outside the source, plus at most |source| others *)
      pose proof (filter_split_perm fentry (fun x => has_hash (fe_hash x) source) S) as Hp.
      assert (Hsplit : newer_in (fe_time e) S =
                newer_in (fe_time e) (filter notsrc S)
                + newer_in (fe_time e) (filter (fun x => has_hash (fe_hash x) source) S)).
      { unfold newer_in. rewrite <- zlen_app, <- filter_app. unfold zlen. f_equal.
        apply Permutation_length. apply filter_perm. exact Hp. }
      assert (Hk : newer_in (fe_time e) (filter (fun x => has_hash (fe_hash x) source) S) <= zlen source).
      { etransitivity; [apply zlen_filter_le|].
        pose proof filter_src_length. 
        assert (Hl : zlen S = zlen (filter notsrc S) + zlen (filter (fun x => has_hash (fe_hash x) source) S)).
        { apply Permutation_length in Hp. rewrite app_length in Hp. unfold zlen. lia. }
        lia. }
      lia.
  Qed.

  Lemma times_ok_filter p : times_ok (filter p S).
  Proof. intros e He. apply filter_In in He. now apply Htimes. Qed.

  Lemma tie_free_filter p : tie_free (filter p S).
  Proof. intros a b Ha Hb. apply filter_In in Ha, Hb. apply Hties; tauto. Qed.

  (* the most recent others: the window of the fetch result is as good as the whole log *)
  Lemma others_window L R : zlen source <= L -> window S L R ->
    last_n (L - zlen source) (sort_go cmp_clock false (filter notsrc R)) =
    last_n (L - zlen source) (sort_go cmp_clock false (filter notsrc S)).
  Proof.
    intros HL HW. pose proof (window_notsrc L R HW) as HW2.
    apply (window_clock (filter notsrc S)).
    - now apply filter_hashes_nodup.
    - apply times_ok_filter.
    - apply tie_free_filter.
    - lia.
    - exact HW2.
  Qed.
End EntryLoader.

(* ---------------------------------------------------------------------------------------- *)
(* helpers for concrete witnesses                                                            *)

Lemma run_seq_exec cfg fuel s s' : run_seq cfg fuel s = Some s' -> exists evs, exec cfg s evs s'.
Proof.
  revert s. induction fuel as [|fuel IH]; intros s; cbn [run_seq].
  - destruct (next_event cfg s); [discriminate|]. intros [= <-]. exists []. constructor.
  - destruct (next_event cfg s) as [ev|]; [|intros [= <-]; exists []; constructor].
    destruct (exec_step cfg s ev) as [s1|] eqn:E; [|discriminate].
    intros H. destruct (IH s1 H) as [evs He]. exists (ev :: evs).
    econstructor; [apply exec_step_iff; exact E|exact He].
Qed.

Lemma run_seq_reachable cfg starts fuel s :
  run_seq cfg fuel (init_state cfg starts) = Some s -> reachable_state cfg starts s.
Proof. intros H. exact (run_seq_exec _ _ _ _ H). Qed.

Definition with_length (cfg : config) (n : Z) : config :=
  {| cf_store := cf_store cfg; cf_excl := cf_excl cfg; cf_length := n; cf_conc := cf_conc cfg;
     cf_timeout := cf_timeout cfg |}.

Lemma next_reach_with_length cfg n starts h :
  next_reach cfg starts h <-> next_reach (with_length cfg n) starts h.
Proof.
  split; intros H; induction H as [h Hin Hw|h e h' Hr IH Hg Hin Hw].
  - apply nr_start; auto.
  - eapply nr_link; eauto.
  - apply nr_start; auto.
  - eapply nr_link; eauto.
Qed.

Lemma log_wf_with_length cfg n S heads id :
  log_wf cfg S heads id -> log_wf (with_length cfg n) S heads id.
Proof.
  intros [H1 H2 H3 H4 H5 H6]. split; auto.
  intros h. rewrite H3. apply next_reach_with_length.
Qed.

(* ---------------------------------------------------------------------------------------- *)
(* single-headed log loaded from its head's hash: the window holds for max(n,1)              *)

Section SingleHead.
  Variable cfg : config.
  Variable S : list fentry.
  Variable h : fentry.
  Variable id : N.
  Hypothesis WF : log_wf cfg S [h] id.
  Notation sget := (store_get (cf_store cfg)).
  Notation n := (cf_length cfg).
  Hypothesis Hlim : 0 <= n.
  Hypothesis Hclock : forall e e', In e S -> In e' S -> In (fe_hash e') (fe_next e) -> fe_time e' < fe_time e.
  Hypothesis Hnonneg : forall e, In e S -> 0 <= fe_time e.

  Lemma head_in_S : In h S.
  Proof. apply (wf_heads_in_S cfg S [h] id WF). now left. Qed.

  (* every other entry is strictly older than the head *)
  Lemma head_newest e : In e S -> e = h \/ fe_time e < fe_time h.
  Proof.
    intros He.
    assert (Hnr : next_reach cfg [fe_hash h] (fe_hash e)).
    { apply (wf_closure _ _ _ _ WF). now apply in_map. }
    assert (G : forall x, next_reach cfg [fe_hash h] x -> forall ex, In ex S -> fe_hash ex = x ->
              ex = h \/ fe_time ex < fe_time h).
    { clear e He Hnr. intros x Hx. induction Hx as [x Hin Hw|x e0 x' Hx IH Hg Hin Hw]; intros ex Hex Heq.
      - left. destruct Hin as [<-|[]]. apply (hash_inj_in S); auto; [apply (wf_nodup _ _ _ _ WF)|apply head_in_S].
      - right. assert (H0 : In x (hashes S)) by (apply (wf_closure _ _ _ _ WF); exact Hx).
        pose proof (wf_entry_of_hash cfg S [h] id WF x e0 H0 Hg) as He0.
        assert (Hlt : fe_time ex < fe_time e0) by (apply (Hclock e0 ex); auto; now rewrite Heq).
        destruct (IH e0 He0 (store_get_hash _ _ _ Hg)) as [->|Hlt2]; lia. }
    exact (G (fe_hash e) Hnr e He eq_refl).
  Qed.

  Theorem fetch_window_single s :
    reachable_state cfg [fe_hash h] s -> terminal s -> st_timedout s = false ->
    window S (Z.max n 1) (st_results s).
  Proof.
    intros Hr T Ht.
    assert (Hst : forall x, In x [fe_hash h] <-> In x (hashes [h])) by (intros x; reflexivity).
    destruct (fetch_window cfg S [h] (log_wf_closure cfg S [h] id WF) Hlim Hclock [fe_hash h] s Hst Hr T Ht) as [W1 [W2 W3]].
    split; [assumption|]. split; [assumption|].
    intros e He Hnew. destruct (Z.le_gt_cases 1 n) as [Hn|Hn].
    - apply W3; [assumption|]. lia.
    - (* n = 0: only the head has no strictly newer entry *)
      assert (Hz : newer_in (fe_time e) S = 0) by (pose proof (newer_in_nonneg (fe_time e) S); lia).
      destruct (head_newest e He) as [->|Hlt].
      + assert (Htime : forall e0, sget (fe_hash h) = Some e0 -> 0 <= fe_time e0).
        { intros e0 He0. rewrite (wf_stored _ _ _ _ WF h head_in_S) in He0. injection He0 as <-.
          apply Hnonneg, head_in_S. }
        apply (start_entry_in_results cfg (fe_hash h) Htime s h Hr T Ht).
        * apply (next_reach_wanted cfg [fe_hash h]). apply (wf_closure _ _ _ _ WF). apply in_map, head_in_S.
        * apply (wf_stored _ _ _ _ WF h head_in_S).
      + exfalso. unfold newer_in in Hz.
        assert (Hin : In h (filter (fun r => fe_time e <? fe_time r) S)).
        { apply filter_In. split; [apply head_in_S|]. apply Z.ltb_lt. exact Hlt. }
        destruct (filter (fun r => fe_time e <? fe_time r) S); [contradiction|].
        unfold zlen in Hz. cbn [length] in Hz. lia.
  Qed.
End SingleHead.

Lemma limited_entryhash S id0 n R :
  NoDup (hashes S) -> times_ok S -> tie_free S -> 0 <= n -> window S (Z.max n 1) R ->
  lg_entries (load_entryhash id0 n R) = last_n (Z.max n 1) (sort_go cmp_lww false S).
Proof.
  intros HndS Htimes Hties Hn HW. unfold load_entryhash.
  assert (E : -1 <? n = true) by (apply Z.ltb_lt; lia). rewrite E.
  assert (E2 : -1 <? Z.max n 1 = true) by (apply Z.ltb_lt; lia). rewrite E2.
  rewrite (window_lww S HndS Htimes Hties (Z.max n 1) R) by (try lia; assumption).
  apply new_log_entries. apply last_n_nodup_hashes, sorted_nodup_hashes. assumption.
Qed.

(* ---------------------------------------------------------------------------------------- *)
(* NewFromEntry for ANY list of supplied entries of the closure (duplicates allowed), any n >= 0 *)

Lemma ordered_map_length_le l : zlen (ordered_map l) <= zlen l.
Proof.
  unfold ordered_map. generalize (@nil N) as seen.
  induction l as [|x l IH]; intros seen; cbn [uniq_from]; [lia|].
  specialize (IH seen) as IH1. specialize (IH (fe_hash x :: seen)) as IH2.
  unfold zlen in *. destruct (mem (fe_hash x) seen); cbn [length]; lia.
Qed.

Section EntryLoaderAny.
  Variable S : list fentry.
  Hypothesis HndS : NoDup (hashes S).
  Hypothesis Htimes : times_ok S.
  Hypothesis Hties : tie_free S.
  Variable source : list fentry.            (* what the caller passes, as it is *)
  Hypothesis Hsrc_in : incl source S.

  Notation src := (ordered_map source).
  Notation notsrc := (fun e => negb (has_hash (fe_hash e) src)).
  Notation L n := (Z.max n (zlen source)).

  Lemma src_in : incl src S.
  Proof. intros e He. apply Hsrc_in. now apply ordered_map_In. Qed.

  Lemma source_in_src e : In e source -> In e src.
  Proof.
    intros He. pose proof (ordered_map_complete source e He) as Hc. apply in_map_iff in Hc.
    destruct Hc as [e' [Heq He']]. assert (e' = e); [|now subst].
    apply (hash_inj_in S); auto. now apply src_in.
  Qed.

  Theorem entry_values n R : 0 <= n -> window S (L n) R ->
    from_entry_values n source R =
      src ++ last_n (L n - zlen src) (sort_go cmp_clock false (filter notsrc S)).
  Proof.
    intros Hn HW. unfold from_entry_values, entry_fetch_len.
    assert (E : -1 <? n = true) by (apply Z.ltb_lt; lia). rewrite E.
    assert (E2 : -1 <? Z.max n (zlen source) = true) by (apply Z.ltb_lt; lia). rewrite E2.
    destruct HW as [H1 HW']. rewrite (ordered_map_id R H1). f_equal.
    apply (others_window S HndS Htimes Hties src src_in (ordered_map_nodup source) (L n) R).
    - pose proof (ordered_map_length_le source). lia.
    - exact (conj H1 HW').
  Qed.

  Theorem entry_values_count n R : 0 <= n -> window S (L n) R ->
    zlen (from_entry_values n source R) = Z.min (L n) (zlen S).
  Proof.
    intros Hn HW. rewrite (entry_values n R Hn HW).
    rewrite zlen_app. pose proof (ordered_map_length_le source) as Hle.
    rewrite last_n_length by lia.
    assert (Hlen : zlen (sort_go cmp_clock false (filter notsrc S)) = zlen (filter notsrc S)).
    { unfold zlen, sort_go. now rewrite gosort_length. }
    rewrite Hlen. pose proof (filter_src_length S HndS src src_in (ordered_map_nodup source)).
    pose proof (zlen_nonneg src). lia.
  Qed.

  Theorem entry_values_supplied n R e : 0 <= n -> window S (L n) R ->
    In e source -> In e (from_entry_values n source R).
  Proof.
    intros Hn HW He. rewrite (entry_values n R Hn HW). apply in_or_app. left. now apply source_in_src.
  Qed.
End EntryLoaderAny.
