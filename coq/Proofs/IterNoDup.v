(* The iterator never emits an entry twice - on any log at all (no invariant needed): the traversal only
   records an entry under its own hash, and only when that hash is not recorded yet. *)
From Coq Require Import List ZArith Bool Lia.
From IpfsLog Require Import Model.System Proofs.OmapProofs.
Import ListNotations.
Open Scope Z_scope.

Definition own_keys (m : omap) : Prop := NoDup (okeys m) /\ okeys m = map e_hash (oslice m).

Lemma own_keys_oset m e : ohas m (e_hash e) = false -> own_keys m -> own_keys (oset m (e_hash e) e).
Proof.
  intros OH [ND EQ]. apply ohas_false in OH. rewrite (oset_fresh _ _ _ OH). unfold own_keys, okeys, oslice in *.
  rewrite !map_app. cbn [map fst snd]. split; [now apply NoDup_snoc|now rewrite EQ].
Qed.

Lemma trav_own_keys entries s amount endh fuel : forall stack seen res cnt out,
  own_keys res -> trav fuel entries s amount endh stack seen res cnt = Some out -> own_keys out.
Proof.
  induction fuel as [|f IH]; intros stack seen res cnt out K T.
  - destruct stack as [|e stack']; cbn [trav] in T; [now inversion T; subst|].
    destruct ((0 <=? amount) && (amount <=? cnt)); [now inversion T; subst|discriminate].
  - destruct stack as [|e stack']; cbn [trav] in T; [now inversion T; subst|].
    destruct ((0 <=? amount) && (amount <=? cnt)); [now inversion T; subst|].
    destruct (ohas res (e_hash e)) eqn:OH; [exact (IH _ _ _ _ _ K T)|].
    pose proof (own_keys_oset res e OH K) as K'.
    destruct (match endh with Some h => N.eqb (e_hash e) h | None => false end);
      [now inversion T; subst|].
    destruct (push_nexts entries (e_next e) (stack', e_hash e :: seen, false)) as [[st2 sn2] md].
    exact (IH _ _ _ _ _ K' T).
Qed.

Lemma NoDup_app_l {A} (l1 l2 : list A) : NoDup (l1 ++ l2) -> NoDup l1.
Proof.
  induction l1 as [|a l1 IH]; cbn [app]; intros H; [constructor|].
  inversion H as [|? ? Hn H']; subst. constructor; [|now apply IH].
  intros Hi. apply Hn. apply in_or_app. now left.
Qed.
Lemma NoDup_app_r {A} (l1 l2 : list A) : NoDup (l1 ++ l2) -> NoDup l2.
Proof. induction l1 as [|a l1 IH]; cbn [app]; intros H; [exact H|]. inversion H; subst. now apply IH. Qed.
Lemma NoDup_map_app_l {A B} (f : A -> B) l1 l2 : NoDup (map f (l1 ++ l2)) -> NoDup (map f l1).
Proof. rewrite map_app. apply NoDup_app_l. Qed.
Lemma NoDup_map_app_r {A B} (f : A -> B) l1 l2 : NoDup (map f (l1 ++ l2)) -> NoDup (map f l2).
Proof. rewrite map_app. apply NoDup_app_r. Qed.

Lemma NoDup_map_removelast {A B} (f : A -> B) l : NoDup (map f l) -> NoDup (map f (removelast l)).
Proof.
  destruct l as [|a l]; [auto|]. intros H.
  rewrite (@app_removelast_last _ (a :: l) a) in H by discriminate. exact (NoDup_map_app_l f _ _ H).
Qed.
Lemma NoDup_map_skipn {A B} (f : A -> B) n l : NoDup (map f l) -> NoDup (map f (skipn n l)).
Proof. intros H. rewrite <- (firstn_skipn n l) in H. exact (NoDup_map_app_r f _ _ H). Qed.

Lemma iter_post_nodup o es : NoDup (map e_hash es) -> NoDup (map e_hash (iter_post o es)).
Proof.
  intros H. unfold iter_post. set (es1 := match it_gt o with Some _ => removelast es | None => es end).
  assert (H1 : NoDup (map e_hash es1)).
  { subst es1. destruct (it_gt o); [now apply NoDup_map_removelast|exact H]. }
  destruct (_ && _); [now apply NoDup_map_skipn|exact H1].
Qed.

(* no hash - hence no entry - is emitted twice, whatever the log, the ordering and the options *)
Theorem iterator_nodup l o es c : iterator l o = Ok (es, c) -> NoDup (map e_hash es).
Proof.
  intros I. unfold iterator in I.
  assert (I' : match iter_start l o with
               | Err k => Err k | Panic => Panic
               | Ok st => match traverse (l_entries l) (l_sort l) (from_entries st) (iter_count o) (iter_end o) with
                          | None => Panic | Some m => Ok (iter_post o (oslice m), true) end
               end = Ok (es, c) \/ es = []).
  { destruct (it_amount o) as [[| |]|]; try (now left). right. now inversion I. }
  clear I. destruct I' as [I| ->]; [|constructor].
  destruct (iter_start l o) as [st| |]; try discriminate.
  destruct (traverse _ _ _ _ _) as [m|] eqn:T; [|discriminate]. inversion I; subst.
  apply iter_post_nodup. unfold traverse in T.
  assert (K0 : own_keys []) by (split; [constructor|reflexivity]).
  destruct (trav_own_keys _ _ _ _ _ _ _ _ _ _ K0 T) as [ND EQ]. now rewrite <- EQ.
Qed.

Corollary iterator_nodup_entries l o es c : iterator l o = Ok (es, c) -> NoDup es.
Proof. intros I. exact (NoDup_map_inv _ _ (iterator_nodup l o es c I)). Qed.
