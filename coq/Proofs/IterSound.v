(* Soundness of the iterator without the closure invariant: whatever the log looks like (truncated by a
   bounded merge, re-opened over a selection of entries), as long as its heads are entries of the log,
   every entry the iterator emits is an entry of the log.  Needs neither [linv] nor a total ordering. *)
From Coq Require Import List ZArith Bool Lia.
From IpfsLog Require Import Model.System Proofs.OmapProofs Proofs.TravProofs.
Import ListNotations.
Open Scope Z_scope.

Lemma In_removelast_sub {A} (l : list A) x : In x (removelast l) -> In x l.
Proof.
  induction l as [|a l IH]; cbn [removelast]; [tauto|].
  destruct l as [|b l']; [intros []|]. intros [H|H]; [now left|right; now apply IH].
Qed.

Lemma In_skipn_sub {A} n (l : list A) x : In x (skipn n l) -> In x l.
Proof. intros H. rewrite <- (firstn_skipn n l). apply in_or_app. now right. Qed.

Section Sound.
  Variable entries : omap.
  Let Q (e : entry) := In e (oslice entries).

  Lemma push_next_Q st c : Forall Q (fst (fst st)) -> Forall Q (fst (fst (push_next entries st c))).
  Proof.
    destruct st as [[stack seen] md]. cbn [push_next fst]. intros H.
    destruct (oget entries c) as [n|] eqn:E; [|exact H].
    destruct (mem (e_hash n) seen); [exact H|]. cbn [fst]. constructor; [|exact H].
    apply In_oslice. exists c. now apply oget_In.
  Qed.

  Lemma push_nexts_Q ns : forall st,
    Forall Q (fst (fst st)) -> Forall Q (fst (fst (push_nexts entries ns st))).
  Proof.
    unfold push_nexts. induction ns as [|c ns IH]; intros st H; cbn [fold_left]; [exact H|].
    apply IH, push_next_Q, H.
  Qed.

  Lemma sort_desc_Q s l : Forall Q l -> Forall Q (sort_desc s l).
  Proof. rewrite !Forall_forall. intros H x Hx. apply H. now apply sort_desc_In in Hx. Qed.

  Lemma trav_Q s amount endh fuel : forall stack seen res cnt out,
    Forall Q stack -> Forall Q (oslice res) ->
    trav fuel entries s amount endh stack seen res cnt = Some out -> Forall Q (oslice out).
  Proof.
    induction fuel as [|f IH]; intros stack seen res cnt out HS HR T.
    - destruct stack as [|e stack']; cbn [trav] in T; [now inversion T; subst|].
      destruct ((0 <=? amount) && (amount <=? cnt)); [now inversion T; subst|discriminate].
    - destruct stack as [|e stack']; cbn [trav] in T; [now inversion T; subst|].
      destruct ((0 <=? amount) && (amount <=? cnt)); [now inversion T; subst|].
      inversion HS as [|? ? Qe HS']; subst.
      destruct (ohas res (e_hash e)) eqn:OH; [exact (IH _ _ _ _ _ HS' HR T)|].
      assert (HR' : Forall Q (oslice (oset res (e_hash e) e))).
      { apply ohas_false in OH. rewrite (oset_fresh _ _ _ OH). unfold oslice. rewrite map_app.
        apply Forall_app. split; [exact HR|]. cbn [map snd]. now constructor. }
      destruct (match endh with Some h => N.eqb (e_hash e) h | None => false end);
        [now inversion T; subst|].
      pose proof (push_nexts_Q (e_next e) (stack', e_hash e :: seen, false) HS') as PQ.
      destruct (push_nexts entries (e_next e) (stack', e_hash e :: seen, false)) as [[st2 sn2] md] eqn:PN.
      cbn [fst] in PQ.
      refine (IH _ _ _ _ _ _ HR' T). destruct md; [now apply sort_desc_Q|exact PQ].
  Qed.

  Lemma get_all_Q hs : forall es, get_all entries hs = Some es -> Forall Q es.
  Proof.
    induction hs as [|h hs IH]; intros es G; cbn [get_all] in G; [inversion G; constructor|].
    destruct (oget entries h) as [e|] eqn:E; [|discriminate].
    destruct (get_all entries hs) as [r|]; [|discriminate]. inversion G; subst.
    constructor; [|now apply IH]. apply In_oslice. exists h. now apply oget_In.
  Qed.

  Theorem traverse_Q s roots amount endh out :
    Forall Q (oslice roots) -> traverse entries s roots amount endh = Some out -> Forall Q (oslice out).
  Proof.
    unfold traverse. intros HR T.
    refine (trav_Q s amount endh _ _ _ _ _ _ (sort_desc_Q s _ HR) _ T). constructor.
  Qed.
End Sound.

Lemma from_entries_Q entries l :
  Forall (fun e => In e (oslice entries)) l -> Forall (fun e => In e (oslice entries)) (oslice (from_entries l)).
Proof. rewrite !Forall_forall. intros H x Hx. apply H. now apply oslice_from_entries_subset. Qed.

Lemma iter_start_Q l o st :
  (forall k e, In (k, e) (l_heads l) -> In (k, e) (l_entries l)) ->
  iter_start l o = Ok st -> Forall (fun e => In e (oslice (l_entries l))) st.
Proof.
  intros HH S.
  assert (H0 : Forall (fun e => In e (oslice (l_entries l))) (oslice (sorted_heads l))).
  { unfold sorted_heads. apply from_entries_Q, sort_desc_Q. apply Forall_forall. intros e He.
    apply In_oslice in He. destruct He as [k He]. apply In_oslice. exists k. now apply HH. }
  unfold iter_start in S. destruct (it_lte o) as [hs|].
  - destruct (get_all (l_entries l) hs) as [es|] eqn:G; [|discriminate]. inversion S; subst.
    exact (get_all_Q _ _ _ G).
  - destruct (it_lt o) as [hs|]; [|now inversion S; subst].
    assert (G : forall (hs' : list hash) (acc : outcome (list entry)),
               (forall es, acc = Ok es -> Forall (fun e => In e (oslice (l_entries l))) es) ->
               fold_left (fun acc c =>
                 match acc with
                 | Ok _ => match oget (l_entries l) c with
                           | None => Err ELtNotFound
                           | Some e => match get_all (l_entries l) (e_next e) with
                                       | Some es => Ok es | None => Err ELtNotFound end
                           end
                 | other => other
                 end) hs' acc = Ok st -> Forall (fun e => In e (oslice (l_entries l))) st).
    { induction hs' as [|c hs' IH]; intros acc HA F; cbn [fold_left] in F; [now apply HA|].
      refine (IH _ _ F). intros es E. destruct acc as [a|k|]; try discriminate.
      destruct (oget (l_entries l) c) as [e|]; [|discriminate].
      destruct (get_all (l_entries l) (e_next e)) as [es'|] eqn:G; [|discriminate].
      inversion E; subst. exact (get_all_Q _ _ _ G). }
    refine (G hs _ _ S). intros es E. inversion E; subst. exact H0.
Qed.

Lemma iter_post_sub o es e : In e (iter_post o es) -> In e es.
Proof.
  unfold iter_post. set (es1 := match it_gt o with Some _ => removelast es | None => es end).
  assert (S1 : forall x, In x es1 -> In x es).
  { subst es1. destruct (it_gt o); [apply In_removelast_sub|auto]. }
  destruct (_ && _); intros H; apply S1; [now apply In_skipn_sub in H|exact H].
Qed.

(* every emitted entry is an entry of the log *)
Theorem iterator_sound l o es c :
  (forall k e, In (k, e) (l_heads l) -> In (k, e) (l_entries l)) ->
  iterator l o = Ok (es, c) -> forall e, In e es -> In e (oslice (l_entries l)).
Proof.
  intros HH I e He. unfold iterator in I.
  assert (I' : match iter_start l o with
               | Err k => Err k | Panic => Panic
               | Ok st => match traverse (l_entries l) (l_sort l) (from_entries st) (iter_count o) (iter_end o) with
                          | None => Panic | Some m => Ok (iter_post o (oslice m), true) end
               end = Ok (es, c) \/ es = []).
  { destruct (it_amount o) as [[| |]|]; try (now left). right. now inversion I. }
  clear I. destruct I' as [I| ->]; [|destruct He].
  destruct (iter_start l o) as [st| |] eqn:S; try discriminate.
  destruct (traverse _ _ _ _ _) as [m|] eqn:T; [|discriminate]. inversion I; subst.
  apply iter_post_sub in He.
  pose proof (traverse_Q _ _ _ _ _ _ (from_entries_Q _ _ (iter_start_Q l o st HH S)) T) as F.
  rewrite Forall_forall in F. now apply F.
Qed.
