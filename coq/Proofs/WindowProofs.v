(* "Sort, keep the last n" is insensitive to missing old elements: if R is a duplicate-free part
   of S that contains the n greatest elements of S, then the last n of sorted R are the last n
   of sorted S.  Generic in the element type and the (strict, total on P) order.              *)
From Coq Require Import List ZArith Bool Lia Permutation Sorted.
From IpfsLog Require Import Model.Order Proofs.SortProofs.
Import ListNotations.

Definition lastn {A} (n : nat) (l : list A) : list A := skipn (length l - n) l.

Lemma gosort_ext {A} (less1 less2 : A -> A -> bool) l :
  (forall a b, In a l -> In b l -> less1 a b = less2 a b) -> gosort less1 l = gosort less2 l.
Proof.
  intros H. unfold gosort. f_equal.
  assert (G : forall l0 acc, incl l0 l -> incl acc l ->
            fold_left (fun rp x => ins less1 x rp) l0 acc = fold_left (fun rp x => ins less2 x rp) l0 acc).
  { induction l0 as [|x l0 IH]; intros acc Hl Ha; cbn [fold_left]; [reflexivity|].
    assert (E : ins less1 x acc = ins less2 x acc).
    { clear IH. induction acc as [|y acc IHa]; cbn [ins]; [reflexivity|].
      rewrite (H x y (Hl x (or_introl eq_refl)) (Ha y (or_introl eq_refl))).
      destruct (less2 x y); [|reflexivity]. f_equal. apply IHa. intros z Hz. apply Ha. now right. }
    rewrite E. apply IH.
    - intros z Hz. apply Hl. now right.
    - intros z Hz. apply (Permutation_in _ (ins_perm _ less2 x acc)) in Hz.
      destruct Hz as [<-|Hz]; [apply Hl; now left|now apply Ha]. }
  apply G; [apply incl_refl|intros z []].
Qed.

Section Window.
  Variable A : Type.
  Variable eq_dec : forall a b : A, {a = b} + {a <> b}.
  Variable less : A -> A -> bool.
  Variable P : A -> Prop.
  Hypothesis less_irrefl : forall a, P a -> less a a = false.
  Hypothesis less_trans : forall a b c, P a -> P b -> P c ->
      less a b = true -> less b c = true -> less a c = true.
  Hypothesis less_total : forall a b, P a -> P b -> a <> b -> less a b = true \/ less b a = true.

  Notation lt := (fun a b => less a b = true).
  Notation sorted := (StronglySorted lt).

  Lemma sorted_app_inv a b : sorted (a ++ b) ->
    sorted a /\ sorted b /\ (forall x y, In x a -> In y b -> less x y = true).
  Proof.
    induction a as [|x a IH]; cbn; intros H.
    - split; [constructor|]. split; [assumption|]. intros x y [].
    - inversion H as [|? ? Hs Hf]; subst. destruct (IH Hs) as [S1 [S2 S3]].
      rewrite Forall_forall in Hf. split; [|split; [assumption|]].
      + constructor; [assumption|]. rewrite Forall_forall. intros y Hy. apply Hf. apply in_or_app. now left.
      + intros y z [<-|Hy] Hz; [apply Hf; apply in_or_app; now right|auto].
  Qed.

  Lemma sorted_app_intro a b : sorted a -> sorted b ->
    (forall x y, In x a -> In y b -> less x y = true) -> sorted (a ++ b).
  Proof.
    induction a as [|x a IH]; cbn; intros Sa Sb H; [assumption|].
    inversion Sa as [|? ? Hs Hf]; subst. constructor.
    - apply IH; auto.
    - rewrite Forall_forall in *. intros y Hy. apply in_app_or in Hy. destruct Hy as [Hy|Hy]; auto.
  Qed.

  Lemma sorted_filter p l : sorted l -> sorted (filter p l).
  Proof.
    induction l as [|x l IH]; cbn; intros H; [constructor|]. inversion H as [|? ? Hs Hf]; subst.
    destruct (p x); [|auto]. constructor; [auto|].
    rewrite Forall_forall in *. intros y Hy. apply filter_In in Hy. apply Hf. tauto.
  Qed.

  Definition inb (x : A) (l : list A) : bool := if in_dec eq_dec x l then true else false.
  Lemma inb_true x l : inb x l = true <-> In x l.
  Proof. unfold inb. destruct (in_dec eq_dec x l); split; intros; auto; discriminate. Qed.
  Lemma inb_false x l : inb x l = false <-> ~ In x l.
  Proof. unfold inb. destruct (in_dec eq_dec x l); split; intros; auto; try discriminate. contradiction. Qed.

  Lemma filter_split_perm (p : A -> bool) l :
    Permutation l (filter (fun x => negb (p x)) l ++ filter p l).
  Proof.
    induction l as [|x l IH]; cbn; [constructor|]. destruct (p x); cbn.
    - rewrite IH at 1. apply Permutation_middle.
    - now constructor.
  Qed.

  Lemma skipn_NoDup n (l : list A) : NoDup l -> NoDup (skipn n l).
  Proof.
    revert l. induction n as [|n IH]; intros l H; cbn; [assumption|].
    destruct l; [constructor|]. inversion H; auto.
  Qed.

  Lemma skipn_In n (l : list A) x : In x (skipn n l) -> In x l.
  Proof. intros H. rewrite <- (firstn_skipn n l). apply in_or_app. now right. Qed.

  (* the main lemma *)
  Theorem window_lastn (R S : list A) n :
    Forall P S -> NoDup S -> NoDup R -> incl R S ->
    (forall e, In e (lastn n (gosort less S)) -> In e R) ->
    lastn n (gosort less R) = lastn n (gosort less S).
  Proof.
    intros HP HndS HndR Hi Htop.
    set (LS := gosort less S). set (LR := gosort less R).
    set (k := (length LS - n)%nat). set (T := skipn k LS). set (L1 := firstn k LS).
    assert (HLS : LS = L1 ++ T) by (symmetry; apply firstn_skipn).
    assert (HPS : forall x, In x S -> P x) by (rewrite Forall_forall in HP; exact HP).
    assert (HPR : Forall P R) by (rewrite Forall_forall; intros x Hx; apply HPS, Hi, Hx).
    assert (SS : sorted LS) by (apply (gosort_sorted A less P less_trans less_total); assumption).
    assert (SR : sorted LR) by (apply (gosort_sorted A less P less_trans less_total); assumption).
    rewrite HLS in SS. destruct (sorted_app_inv L1 T SS) as [S1 [ST S1T]].
    assert (HTR : forall e, In e T -> In e R) by (intros e He; apply Htop; exact He).
    assert (HinLS : forall x, In x LS <-> In x S) by (intros x; apply gosort_in).
    assert (HinLR : forall x, In x LR <-> In x R) by (intros x; apply gosort_in).
    set (X := filter (fun x => negb (inb x T)) LR).
    assert (HndLR : NoDup LR) by (apply gosort_nodup; assumption).
    assert (HndT : NoDup T) by (apply skipn_NoDup, gosort_nodup; assumption).
    assert (Hperm : Permutation LR (X ++ T)).
    { rewrite (filter_split_perm (fun x => inb x T) LR) at 1. apply Permutation_app_head.
      apply NoDup_Permutation; [now apply NoDup_filter|assumption|].
      intros x. rewrite filter_In, inb_true, HinLR. split; [tauto|]. intros Hx. split; auto. }
    assert (SXT : sorted (X ++ T)).
    { apply sorted_app_intro; [now apply sorted_filter|assumption|].
      intros x y Hx Hy. apply filter_In in Hx. destruct Hx as [Hx HxT].
      apply negb_true_iff, inb_false in HxT. apply S1T; [|assumption].
      assert (HxLS : In x LS) by (apply HinLS, Hi, HinLR, Hx).
      rewrite HLS in HxLS. apply in_app_or in HxLS. tauto. }
    assert (Heq : LR = X ++ T).
    { apply (sorted_unique A less P less_irrefl less_trans); auto.
      rewrite Forall_forall. intros x Hx. apply HPS, Hi, HinLR, Hx. }
    change (lastn n LR = T). rewrite Heq. unfold lastn. rewrite app_length.
    assert (HlenT : length T = (length LS - k)%nat) by (subst T; apply skipn_length).
    destruct (Nat.le_gt_cases n (length LS)) as [Hle|Hgt].
    - assert (length T = n) by (subst k; lia).
      replace (length X + length T - n)%nat with (length X + 0)%nat by lia.
      rewrite skipn_app. rewrite Nat.add_0_r, skipn_all.
      replace (length X - length X)%nat with 0%nat by lia. reflexivity.
    - assert (Hk : k = 0%nat) by (subst k; lia).
      assert (HX : X = []).
      { subst X. destruct (filter _ LR) as [|x xs] eqn:Ef; [reflexivity|]. exfalso.
        assert (Hx : In x (filter (fun x => negb (inb x T)) LR)) by (rewrite Ef; now left).
        apply filter_In in Hx. destruct Hx as [Hx HxT]. apply negb_true_iff, inb_false in HxT.
        apply HxT. subst T. rewrite Hk. cbn. apply HinLS, Hi, HinLR, Hx. }
      rewrite HX. cbn [length app]. replace (0 + length T - n)%nat with 0%nat by lia. reflexivity.
  Qed.

  (* which elements are among the last n of the sorted list: those with fewer than n greater ones *)
  Lemma lastn_sorted_In (S : list A) n e :
    Forall P S -> NoDup S -> In e S ->
    (length (filter (fun x => less e x) S) < n)%nat -> In e (lastn n (gosort less S)).
  Proof.
    intros HP Hnd He Hcnt.
    set (LS := gosort less S). set (k := (length LS - n)%nat).
    assert (HPS : forall x, In x S -> P x) by (rewrite Forall_forall in HP; exact HP).
    assert (SS : sorted LS) by (apply (gosort_sorted A less P less_trans less_total); assumption).
    assert (HLS : LS = firstn k LS ++ skipn k LS) by (symmetry; apply firstn_skipn).
    unfold lastn. fold LS. fold k.
    assert (HeLS : In e LS) by (apply gosort_in; assumption).
    rewrite HLS in HeLS. apply in_app_or in HeLS. destruct HeLS as [He1|He2]; [|assumption].
    exfalso. rewrite HLS in SS. destruct (sorted_app_inv _ _ SS) as [_ [_ S1T]].
    (* every element of the suffix is greater than e, so there are at least n greater elements *)
    assert (Hsuf : incl (skipn k LS) (filter (fun x => less e x) S)).
    { intros x Hx. apply filter_In. split; [apply (gosort_in A less), skipn_In with (n := k), Hx|].
      now apply S1T. }
    assert (HndSuf : NoDup (skipn k LS)) by (apply skipn_NoDup, gosort_nodup; assumption).
    pose proof (NoDup_incl_length HndSuf Hsuf) as Hlen. rewrite skipn_length in Hlen.
    destruct (Nat.le_gt_cases n (length LS)) as [Hle|Hgt].
    - subst k. lia.
    - assert (Hk0 : k = 0%nat) by (subst k; lia). rewrite Hk0 in He1. cbn in He1. contradiction.
  Qed.
  (* conversely, an element of the last n has fewer than n greater elements *)
  Lemma lastn_sorted_count (S : list A) n e :
    Forall P S -> NoDup S -> In e (lastn n (gosort less S)) ->
    (length (filter (fun x => less e x) S) < n)%nat.
  Proof.
    intros HP Hnd He.
    set (LS := gosort less S) in *. set (k := (length LS - n)%nat).
    assert (HPS : forall x, In x S -> P x) by (rewrite Forall_forall in HP; exact HP).
    assert (SS : sorted LS) by (apply (gosort_sorted A less P less_trans less_total); assumption).
    assert (HLS : LS = firstn k LS ++ skipn k LS) by (symmetry; apply firstn_skipn).
    unfold lastn in He. fold k in He.
    assert (HeS : In e S) by (apply (gosort_in A less), skipn_In with (n := k), He).
    rewrite HLS in SS. destruct (sorted_app_inv _ _ SS) as [_ [_ S1T]].
    assert (Hinc : incl (e :: filter (fun x => less e x) S) (skipn k LS)).
    { intros x [<-|Hx]; [assumption|]. apply filter_In in Hx. destruct Hx as [HxS Hlt].
      assert (HxLS : In x LS) by (apply gosort_in; assumption).
      rewrite HLS in HxLS. apply in_app_or in HxLS. destruct HxLS as [Hx1|Hx2]; [|assumption].
      exfalso. pose proof (S1T x e Hx1 He) as Hxe.
      rewrite (less_asym A less P less_irrefl less_trans x e (HPS x HxS) (HPS e HeS) Hxe) in Hlt.
      discriminate. }
    assert (Hnd2 : NoDup (e :: filter (fun x => less e x) S)).
    { constructor; [|now apply NoDup_filter]. intro Hin. apply filter_In in Hin.
      destruct Hin as [_ Hlt]. rewrite (less_irrefl e (HPS e HeS)) in Hlt. discriminate. }
    pose proof (NoDup_incl_length Hnd2 Hinc) as Hlen. cbn [length] in Hlen.
    rewrite skipn_length in Hlen.
    assert (length LS > 0)%nat.
    { destruct LS; [|cbn; lia]. subst k. cbn in He. contradiction. }
    assert (n > 0)%nat.
    { destruct n; [|lia]. exfalso. subst k. rewrite Nat.sub_0_r, skipn_all in He. contradiction. }
    subst k. lia.
  Qed.
End Window.
