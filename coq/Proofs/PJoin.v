(* Join - unbounded or bounded, from or into logs that earlier bounded joins have truncated -
   preserves the partial-log invariant [pinv] (PInv.v): in particular the heads it computes are
   exactly the unreferenced entries and its reverse next index is exact, for EVERY pair of logs. *)
From Coq Require Import List ZArith Bool Lia Permutation.
From IpfsLog Require Import Model.Log Proofs.OmapProofs Proofs.SortProofs Proofs.Inv Proofs.DiffProofs
     Proofs.JoinProofs Proofs.TravProofs Proofs.AppendProofs Proofs.BoundedProofs Proofs.PInv.
Import ListNotations.
Open Scope Z_scope.

(* ---- difference, without causal closure: what it returns is new, comes from the other log, and
        every returned entry is a head of the other log or a predecessor of a returned entry;
        every head of the other log is known already or returned ---- *)
Section PDiff.
  Variables (U : list entry) (l o : log).
  Hypothesis UO : univ_ok U.
  Hypothesis Il : pinv U l.
  Hypothesis Io : pinv U o.
  Hypothesis SameId : l_id l = l_id o.

  Let roots := map e_hash (oslice (l_heads o)).

  Lemma pheads_in_entries_o k v : In (k, v) (l_heads o) -> In (k, v) (l_entries o).
  Proof. intros H. now apply (pi_heads _ _ Io) in H. Qed.

  Theorem pdifference_spec newitems :
    difference (l_entries o) (oslice (l_heads o)) l = Some newitems ->
    NoDup (okeys newitems) /\
    (forall k v, In (k, v) newitems -> In (k, v) (l_entries o) /\ ~ In k (okeys (l_entries l))) /\
    (forall k v, In (k, v) newitems ->
       In (k, v) (l_heads o) \/ exists k' v', In (k', v') newitems /\ In k (e_next v')) /\
    (forall k v, In (k, v) (l_heads o) -> In k (okeys (l_entries l)) \/ In (k, v) newitems).
  Proof.
    unfold difference. destruct ((olen (l_entries o) =? 0) || (Z.of_nat (length (oslice (l_heads o))) =? 0)) eqn:E.
    - intros H. injection H as <-. split; [constructor|]. split; [intros k v []|]. split; [intros k v []|].
      intros k v Hh. exfalso. apply orb_true_iff in E. destruct E as [E|E]; apply Z.eqb_eq in E.
      + apply pheads_in_entries_o in Hh. unfold olen in E. destruct (l_entries o); [destruct Hh|cbn in E; lia].
      + unfold oslice in E. destruct (l_heads o); [destruct Hh|cbn in E; lia].
    - intros H. apply diff_loop_spec in H. fold roots in H. destruct H as [A B]. split; [exact A|].
      assert (S2 : forall k v, In (k, v) newitems -> In (k, v) (l_entries o) /\ ~ In k (okeys (l_entries l))).
      { intros k v Hin. apply B in Hin. destruct Hin as [_ [G [O _]]]. split; [now apply oget_In|now apply ohas_false]. }
      split; [exact S2|]. split.
      + intros k v Hin. pose proof Hin as Hin0. apply B in Hin. destruct Hin as [GR OK].
        destruct GR as [k Hr|h e' k GR OKh Hn].
        * left. unfold roots in Hr. apply in_map_iff in Hr. destruct Hr as [v' [Hk Hv']].
          apply In_oslice in Hv'. destruct Hv' as [k' Hv'].
          pose proof (pheads_well_keyed _ _ Io _ _ Hv') as Hk'. rewrite Hk in Hk'. subst k'.
          assert (v' = v).
          { apply pheads_in_entries_o in Hv'. destruct (S2 _ _ Hin0) as [Hv _].
            pose proof (In_oget _ _ _ (pi_nodup _ _ Io) Hv'). pose proof (In_oget _ _ _ (pi_nodup _ _ Io) Hv). congruence. }
          now subst.
        * right. exists h, e'. split; [|exact Hn]. apply B. auto.
      + intros k v Hh. destruct (in_dec N.eq_dec k (okeys (l_entries l))) as [Hin|Hn]; [now left|right].
        apply B. split.
        * apply gr_root. unfold roots. apply in_map_iff. exists v. split; [now apply (pheads_well_keyed _ _ Io)|].
          apply In_oslice. eauto.
        * pose proof (pheads_in_entries_o _ _ Hh) as He. repeat split.
          -- apply In_oget; auto. apply (pi_nodup _ _ Io).
          -- now apply ohas_false.
          -- rewrite SameId. apply (pi_logid _ _ Io). apply ents_In. eauto.
          -- now apply (pi_in_U _ _ Io) in He.
  Qed.
End PDiff.

(* ---- the traversal returns distinct entries of the log ---- *)
Lemma trav_nodup entries s amount endh fuel : forall stack seen res cnt out,
  NoDup (okeys res) -> trav fuel entries s amount endh stack seen res cnt = Some out -> NoDup (okeys out).
Proof.
  induction fuel as [|f IH]; intros stack seen res cnt out Hnd; destruct stack as [|e stack']; cbn [trav].
  - intros H; injection H as <-; auto.
  - destruct (_ && _); [intros H; injection H as <-; auto|discriminate].
  - intros H; injection H as <-; auto.
  - destruct (_ && _); [intros H; injection H as <-; auto|].
    destruct (ohas res (e_hash e)); [apply IH; auto|].
    destruct (match endh with Some h => N.eqb (e_hash e) h | None => false end).
    + intros H; injection H as <-. now apply NoDup_okeys_oset.
    + fold (push_nexts entries (e_next e) (stack', e_hash e :: seen, false)).
      destruct (push_nexts entries (e_next e) (stack', e_hash e :: seen, false)) as [[stack'' seen''] md].
      apply IH. now apply NoDup_okeys_oset.
Qed.

Lemma okeys_rev (m : omap) : okeys (rev m) = rev (okeys m).
Proof. unfold okeys. now rewrite map_rev. Qed.

(* what Values() returns: distinct entries of the log, keyed by their hashes *)
Lemma values_sound l vals :
  well_keyed (l_entries l) -> (forall k v, In (k, v) (l_heads l) -> In (k, v) (l_entries l)) ->
  values l = Some vals ->
  NoDup (okeys vals) /\ forall k v, In (k, v) vals -> In (k, v) (l_entries l).
Proof.
  intros WK HH. unfold values. destruct (traverse (l_entries l) (l_sort l) (l_heads l) (-1) None) as [res|] eqn:T; [|discriminate].
  intros H. injection H as <-. unfold traverse in T. split.
  - rewrite okeys_rev. apply NoDup_rev. eapply trav_nodup; [|exact T]. constructor.
  - intros k v Hin. apply in_rev in Hin.
    destruct (trav_result_sources _ _ _ _ _ _ _ _ _ _ T k v Hin) as [[]|[Hk [Hs|[c Hg]]]].
    + apply sort_desc_In in Hs. apply In_oslice in Hs. destruct Hs as [k' Hs]. apply HH in Hs.
      pose proof (WK _ _ Hs). subst k' k. exact Hs.
    + apply oget_In in Hg. pose proof (WK _ _ Hg). subst c k. exact Hg.
Qed.

(* ---- a log rebuilt from a list of distinct entries of the universe (what a bounded join leaves) ---- *)
Section Rebuilt.
  Variables (U : list entry) (tmp : list entry) (id : N) (t0 : Z) (cid key : N) (s : sortfn) (deny : list N).
  Hypothesis UO : univ_ok U.
  Hypothesis TU : forall v, In v tmp -> In v U.
  Hypothesis TL : forall v, In v tmp -> e_logid v = id.
  Hypothesis TN : NoDup (map e_hash tmp).

  Let ents2 := from_entries tmp.
  Let heads2 := from_entries (find_heads (from_entries tmp)).
  Let nx2 := fold_left (fun nx e => fold_left (fun nx n => oset nx n e) (e_next e) nx) tmp [].

  Theorem pinv_rebuilt :
    pinv U (mkLog id ents2 heads2 nx2 (Z.max t0 (max_time (oslice heads2) 0)) cid key s deny).
  Proof.
    assert (HE : forall k v, In (k, v) ents2 <-> In v tmp /\ e_hash v = k) by (intros; now apply from_entries_iff).
    assert (HS : forall v, In v (oslice ents2) <-> In v tmp) by (intros; now apply oslice_from_entries_iff).
    assert (HNm : forall n, named_in (oslice ents2) n <-> named_in tmp n).
    { intros n. apply named_in_perm. exact HS. }
    assert (HH : forall k e, In (k, e) heads2 <-> In (k, e) ents2 /\ ~ named_in (oslice ents2) k).
    { intros k v. unfold heads2. rewrite from_entries_iff by (apply find_heads_hashes_nodup, from_entries_hashes_nodup).
      rewrite find_heads_In. fold ents2. rewrite HS, HE, HNm. unfold named_in.
      assert (X : forall h, In h (all_nexts (oslice ents2)) <-> In h (all_nexts tmp)) by (intros h; apply (HNm h)).
      split.
      - intros [[H1 H2] H3]. repeat split; auto. rewrite <- H3. intro Hc. apply H2. now apply X.
      - intros [[H1 H2] H3]. repeat split; auto. rewrite H2. intro Hc. apply H3. now apply X. }
    split; cbn [l_entries l_heads l_next l_time l_id]; unfold ents; cbn [l_entries].
    - apply (from_entries_props tmp).
    - intros k v H. apply HE in H. destruct H as [H1 H2]. split; [now apply TU|exact H2].
    - intros v Hv. apply HS in Hv. now apply TL.
    - apply (from_entries_props _).
    - exact HH.
    - intros n. unfold nx2. rewrite next_index_keys, HNm. cbn. tauto.
    - intros v Hv. apply In_oslice in Hv. destruct Hv as [k Hin].
      destruct (climb U ents2 heads2 UO) with (k := k) (v := v) as [kh [hd [Hh Ht]]]; auto.
      + intros k0 e0 H0. apply HE in H0. destruct H0 as [H1 H2]. split; [now apply TU|exact H2].
      + assert (In hd (oslice heads2)) by (apply In_oslice; eauto).
        pose proof (max_time_In (oslice heads2) 0 hd H). lia.
  Qed.
End Rebuilt.

Section PJoinU.
  Variables (U : list entry) (l o : log).
  Hypothesis UO : univ_ok U.
  Hypothesis Il : pinv U l.
  Hypothesis Io : pinv U o.
  Hypothesis SameId : l_id l = l_id o.
  Variable newitems : omap.
  Hypothesis D : difference (l_entries o) (oslice (l_heads o)) l = Some newitems.

  Let NI := pdifference_spec U l o Io SameId newitems D.

  Lemma pni_nodup : NoDup (okeys newitems).
  Proof. exact (proj1 NI). Qed.
  Lemma pni_sound k v : In (k, v) newitems -> In (k, v) (l_entries o) /\ ~ In k (okeys (l_entries l)).
  Proof. exact (proj1 (proj2 NI) k v). Qed.
  Lemma pni_from k v : In (k, v) newitems ->
    In (k, v) (l_heads o) \/ exists k' v', In (k', v') newitems /\ In k (e_next v').
  Proof. exact (proj1 (proj2 (proj2 NI)) k v). Qed.
  Lemma pni_heads k v : In (k, v) (l_heads o) -> In k (okeys (l_entries l)) \/ In (k, v) newitems.
  Proof. exact (proj2 (proj2 (proj2 NI)) k v). Qed.
  Lemma pni_wk : well_keyed newitems.
  Proof. intros k v H. apply pni_sound in H. destruct H as [H _]. now apply (pi_in_U _ _ Io) in H. Qed.

  Notation jents := (j_ents l newitems).
  Notation jnx := (j_nx l newitems).
  Notation jheads := (j_heads l o newitems).

  Lemma pj_ents_spec :
    NoDup (okeys jents) /\
    forall k v, In (k, v) jents <-> In (k, v) (l_entries l) \/ In (k, v) newitems.
  Proof.
    unfold j_ents. rewrite fold_entries_as_pairs, (oslice_pairs _ pni_wk).
    destruct (fold_oset_pairs newitems (l_entries l) (pi_nodup _ _ Il)) as [A B].
    - intros k v1 v2 H1 H2. rewrite in_app_iff in H1, H2.
      destruct H1 as [H1|H1], H2 as [H2|H2].
      + exact (NoDup_functional _ (pi_nodup _ _ Il) k v1 v2 H1 H2).
      + apply pni_sound in H2. destruct H2 as [_ H2]. exfalso. apply H2. apply In_okeys. eauto.
      + apply pni_sound in H1. destruct H1 as [_ H1]. exfalso. apply H1. apply In_okeys. eauto.
      + exact (NoDup_functional _ pni_nodup k v1 v2 H1 H2).
    - split; [exact A|]. intros k v. rewrite B, in_app_iff. tauto.
  Qed.

  Lemma pj_ents_slice e : In e (oslice jents) <-> In e (ents l) \/ In e (oslice newitems).
  Proof.
    rewrite !In_oslice. unfold ents. rewrite In_oslice. split.
    - intros [k H]. apply (proj2 pj_ents_spec) in H. destruct H; eauto.
    - intros [[k H]|[k H]]; exists k; apply (proj2 pj_ents_spec); auto.
  Qed.

  Lemma pj_named n : named_in (oslice jents) n <-> named_in (ents l) n \/ named_in (oslice newitems) n.
  Proof.
    rewrite !named_in_iff. split.
    - intros [e [He Hn]]. apply pj_ents_slice in He. destruct He; [left|right]; eauto.
    - intros [[e [He Hn]]|[e [He Hn]]]; exists e; (split; [apply pj_ents_slice; auto|auto]).
  Qed.

  Lemma pj_nx_keys n : In n (okeys jnx) <-> named_in (oslice jents) n.
  Proof.
    rewrite pj_named. unfold j_nx. rewrite next_index_keys. now rewrite (pi_next _ _ Il n).
  Qed.

  Lemma pheads_in_entries_l k e : In (k, e) (l_heads l) -> In (k, e) (l_entries l).
  Proof. intros H. now apply (pi_heads _ _ Il) in H. Qed.

  Lemma pomerge_spec :
    NoDup (okeys (omerge (l_heads l) (l_heads o))) /\
    forall k v, In (k, v) (omerge (l_heads l) (l_heads o)) <-> In (k, v) (l_heads l) \/ In (k, v) (l_heads o).
  Proof.
    unfold omerge.
    destruct (fold_oset_pairs (l_heads l) [] (NoDup_nil _)) as [A B].
    { cbn [app]. apply NoDup_functional, (pi_heads_nodup _ _ Il). }
    cbn zeta in A, B.
    destruct (fold_oset_pairs (l_heads o) _ A) as [A' B'].
    { intros k v1 v2 H1 H2. rewrite in_app_iff in H1, H2. rewrite B in H1, H2. cbn [app] in H1, H2.
      destruct H1 as [H1|H1], H2 as [H2|H2].
      - exact (NoDup_functional _ (pi_heads_nodup _ _ Il) k v1 v2 H1 H2).
      - eapply (pinv_agree U l o); eauto using pheads_in_entries_l, (pheads_in_entries_o U o Io).
      - symmetry. eapply (pinv_agree U l o); eauto using pheads_in_entries_l, (pheads_in_entries_o U o Io).
      - exact (NoDup_functional _ (pi_heads_nodup _ _ Io) k v1 v2 H1 H2). }
    cbn zeta in A', B'. split; [exact A'|]. intros k v. rewrite B', in_app_iff, B. cbn [app]. tauto.
  Qed.

  Lemma pomerge_wk : well_keyed (omerge (l_heads l) (l_heads o)).
  Proof.
    intros k v H. apply (proj2 pomerge_spec) in H. destruct H as [H|H].
    - now apply (pheads_well_keyed _ _ Il).
    - now apply (pheads_well_keyed _ _ Io).
  Qed.

  (* a head of the other log is in the merged log *)
  Lemma pheads_o_in_j k v : In (k, v) (l_heads o) -> In (k, v) jents.
  Proof.
    intros H. apply (proj2 pj_ents_spec). destruct (pni_heads _ _ H) as [Hin|Hin]; [left|now right].
    apply In_okeys in Hin. destruct Hin as [x Hx].
    assert (x = v) by (eapply (pinv_agree U l o); eauto using (pheads_in_entries_o U o Io)). now subst.
  Qed.

  (* the heads of a source satisfying [pinv] are entries of the merged log: looking them up changes nothing *)
  Lemma pown_heads_o : own_heads jents (l_heads o) = l_heads o.
  Proof.
    apply own_heads_id; [apply (pi_heads_nodup _ _ Io)|].
    intros k v H. apply In_oget; [apply (proj1 pj_ents_spec)|]. now apply pheads_o_in_j.
  Qed.

  Lemma pj_heads_spec :
    NoDup (okeys jheads) /\
    forall k e, In (k, e) jheads <-> In (k, e) jents /\ ~ named_in (oslice jents) k.
  Proof.
    unfold j_heads, from_opt_entries. rewrite from_opt_filter.
    set (c := fun e => mem (e_hash e) (all_nexts (oslice newitems)) || ohas jnx (e_hash e)).
    set (L := filter (fun e => negb (c e)) (find_heads (omerge (l_heads l) (l_heads o)))).
    change (fold_left (fun m e => oset m (e_hash e) e) L []) with (from_entries L).
    destruct (from_entries_props L) as [A [B C]]. split; [exact A|].
    assert (HL : forall e, In e L <->
              (In (e_hash e, e) (l_heads l) \/ In (e_hash e, e) (l_heads o)) /\
              ~ In (e_hash e) (all_nexts (oslice (omerge (l_heads l) (l_heads o)))) /\
              ~ named_in (oslice jents) (e_hash e)).
    { intros e. unfold L. rewrite filter_In, find_heads_In, In_oslice. unfold c.
      rewrite negb_true_iff, orb_false_iff, mem_false, ohas_false, pj_nx_keys. split.
      - intros [[[k Hk] Hn] [_ Hj]]. pose proof (pomerge_wk _ _ Hk). subst k.
        apply (proj2 pomerge_spec) in Hk. auto.
      - intros [Hk [Hn Hj]]. repeat split; auto.
        + exists (e_hash e). now apply (proj2 pomerge_spec).
        + intros Hc. apply Hj. apply pj_named. right. exact Hc. }
    assert (HLnd : NoDup (map e_hash L)).
    { unfold L. apply NoDup_map_filter. unfold find_heads.
      eapply Permutation_NoDup; [apply Permutation_map; symmetry; apply gosort_perm|].
      apply NoDup_map_filter.
      replace (map e_hash (oslice (omerge (l_heads l) (l_heads o)))) with (okeys (omerge (l_heads l) (l_heads o))).
      - apply (proj1 pomerge_spec).
      - unfold okeys, oslice. rewrite map_map. apply map_ext_in. intros [k' e'] Hin. cbn. symmetry. now apply pomerge_wk. }
    intros k e. split.
    - intros H. apply from_entries_In in H. destruct H as [HLe Hk]. subst k. apply HL in HLe.
      destruct HLe as [Hside [_ Hj]]. split; [|exact Hj].
      destruct Hside as [H|H].
      + apply (proj2 pj_ents_spec). left. now apply pheads_in_entries_l.
      + now apply pheads_o_in_j.
    - intros [Hin Hj].
      assert (Hk : e_hash e = k).
      { apply (proj2 pj_ents_spec) in Hin. destruct Hin as [Hin|Hin]; [now apply (pi_in_U _ _ Il) in Hin|now apply pni_wk]. }
      subst k. apply from_entries_complete; auto. apply HL.
      assert (Hside : In (e_hash e, e) (l_heads l) \/ In (e_hash e, e) (l_heads o)).
      { apply (proj2 pj_ents_spec) in Hin. destruct Hin as [Hin|Hin].
        - left. apply (pi_heads _ _ Il). split; [auto|]. intros Hc. apply Hj. apply pj_named. now left.
        - right. destruct (pni_from _ _ Hin) as [Hh|[k' [v' [Hin' Hn]]]]; [exact Hh|].
          exfalso. apply Hj. apply pj_named. right. apply named_in_iff. exists v'. split; [|exact Hn].
          apply In_oslice. eauto. }
      split; [exact Hside|]. split; [|exact Hj].
      intros Hc. apply Hj. apply named_in_iff.
      change (In (e_hash e) (all_nexts (oslice (omerge (l_heads l) (l_heads o))))) with
             (named_in (oslice (omerge (l_heads l) (l_heads o))) (e_hash e)) in Hc.
      apply named_in_iff in Hc. destruct Hc as [x [Hx Hn]]. exists x. split; [|auto].
      apply In_oslice in Hx. destruct Hx as [kx Hx]. apply (proj2 pomerge_spec) in Hx.
      apply In_oslice. exists kx. destruct Hx as [Hx|Hx].
      + apply (proj2 pj_ents_spec). left. now apply pheads_in_entries_l.
      + now apply pheads_o_in_j.
  Qed.

  Lemma pj_in_U k e : In (k, e) jents -> In e U /\ e_hash e = k.
  Proof.
    intros H. apply (proj2 pj_ents_spec) in H. destruct H as [H|H]; [now apply (pi_in_U _ _ Il)|].
    apply pni_sound in H. destruct H as [H _]. now apply (pi_in_U _ _ Io).
  Qed.

  Lemma pj_logid e : In e (oslice jents) -> e_logid e = l_id l.
  Proof.
    intros He. apply pj_ents_slice in He. destruct He as [He|He]; [now apply (pi_logid _ _ Il)|].
    apply In_oslice in He. destruct He as [k He]. apply pni_sound in He. destruct He as [He _].
    rewrite SameId. apply (pi_logid _ _ Io). apply ents_In. eauto.
  Qed.

  (* times: every entry of the merged log is at most as new as the newest head or the clock *)
  Lemma pj_time e : In e (oslice jents) -> e_time e <= Z.max (l_time l) (max_time (oslice jheads) 0).
  Proof.
    destruct pj_ents_spec as [EN ES]. destruct pj_heads_spec as [HN HS].
    intros He. apply pj_ents_slice in He. destruct He as [He|He].
    - pose proof (pi_time _ _ Il _ He). lia.
    - apply In_oslice in He. destruct He as [k He].
      assert (Hin : In (k, e) jents) by (apply ES; auto).
      destruct (climb U jents jheads UO) with (k := k) (v := e) as [kh [hd [Hh Ht]]]; auto.
      + exact pj_in_U.
      + assert (In hd (oslice jheads)) by (apply In_oslice; eauto).
        pose proof (max_time_In (oslice jheads) 0 hd H). lia.
  Qed.

  Theorem pinv_join_unbounded : pinv U (j_log l o newitems).
  Proof.
    destruct pj_ents_spec as [EN ES]. destruct pj_heads_spec as [HN HS].
    split; cbn [j_log l_entries l_heads l_next l_time l_id]; unfold ents; cbn [l_entries].
    - exact EN.
    - exact pj_in_U.
    - exact pj_logid.
    - exact HN.
    - exact HS.
    - exact pj_nx_keys.
    - exact pj_time.
  Qed.
  (* the bounded branch: the last [size] entries of the linearisation of the merged log, rebuilt *)
  Theorem pinv_join_bounded size vals :
    values (mkLog (l_id l) jents jheads jnx (l_time l) (l_cid l) (l_key l) (l_sort l) (l_deny l)) = Some vals ->
    let tmp := if size <? olen vals then skipn (Z.to_nat (olen vals - size)) (oslice vals) else oslice vals in
    let heads2 := from_entries (find_heads (from_entries tmp)) in
    pinv U (mkLog (l_id l) (from_entries tmp) heads2
                  (fold_left (fun nx e => fold_left (fun nx n => oset nx n e) (e_next e) nx) tmp [])
                  (Z.max (l_time l) (max_time (oslice heads2) 0)) (l_cid l) (l_key l) (l_sort l) (l_deny l)).
  Proof.
    intros V. destruct pj_ents_spec as [EN ES]. destruct pj_heads_spec as [HN HS].
    apply values_sound in V; cbn [l_entries l_heads].
    2:{ intros k v H. now apply pj_in_U in H. }
    2:{ intros k v H. now apply HS in H. }
    destruct V as [VN VS]. cbn zeta.
    set (tmp := if size <? olen vals then skipn (Z.to_nat (olen vals - size)) (oslice vals) else oslice vals).
    assert (Hsub : forall v, In v tmp -> In v (oslice vals)).
    { intros v. unfold tmp. destruct (size <? olen vals); [apply skipn_In|auto]. }
    assert (Hj : forall v, In v tmp -> In (e_hash v, v) jents).
    { intros v Hv. apply Hsub in Hv. apply In_oslice in Hv. destruct Hv as [k Hv]. apply VS in Hv.
      pose proof (proj2 (pj_in_U _ _ Hv)). now subst. }
    apply pinv_rebuilt; auto.
    - intros v Hv. apply Hj in Hv. now apply pj_in_U in Hv.
    - intros v Hv. apply Hj in Hv. apply pj_logid. apply In_oslice. eauto.
    - assert (E : map e_hash (oslice vals) = okeys vals).
      { unfold okeys, oslice. rewrite map_map. apply map_ext_in. intros [k' e'] Hin. cbn.
        apply VS in Hin. now apply pj_in_U in Hin. }
      unfold tmp. destruct (size <? olen vals); [rewrite map_skipn; apply skipn_NoDup|]; rewrite E; exact VN.
  Qed.
End PJoinU.

(* ---- Join, any bound, any two logs ---- *)
Theorem pinv_join U l o same size l' out :
  univ_ok U -> pinv U l -> pinv U o -> join l o same size = (l', out) -> pinv U l'.
Proof.
  intros UO Il Io. unfold join, join_reads.
  destruct same; [intros H; injection H as <- _; exact Il|].
  destruct (N.eqb_spec (l_id l) (l_id o)) as [Hid|Hid]; cbn [negb]; [|intros H; injection H as <- _; exact Il].
  destruct (difference (l_entries o) (oslice (l_heads o)) l) as [ni|] eqn:D; [|intros H; injection H as <- _; exact Il].
  destruct (forallb (entry_ok l) (oslice ni)); cbn [negb]; [|intros H; injection H as <- _; exact Il].
  fold_j_ents l ni. rewrite (pown_heads_o U l o UO Il Io Hid ni D).
  destruct (size <? 0).
  - intros H. injection H as <- _. exact (pinv_join_unbounded U l o UO Il Io Hid ni D).
  - match goal with |- context [values ?x] => destruct (values x) as [vals|] eqn:V end;
      [|intros H; injection H as <- _; exact Il].
    intros H. injection H as <- _.
    exact (pinv_join_bounded U l o UO Il Io Hid ni D size vals V).
Qed.

(* ---- the heads of a merge are the log's own entries, WHATEVER the other log presents as heads ----
   No assumption on [l_heads o] (forged objects, entries of other logs, unknown hashes), none on
   closure or provenance of [o]'s entries beyond their being stored under their own hashes. *)
Lemma In_oset_sound (m : omap) k0 v0 k v : In (k, v) (oset m k0 v0) -> (k = k0 /\ v = v0) \/ In (k, v) m.
Proof.
  induction m as [|[k2 v2] m IH]; cbn [oset].
  - intros [H|[]]. injection H as <- <-. auto.
  - destruct (N.eqb_spec k0 k2).
    + intros [H|H]; [injection H as <- <-; auto|right; now right].
    + intros [H|H]; [right; now left|]. destruct (IH H) as [?|?]; auto. right. now right.
Qed.

Lemma fold_pairs_sound (ps : omap) : forall m k v,
  In (k, v) (fold_left (fun m kv => oset m (fst kv) (snd kv)) ps m) -> In (k, v) m \/ In (k, v) ps.
Proof.
  induction ps as [|[k0 v0] ps IH]; intros m k v H; cbn [fold_left fst snd] in H; [auto|].
  destruct (IH _ _ _ H) as [Hm|Hp]; [|right; now right].
  destruct (In_oset_sound _ _ _ _ _ Hm) as [[-> ->]|?]; [right; now left|auto].
Qed.

(* the merged entry map for an ARBITRARY other log: the held entries, untouched, plus new items that
   are filed under their own hashes, none of which the log knew *)
Lemma merged_entries_arbitrary U l o ni :
  pinv U l -> difference (l_entries o) (oslice (l_heads o)) l = Some ni ->
  NoDup (okeys (j_ents l ni)) /\ well_keyed (j_ents l ni) /\
  forall k v, In (k, v) (j_ents l ni) <-> In (k, v) (l_entries l) \/ In (k, v) ni.
Proof.
  intros Il D.
  assert (NI : NoDup (okeys ni) /\ forall k v, In (k, v) ni -> e_hash v = k /\ ~ In k (okeys (l_entries l))).
  { unfold difference in D. destruct (_ || _); [injection D as <-; split; [constructor|intros k v []]|].
    apply diff_loop_spec in D. destruct D as [A B]. split; [exact A|].
    intros k v Hin. apply B in Hin. destruct Hin as [_ [_ [O [_ HH]]]]. split; [exact HH|now apply ohas_false]. }
  destruct NI as [NIn NIs].
  assert (WKn : well_keyed ni) by (intros k v Hin; now apply NIs).
  assert (ES : NoDup (okeys (j_ents l ni)) /\ forall k v, In (k, v) (j_ents l ni) <-> In (k, v) (l_entries l) \/ In (k, v) ni).
  { unfold j_ents. rewrite fold_entries_as_pairs, (oslice_pairs _ WKn).
    destruct (fold_oset_pairs ni (l_entries l) (pi_nodup _ _ Il)) as [A B].
    - intros k v1 v2 H1 H2. rewrite in_app_iff in H1, H2. destruct H1 as [H1|H1], H2 as [H2|H2].
      + exact (NoDup_functional _ (pi_nodup _ _ Il) k v1 v2 H1 H2).
      + exfalso. apply (proj2 (NIs _ _ H2)). apply In_okeys. eauto.
      + exfalso. apply (proj2 (NIs _ _ H1)). apply In_okeys. eauto.
      + exact (NoDup_functional _ NIn k v1 v2 H1 H2).
    - split; [exact A|]. intros k v. rewrite B, in_app_iff. tauto. }
  destruct ES as [EN ES]. split; [exact EN|]. split; [|exact ES].
  intros k v Hin. apply ES in Hin. destruct Hin as [Hin|Hin]; [now apply (pi_in_U _ _ Il) in Hin|now apply NIs].
Qed.

(* whatever the other log is - no assumption on it at all - an unbounded merge keeps every held
   entry under its hash, unchanged *)
Theorem join_keeps_held_entries U l o same size l' out :
  pinv U l -> size < 0 -> join l o same size = (l', out) ->
  forall k v, In (k, v) (l_entries l) -> In (k, v) (l_entries l').
Proof.
  intros Il Hs. unfold join, join_reads.
  destruct same; [intros H; injection H as <- _; auto|].
  destruct (N.eqb (l_id l) (l_id o)); cbn [negb]; [|intros H; injection H as <- _; auto].
  destruct (difference (l_entries o) (oslice (l_heads o)) l) as [ni|] eqn:D; [|intros H; injection H as <- _; auto].
  destruct (forallb (entry_ok l) (oslice ni)); cbn [negb]; [|intros H; injection H as <- _; auto].
  assert (E : size <? 0 = true) by (apply Z.ltb_lt; lia). rewrite E.
  fold_j_ents l ni. intros H. injection H as <- _. cbn [l_entries]. intros k v Hin.
  apply (proj2 (proj2 (merged_entries_arbitrary U l o ni Il D))). now left.
Qed.

Theorem join_heads_are_own_entries U l o size l' :
  pinv U l -> size < 0 ->
  join l o false size = (l', Ok tt) ->
  forall k v, In (k, v) (l_heads l') -> In (k, v) (l_entries l').
Proof.
  intros Il Hs. unfold join, join_reads.
  destruct (N.eqb_spec (l_id l) (l_id o)) as [Hid|Hid]; cbn [negb];
    [|intros H; injection H as <-; intros k v Hh; now apply (pi_heads _ _ Il) in Hh].
  destruct (difference (l_entries o) (oslice (l_heads o)) l) as [ni|] eqn:D; [|discriminate].
  destruct (forallb (entry_ok l) (oslice ni)); cbn [negb]; [|discriminate].
  assert (E : size <? 0 = true) by (apply Z.ltb_lt; lia). rewrite E.
  fold_j_ents l ni. intros H. injection H as <-. cbn [l_heads l_entries].
  destruct (merged_entries_arbitrary U l o ni Il D) as [EN [WKe ES]].
  intros k v Hh. unfold from_opt_entries in Hh. rewrite from_opt_filter in Hh.
  apply from_entries_In in Hh. destruct Hh as [Hv Hk]. apply filter_In in Hv. destruct Hv as [Hv _].
  apply find_heads_In in Hv. destruct Hv as [Hv _]. apply In_oslice in Hv. destruct Hv as [k' Hv].
  unfold omerge in Hv. apply fold_pairs_sound in Hv. destruct Hv as [Hv|Hv].
  - apply fold_pairs_sound in Hv. destruct Hv as [[]|Hv].
    apply (pi_heads _ _ Il) in Hv. destruct Hv as [Hv _].
    pose proof (proj2 (pi_in_U _ _ Il _ _ Hv)) as Hk'. rewrite Hk in Hk'. subst k'. apply ES. now left.
  - apply own_heads_In in Hv. apply oget_In in Hv. pose proof (WKe _ _ Hv) as Hk'. rewrite Hk in Hk'. now subst k'.
Qed.

(* ---- whatever the bound: a merge only ever holds entries the log had, or entries of the other
   log that carry the log's id, are allowed by its access controller, verify and carry a key ---- *)
Theorem join_any_bound_admits_only_valid U l o size l' :
  univ_ok U -> pinv U l -> pinv U o -> join l o false size = (l', Ok tt) ->
  forall k v, In (k, v) (l_entries l') ->
    In (k, v) (l_entries l) \/
    (e_logid v = l_id l /\ entry_ok l v = true /\ In (k, v) (l_entries o) /\ ~ In k (okeys (l_entries l))).
Proof.
  intros UO Il Io. unfold join, join_reads.
  destruct (N.eqb_spec (l_id l) (l_id o)) as [Hid|Hid]; cbn [negb]; [|intros H; injection H as <-; auto].
  destruct (difference (l_entries o) (oslice (l_heads o)) l) as [ni|] eqn:D; [|discriminate].
  destruct (forallb (entry_ok l) (oslice ni)) eqn:OK; cbn [negb]; [|discriminate].
  fold_j_ents l ni. rewrite (pown_heads_o U l o UO Il Io Hid ni D).
  assert (New : forall k v, In (k, v) (j_ents l ni) ->
            In (k, v) (l_entries l) \/
            (e_logid v = l_id l /\ entry_ok l v = true /\ In (k, v) (l_entries o) /\ ~ In k (okeys (l_entries l)))).
  { intros k v Hin. pose proof Hin as Hin0. apply (proj2 (pj_ents_spec U l o Il Io Hid ni D)) in Hin.
    destruct Hin as [Hin|Hin]; [now left|right].
    destruct (pni_sound U l o Io Hid ni D _ _ Hin) as [Ho Hn]. split; [|split; [|split; assumption]].
    - apply (pj_logid U l o Il Io Hid ni D). apply In_oslice. eauto.
    - rewrite forallb_forall in OK. apply OK. apply In_oslice. eauto. }
  destruct (size <? 0).
  - intros H. injection H as <-. exact New.
  - match goal with |- context [values ?x] => destruct (values x) as [vals|] eqn:V end; [|discriminate].
    intros H. injection H as <-. cbn [l_entries]. intros k v Hin.
    apply from_entries_In in Hin. destruct Hin as [Hv Hk].
    assert (Hs : In v (oslice vals)).
    { destruct (size <? olen vals); [now apply skipn_In in Hv|exact Hv]. }
    apply In_oslice in Hs. destruct Hs as [k' Hs].
    apply values_sound in V; cbn [l_entries l_heads].
    2:{ intros a b H. now apply (pj_in_U U l o Il Io Hid ni D) in H. }
    2:{ intros a b H. now apply (proj2 (pj_heads_spec U l o UO Il Io Hid ni D)) in H. }
    destruct V as [_ VS]. apply VS in Hs.
    pose proof (proj2 (pj_in_U U l o Il Io Hid ni D _ _ Hs)) as Hk'. rewrite Hk in Hk'. subst k'.
    now apply New.
Qed.
