(* Lemmas about Model/EntryCodec.v.  The struct-level round trips are proved by evaluating the
   marshaller and the unmarshaller over the rows of Gen/Tables.v as they are today (symbolic field
   values, concrete serial names): if a regenerated table makes two fields of a struct share a
   serial name, drops a field, or marks a field omit-empty whose zero value differs from what the
   decoder leaves in place, these proofs stop checking. *)
From Coq Require Import List NArith ZArith Bool String Lia Permutation.
From IpfsLog Require Import Model.Cbor Model.EntryCodec Gen.Tables Proofs.CborProofs.
(* deps: keep this comment line directly after the Require line (lib/verif.py deps_of scans it) *)
Import ListNotations.
Local Open Scope string_scope.
Open Scope N_scope.

(* ------------------------------------------------------------------------------------------ *)
(* hex *)
Lemma hex_val_digit d : d < 16 -> hex_val (hex_digit d) = Some d.
Proof.
  intros H.
  assert (d = 0 \/ d = 1 \/ d = 2 \/ d = 3 \/ d = 4 \/ d = 5 \/ d = 6 \/ d = 7 \/ d = 8 \/ d = 9 \/
          d = 10 \/ d = 11 \/ d = 12 \/ d = 13 \/ d = 14 \/ d = 15) as C by lia.
  repeat (destruct C as [->|C]; [reflexivity|]). subst. reflexivity.
Qed.

Lemma is_bytes_cons b bs : is_bytes (b :: bs) = true -> b < 256 /\ is_bytes bs = true.
Proof. unfold is_bytes. simpl. intros H. apply andb_true_iff in H as [H1 H2]. apply N.ltb_lt in H1. auto. Qed.

Theorem hex_roundtrip bs : is_bytes bs = true -> hex_decode (hex_encode bs) = Some bs.
Proof.
  induction bs as [|b bs IH]; intros H; [reflexivity|].
  apply is_bytes_cons in H as [Hb Hbs].
  cbn [hex_encode hex_decode].
  rewrite !hex_val_digit, IH; auto.
  - f_equal. f_equal. rewrite N.mul_comm. symmetry. apply N.div_mod. discriminate.
  - apply N.mod_lt. discriminate.
  - apply N.div_lt_upper_bound; [discriminate|exact Hb].
Qed.

Lemma of_hex_encode e bs : is_bytes bs = true -> of_hex e (hex_encode bs) = Ok bs.
Proof. intros H. unfold of_hex. now rewrite hex_roundtrip. Qed.

(* hex.DecodeString is also injective on what it accepts only up to case; encode is injective *)
Lemma hex_encode_injective a b : is_bytes a = true -> is_bytes b = true -> hex_encode a = hex_encode b -> a = b.
Proof.
  intros Ha Hb E. apply hex_roundtrip in Ha. apply hex_roundtrip in Hb. rewrite E in Ha. congruence.
Qed.

(* ------------------------------------------------------------------------------------------ *)
(* byte-string equality and association lists *)
Lemma bytes_eqb_eq a b : bytes_eqb a b = true <-> a = b.
Proof.
  revert b. induction a as [|x a IH]; intros [|y b]; simpl; split; intros H; try discriminate; auto.
  - apply andb_true_iff in H as [H1 H2]. apply N.eqb_eq in H1. apply IH in H2. now subst.
  - inversion H; subst. rewrite N.eqb_refl. simpl. now apply IH.
Qed.

Lemma bytes_eqb_refl a : bytes_eqb a a = true.
Proof. now apply bytes_eqb_eq. Qed.

Lemma assoc_perm {V} (k : bytes) (l l' : list (bytes * V)) :
  NoDup (map fst l) -> Permutation l l' -> assoc k l = assoc k l'.
Proof.
  intros ND P. induction P as [|[k1 v1] l l' P IH|[k1 v1] [k2 v2] l|l l' l'' P1 IH1 P2 IH2].
  - reflexivity.
  - simpl. destruct (bytes_eqb k k1); [reflexivity|]. apply IH. now inversion ND.
  - simpl. destruct (bytes_eqb k k1) eqn:E1, (bytes_eqb k k2) eqn:E2; try reflexivity.
    apply bytes_eqb_eq in E1, E2. subst. simpl in ND. inversion ND as [|? ? Hn _]; subst.
    exfalso. apply Hn. now left.
  - rewrite IH1 by exact ND. apply IH2. eapply Permutation_NoDup; [|exact ND]. now apply Permutation_map.
Qed.

(* ------------------------------------------------------------------------------------------ *)
(* links *)
Definition cid_tree (c : bytes) : cbor := CTag cid_tag (CBytes (cid_multibase_prefix :: c)).
Definition cids_tree (l : option (list bytes)) : cbor :=
  match l with None => CNull | Some cs => CArray (map cid_tree cs) end.

Lemma wf_cids_inv cidok cs :
  wf_cids cidok (Some cs) = true ->
  small cs = true /\ Forall (fun c => c <> [] /\ cidok c = true /\ N.succ (len c) < two64) cs.
Proof.
  unfold wf_cids. intros H. apply andb_true_iff in H as [H1 H2]. split; [exact H1|].
  rewrite forallb_forall in H2. apply Forall_forall. intros c Hc. specialize (H2 c Hc).
  apply andb_true_iff in H2 as [H2 H3]. apply andb_true_iff in H2 as [H2 H4].
  apply N.ltb_lt in H3. repeat split; auto. intros ->. discriminate.
Qed.

Lemma t_cids_ok cidok l : wf_cids cidok l = true -> t_cids l = Some (cids_tree l).
Proof.
  destruct l as [cs|]; [|reflexivity]. intros H. apply wf_cids_inv in H as [_ H].
  unfold t_cids, cids_tree. induction H as [|c cs [Hc _] Hcs IH]; [reflexivity|].
  cbn [map_opt map]. destruct c as [|b c]; [congruence|]. cbn [t_cid].
  destruct (map_opt t_cid cs); [|discriminate]. inversion IH; subst. reflexivity.
Qed.

Lemma u_cids_ok cidok l : wf_cids cidok l = true -> u_cids cidok (cids_tree l) = Ok l.
Proof.
  destruct l as [cs|]; [|reflexivity]. intros H. apply wf_cids_inv in H as [_ H].
  unfold u_cids, cids_tree. cbn [untag].
  assert (u_list cidok (map cid_tree cs) = Ok cs) as ->; [|reflexivity].
  induction H as [|c cs [_ [Hc _]] Hcs IH]; [reflexivity|].
  cbn [map u_list]. unfold u_cid at 1. unfold cid_tree at 1. cbn [untag].
  rewrite N.eqb_refl, Hc. cbn. rewrite IH. reflexivity.
Qed.

Lemma len_map {A B} (f : A -> B) l : len (map f l) = len l.
Proof. unfold len. now rewrite map_length. Qed.

Lemma wf_cids_tree cidok l : wf_cids cidok l = true -> wf (cids_tree l) = true.
Proof.
  destruct l as [cs|]; [|reflexivity]. intros H. apply wf_cids_inv in H as [Hs H].
  unfold cids_tree. rewrite wf_array, len_map. unfold small in Hs. rewrite Hs. simpl. clear Hs.
  induction H as [|c cs [_ [_ Hc]] Hcs IH]; [reflexivity|].
  cbn [map wf_list]. rewrite IH, andb_true_r. unfold cid_tree. cbn [wf].
  assert (len (cid_multibase_prefix :: c) = N.succ (len c)) as -> by (unfold len; cbn [length]; apply Nat2N.inj_succ).
  apply N.ltb_lt in Hc. rewrite Hc. reflexivity.
Qed.

Lemma is_empty_cids_tree l : is_empty_tree (cids_tree l) = len0 l.
Proof. destruct l as [[|c cs]|]; reflexivity. Qed.

(* ints *)
Lemma int64_ok_inv z : int64_ok z = true -> (- Z.of_N two63 <= z < Z.of_N two63)%Z.
Proof. unfold int64_ok. intros H. apply andb_true_iff in H as [H1 H2]. apply Z.leb_le in H1. apply Z.ltb_lt in H2. lia. Qed.

Lemma u_int_t_int z : int64_ok z = true -> u_int (t_int z) = Ok z.
Proof.
  intros H. apply int64_ok_inv in H. unfold t_int, u_int.
  destruct (0 <=? z)%Z eqn:E; cbn [untag].
  - apply Z.leb_le in E. replace (Z.to_N z <? two63) with true by (symmetry; apply N.ltb_lt; lia).
    rewrite Z2N.id by exact E. reflexivity.
  - apply Z.leb_gt in E. replace (Z.to_N (-1 - z) <? two63) with true by (symmetry; apply N.ltb_lt; unfold two63 in *; lia).
    f_equal. rewrite Z2N.id by lia. lia.
Qed.

Lemma wf_t_int z : int64_ok z = true -> wf (t_int z) = true.
Proof.
  intros H. apply int64_ok_inv in H. unfold t_int.
  destruct (0 <=? z)%Z eqn:E; cbn [wf]; apply N.ltb_lt; unfold two63, two64 in *.
  - apply Z.leb_le in E. lia.
  - apply Z.leb_gt in E. lia.
Qed.

Lemma untag_t_int z : untag (t_int z) = t_int z.
Proof. unfold t_int. destruct (0 <=? z)%Z; reflexivity. Qed.
Lemma untag_cids_tree l : untag (cids_tree l) = cids_tree l.
Proof. destruct l; reflexivity. Qed.

(* ------------------------------------------------------------------------------------------ *)
(* struct level: refmt marshal / unmarshal through the generated atlas *)
Definition jclock_ok (o : option jclock) : bool :=
  match o with None => true | Some c => int64_ok (jc_time c) end.
Definition jwf (cidok : bytes -> bool) (j : jentry) : bool :=
  wf_cids cidok (j_next j) && wf_cids cidok (j_refs j) && jclock_ok (j_clock j).

Definition jclock_small (o : option jclock) : bool :=
  match o with None => true | Some c => small (jc_id c) end.
Definition jidentity_small (o : option jidentity) : bool :=
  match o with
  | None => true
  | Some i => small (ji_id i) && small (ji_type i) && small (ji_pub i) &&
              match ji_sigs i with None => true | Some s => small (js_id s) && small (js_pub s) end
  end.
Definition jsmall (j : jentry) : bool :=
  (j_v j <? two64) && small (j_logid j) && small (j_key j) && small (j_sig j) && small (j_payload j) &&
  small (j_enc_links j) && small (j_enc_nonce j) && jclock_small (j_clock j) && jidentity_small (j_identity j).

Local Arguments t_int : simpl never.
Local Arguments u_int : simpl never.
Local Arguments u_cids : simpl never.
Local Arguments cids_tree : simpl never.
Local Arguments u_ptr : simpl never.
Local Arguments small : simpl never.

Ltac split_and H :=
  repeat match type of H with
         | (_ && _) = true => let H' := fresh H in apply andb_true_iff in H as [H H']
         end.
Ltac split_all :=
  repeat match goal with
         | Hx : (_ && _) = true |- _ => let Hy := fresh Hx in apply andb_true_iff in Hx as [Hx Hy]
         end.
Ltac rewrite_trues := repeat match goal with Hx : _ = true |- _ => rewrite Hx end.

Ltac field_eval :=
  cbn [marshal_rows bind String.eqb Ascii.eqb Bool.eqb ar_field ar_omit ar_serial andb of_opt
       jentry_field j_v j_logid j_key j_sig j_next j_refs j_clock j_payload j_identity j_enc_links j_enc_nonce
       jc_id jc_time js_id js_pub ji_id ji_type ji_pub ji_sigs marshal_ptr].

Ltac rows_eval s :=
  let rows := fresh "rows" in
  set (rows := rows_of s) in *; vm_compute in rows; subst rows.

Lemma jclock_rt ck : jclock_ok ck = true ->
  exists t, marshal_ptr marshal_jclock ck = Ok t /\ (jclock_small ck = true -> wf t = true) /\
            u_ptr "jsonable.LamportClock" set_jclock zero_jclock None t = Ok ck.
Proof.
  destruct ck as [[id tm]|]; cbn [jclock_ok jc_time]; intros H.
  - unfold marshal_ptr, marshal_jclock, marshal_struct. rows_eval "jsonable.LamportClock". field_eval.
    eexists; split; [reflexivity|]. split.
    + cbn [jclock_small jc_id]. unfold small. intros Hs. cbn [wf]. rewrite Hs, (wf_t_int tm H). reflexivity.
    + unfold u_ptr. cbn [untag]. rows_eval "jsonable.LamportClock".
      cbn [unmarshal_fields find bytes_eqb N.eqb Pos.eqb andb ar_serial ar_field bind set_jclock String.eqb Ascii.eqb Bool.eqb
           u_text untag jc_id jc_time zero_jclock].
      rewrite (u_int_t_int tm H). reflexivity.
  - eexists; split; [reflexivity|]. split; reflexivity.
Qed.

Lemma jidsig_rt (o : option jidsig) :
  exists t, marshal_ptr marshal_jidsig o = Ok t /\
            (match o with None => true | Some s => small (js_id s) && small (js_pub s) end = true -> wf t = true) /\
            u_ptr "jsonable.IdentitySignature" set_jidsig zero_jidsig None t = Ok o.
Proof.
  destruct o as [[id pk]|].
  - unfold marshal_ptr, marshal_jidsig, marshal_struct. rows_eval "jsonable.IdentitySignature". field_eval.
    eexists; split; [reflexivity|]. split.
    + cbn [js_id js_pub]. unfold small. intros Hs. split_all. cbn [wf]. rewrite_trues. reflexivity.
    + unfold u_ptr. cbn [untag]. rows_eval "jsonable.IdentitySignature".
      cbn [unmarshal_fields find bytes_eqb N.eqb Pos.eqb andb ar_serial ar_field bind set_jidsig String.eqb Ascii.eqb Bool.eqb
           u_text untag js_id js_pub zero_jidsig].
      reflexivity.
  - eexists; split; [reflexivity|]. split; reflexivity.
Qed.

Lemma jidentity_rt (o : option jidentity) :
  exists t, marshal_ptr marshal_jidentity o = Ok t /\ (jidentity_small o = true -> wf t = true) /\
            u_ptr "jsonable.Identity" set_jidentity zero_jidentity None t = Ok o.
Proof.
  destruct o as [[id ty pk sg]|].
  - destruct (jidsig_rt sg) as (ts & Ets & Wts & Dts).
    unfold marshal_ptr at 1. unfold marshal_jidentity, marshal_struct. rows_eval "jsonable.Identity". field_eval.
    fold (marshal_ptr marshal_jidsig sg). rewrite Ets. cbn [bind].
    eexists; split; [reflexivity|]. split.
    + cbn [jidentity_small ji_id ji_type ji_pub ji_sigs]. unfold small. intros Hs. split_all.
      cbn [wf]. rewrite Wts by (unfold small; assumption). rewrite_trues. reflexivity.
    + unfold u_ptr at 1. cbn [untag]. rows_eval "jsonable.Identity".
      cbn [unmarshal_fields find bytes_eqb N.eqb Pos.eqb andb ar_serial ar_field bind set_jidentity String.eqb Ascii.eqb Bool.eqb
           u_text untag ji_id ji_type ji_pub ji_sigs zero_jidentity].
      rewrite Dts. reflexivity.
  - eexists; split; [reflexivity|]. split; reflexivity.
Qed.

Ltac unmarshal_eval :=
  cbn [unmarshal_fields find bytes_eqb N.eqb Pos.eqb andb ar_serial ar_field bind set_jentry String.eqb Ascii.eqb Bool.eqb
       u_text u_uint untag wild_ok zero_jentry].

(* v2: marshal as jsonable.Entry, unmarshal as jsonable.Entry: the identity *)
Lemma jentry_rt_v2 cidok j : jwf cidok j = true ->
  exists t, marshal_jentry "jsonable.Entry" j = Ok t /\ (jsmall j = true -> wf t = true) /\
            unmarshal_jentry cidok t = Ok j.
Proof.
  destruct j as [v lg ky sg nx rf ck pl idn el en]. unfold jwf. cbn [j_next j_refs j_clock].
  intros H. split_and H.
  destruct (jclock_rt ck H0) as (tc & Etc & Wtc & Dtc).
  destruct (jidentity_rt idn) as (ti & Eti & Wti & Dti).
  unfold marshal_jentry, marshal_struct. rows_eval "jsonable.Entry". field_eval.
  rewrite (t_cids_ok cidok nx H), (t_cids_ok cidok rf H1), Etc, Eti. cbn [of_opt bind].
  assert (Hw : jsmall (Build_jentry v lg ky sg nx rf ck pl idn el en) = true ->
               (v <? two64) = true /\ (len lg <? two64) = true /\ (len ky <? two64) = true /\ (len sg <? two64) = true /\
               (len pl <? two64) = true /\ (len el <? two64) = true /\ (len en <? two64) = true /\ wf tc = true /\ wf ti = true).
  { unfold jsmall. cbn [j_v j_logid j_key j_sig j_payload j_enc_links j_enc_nonce j_clock j_identity]. unfold small.
    intros Hs. split_all. repeat split; auto. }
  destruct el as [|e1 el], en as [|e2 en]; cbn [is_empty_tree];
    (eexists; split; [reflexivity|]; split;
     [intros Hs; destruct (Hw Hs) as (W1 & W2 & W3 & W4 & W5 & W6 & W7 & W8 & W9);
      cbn [wf]; rewrite W1, W2, W3, W4, W5, W8, W9, ?W6, ?W7, (wf_cids_tree cidok nx H), (wf_cids_tree cidok rf H1); reflexivity
     |unfold unmarshal_jentry; rows_eval "jsonable.Entry"; unmarshal_eval;
      rewrite !untag_cids_tree || idtac;
      rewrite (u_cids_ok cidok nx H); cbn [bind]; unmarshal_eval;
      rewrite (u_cids_ok cidok rf H1); cbn [bind]; unmarshal_eval;
      rewrite Dtc; cbn [bind]; unmarshal_eval; rewrite Dti; reflexivity]).
Qed.

(* v1: marshal as jsonable.EntryV1 (no refs, no enc fields), unmarshal as jsonable.Entry *)
Definition as_v1 (j : jentry) : jentry :=
  {| j_v := j_v j; j_logid := j_logid j; j_key := j_key j; j_sig := j_sig j; j_next := j_next j; j_refs := None;
     j_clock := j_clock j; j_payload := j_payload j; j_identity := j_identity j; j_enc_links := []; j_enc_nonce := [] |}.

Lemma jentry_rt_v1 cidok j : jwf cidok j = true ->
  exists t, marshal_jentry "jsonable.EntryV1" j = Ok t /\ (jsmall j = true -> wf t = true) /\
            unmarshal_jentry cidok t = Ok (as_v1 j).
Proof.
  destruct j as [v lg ky sg nx rf ck pl idn el en]. unfold jwf. cbn [j_next j_refs j_clock].
  intros H. split_and H.
  destruct (jclock_rt ck H0) as (tc & Etc & Wtc & Dtc).
  destruct (jidentity_rt idn) as (ti & Eti & Wti & Dti).
  unfold marshal_jentry, marshal_struct. rows_eval "jsonable.EntryV1". field_eval.
  rewrite (t_cids_ok cidok nx H), Etc, Eti. cbn [of_opt bind].
  eexists; split; [reflexivity|]; split.
  - unfold jsmall. cbn [j_v j_logid j_key j_sig j_payload j_enc_links j_enc_nonce j_clock j_identity]. unfold small.
    intros Hs. split_all. cbn [wf]. rewrite Wtc, Wti, (wf_cids_tree cidok nx H) by assumption. rewrite_trues. reflexivity.
  - unfold unmarshal_jentry; rows_eval "jsonable.Entry"; unmarshal_eval.
    rewrite (u_cids_ok cidok nx H); cbn [bind]; unmarshal_eval.
    rewrite Dtc; cbn [bind]; unmarshal_eval; rewrite Dti; reflexivity.
Qed.

(* ------------------------------------------------------------------------------------------ *)
(* entry level *)
Lemma wf_identity_inv i : wf_identity i = true ->
  exists s, idn_sigs i = Some s /\ is_bytes (idn_pub i) = true /\ is_bytes (ids_id s) = true /\ is_bytes (ids_pub s) = true /\
            jidentity_small (Some {| ji_id := idn_id i; ji_type := idn_type i; ji_pub := hex_encode (idn_pub i);
                                     ji_sigs := Some {| js_id := hex_encode (ids_id s); js_pub := hex_encode (ids_pub s) |} |}) = true.
Proof.
  unfold wf_identity. destruct (idn_sigs i) as [s|]; intros H; split_all; try discriminate.
  exists s. cbn [jidentity_small ji_id ji_type ji_pub ji_sigs js_id js_pub].
  rewrite_trues. auto.
Qed.

Lemma decrypt_none cidok K open_ b64dec j : decrypt_links cidok K open_ b64dec None j = Ok j.
Proof. reflexivity. Qed.

Definition plain_identity (o : option identity_rec) : res (option jidentity) :=
  match o with
  | None => Ok None
  | Some i => bind (to_jidentity i) (fun ji => Ok (Some ji))
  end.

Lemma identity_ok o :
  match o with None => true | Some i => wf_identity i end = true ->
  exists ji, plain_identity o = Ok ji /\ jidentity_small ji = true /\
    forall (A : Type) (k : option identity_rec -> res A),
      bind (to_plain_identity ji) k = k o.
Proof.
  destruct o as [[id ty pk sg]|]; intros H.
  - apply wf_identity_inv in H as (s & Es & B1 & B2 & B3 & Sm). cbn [idn_sigs idn_pub idn_id idn_type] in *. subst sg.
    destruct s as [sid spk]. cbn [ids_id ids_pub] in *.
    eexists. split; [reflexivity|]. split; [exact Sm|]. intros A k. unfold to_plain_identity, to_plain_identity_g.
    cbn [ji_pub ji_sigs js_pub js_id ji_id ji_type]. rewrite !of_hex_encode by assumption. reflexivity.
  - exists None. repeat split.
Qed.

Lemma lt1_of v : (v =? 0) = false -> (v =? 1) = false -> (1 <? v) = true.
Proof. intros H0 H1. apply N.eqb_neq in H0, H1. apply N.ltb_lt. lia. Qed.

Ltac jfields := cbn [j_v j_logid j_key j_sig j_payload j_next j_refs j_enc_links j_enc_nonce j_clock j_identity
                     jclock_small jclock_ok to_jclock jc_id jc_time clk_id clk_time].
Ltac jproj := cbn [j_v j_logid j_key j_sig j_payload j_next j_refs j_enc_links j_enc_nonce j_clock j_identity].
Ltac efields := cbn [e_v e_logid e_payload e_next e_refs e_clock e_key e_sig e_identity e_hash e_additional].

(* to_plain on the struct ToJsonableEntry builds, in one step *)
Lemma to_plain_before_fix_ok h v lg ky sg nx rf cid ctm pl idn ji el en :
  is_bytes ky = true -> is_bytes sg = true -> is_bytes cid = true ->
  (forall (A : Type) (k : option identity_rec -> res A),
      bind (to_plain_identity ji) k = k idn) ->
  to_plain_before_fix h {| j_v := v; j_logid := lg; j_key := hex_encode ky; j_sig := hex_encode sg; j_next := nx; j_refs := rf;
                j_clock := Some (to_jclock {| clk_id := cid; clk_time := ctm |}); j_payload := pl; j_identity := ji;
                j_enc_links := el; j_enc_nonce := en |} =
  Ok {| e_v := v; e_logid := lg; e_payload := pl; e_next := nx; e_refs := rf;
        e_clock := Some {| clk_id := cid; clk_time := ctm |}; e_key := ky; e_sig := sg; e_identity := idn;
        e_hash := Some h; e_additional := [] |}.
Proof.
  intros B1 B2 B3 Kji. unfold to_plain_before_fix, to_plain_before_fix_g. jfields. fold to_plain_identity.
  rewrite !of_hex_encode by assumption. cbn [bind]. rewrite Kji. reflexivity.
Qed.

Theorem entry_roundtrip cidok e h : wf_entry cidok e = true ->
  exists t, to_tree e = Ok t /\ wf t = true /\ of_tree_plain cidok h t = Ok (normal h e).
Proof.
  destruct e as [v lg pl nx rf ck ky sg idn hs add]. unfold wf_entry. efields.
  destruct ck as [[cid ctm]|]; cbn [clk_id clk_time]; intros H; split_all; try discriminate.
  match goal with Hx : match idn with _ => _ end = true |- _ =>
    destruct (identity_ok idn Hx) as (ji & Eji & Sji & Kji) end.
  match goal with Hx : (1 <=? v) = true |- _ => rename Hx into Hv1 end.
  match goal with Hx : match assoc key_enc_links add with _ => _ end = true |- _ => rename Hx into Henc end.
  unfold to_tree, normalize. cbn [e_clock bind]. unfold to_jsonable. efields.
  fold (plain_identity idn). rewrite Eji. cbn [bind].
  unfold normal, has_enc, enc_pair. efields.
  unfold of_tree_plain, of_tree.
  assert (V0 : (v =? 0) = false) by (apply N.eqb_neq; apply N.leb_le in Hv1; lia). rewrite V0. cbv zeta. jfields.
  destruct (v =? 1) eqn:V1.
  - (* v = 1 *)
    apply N.eqb_eq in V1. subst v. change (1 <? 1) with false. change (1 =? 1) with true. cbv iota. cbn [bind].
    match goal with |- context [JV1 ?j] => destruct (jentry_rt_v1 cidok j) as (t & Et & Wt & Dt) end.
    { unfold jwf. jfields. rewrite_trues. reflexivity. }
    cbn [marshal_jsonable]. rewrite Et. exists t. split; [reflexivity|]. split.
    { apply Wt. unfold jsmall. jfields. rewrite Sji. rewrite_trues. reflexivity. }
    rewrite Dt. cbn [bind as_v1]. rewrite decrypt_none. cbn [bind]. unfold to_plain, as_v1. jproj.
    rewrite (to_plain_before_fix_ok _ _ _ _ _ _ _ _ _ _ idn) by assumption. cbn [bind is_nil andb]. efields. jfields.
    destruct (assoc key_enc_links add), (assoc key_enc_nonce add); reflexivity.
  - (* v >= 2 *)
    rewrite (lt1_of v V0 V1).
    destruct (assoc key_enc_links add) as [el|] eqn:EL, (assoc key_enc_nonce add) as [en|] eqn:EN;
    [destruct el as [|e1 el], en as [|e2 en]| | |];
    (cbv iota; cbn [bind marshal_jsonable];
     match goal with |- context [marshal_jentry _ ?j] => destruct (jentry_rt_v2 cidok j) as (t & Et & Wt & Dt) end;
     [unfold jwf; jfields; rewrite_trues; reflexivity|];
     rewrite Et; exists t; split; [reflexivity|]; split;
     [apply Wt; unfold jsmall; jfields; rewrite Sji; split_all; rewrite_trues; reflexivity|];
     rewrite Dt; cbn [bind]; rewrite decrypt_none; cbn [bind]; unfold to_plain;
     rewrite (to_plain_before_fix_ok _ _ _ _ _ _ _ _ _ _ idn) by assumption; cbn [bind is_nil andb]; efields; jfields; reflexivity).
Qed.

(* ------------------------------------------------------------------------------------------ *)
(* re-encoding what was read gives the same tree (hence the same bytes, hence the same CID) -
   for every entry, also one that carries the link strings *)
Theorem reencode_tree h e : to_tree (normal h e) = to_tree e.
Proof.
  destruct e as [v lg pl nx rf ck ky sg idn hs add]. unfold to_tree, normal, normalize, has_enc, enc_pair. efields.
  destruct ck as [c|]; [|reflexivity]. cbn [bind]. unfold to_jsonable. efields.
  destruct (match idn with Some i => bind (to_jidentity i) (fun ji => Ok (Some ji)) | None => Ok None end) as [ji| |];
    cbn [bind]; try reflexivity.
  destruct (N.eqb_spec v 0) as [->|V0]; [reflexivity|].
  destruct (N.eqb_spec v 1) as [->|V1].
  - change (1 <? 1) with false. cbv iota.
    destruct (assoc key_enc_links add), (assoc key_enc_nonce add); reflexivity.
  - assert (L : (1 <? v) = true) by (apply N.ltb_lt; lia). rewrite L. cbv iota.
    destruct (assoc key_enc_links add) as [[|e1 el]|], (assoc key_enc_nonce add) as [[|e2 en]|]; reflexivity.
Qed.

(* the written view depends on AdditionalData only through two lookups: iteration order of the Go
   map (= order of the association list) is irrelevant *)
Theorem to_tree_additional_order e add' :
  NoDup (map fst (e_additional e)) -> Permutation (e_additional e) add' ->
  to_tree {| e_v := e_v e; e_logid := e_logid e; e_payload := e_payload e; e_next := e_next e; e_refs := e_refs e;
             e_clock := e_clock e; e_key := e_key e; e_sig := e_sig e; e_identity := e_identity e;
             e_hash := e_hash e; e_additional := add' |} = to_tree e.
Proof.
  intros ND P. destruct e as [v lg pl nx rf ck ky sg idn hs add]. efields. cbn [e_additional] in *.
  unfold to_tree, normalize. efields.
  destruct ck as [c|]; [|reflexivity]. cbn [bind]. unfold to_jsonable. efields.
  rewrite <- (assoc_perm key_enc_links add add' ND P), <- (assoc_perm key_enc_nonce add add' ND P). reflexivity.
Qed.

(* ------------------------------------------------------------------------------------------ *)
(* manifests *)
Theorem manifest_roundtrip cidok id heads : wf_cids cidok heads = true ->
  exists t, manifest_to_tree id heads = Ok t /\ (small id = true -> wf t = true) /\
            manifest_of_tree cidok t = Ok (id, heads).
Proof.
  intros H. unfold manifest_to_tree, marshal_struct. rows_eval "iface.JSONLog". field_eval.
  rewrite (t_cids_ok cidok heads H). cbn [of_opt bind].
  eexists; split; [reflexivity|]. split.
  - unfold small. intros Hs. cbn [wf]. rewrite Hs, (wf_cids_tree cidok heads H). reflexivity.
  - unfold manifest_of_tree. rows_eval "iface.JSONLog".
    cbn [unmarshal_fields find bytes_eqb N.eqb Pos.eqb andb ar_serial ar_field bind set_manifest String.eqb Ascii.eqb Bool.eqb
         u_text untag fst snd].
    rewrite (u_cids_ok cidok heads H). reflexivity.
Qed.

(* ------------------------------------------------------------------------------------------ *)
(* link-encrypting codec *)
Lemma assoc_set_same {V} k (v : V) l : assoc k (set_assoc k v l) = Some v.
Proof. unfold set_assoc. cbn [assoc]. now rewrite bytes_eqb_refl. Qed.

Lemma assoc_filter_other {V} k k' (l : list (bytes * V)) :
  bytes_eqb k k' = false -> assoc k (filter (fun kv => negb (bytes_eqb k' (fst kv))) l) = assoc k l.
Proof.
  intros Hne. induction l as [|[k1 v1] l IH]; [reflexivity|]. cbn [filter fst].
  destruct (bytes_eqb k' k1) eqn:E; cbn [negb assoc].
  - apply bytes_eqb_eq in E. subst k1. now rewrite Hne.
  - rewrite IH. reflexivity.
Qed.

Lemma assoc_set_other {V} k k' (v : V) l : bytes_eqb k k' = false -> assoc k (set_assoc k' v l) = assoc k l.
Proof. intros Hne. unfold set_assoc. cbn [assoc]. rewrite Hne. now apply assoc_filter_other. Qed.

Section LinkProofs.
  Variable cidok : bytes -> bool.
  Variable K : Type.
  Variable seal : K -> bytes -> bytes -> bytes.
  Variable open_ : K -> bytes -> bytes -> option bytes.
  Variable nonce_of : entry -> bytes.
  Variable b64enc : bytes -> bytes.
  Variable b64dec : bytes -> option bytes.
  Hypothesis open_seal : forall k n m, open_ k n (seal k n m) = Some m.
  Hypothesis b64_inv : forall x, b64dec (b64enc x) = Some x.

  Lemma links_struct_rt next refs :
    wf_cids cidok next = true -> wf_cids cidok refs = true ->
    exists lt, links_tree next refs = Ok lt /\ wf lt = true /\
               unmarshal_jentry cidok lt = Ok (links_struct next refs).
  Proof.
    intros Hn Hr. destruct (jentry_rt_v2 cidok (links_struct next refs)) as (lt & E & W & D).
    { unfold jwf, links_struct. cbn [j_next j_refs j_clock jclock_ok]. now rewrite Hn, Hr. }
    exists lt. split; [exact E|]. split; [apply W; reflexivity|exact D].
  Qed.

  (* common part: the stored tree of a PreSign'ed entry, and the struct the reader gets after
     DecryptLinks with the same key *)
  Lemma link_write_read k e lt nonce :
    wf_entry cidok e = true -> (1 <? e_v e) = true ->
    links_tree (e_next e) (e_refs e) = Ok lt ->
    assoc key_enc_links (e_additional e) = Some (b64enc (seal k nonce (encode lt))) ->
    assoc key_enc_nonce (e_additional e) = Some (b64enc nonce) ->
    is_nil (b64enc (seal k nonce (encode lt))) = false -> is_nil (b64enc nonce) = false ->
    exists t c ji, e_clock e = Some c /\ plain_identity (e_identity e) = Ok ji /\
      to_tree e = Ok t /\ wf t = true /\
      bind (unmarshal_jentry cidok t) (decrypt_links cidok K open_ b64dec (Some k)) =
        Ok {| j_v := e_v e; j_logid := e_logid e; j_key := hex_encode (e_key e); j_sig := hex_encode (e_sig e);
              j_next := e_next e; j_refs := e_refs e; j_clock := Some (to_jclock c); j_payload := e_payload e;
              j_identity := ji; j_enc_links := b64enc (seal k nonce (encode lt)); j_enc_nonce := b64enc nonce |}.
  Proof.
    destruct e as [v lg pl nx rf ck ky sg idn hs add]. unfold wf_entry. efields.
    destruct ck as [[cid ctm]|]; cbn [clk_id clk_time]; intros H; split_all; try discriminate.
    intros V2 LT EL EN NL NN.
    match goal with Hx : match idn with _ => _ end = true |- _ =>
      destruct (identity_ok idn Hx) as (ji & Eji & Sji & Kji) end.
    match goal with Hx : wf_cids cidok nx = true |- _ => rename Hx into Hnx end.
    match goal with Hx : wf_cids cidok rf = true |- _ => rename Hx into Hrf end.
    destruct (links_struct_rt nx rf Hnx Hrf) as (lt' & LT' & Wlt & Dlt).
    rewrite LT in LT'. inversion LT'; subst lt'. clear LT'.
    unfold to_tree, normalize. cbn [e_clock bind]. unfold to_jsonable. efields.
    fold (plain_identity idn). rewrite Eji. cbn [bind].
    assert (V0 : (v =? 0) = false) by (apply N.eqb_neq; apply N.ltb_lt in V2; lia).
    assert (V1 : (v =? 1) = false) by (apply N.eqb_neq; apply N.ltb_lt in V2; lia).
    rewrite V0, V1, EL, EN in *. cbv zeta. jfields. cbv iota. cbn [bind marshal_jsonable].
    match goal with |- context [marshal_jentry _ ?j] => destruct (jentry_rt_v2 cidok j) as (t & Et & Wt & Dt) end.
    { unfold jwf; jfields; rewrite_trues; reflexivity. }
    rewrite Et. exists t, {| clk_id := cid; clk_time := ctm |}, ji.
    split; [reflexivity|]. split; [reflexivity|]. split; [reflexivity|]. split.
    { apply Wt; unfold jsmall; jfields; rewrite Sji; split_all; rewrite_trues; reflexivity. }
    rewrite Dt. cbn [bind]. unfold decrypt_links. jfields.
    rewrite NL, NN. cbn [orb]. rewrite !b64_inv, open_seal, (decode_all_encode lt Wlt), Dlt.
    unfold with_links, links_struct. jfields. reflexivity.
  Qed.

  (* written and read with the same key: every field; AdditionalData = the stored pair *)
  Theorem link_roundtrip_core k e h lt nonce :
    wf_entry cidok e = true -> (1 <? e_v e) = true ->
    links_tree (e_next e) (e_refs e) = Ok lt ->
    assoc key_enc_links (e_additional e) = Some (b64enc (seal k nonce (encode lt))) ->
    assoc key_enc_nonce (e_additional e) = Some (b64enc nonce) ->
    is_nil (b64enc (seal k nonce (encode lt))) = false -> is_nil (b64enc nonce) = false ->
    exists t, to_tree e = Ok t /\ wf t = true /\
              of_tree cidok K open_ b64dec (Some k) h t = Ok (strip_additional h e) /\
              to_tree (strip_additional h e) = Ok t.
  Proof.
    intros W V2 LT EL EN NL NN.
    destruct (link_write_read k e lt nonce W V2 LT EL EN NL NN) as (t & c & ji & Ec & Eji & Et & Wt & Dj).
    exists t. split; [exact Et|]. split; [exact Wt|].
    assert (R : of_tree cidok K open_ b64dec (Some k) h t = Ok (strip_additional h e)).
    { unfold of_tree.
      change (bind (unmarshal_jentry cidok t) (fun j => bind (decrypt_links cidok K open_ b64dec (Some k) j) (to_plain h)))
        with (bind (unmarshal_jentry cidok t) (fun j => bind (decrypt_links cidok K open_ b64dec (Some k) j) (to_plain h))).
      destruct (unmarshal_jentry cidok t) as [j0| |]; cbn [bind] in Dj |- *; try discriminate.
      rewrite Dj. cbn [bind].
      destruct e as [v lg pl nx rf ck ky sg idn hs add]. efields. cbn [e_clock e_identity] in *. subst ck.
      destruct c as [cid ctm].
      unfold wf_entry in W. efields. cbn [e_v e_logid e_payload e_next e_refs e_clock e_key e_sig e_identity e_additional clk_id clk_time] in W.
      split_all.
      match goal with Hx : match idn with _ => _ end = true |- _ =>
        destruct (identity_ok idn Hx) as (ji' & Eji' & _ & Kji) end.
      rewrite Eji in Eji'. inversion Eji'; subst ji'.
      unfold to_plain. rewrite (to_plain_before_fix_ok _ _ _ _ _ _ _ _ _ _ idn) by assumption. cbn [bind]. jfields. rewrite NL. cbn [andb].
      unfold strip_additional, enc_pair. efields. cbn [e_additional e_v] in *. rewrite EL, EN, V2, NL. reflexivity. }
    split; [exact R|].
    (* re-encoding: strip_additional keeps exactly what to_tree looks at *)
    rewrite <- Et. destruct e as [v lg pl nx rf ck ky sg idn hs add].
    unfold strip_additional, enc_pair, to_tree, normalize. efields. cbn [e_additional e_v] in *.
    destruct ck as [c0|]; [|reflexivity]. cbn [bind]. unfold to_jsonable. efields.
    rewrite EL, EN, V2, NL. cbn [andb].
    change (assoc key_enc_links [(key_enc_links, b64enc (seal k nonce (encode lt))); (key_enc_nonce, b64enc nonce)])
      with (Some (b64enc (seal k nonce (encode lt)))).
    change (assoc key_enc_nonce [(key_enc_links, b64enc (seal k nonce (encode lt))); (key_enc_nonce, b64enc nonce)])
      with (Some (b64enc nonce)).
    reflexivity.
  Qed.

  (* regression witness: before 7c07d71 the same read returned an empty AdditionalData *)
  Theorem link_roundtrip_before_fix k e h lt nonce :
    wf_entry cidok e = true -> (1 <? e_v e) = true ->
    links_tree (e_next e) (e_refs e) = Ok lt ->
    assoc key_enc_links (e_additional e) = Some (b64enc (seal k nonce (encode lt))) ->
    assoc key_enc_nonce (e_additional e) = Some (b64enc nonce) ->
    is_nil (b64enc (seal k nonce (encode lt))) = false -> is_nil (b64enc nonce) = false ->
    exists t e', to_tree e = Ok t /\ of_tree_before_fix cidok K open_ b64dec (Some k) h t = Ok e' /\
                 e_additional e' = [] /\ e_additional e <> [].
  Proof.
    intros W V2 LT EL EN NL NN.
    destruct (link_write_read k e lt nonce W V2 LT EL EN NL NN) as (t & c & ji & Ec & Eji & Et & Wt & Dj).
    exists t. unfold of_tree_before_fix.
    destruct (unmarshal_jentry cidok t) as [j0| |]; cbn [bind] in Dj |- *; try discriminate.
    rewrite Dj. cbn [bind].
    destruct e as [v lg pl nx rf ck ky sg idn hs add]. efields. cbn [e_clock e_identity e_additional] in *. subst ck.
    destruct c as [cid ctm].
    unfold wf_entry in W. cbn [e_v e_logid e_payload e_next e_refs e_clock e_key e_sig e_identity e_additional clk_id clk_time] in W.
    split_all.
    match goal with Hx : match idn with _ => _ end = true |- _ =>
      destruct (identity_ok idn Hx) as (ji' & Eji' & _ & Kji) end.
    rewrite Eji in Eji'. inversion Eji'; subst ji'.
    rewrite (to_plain_before_fix_ok _ _ _ _ _ _ _ _ _ _ idn) by assumption.
    eexists. split; [exact Et|]. split; [reflexivity|]. split; [reflexivity|].
    intros E. rewrite E in EL. discriminate.
  Qed.

  (* what PreSign attaches is exactly what the core theorem needs *)
  Lemma presign_shape k e e' :
    presign K seal nonce_of b64enc (Some k) e = Ok e' ->
    (len0 (e_next e) && len0 (e_refs e) = true /\ e' = e) \/
    exists lt, let c := copy_entry e in
      links_tree (e_next c) (e_refs c) = Ok lt /\
      e_next e' = e_next c /\ e_refs e' = e_refs c /\ e_v e' = e_v e /\
      assoc key_enc_links (e_additional e') = Some (b64enc (seal k (nonce_of c) (encode lt))) /\
      assoc key_enc_nonce (e_additional e') = Some (b64enc (nonce_of c)).
  Proof.
    unfold presign. destruct (len0 (e_next e) && len0 (e_refs e)); intros H.
    - left. inversion H. auto.
    - right. destruct (links_tree (e_next (copy_entry e)) (e_refs (copy_entry e))) as [lt| |]; try discriminate.
      cbn [bind] in H. inversion H; subst e'. exists lt. cbv zeta.
      cbn [with_additional e_next e_refs e_v e_additional copy_entry].
      repeat split; auto.
  Qed.
End LinkProofs.

(* ------------------------------------------------------------------------------------------ *)
(* legacy v0, struct level *)
Section V0Proofs.
  Variable cid_parse : bytes -> option bytes.
  Variable cid_string : bytes -> bytes.
  Hypothesis parse_string : forall c, cid_parse (cid_string c) = Some c.

  Lemma map_opt_parse l : map_opt cid_parse (map cid_string l) = Some l.
  Proof. induction l as [|c l IH]; [reflexivity|]. cbn [map map_opt]. now rewrite parse_string, IH. Qed.

  Theorem v0_roundtrip e c h :
    e_clock e = Some c -> is_bytes (clk_id c) = true -> is_bytes (e_key e) = true -> is_bytes (e_sig e) = true ->
    exists j, to_jsonable_v0 cid_string e = Ok j /\ v0_to_plain cid_parse h j = Ok (normal_v0 h e).
  Proof.
    intros Ec Bc Bk Bs. unfold to_jsonable_v0. rewrite Ec. eexists. split; [reflexivity|].
    unfold v0_to_plain, v0_to_plain_g, normal_v0. cbn [v0_hash v0_clock v0_sig v0_key v0_next v0_v v0_id v0_payload to_jclock jc_id jc_time].
    assert (Hh : match match e_hash e with Some h0 => Some (cid_string h0) | None => None end with
                 | Some s => match cid_parse s with Some _ => Ok tt | None => Err EDeserialize end
                 | None => if Gen.Guards.nil_panics "EntryV0.ToPlain" "Hash" then Panic else Ok tt end = Ok tt).
    { destruct (e_hash e); [now rewrite parse_string|reflexivity]. }
    rewrite Hh. cbn [bind]. rewrite !of_hex_encode by assumption. cbn [bind]. rewrite map_opt_parse.
    rewrite Ec. destruct c; reflexivity.
  Qed.
End V0Proofs.

(* ------------------------------------------------------------------------------------------ *)
(* bytes level: both layers composed *)
Theorem entry_bytes_roundtrip cidok e h : wf_entry cidok e = true ->
  exists b, entry_block e = Ok b /\ of_block_plain cidok h b = Ok (normal h e).
Proof.
  intros H. destruct (entry_roundtrip cidok e h H) as (t & Et & Wt & Dt).
  exists (encode t). unfold entry_block, of_block_plain. rewrite Et. cbn [bind]. split; [reflexivity|].
  now rewrite (decode_all_encode t Wt).
Qed.

Theorem entry_reencode_bytes cidok e h : wf_entry cidok e = true ->
  exists b e', entry_block e = Ok b /\ of_block_plain cidok h b = Ok e' /\ entry_block e' = Ok b.
Proof.
  intros H. destruct (entry_bytes_roundtrip cidok e h H) as (b & Eb & Db).
  exists b, (normal h e). repeat split; auto. unfold entry_block in *. now rewrite (reencode_tree h e).
Qed.

Theorem manifest_bytes_roundtrip cidok id heads : wf_cids cidok heads = true -> small id = true ->
  exists t, manifest_to_tree id heads = Ok t /\
            match decode_all (encode t) with Some t' => manifest_of_tree cidok t' | None => Err EUnmarshal end = Ok (id, heads).
Proof.
  intros H Hs. destruct (manifest_roundtrip cidok id heads H) as (t & Et & Wt & Dt).
  exists t. split; [exact Et|]. now rewrite (decode_all_encode t (Wt Hs)).
Qed.

(* when is the read-back entry EXACTLY the written one (up to the hash being filled in)? *)
Definition set_hash (h : bytes) (e : entry) : entry :=
  {| e_v := e_v e; e_logid := e_logid e; e_payload := e_payload e; e_next := e_next e; e_refs := e_refs e;
     e_clock := e_clock e; e_key := e_key e; e_sig := e_sig e; e_identity := e_identity e;
     e_hash := Some h; e_additional := e_additional e |}.

Definition plain_entry (e : entry) : bool :=
  is_nil (e_additional e) && ((1 <? e_v e) || match e_refs e with None => true | Some _ => false end).

Lemma normal_exact h e : plain_entry e = true -> normal h e = set_hash h e.
Proof.
  destruct e as [v lg pl nx rf ck ky sg idn hs add]. unfold plain_entry, normal, set_hash, has_enc, enc_pair. efields.
  intros H. apply andb_true_iff in H as [Ha Hr]. destruct add; [|discriminate]. cbn [assoc].
  destruct (1 <? v); [reflexivity|]. destruct rf; [discriminate|reflexivity].
Qed.

(* ------------------------------------------------------------------------------------------ *)
(* regression witness (behaviour before 7c07d71) *)
Definition toy_entry (add : list (bytes * bytes)) : entry :=
  {| e_v := 2; e_logid := [65]; e_payload := [104; 255; 1]; e_next := Some [[1; 113; 18; 1; 7]]; e_refs := Some [];
     e_clock := Some {| clk_id := [4; 200]; clk_time := 3%Z |}; e_key := [4; 200]; e_sig := [48; 1];
     e_identity := None; e_hash := None; e_additional := add |}.

(* default codec, entry carrying both link strings: what the OLD reader returned re-encoded to a
   different block; what the reader returns now re-encodes to the same one *)
Lemma reencode_with_enc_strings_before_fix :
  let e := toy_entry [(key_enc_links, [120]); (key_enc_nonce, [121])] in
  wf_entry (fun _ => true) e = true /\ has_enc e = true /\
  exists t e_old e_new b b',
    to_tree e = Ok t /\ entry_block e = Ok b /\
    of_tree_before_fix (fun _ => true) unit (fun _ _ _ => None) (fun _ => None) None [9] t = Ok e_old /\
    entry_block e_old = Ok b' /\ b <> b' /\
    of_tree_plain (fun _ => true) [9] t = Ok e_new /\ entry_block e_new = Ok b.
Proof.
  cbv zeta. split; [reflexivity|]. split; [reflexivity|].
  do 5 eexists. split; [vm_compute; reflexivity|]. split; [vm_compute; reflexivity|].
  split; [vm_compute; reflexivity|]. split; [vm_compute; reflexivity|].
  split; [intros E; apply (f_equal (@List.length N)) in E; vm_compute in E; discriminate|].
  split; [vm_compute; reflexivity|]. vm_compute. reflexivity.
Qed.
