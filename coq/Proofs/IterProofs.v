(* The iterator (C15): bounded traversals are prefixes of the full traversal, cut at the first
   stop condition; the full traversal from the chosen upper bounds is the causal past of those
   bounds, newest first, without duplicates (TravProofs). *)
From Coq Require Import List ZArith Bool Lia Permutation Sorted.
From IpfsLog Require Import Model.Log Proofs.OmapProofs Proofs.SortProofs Proofs.Inv Proofs.TravProofs Proofs.ValuesProofs.
Import ListNotations.
Open Scope Z_scope.

(* where a traversal with (amount, end hash) stops, as a function of the full pop sequence *)
Fixpoint cut (amount : Z) (endh : option hash) (cnt : Z) (l : omap) : omap :=
  match l with
  | [] => []
  | (k, v) :: l' =>
    if (0 <=? amount) && (amount <=? cnt) then []
    else (k, v) :: (if match endh with Some h => N.eqb k h | None => false end then [] else cut amount endh (cnt + 1) l')
  end.

Lemma cut_all l cnt : cut (-1) None cnt l = l.
Proof. revert cnt. induction l as [|[k v] l IH]; intros cnt; cbn [cut]; [reflexivity|]. cbn. now rewrite IH. Qed.

Lemma app_eq_self {A} (l t : list A) : l = l ++ t -> t = [].
Proof. intros H. rewrite <- (app_nil_r l) in H at 1. apply app_inv_head in H. now symmetry. Qed.

Section Prefix.
  Variable entries : omap.
  Variable s : sortfn.
  Hypothesis WK : well_keyed entries.

  (* results only grow at the end *)
  Lemma trav_res_prefix amount endh fuel : forall stack seen res cnt out,
    trav fuel entries s amount endh stack seen res cnt = Some out -> exists tail, out = res ++ tail.
  Proof.
    induction fuel as [|f IH]; intros stack seen res cnt out; destruct stack as [|e stack']; cbn [trav].
    - intros H; injection H as <-. exists []. now rewrite app_nil_r.
    - destruct (_ && _); [intros H; injection H as <-; exists []; now rewrite app_nil_r|discriminate].
    - intros H; injection H as <-. exists []. now rewrite app_nil_r.
    - destruct (_ && _); [intros H; injection H as <-; exists []; now rewrite app_nil_r|].
      destruct (ohas res (e_hash e)) eqn:O; [apply IH|].
      apply ohas_false in O. rewrite (oset_fresh _ _ _ O).
      destruct (match endh with Some h => N.eqb (e_hash e) h | None => false end); [intros H; injection H as <-; eauto|].
      fold (push_nexts entries (e_next e) (stack', e_hash e :: seen, false)).
      destruct (push_nexts entries (e_next e) (stack', e_hash e :: seen, false)) as [[stack'' seen''] md].
      intros H. apply IH in H. destruct H as [tail ->]. rewrite <- app_assoc. eauto.
  Qed.

  (* a bounded traversal is the full one, cut *)
  Lemma trav_bounded_is_cut amount endh fuel1 : forall fuel2 stack seen res cnt ob tailf,
    trav fuel1 entries s amount endh stack seen res cnt = Some ob ->
    trav fuel2 entries s (-1) None stack seen res cnt = Some (res ++ tailf) ->
    ob = res ++ cut amount endh cnt tailf.
  Proof.
    induction fuel1 as [|f1 IH]; intros fuel2 stack seen res cnt ob tailf; destruct stack as [|e stack'].
    - cbn [trav]. intros H1. injection H1 as <-. destruct fuel2; cbn [trav]; intros H2; injection H2 as H2;
        apply app_eq_self in H2; subst; cbn [cut]; now rewrite app_nil_r.
    - cbn [trav]. destruct ((0 <=? amount) && (amount <=? cnt)) eqn:Stop; [|discriminate].
      intros H1 _. injection H1 as <-. destruct tailf as [|[k v] t]; cbn [cut]; [now rewrite app_nil_r|]. rewrite Stop. now rewrite app_nil_r.
    - cbn [trav]. intros H1. injection H1 as <-. destruct fuel2; cbn [trav]; intros H2; injection H2 as H2;
        apply app_eq_self in H2; subst; cbn [cut]; now rewrite app_nil_r.
    - cbn [trav]. destruct ((0 <=? amount) && (amount <=? cnt)) eqn:Stop.
      + intros H1 _. injection H1 as <-. destruct tailf as [|[k v] t]; cbn [cut]; [now rewrite app_nil_r|]. rewrite Stop. now rewrite app_nil_r.
      + destruct fuel2 as [|f2]; [cbn [trav]; intros _ H2; cbn in H2; discriminate|].
        cbn [trav]. cbn [Z.leb Z.compare andb].
        destruct (ohas res (e_hash e)) eqn:O; [apply IH|].
        apply ohas_false in O. rewrite (oset_fresh _ _ _ O).
        fold (push_nexts entries (e_next e) (stack', e_hash e :: seen, false)).
        destruct (push_nexts entries (e_next e) (stack', e_hash e :: seen, false)) as [[stack'' seen''] md].
        destruct (match endh with Some h => N.eqb (e_hash e) h | None => false end) eqn:End.
        * intros H1 H2. injection H1 as <-.
          destruct (trav_res_prefix _ _ _ _ _ _ _ _ H2) as [t2 E2]. rewrite E2 in H2.
          rewrite <- app_assoc in E2. apply app_inv_head in E2. subst tailf. cbn [app cut]. rewrite Stop, End. reflexivity.
        * intros H1 H2.
          destruct (trav_res_prefix _ _ _ _ _ _ _ _ H2) as [t2 E2].
          assert (E3 := E2). rewrite <- app_assoc in E3. apply app_inv_head in E3. subst tailf.
          rewrite E2 in H2. rewrite (IH _ _ _ _ _ _ t2 H1 H2). rewrite <- app_assoc. cbn [app cut]. now rewrite Stop, End.
  Qed.
End Prefix.

(* ---- the iterator over an invariant log with the hash-tiebreak ordering ---- *)
Lemma get_all_spec m hs es : get_all m hs = Some es ->
  length es = length hs /\ forall e, In e es -> exists h, In h hs /\ oget m h = Some e.
Proof.
  revert es. induction hs as [|h hs IH]; intros es; cbn [get_all].
  - intros H; injection H as <-. split; [reflexivity|intros e []].
  - destruct (oget m h) as [e0|] eqn:G; [|discriminate]. destruct (get_all m hs) as [r|]; [|discriminate].
    intros H; injection H as <-. destruct (IH r eq_refl) as [L A]. split; [cbn; now rewrite L|].
    intros e [<-|He]; [exists h; split; [now left|auto]|]. destruct (A e He) as [h' [? ?]]. exists h'. split; [now right|auto].
Qed.

Section Iter.
  Variable l : log.
  Variable U : list entry.
  Hypothesis UO : univ_ok U.
  Hypothesis I : linv U l.
  Hypothesis TO : times_ok l.
  Hypothesis SH : l_sort l = SHash.

  Let entries := l_entries l.
  Let EN := li_nodup _ _ I.
  Let WK := linv_well_keyed _ _ I.

  (* every start entry is an entry of the log *)
  Lemma iter_start_in o st : iter_start l o = Ok st -> forall r, In r st -> In (e_hash r, r) entries.
  Proof.
    unfold iter_start. intros H r Hr.
    assert (Heads : forall r, In r (oslice (sorted_heads l)) -> In (e_hash r, r) entries).
    { intros x Hx. apply In_oslice in Hx. destruct Hx as [k Hx].
      apply sorted_heads_In in Hx; [|apply (li_heads_nodup _ _ I)|apply (heads_well_keyed _ _ I)].
      pose proof (heads_well_keyed _ _ I _ _ Hx). subst k. now apply (li_heads _ _ I) in Hx. }
    assert (GA : forall hs es, get_all entries hs = Some es -> forall x, In x es -> In (e_hash x, x) entries).
    { intros hs es G x Hx. destruct (get_all_spec _ _ _ G) as [_ A]. destruct (A x Hx) as [h [_ Hg]].
      apply oget_In in Hg. now rewrite (WK _ _ Hg). }
    destruct (it_lte o) as [hs|].
    - destruct (get_all (l_entries l) hs) as [es|] eqn:G; [|discriminate]. injection H as <-. eapply GA; eauto.
    - destruct (it_lt o) as [hs|]; [|injection H as <-; auto].
      revert H. generalize (oslice (sorted_heads l)) Heads. clear Heads.
      induction hs as [|c hs IH]; intros st0 H0; cbn [fold_left].
      + intros H; injection H as <-. auto.
      + destruct (oget (l_entries l) c) as [e|]; [|].
        * destruct (get_all (l_entries l) (e_next e)) as [es|] eqn:G.
          -- apply IH. intros x Hx. eapply GA; eauto.
          -- (* the error is sticky *)
             intros H. exfalso. clear - H. induction hs as [|c' hs IHh]; cbn [fold_left] in H; [discriminate|auto].
        * intros H. exfalso. clear - H. induction hs as [|c' hs IHh]; cbn [fold_left] in H; [discriminate|auto].
  Qed.

  Theorem iterator_spec o st :
    it_amount o <> Some 0 ->
    iter_start l o = Ok st ->
    let roots := oslice (from_entries st) in
    exists R,
      (* R: the causal past (inclusive) of the start entries inside the log, newest first, each once *)
      NoDup (okeys R) /\
      (forall k v, In (k, v) R <-> In (k, v) entries /\ treach entries roots k) /\
      StronglySorted (gt SHash) (oslice R) /\
      iterator l o = Ok (iter_post o (oslice (cut (iter_count o) (iter_end o) 0 R)), true).
  Proof.
    intros Hamt Hst roots.
    assert (RootsIn : forall r, In r roots -> In (e_hash r, r) entries).
    { intros r Hr. apply (iter_start_in o st Hst). now apply oslice_from_entries_subset in Hr. }
    set (stack0 := sort_desc SHash roots).
    set (fuel := trav_fuel entries stack0).
    assert (Hfuel : (length stack0 + unseen entries [] < fuel)%nat) by (unfold fuel, trav_fuel; rewrite unseen_nil; lia).
    destruct (trav fuel entries SHash (-1) None stack0 [] [] 0) as [R|] eqn:TF;
      [|exfalso; exact (trav_fuel_ok entries SHash EN WK (-1) None fuel stack0 [] [] 0 Hfuel TF)].
    destruct (trav fuel entries SHash (iter_count o) (iter_end o) stack0 [] [] 0) as [ob|] eqn:TB;
      [|exfalso; exact (trav_fuel_ok entries SHash EN WK _ _ fuel stack0 [] [] 0 Hfuel TB)].
    destruct (trav_all_spec entries SHash EN WK roots RootsIn
                (h_irrefl l TO) (h_trans l TO) (h_total l U I TO) (h_pred l U UO I TO) fuel R TF) as [A [B C]].
    exists R. split; [exact A|]. split; [exact B|]. split; [exact C|].
    pose proof (trav_bounded_is_cut entries SHash (iter_count o) (iter_end o) fuel fuel stack0 [] [] 0 ob R TB TF) as Hcut.
    cbn [app] in Hcut. subst ob.
    unfold iterator. rewrite Hst. unfold traverse. rewrite SH. fold roots. fold stack0. fold entries. fold fuel. rewrite TB.
    destruct (it_amount o) as [[|p|p]|]; try reflexivity. congruence.
  Qed.

  (* never a panic, whatever the options *)
  Theorem iterator_no_panic o : iterator l o <> Panic.
  Proof.
    unfold iterator. destruct (it_amount o) as [[|p|p]|]; try discriminate;
      (destruct (iter_start l o) as [st| |] eqn:S; [|discriminate|];
       [unfold traverse;
        match goal with |- context [trav ?f ?en ?s ?a ?e ?st0 [] [] 0] =>
          pose proof (trav_fuel_ok en s EN WK a e f st0 [] [] 0) as F;
          destruct (trav f en s a e st0 [] [] 0); [discriminate|exfalso; apply F; [unfold trav_fuel; rewrite unseen_nil; lia|reflexivity]] end
       |exfalso; revert S; unfold iter_start;
        destruct (it_lte o) as [hs|]; [destruct (get_all _ _); discriminate|];
        destruct (it_lt o) as [hs|]; [|discriminate];
        generalize (oslice (sorted_heads l)); induction hs as [|c hs IH]; intros st0; cbn [fold_left]; [discriminate|];
        destruct (oget (l_entries l) c) as [e|]; [destruct (get_all (l_entries l) (e_next e))|];
        try apply IH; clear; induction hs as [|c' hs IHh]; cbn [fold_left]; try discriminate; auto]).
  Qed.
End Iter.

(* on success the channel is always closed; an unknown upper bound is an error *)
Theorem iterator_closes l o es c : iterator l o = Ok (es, c) -> c = true.
Proof.
  unfold iterator. destruct (it_amount o) as [[|p|p]|];
    try (intros H; injection H as _ <-; reflexivity);
    (destruct (iter_start l o); [|discriminate|discriminate]; destruct (traverse _ _ _ _ _); [|discriminate];
     intros H; injection H as _ <-; reflexivity).
Qed.

Theorem iterator_unknown_lte l o hs : it_amount o <> Some 0 -> it_lte o = Some hs ->
  (exists h, In h hs /\ oget (l_entries l) h = None) -> iterator l o = Err ELteNotFound.
Proof.
  intros Ha Hl [h [Hin Hg]]. unfold iterator, iter_start. rewrite Hl.
  assert (get_all (l_entries l) hs = None).
  { clear Hl. induction hs as [|x hs IH]; [destruct Hin|]. cbn [get_all]. destruct Hin as [->|Hin].
    - now rewrite Hg.
    - destruct (oget (l_entries l) x); [|reflexivity]. now rewrite (IH Hin). }
  rewrite H. destruct (it_amount o) as [[|p|p]|]; try reflexivity. congruence.
Qed.

(* ---- reading [cut] ---- *)
Fixpoint upto (h : hash) (l : omap) : omap :=
  match l with
  | [] => []
  | (k, v) :: l' => (k, v) :: (if N.eqb k h then [] else upto h l')
  end.

Lemma cut_end h cnt l : cut (-1) (Some h) cnt l = upto h l.
Proof.
  revert cnt. induction l as [|[k v] l IH]; intros cnt; cbn [cut upto]; [reflexivity|].
  cbn [Z.leb Z.compare andb]. now rewrite IH.
Qed.

Lemma cut_amount k cnt l : 0 <= cnt <= k -> cut k None cnt l = firstn (Z.to_nat (k - cnt)) l.
Proof.
  revert cnt. induction l as [|[a v] l IH]; intros cnt H; cbn [cut].
  - now rewrite firstn_nil.
  - destruct (Z.leb_spec 0 k); [|lia]. cbn [andb]. destruct (Z.leb_spec k cnt).
    + replace (k - cnt) with 0 by lia. reflexivity.
    + rewrite IH by lia. replace (Z.to_nat (k - cnt)) with (S (Z.to_nat (k - (cnt + 1)))) by lia. reflexivity.
Qed.

(* the four shapes of a request, read off [iter_post] and [cut] *)
Lemma iter_view_all o R : it_gt o = None -> it_gte o = None -> it_amount o = None ->
  iter_post o (oslice (cut (iter_count o) (iter_end o) 0 R)) = oslice R.
Proof.
  intros G1 G2 A. unfold iter_post, iter_count, iter_end, iter_amount. rewrite G1, G2, A. cbn [andb].
  now rewrite cut_all.
Qed.

Lemma iter_view_newest o R k : it_gt o = None -> it_gte o = None -> it_amount o = Some k -> 0 <= k ->
  iter_post o (oslice (cut (iter_count o) (iter_end o) 0 R)) = firstn (Z.to_nat k) (oslice R).
Proof.
  intros G1 G2 A Hk. unfold iter_post, iter_count, iter_end, iter_amount. rewrite G1, G2, A. cbn [andb].
  rewrite cut_amount by lia. rewrite Z.sub_0_r. unfold oslice. now rewrite firstn_map.
Qed.

Lemma iter_view_gte o R h : it_gte o = Some h -> it_gt o = None -> it_amount o = None ->
  iter_post o (oslice (cut (iter_count o) (iter_end o) 0 R)) = oslice (upto h R).
Proof.
  intros G2 G1 A. unfold iter_post, iter_count, iter_end, iter_amount. rewrite G1, G2, A.
  cbn [andb Z.ltb Z.compare]. now rewrite cut_end.
Qed.

Lemma iter_view_gt o R h : it_gt o = Some h -> it_gte o = None -> it_amount o = None ->
  iter_post o (oslice (cut (iter_count o) (iter_end o) 0 R)) = removelast (oslice (upto h R)).
Proof.
  intros G1 G2 A. unfold iter_post, iter_count, iter_end, iter_amount. rewrite G1, G2, A.
  cbn [andb Z.ltb Z.compare]. now rewrite cut_end.
Qed.

Lemma iter_view_gte_amount o R h k : it_gte o = Some h -> it_gt o = None -> it_amount o = Some k -> 0 <= k ->
  let seg := oslice (upto h R) in
  iter_post o (oslice (cut (iter_count o) (iter_end o) 0 R)) =
  if k <? Z.of_nat (length seg) then skipn (Z.to_nat (Z.of_nat (length seg) - k)) seg else seg.
Proof.
  intros G2 G1 A Hk. cbn zeta. unfold iter_post, iter_count, iter_end, iter_amount. rewrite G1, G2, A.
  rewrite cut_end. assert (E : -1 <? k = true) by (apply Z.ltb_lt; lia). rewrite E. cbn [andb]. reflexivity.
Qed.

Lemma iter_view_gt_amount o R h k : it_gt o = Some h -> it_gte o = None -> it_amount o = Some k -> 0 <= k ->
  let seg := removelast (oslice (upto h R)) in
  iter_post o (oslice (cut (iter_count o) (iter_end o) 0 R)) =
  if k <? Z.of_nat (length seg) then skipn (Z.to_nat (Z.of_nat (length seg) - k)) seg else seg.
Proof.
  intros G1 G2 A Hk. cbn zeta. unfold iter_post, iter_count, iter_end, iter_amount. rewrite G1, G2, A.
  rewrite cut_end. assert (E : -1 <? k = true) by (apply Z.ltb_lt; lia). rewrite E. cbn [andb]. reflexivity.
Qed.

(* ---- the default ordering on tie-free logs: same sorts, same traversals, same iterator ---- *)
Lemma entry_eq_dec (a b : entry) : {a = b} + {a <> b}.
Proof.
  decide equality; try apply N.eq_dec; try apply Z.eq_dec; try apply bool_dec; apply (list_eq_dec N.eq_dec).
Qed.

Section IterLww.
  Variable l : log.
  Variable U : list entry.
  Hypothesis UO : univ_ok U.
  Hypothesis I : linv U l.
  Hypothesis TO : times_ok l.
  Hypothesis TF : tie_free l.

  Lemma lww_diag a : P (l_entries l) a -> sort_less (log_cmp SLww) true a a = true.
  Proof.
    intros Pa. assert (Ta : int64_range (e_time a)) by (apply TO; apply ents_In; eauto).
    unfold sort_less, log_cmp, raw_cmp. rewrite (OrderProofs.lww_spec N ncmp (key_of a) (key_of a)) by assumption.
    unfold OrderProofs.lww_val. rewrite Z.eqb_refl.
    assert (E : ncmp (sk_id (key_of a)) (sk_id (key_of a)) = 0) by (apply (OrderProofs.k_eq _ _ OrderProofs.ncmp_ord); reflexivity).
    rewrite E. reflexivity.
  Qed.

  Lemma sort_desc_lww_hash L : Forall (P (l_entries l)) L -> sort_desc SLww L = sort_desc SHash L.
  Proof.
    intros HP. unfold sort_desc, sort_go.
    apply (gosort_twin entry _ _ (P (l_entries l)) (lww_agree l TO TF) lww_diag
             (h_irrefl l TO) (h_trans l TO) (h_total l U I TO) entry_eq_dec L HP).
  Qed.

  Lemma heads_P : Forall (P (l_entries l)) (oslice (l_heads l)).
  Proof. rewrite Forall_forall. intros r Hr. now apply (roots_in l U I). Qed.

  Lemma iter_start_lww_eq_hash o : l_sort l = SLww -> iter_start l o = iter_start (with_sort l SHash) o.
  Proof.
    intros SL.
    assert (SH : sorted_heads l = sorted_heads (with_sort l SHash)).
    { unfold sorted_heads. cbn [with_sort l_sort l_heads]. rewrite SL. now rewrite (sort_desc_lww_hash _ heads_P). }
    unfold iter_start. rewrite SH. reflexivity.
  Qed.

  Theorem iterator_lww_eq_hash o : l_sort l = SLww -> iterator l o = iterator (with_sort l SHash) o.
  Proof.
    intros SL. pose proof (iter_start_lww_eq_hash o SL) as IS.
    unfold iterator. rewrite <- IS. cbn [with_sort l_entries l_sort]. rewrite SL.
    destruct (it_amount o) as [[|p|p]|]; try reflexivity;
      (destruct (iter_start l o) as [st| |] eqn:S; try reflexivity;
       unfold traverse;
       rewrite (traverse_ext2 (l_entries l) (linv_well_keyed _ _ I) SLww SHash sort_desc_lww_hash (oslice (from_entries st)));
       [reflexivity|];
       rewrite Forall_forall; intros r Hr; apply (iter_start_in l U I o st S); now apply oslice_from_entries_subset in Hr).
  Qed.
End IterLww.

(* the range theorem for every total ordering *)
Theorem iterator_spec_total U l o st : univ_ok U -> linv U l -> times_ok l -> order_total l ->
  it_amount o <> Some 0 -> iter_start l o = Ok st ->
  let roots := oslice (from_entries st) in
  exists R,
    NoDup (okeys R) /\
    (forall k v, In (k, v) R <-> In (k, v) (l_entries l) /\ treach (l_entries l) roots k) /\
    StronglySorted (gt SHash) (oslice R) /\
    iterator l o = Ok (iter_post o (oslice (cut (iter_count o) (iter_end o) 0 R)), true).
Proof.
  intros UO I TO [SH|[SL TF]] Ha S.
  - exact (iterator_spec l U UO I TO SH o st Ha S).
  - rewrite (iterator_lww_eq_hash l U I TO TF o SL). rewrite (iter_start_lww_eq_hash l U I TO TF o SL) in S.
    exact (iterator_spec (with_sort l SHash) U UO (linv_with_sort U l SHash I) (times_ok_with_sort l SHash TO) eq_refl o st Ha S).
Qed.
