(* Specification of [difference] (log.go): the entries of A reachable from A's heads through
   entries that B does not hold (and that carry B's log id).  With the log invariant on both sides
   this is exactly entries(A) \ entries(B) (see JoinProofs.v). *)
From Coq Require Import List ZArith Bool Lia Permutation.
From IpfsLog Require Import Model.Log Proofs.OmapProofs.
Import ListNotations.
Open Scope Z_scope.

Section Diff.
  Variable ea : omap.
  Variable lb : log.
  Variable roots : list hash.

  Definition okA (h : hash) (e : entry) : Prop :=
    oget ea h = Some e /\ ohas (l_entries lb) h = false /\ e_logid e = l_id lb /\ e_hash e = h.

  Inductive greach : hash -> Prop :=
  | gr_root h : In h roots -> greach h
  | gr_step h e n : greach h -> okA h e -> In n (e_next e) -> greach n.

  Record dinv (stack seen : list hash) (res : omap) : Prop := {
    d_nodup : NoDup (okeys res);
    d_sound : forall k v, In (k, v) res -> greach k /\ okA k v;
    d_stack : forall h, In h stack -> greach h;
    d_seen : forall h, In h seen -> In h (okeys res) \/ In h stack \/ (forall e, ~ okA h e);
    d_next : forall k v n, In (k, v) res -> In n (e_next v) -> ohas (l_entries lb) n = true \/ In n seen;
    d_roots : forall r, In r roots -> In r (okeys res) \/ In r stack \/ (forall e, ~ okA r e);
  }.

  Notation push_step := (diff_push lb).

  Lemma push_fold_spec ns st sn :
    let '(st', sn') := fold_left push_step ns (st, sn) in
    (forall h, In h st' <-> In h st \/ (In h ns /\ ~ In h sn /\ ohas (l_entries lb) h = false)) /\
    (forall h, In h sn' <-> In h sn \/ (In h ns /\ ohas (l_entries lb) h = false)).
  Proof.
    revert st sn. induction ns as [|n ns IH]; intros st sn; cbn [fold_left].
    - split; intros h; cbn [In]; tauto.
    - unfold diff_push at 2. destruct (mem n sn) eqn:M; cbn [negb andb].
      + specialize (IH st sn). destruct (fold_left push_step ns (st, sn)) as [st' sn'].
        destruct IH as [A B]. apply mem_In in M. split; intros h; [rewrite A|rewrite B]; cbn [In].
        * split; [tauto|]. intros [H|[[->|H] [H1 H2]]]; [auto|contradiction|auto].
        * split; [tauto|]. intros [H|[[->|H] H2]]; auto.
      + apply mem_false in M. destruct (ohas (l_entries lb) n) eqn:O; cbn [negb].
        * specialize (IH st sn). destruct (fold_left push_step ns (st, sn)) as [st' sn'].
          destruct IH as [A B]. split; intros h; [rewrite A|rewrite B]; cbn [In].
          -- split; [tauto|]. intros [H|[[->|H] [H1 H2]]]; [auto|congruence|auto].
          -- split; [tauto|]. intros [H|[[->|H] H2]]; [auto|congruence|auto].
        * specialize (IH (st ++ [n]) (n :: sn)). destruct (fold_left push_step ns (st ++ [n], n :: sn)) as [st' sn'].
          destruct IH as [A B]. split; intros h; [rewrite A|rewrite B]; rewrite ?in_app_iff; cbn [In].
          -- split.
             ++ intros [[H|[->|[]]]|[H1 [H2 H3]]]; auto. right. split; [auto|]. split; [|auto]. intro; apply H2; auto.
             ++ intros [H|[[->|H1] [H2 H3]]]; auto. destruct (N.eq_dec n h); [subst; auto|].
                right. split; [auto|]. split; [|auto]. intros [?|?]; auto.
          -- split; [intros [[->|H]|[H1 H2]]; auto|]. intros [H|[[->|H1] H2]]; auto.
  Qed.

  Lemma diff_loop_fold_eq fuel stack seen res :
    diff_loop fuel ea lb stack seen res =
    match stack with
    | [] => Some res
    | h :: stack' =>
      match fuel with
      | O => None
      | S f =>
        match oget ea h with
        | Some eA =>
          if negb (ohas (l_entries lb) h) && N.eqb (e_logid eA) (l_id lb) && N.eqb (e_hash eA) h then
            let '(stack'', seen'') := fold_left push_step (e_next eA) (stack', h :: seen) in
            diff_loop f ea lb stack'' seen'' (oset res h eA)
          else diff_loop f ea lb stack' seen res
        | None => diff_loop f ea lb stack' seen res
        end
      end
    end.
  Proof. destruct fuel, stack; reflexivity. Qed.

  Lemma diff_loop_inv fuel : forall stack seen res out,
    dinv stack seen res -> diff_loop fuel ea lb stack seen res = Some out ->
    exists seen', dinv [] seen' out.
  Proof.
    induction fuel as [|f IH]; intros stack seen res out DI; rewrite diff_loop_fold_eq.
    - destruct stack; [|discriminate]. intros H; inversion H; subst. exists seen. exact DI.
    - destruct stack as [|h stack']; [intros H; inversion H; subst; exists seen; exact DI|].
      destruct (oget ea h) as [eA|] eqn:G.
      + destruct (ohas (l_entries lb) h) eqn:OB; cbn [negb andb].
        * (* h is in B: dropped *)
          apply IH. destruct DI as [A B C D E F]. split; auto.
          -- intros x Hx. apply C. now right.
          -- intros x Hx. destruct (D x Hx) as [?|[[<-|?]|?]]; auto.
             right. right. intros e [_ [O _]]. congruence.
          -- intros r Hr. destruct (F r Hr) as [?|[[<-|?]|?]]; auto.
             right. right. intros e [_ [O _]]. congruence.
        * destruct (N.eqb_spec (e_logid eA) (l_id lb)) as [L|L];
             [destruct (N.eqb_spec (e_hash eA) h) as [HH|HH]|]; cbn [andb].
          -- (* taken *)
             pose proof (push_fold_spec (e_next eA) stack' (h :: seen)) as PS.
             destruct (fold_left push_step (e_next eA) (stack', h :: seen)) as [st' sn'].
             destruct PS as [PA PB]. apply IH.
             destruct DI as [A B C D E F].
             assert (OKh : okA h eA) by (repeat split; auto).
             assert (GRh : greach h) by (apply C; now left).
             split.
             ++ now apply NoDup_okeys_oset.
             ++ intros k v Hin. apply In_oset in Hin; auto. destruct Hin as [[-> ->]|[_ Hin]]; auto.
             ++ intros x Hx. apply PA in Hx. destruct Hx as [Hx|[Hx _]]; [apply C; now right|].
                eapply gr_step; eauto.
             ++ intros x Hx. apply PB in Hx. rewrite In_okeys_oset. cbn [In] in Hx.
                destruct Hx as [[<-|Hx]|[Hx O]]; auto.
                ** destruct (D x Hx) as [?|[[<-|?]|?]]; auto. right. left. apply PA. auto.
                ** destruct (in_dec N.eq_dec x (h :: seen)) as [I|I].
                   --- cbn [In] in I. destruct I as [<-|I]; auto.
                       destruct (D x I) as [?|[[<-|?]|?]]; auto. right. left. apply PA. auto.
                   --- right. left. apply PA. right. auto.
             ++ intros k v n Hin Hn. apply In_oset in Hin; auto. destruct Hin as [[-> ->]|[_ Hin]].
                ** destruct (ohas (l_entries lb) n) eqn:O; auto. right. apply PB. right. auto.
                ** destruct (E k v n Hin Hn) as [?|?]; auto. right. apply PB. left. now right.
             ++ intros r Hr. rewrite In_okeys_oset. destruct (F r Hr) as [?|[[<-|?]|?]]; auto.
                right. left. apply PA. auto.
          -- (* filed under a key that is not its hash: dropped *)
             apply IH. destruct DI as [A B C D E F]. split; auto.
             ++ intros x Hx. apply C. now right.
             ++ intros x Hx. destruct (D x Hx) as [?|[[<-|?]|?]]; auto.
                right. right. intros e [G' [_ [_ H']]]. congruence.
             ++ intros r Hr. destruct (F r Hr) as [?|[[<-|?]|?]]; auto.
                right. right. intros e [G' [_ [_ H']]]. congruence.
          -- (* foreign log id: dropped *)
             apply IH. destruct DI as [A B C D E F]. split; auto.
             ++ intros x Hx. apply C. now right.
             ++ intros x Hx. destruct (D x Hx) as [?|[[<-|?]|?]]; auto.
                right. right. intros e [G' [_ [L' _]]]. congruence.
             ++ intros r Hr. destruct (F r Hr) as [?|[[<-|?]|?]]; auto.
                right. right. intros e [G' [_ [L' _]]]. congruence.
      + (* not in A: dropped *)
        apply IH. destruct DI as [A B C D E F]. split; auto.
        * intros x Hx. apply C. now right.
        * intros x Hx. destruct (D x Hx) as [?|[[<-|?]|?]]; auto.
          right. right. intros e [G' _]. congruence.
        * intros r Hr. destruct (F r Hr) as [?|[[<-|?]|?]]; auto.
          right. right. intros e [G' _]. congruence.
  Qed.

  Theorem diff_loop_spec fuel out :
    diff_loop fuel ea lb roots [] [] = Some out ->
    NoDup (okeys out) /\
    forall k v, In (k, v) out <-> greach k /\ okA k v.
  Proof.
    intros H.
    assert (DI0 : dinv roots [] []).
    { split; cbn; try (now constructor); try tauto; try (intros; contradiction);
        try (intros h Hh; now apply gr_root). }
    destruct (diff_loop_inv _ _ _ _ _ DI0 H) as [seen' DI].
    destruct DI as [A B C D E F]. split; [exact A|]. intros k v. split; [apply B|].
    intros [GR OK]. revert v OK. induction GR as [h Hr|h e n GR IHg OKh Hn]; intros v OK.
    - destruct (F h Hr) as [Hk|[[]|Hno]]; [|exfalso; eapply Hno; eauto].
      apply In_okeys in Hk. destruct Hk as [v' Hk]. destruct (B _ _ Hk) as [_ [G' _]].
      destruct OK as [G _]. congruence.
    - specialize (IHg e OKh). destruct (E _ _ _ IHg Hn) as [O|S];
        [destruct OK as [_ [O' _]]; congruence|].
      destruct (D n S) as [Hk|[[]|Hno]]; [|exfalso; eapply Hno; eauto].
      apply In_okeys in Hk. destruct Hk as [v' Hk]. destruct (B _ _ Hk) as [_ [G' _]].
      destruct OK as [G _]. congruence.
  Qed.
End Diff.
