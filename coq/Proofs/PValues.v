(* GENERATED ONCE from ValuesProofs.v by renaming (linv -> pinv, lemma X -> pX) and then maintained by
   hand: the same theorems for logs that bounded joins may have truncated - only [pall_reachable]
   needed a new proof, nothing else in ValuesProofs.v used causal closure.
   Values() of a log satisfying the invariant (C03): complete, duplicate free, sorted by the
   log's ordering and hence causally ordered.  First for the hash-tiebreak ordering (always a strict
   total order), then transferred to the default ordering on tie-free logs. *)
From Coq Require Import List ZArith Bool Lia Permutation Sorted.
From IpfsLog Require Import Model.Log Proofs.OmapProofs Proofs.SortProofs Proofs.OrderProofs Proofs.Inv Proofs.PInv Proofs.ValuesProofs
     Proofs.DiffProofs Proofs.JoinProofs Proofs.TravProofs.
Import ListNotations.
Open Scope Z_scope.


(* the closed form of the descending "less" for the hash-tiebreak ordering *)



Section HashOrder.
  Variable l : log.
  Variable U : list entry.
  Hypothesis UO : univ_ok U.
  Hypothesis I : pinv U l.
  Hypothesis TO : times_ok l.

  Let entries := l_entries l.
  Notation P := (P entries).

  Lemma pP_time e : P e -> int64_range (e_time e).
  Proof. intros H. apply TO. apply ents_In. eauto. Qed.

  Lemma pP_neq_hash a b : P a -> P b -> a <> b -> e_hash a <> e_hash b.
  Proof.
    intros Pa Pb Hne Heq. apply Hne. unfold TravProofs.P in *. rewrite Heq in Pa.
    apply In_oget in Pa, Pb; try apply (pi_nodup _ _ I). congruence.
  Qed.

  Lemma ph_irrefl a : P a -> sort_less (log_cmp SHash) true a a = false.
  Proof.
    intros Pa. rewrite sort_less_hash_desc by now apply pP_time. unfold hv.
    pose proof (hash_zero N ncmp ncmp_ord (key_of a) (key_of a) (pP_time _ Pa) (pP_time _ Pa)) as Z0.
    assert (hash_val N ncmp (key_of a) (key_of a) = 0) by (apply Z0; auto). rewrite H. reflexivity.
  Qed.

  Lemma ph_trans a b c : P a -> P b -> P c -> gt SHash a b -> gt SHash b c -> gt SHash a c.
  Proof.
    unfold gt. intros Pa Pb Pc. rewrite !sort_less_hash_desc by now apply pP_time.
    rewrite !Z.ltb_lt. unfold hv. intros H1 H2.
    pose proof (hash_anti N ncmp ncmp_ord (key_of a) (key_of b) (pP_time _ Pa) (pP_time _ Pb)).
    pose proof (hash_anti N ncmp ncmp_ord (key_of b) (key_of c) (pP_time _ Pb) (pP_time _ Pc)).
    pose proof (hash_anti N ncmp ncmp_ord (key_of a) (key_of c) (pP_time _ Pa) (pP_time _ Pc)).
    pose proof (hash_trans N ncmp ncmp_ord (key_of c) (key_of b) (key_of a) (pP_time _ Pc) (pP_time _ Pb) (pP_time _ Pa)).
    lia.
  Qed.

  Lemma ph_total a b : P a -> P b -> a <> b -> gt SHash a b \/ gt SHash b a.
  Proof.
    unfold gt. intros Pa Pb Hne. rewrite !sort_less_hash_desc by now apply pP_time. rewrite !Z.ltb_lt. unfold hv.
    pose proof (hash_anti N ncmp ncmp_ord (key_of a) (key_of b) (pP_time _ Pa) (pP_time _ Pb)).
    pose proof (hash_total N ncmp ncmp_ord (key_of a) (key_of b) (pP_time _ Pa) (pP_time _ Pb) (pP_neq_hash a b Pa Pb Hne)).
    lia.
  Qed.

  Lemma ph_time a b : P a -> P b -> e_time b < e_time a -> gt SHash a b.
  Proof.
    unfold gt. intros Pa Pb Ht. rewrite sort_less_hash_desc by now apply pP_time. rewrite Z.ltb_lt. unfold hv.
    pose proof (hash_anti N ncmp ncmp_ord (key_of a) (key_of b) (pP_time _ Pa) (pP_time _ Pb)).
    pose proof (hash_time N ncmp ncmp_ord (key_of b) (key_of a) (pP_time _ Pb) (pP_time _ Pa) Ht). lia.
  Qed.

  Lemma ph_pred e n p : P e -> In n (e_next e) -> oget entries n = Some p -> gt SHash e p.
  Proof.
    intros Pe Hn Hg. apply oget_In in Hg.
    assert (Pp : P p) by (unfold TravProofs.P; now rewrite (pinv_well_keyed _ _ I _ _ Hg)).
    apply ph_time; auto. eapply (pinv_mono U l); eauto. apply ents_In. eauto.
  Qed.
End HashOrder.



(* every entry of a log - truncated or not - is reachable from its heads: climb from the entry
   along "is named by" until an unreferenced entry, which is a head *)
Lemma pall_reachable U l : univ_ok U -> pinv U l ->
  forall k v, In (k, v) (l_entries l) -> treach (l_entries l) (oslice (l_heads l)) k.
Proof.
  intros UO I.
  assert (X : forall n k v, l_time l - e_time v < Z.of_nat n -> In (k, v) (l_entries l) ->
              treach (l_entries l) (oslice (l_heads l)) k).
  { induction n as [|n IH]; intros k v Hm Hin.
    - assert (In v (ents l)) by (apply ents_In; eauto). pose proof (pi_time _ _ I _ H). lia.
    - destruct (classic_named (ents l) k) as [Hn|Hn].
      + apply named_in_iff in Hn. destruct Hn as [e' [He' Hk]].
        destruct (pinv_entry _ _ _ I He') as [Hin' _].
        assert (Ht : e_time v < e_time e') by (eapply (pinv_mono U l); eauto).
        eapply tr_step; [apply (IH (e_hash e') e'); auto; lia| |exact Hk].
        apply In_oget; auto. apply (pi_nodup _ _ I).
      + assert (Hh : In (k, v) (l_heads l)) by (apply (pi_heads _ _ I); auto).
        pose proof (pheads_well_keyed _ _ I _ _ Hh) as Hk. rewrite <- Hk. apply tr_root.
        apply In_oslice. eauto. }
  intros k v Hin. apply (X (S (Z.to_nat (l_time l - e_time v))) k v); [lia|exact Hin].
Qed.

Section ValuesHash.
  Variable l : log.
  Variable U : list entry.
  Hypothesis UO : univ_ok U.
  Hypothesis I : pinv U l.
  Hypothesis TO : times_ok l.
  Hypothesis SH : l_sort l = SHash.

  Lemma proots_in r : In r (oslice (l_heads l)) -> In (e_hash r, r) (l_entries l).
  Proof.
    intros H. apply In_oslice in H. destruct H as [k H]. pose proof (pheads_well_keyed _ _ I _ _ H). subst k.
    now apply (pi_heads _ _ I) in H.
  Qed.

  Theorem pvalues_hash_spec :
    exists v, values l = Some v /\
      NoDup (okeys v) /\
      (forall k e, In (k, e) v <-> In (k, e) (l_entries l)) /\
      StronglySorted (fun a b => gt SHash b a) (oslice v).
  Proof.
    unfold values, traverse. rewrite SH.
    set (stack0 := sort_desc SHash (oslice (l_heads l))).
    pose proof (trav_fuel_ok (l_entries l) SHash (pi_nodup _ _ I) (pinv_well_keyed _ _ I) (-1) None
                  (trav_fuel (l_entries l) stack0) stack0 [] [] 0) as F.
    destruct (trav (trav_fuel (l_entries l) stack0) (l_entries l) SHash (-1) None stack0 [] [] 0) as [out|] eqn:T.
    2:{ exfalso. apply F; [|reflexivity]. unfold trav_fuel. rewrite unseen_nil. lia. }
    destruct (trav_all_spec (l_entries l) SHash (pi_nodup _ _ I) (pinv_well_keyed _ _ I) (oslice (l_heads l)) proots_in
                (ph_irrefl l TO) (ph_trans l TO) (ph_total l U I TO) (ph_pred l U UO I TO) _ out T) as [A [B C]].
    exists (rev out). split; [reflexivity|]. split; [|split].
    - unfold okeys. rewrite map_rev. apply NoDup_rev. exact A.
    - intros k e. rewrite <- in_rev, B. split; [tauto|]. intros H. split; [auto|]. eapply pall_reachable; eauto.
    - unfold oslice. rewrite map_rev. apply StronglySorted_rev. exact C.
  Qed.
End ValuesHash.

(* ---- the default ordering on tie-free logs ---- *)



Lemma pinv_with_sort U l s : pinv U l -> pinv U (with_sort l s).
Proof. intros I. destruct I. split; auto. Qed.

Lemma pheads_slice_nodup U l : pinv U l -> NoDup (oslice (l_heads l)).
Proof.
  intros I. pose proof (pi_heads_nodup _ _ I) as Hnd. pose proof (pheads_well_keyed _ _ I) as Hw.
  apply (NoDup_map_inv e_hash).
  replace (map e_hash (oslice (l_heads l))) with (okeys (l_heads l)); [exact Hnd|].
  unfold okeys, oslice. rewrite map_map. apply map_ext_in. intros [k e] Hin. cbn. symmetry. now apply Hw.
Qed.

Section ValuesLww.
  Variable l : log.
  Variable U : list entry.
  Hypothesis UO : univ_ok U.
  Hypothesis I : pinv U l.
  Hypothesis TO : times_ok l.
  Hypothesis TF : tie_free l.

  Lemma plww_agree a b : P (l_entries l) a -> P (l_entries l) b -> a <> b ->
    sort_less (log_cmp SLww) true a b = sort_less (log_cmp SHash) true a b.
  Proof.
    intros Pa Pb Hne. unfold sort_less. rewrite log_cmp_lww_eq_hash; auto.
    - apply TO. apply ents_In. eauto.
    - apply TO. apply ents_In. eauto.
    - apply TF; auto; apply ents_In; eauto.
  Qed.

  Theorem pvalues_lww_eq_hash : l_sort l = SLww -> values l = values (with_sort l SHash).
  Proof.
    intros SL. unfold values, traverse. cbn [with_sort l_entries l_sort l_heads]. rewrite SL.
    rewrite (traverse_ext (l_entries l) (pinv_well_keyed _ _ I) SLww SHash plww_agree
               (oslice (l_heads l)) (proots_in l U I) (pheads_slice_nodup U l I)); [reflexivity|].
    intros r e Hr Pe Hn. apply In_oslice in Hr. destruct Hr as [k Hr].
    pose proof (pheads_well_keyed _ _ I _ _ Hr). subst k.
    apply (pi_heads _ _ I) in Hr. destruct Hr as [_ Hun]. apply Hun. apply named_in_iff.
    exists e. split; [apply ents_In; eauto|exact Hn].
  Qed.
End ValuesLww.

(* ---- the general statement: for the hash-tiebreak ordering always, for the default ordering on
        tie-free logs ---- *)



Theorem pvalues_spec U l : univ_ok U -> pinv U l -> times_ok l -> order_total l ->
  exists v, values l = Some v /\
    NoDup (okeys v) /\
    (forall k e, In (k, e) v <-> In (k, e) (l_entries l)) /\
    StronglySorted (asc l) (oslice v) /\
    StronglySorted (fun a b => gt SHash b a) (oslice v).
Proof.
  intros UO I TO OT.
  assert (X : forall l0, pinv U l0 -> times_ok l0 -> l_sort l0 = SHash ->
            exists v, values l0 = Some v /\ NoDup (okeys v) /\ (forall k e, In (k, e) v <-> In (k, e) (l_entries l0)) /\
                      StronglySorted (fun a b => gt SHash b a) (oslice v)).
  { intros l0 I0 T0 S0. exact (pvalues_hash_spec l0 U UO I0 T0 S0). }
  destruct OT as [SH|[SL TF]].
  - destruct (X l I TO SH) as [v [V [A [B C]]]]. exists v. repeat split; auto; try apply B.
    eapply StronglySorted_impl_in; [|exact C]. intros a b Ha Hb G. unfold asc. rewrite SH.
    assert (Ta : int64_range (e_time a)) by (apply TO; apply In_oslice in Ha; destruct Ha as [k Ha]; apply B in Ha; apply ents_In; eauto).
    assert (Tb : int64_range (e_time b)) by (apply TO; apply In_oslice in Hb; destruct Hb as [k Hb]; apply B in Hb; apply ents_In; eauto).
    unfold gt in G. rewrite sort_less_hash_desc in G by assumption. rewrite sort_less_hash_asc by assumption.
    apply Z.ltb_lt in G. apply Z.ltb_lt. unfold hv in *.
    pose proof (hash_anti N ncmp ncmp_ord (key_of a) (key_of b) Ta Tb). lia.
  - rewrite (pvalues_lww_eq_hash l U I TO TF SL).
    destruct (X (with_sort l SHash) (pinv_with_sort U l SHash I) (times_ok_with_sort l SHash TO) eq_refl) as [v [V [A [B C]]]].
    cbn [with_sort l_entries] in B. exists v. repeat split; auto; try apply B.
    eapply StronglySorted_impl_in; [|exact C]. intros a b Ha Hb G. unfold asc. rewrite SL.
    assert (Ea : In a (ents l)) by (apply In_oslice in Ha; destruct Ha as [k Ha]; apply B in Ha; apply ents_In; eauto).
    assert (Eb : In b (ents l)) by (apply In_oslice in Hb; destruct Hb as [k Hb]; apply B in Hb; apply ents_In; eauto).
    pose proof (TO a Ea) as Ta. pose proof (TO b Eb) as Tb.
    assert (Hne : a <> b).
    { intro; subst b. unfold gt in G. rewrite sort_less_hash_desc in G by assumption. unfold hv in G.
      assert (hash_val N ncmp (key_of a) (key_of a) = 0) by (apply (hash_zero N ncmp ncmp_ord); auto).
      rewrite H in G. discriminate. }
    unfold sort_less. rewrite log_cmp_lww_eq_hash; auto.
    change (sort_less (log_cmp SHash) false a b = true). rewrite sort_less_hash_asc by assumption.
    unfold gt in G. rewrite sort_less_hash_desc in G by assumption.
    apply Z.ltb_lt in G. apply Z.ltb_lt. unfold hv in *.
    pose proof (hash_anti N ncmp ncmp_ord (key_of a) (key_of b) Ta Tb). lia.
Qed.

(* ---- causality and uniqueness ---- *)

Theorem pvalues_causal U l v : univ_ok U -> pinv U l -> times_ok l ->
  (forall k e, In (k, e) v <-> In (k, e) (l_entries l)) ->
  StronglySorted (fun a b => gt SHash b a) (oslice v) ->
  forall l1 e l2, oslice v = l1 ++ e :: l2 ->
  forall n p, In n (e_next e) -> In (n, p) (l_entries l) -> In p l1.
Proof.
  intros UO I TO B C l1 e l2 E n p Hn Hp.
  assert (He : In e (ents l)).
  { assert (In e (oslice v)) by (rewrite E; apply in_or_app; right; now left).
    apply In_oslice in H. destruct H as [k H]. apply B in H. apply ents_In. eauto. }
  assert (Pe : P (l_entries l) e) by (now apply (pinv_entry _ _ _ I)).
  assert (Gp : gt SHash e p) by (eapply (ph_pred l U UO I TO); eauto; apply In_oget; auto; apply (pi_nodup _ _ I)).
  assert (Hpv : In p (oslice v)) by (apply In_oslice; exists n; now apply B).
  rewrite E in Hpv. apply in_app_iff in Hpv. destruct Hpv as [?|[<-|Hp2]]; [assumption| |].
  - exfalso. pose proof (pinv_mono U l e n e UO I He Hn Hp). lia.
  - exfalso. rewrite E in C. pose proof (sorted_app_tail _ _ _ _ C) as F. rewrite Forall_forall in F.
    specialize (F p Hp2). cbn beta in F.
    assert (Pp : P (l_entries l) p) by (unfold P; now rewrite (pinv_well_keyed _ _ I _ _ Hp)).
    exact (gt_asym (l_entries l) SHash (ph_irrefl l TO) (ph_trans l TO) e p Pe Pp Gp F).
Qed.

Theorem pvalues_unique U l1 l2 v1 v2 :
  univ_ok U -> pinv U l1 -> pinv U l2 -> times_ok l1 ->
  (forall k e, In (k, e) (l_entries l1) <-> In (k, e) (l_entries l2)) ->
  NoDup (okeys v1) -> NoDup (okeys v2) ->
  (forall k e, In (k, e) v1 <-> In (k, e) (l_entries l1)) ->
  (forall k e, In (k, e) v2 <-> In (k, e) (l_entries l2)) ->
  StronglySorted (fun a b => gt SHash b a) (oslice v1) ->
  StronglySorted (fun a b => gt SHash b a) (oslice v2) ->
  v1 = v2.
Proof.
  intros UO I1 I2 TO Same N1 N2 B1 B2 S1 S2.
  assert (W1 : well_keyed v1) by (intros k e H; apply B1 in H; now apply (pi_in_U _ _ I1) in H).
  assert (W2 : well_keyed v2) by (intros k e H; apply B2 in H; now apply (pi_in_U _ _ I2) in H).
  rewrite <- (oslice_pairs v1 W1), <- (oslice_pairs v2 W2). f_equal.
  assert (Hin : forall e, In e (oslice v1) <-> In e (oslice v2)).
  { intros e. rewrite !In_oslice. split; intros [k H]; exists k; [apply B2, Same, B1|apply B1, Same, B2]; exact H. }
  assert (ND : forall v, NoDup (okeys v) -> well_keyed v -> NoDup (oslice v)).
  { intros v Nv Wv. apply (NoDup_map_inv e_hash).
    replace (map e_hash (oslice v)) with (okeys v); [exact Nv|].
    unfold okeys, oslice. rewrite map_map. apply map_ext_in. intros [k e] H. cbn. symmetry. now apply Wv. }
  assert (PP : forall e, In e (oslice v1) -> P (l_entries l1) e).
  { intros e He. apply In_oslice in He. destruct He as [k He]. apply B1 in He. pose proof (pinv_well_keyed _ _ I1 _ _ He). subst k. exact He. }
  apply (sorted_unique entry (fun a b => sort_less (log_cmp SHash) true b a) (P (l_entries l1))).
  - intros a Pa. now apply (ph_irrefl l1 TO).
  - intros a b c Pa Pb Pc H1 H2. exact (ph_trans l1 TO c b a Pc Pb Pa H2 H1).
  - rewrite Forall_forall. exact PP.
  - exact S1.
  - exact S2.
  - apply NoDup_Permutation; auto.
Qed.

(* ---- two strictly sorted enumerations of nested sets: the smaller is a subsequence of the larger ---- *)


Theorem pvalues_subsequence U l l' v v' :
  univ_ok U -> pinv U l -> pinv U l' -> times_ok l' ->
  (forall k e, In (k, e) (l_entries l) -> In (k, e) (l_entries l')) ->
  (forall k e, In (k, e) v <-> In (k, e) (l_entries l)) ->
  (forall k e, In (k, e) v' <-> In (k, e) (l_entries l')) ->
  StronglySorted (fun a b => gt SHash b a) (oslice v) ->
  StronglySorted (fun a b => gt SHash b a) (oslice v') ->
  subseq (oslice v) (oslice v').
Proof.
  intros UO I I' TO Sub B B' S S'.
  assert (PP : forall e, In e (oslice v') -> P (l_entries l') e).
  { intros e He. apply In_oslice in He. destruct He as [k He]. apply B' in He.
    pose proof (pinv_well_keyed _ _ I' _ _ He). subst k. exact He. }
  apply (sorted_incl_subseq (fun a b => gt SHash b a)); auto.
  - intros a b Ha Hb G. apply (gt_asym (l_entries l') SHash (ph_irrefl l' TO) (ph_trans l' TO)); auto.
  - intros a Ha G. unfold gt in G. rewrite (ph_irrefl l' TO a (PP a Ha)) in G. discriminate.
  - intros e He. apply In_oslice in He. destruct He as [k He]. apply In_oslice. exists k. apply B'. apply Sub. now apply B.
Qed.
