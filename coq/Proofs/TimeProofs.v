(* Clock times stay small: along a well-formed history every entry's time and every replica's clock
   is between 0 and the number of entries ever appended, so the int64 range of Go's int is never
   left by any history that fits in memory (the hypothesis [times_ok] of the ordering theorems). *)
From Coq Require Import List ZArith Bool Lia Permutation.
From IpfsLog Require Import Model.System Proofs.OmapProofs Proofs.SortProofs Proofs.Inv Proofs.JoinProofs Proofs.SysProofs.
Import ListNotations.
Open Scope Z_scope.

(* A replica may be opened with a clock of its own (LogOptions.Clock, [ONew]'s last argument): the
   bound is the largest such seed plus the number of entries ever appended. *)
Definition seed_of (o : op) : Z := match o with ONew _ _ _ _ t0 => t0 | _ => 0 end.
Definition max_seed (ops : list op) : Z := fold_right (fun o m => Z.max (seed_of o) m) 0 ops.
Definition hist_bound (ops : list op) : Z := max_seed ops + Z.of_nat (length ops).

Lemma max_seed_nonneg ops : 0 <= max_seed ops.
Proof. induction ops as [|o ops IH]; cbn [max_seed fold_right]; [lia|]. fold (max_seed ops). lia. Qed.

Lemma max_seed_bounds ops : Forall (fun o => seed_of o <= max_seed ops) ops.
Proof.
  induction ops as [|o ops IH]; cbn [max_seed fold_right]; constructor; [lia|].
  eapply Forall_impl; [|exact IH]. cbn. intros a Ha. fold (max_seed ops). lia.
Qed.

Lemma max_seed_app a b : max_seed (a ++ b) = Z.max (max_seed a) (max_seed b).
Proof.
  pose proof (max_seed_nonneg b) as Hb. unfold max_seed in *.
  induction a as [|o a IH]; cbn [app fold_right]; lia.
Qed.

Lemma hist_bound_app_l a b : hist_bound a <= hist_bound (a ++ b).
Proof. unfold hist_bound. rewrite max_seed_app, app_length. lia. Qed.

(* histories that open every replica without a clock: the bound is the number of operations *)
Lemma hist_bound_unseeded ops : Forall (fun o => seed_of o = 0) ops -> hist_bound ops = Z.of_nat (length ops).
Proof.
  intros H. unfold hist_bound. replace (max_seed ops) with 0; [lia|].
  induction H as [|o ops Ho _ IH]; cbn [max_seed fold_right]; [reflexivity|]. fold (max_seed ops). lia.
Qed.

Definition tbound (B : Z) (s : sys) : Prop :=
  (forall e, In e (s_univ s) -> 0 < e_time e <= (B + Z.of_nat (length (s_univ s)))) /\
  (forall r l, nth_error (s_logs s) r = Some l -> 0 <= l_time l <= (B + Z.of_nat (length (s_univ s)))).

Lemma heads_in_U U l e : linv U l -> In e (oslice (l_heads l)) -> In e U.
Proof.
  intros I H. apply In_oslice in H. destruct H as [k H]. apply (li_heads _ _ I) in H. destruct H as [H _].
  now apply (li_in_U _ _ I) in H.
Qed.

Lemma max_time_heads_bound U l d b : linv U l -> (forall e, In e U -> e_time e <= b) -> d <= b ->
  max_time (oslice (l_heads l)) d <= b.
Proof. intros I HU Hd. apply max_time_bound; auto. intros e He. apply HU. eapply heads_in_U; eauto. Qed.

Lemma join_time l o same size l' out : join l o same size = (l', out) ->
  l_time l' = l_time l \/ l_time l' = Z.max (l_time l) (max_time (oslice (l_heads l')) 0).
Proof.
  unfold join, join_reads. destruct same; [intros H; injection H as <- _; auto|].
  destruct (negb _); [intros H; injection H as <- _; auto|].
  destruct (difference _ _ _); [|intros H; injection H as <- _; auto].
  destruct (negb _); [intros H; injection H as <- _; auto|].
  destruct (size <? 0); [intros H; injection H as <- _; cbn; auto|].
  destruct (values _); intros H; injection H as <- _; cbn; auto.
Qed.

Theorem tbound_step B s o : 0 <= B -> seed_of o <= B -> sinv s -> wf_step s o -> tbound B s -> tbound B (fst (step s o)).
Proof.
  intros HB HS SI W [TU TL]. pose proof (sinv_step s o SI W) as SI'. destruct SI as [UO IL].
  destruct o as [id key sf deny t0|r payload pc h|r src size|r key|r mh|r io|r payload pc h|r|osrc okeep ohh oid okey osf odeny]; cbn [step].
  - split; [exact TU|]. cbn [fst s_logs s_univ]. intros r l H.
    destruct (Nat.lt_ge_cases r (length (s_logs s))) as [Hl|Hl].
    + rewrite nth_error_app1 in H by assumption. eauto.
    + rewrite nth_error_app2 in H by assumption. destruct (r - length (s_logs s))%nat as [|n]; cbn in H.
      * injection H as <-. cbn in *. lia.
      * destruct n; discriminate.
  - destruct (nth_error (s_logs s) r) as [l|] eqn:L; [|split; auto].
    unfold append. destruct (append_entry l payload pc h) as [e|] eqn:AE.
    + assert (Ht : 0 < e_time e <= (B + Z.of_nat (length (s_univ s))) + 1).
      { rewrite (ae_time l payload pc h e AE). destruct (TL r l L).
        assert (max_time (oslice (sorted_heads l)) 0 <= (B + Z.of_nat (length (s_univ s)))).
        { apply max_time_bound; [lia|]. intros x Hx. apply In_oslice in Hx. destruct Hx as [k Hx].
          apply sorted_heads_In in Hx; [|apply (li_heads_nodup _ _ (IL r l L))|apply (heads_well_keyed _ _ (IL r l L))].
          apply TU. eapply heads_in_U; [apply (IL r l L)|]. apply In_oslice. eauto. }
        pose proof (max_time_ge (oslice (sorted_heads l)) 0). lia. }
      assert (X : forall l', l_time l' = e_time e \/ l_time l' = l_time l ->
                tbound B (mkSys (set_nth r l' (s_logs s)) (s_univ s ++ [e]) (add_block (s_store s) h (e_next e ++ e_refs e)))).
      { intros l' Hl'. split; cbn [s_univ s_logs]; rewrite app_length; cbn [length].
        - intros x Hx. rewrite in_app_iff in Hx. cbn [In] in Hx. destruct Hx as [Hx|[<-|[]]]; [specialize (TU x Hx)|]; lia.
        - intros r' l'' H. rewrite nth_error_set_nth, L in H. destruct (Nat.eqb r r').
          + injection H as <-. destruct (TL r l L). destruct Hl' as [->| ->]; lia.
          + specialize (TL r' l'' H). lia. }
      destruct (allowed l e); cbn [fst]; apply X; cbn; auto.
    + cbn [fst]. split; [exact TU|]. cbn [s_logs s_univ]. intros r' l' H. rewrite nth_error_set_nth, L in H.
      destruct (Nat.eqb r r'); [injection H as <-; eauto|eauto].
  - destruct (nth_error (s_logs s) r) as [l|] eqn:L; [|split; auto].
    destruct (nth_error (s_logs s) src) as [o|] eqn:O; [|split; auto].
    destruct (join l o (Nat.eqb r src) size) as [l' out] eqn:J. cbn [fst].
    split; [exact TU|]. cbn [s_logs s_univ]. intros r' l'' H. rewrite nth_error_set_nth, L in H.
    destruct (Nat.eqb r r'); [|eauto]. injection H as <-.
    pose proof (join_linv (s_univ s) l o (Nat.eqb r src) size l' out UO (IL r l L) (IL src o O) W J) as Il'.
    destruct (TL r l L). destruct (join_time _ _ _ _ _ _ J) as [->| ->]; [lia|].
    pose proof (max_time_heads_bound (s_univ s) l' 0 ((B + Z.of_nat (length (s_univ s)))) Il'
                  (fun e He => proj2 (TU e He)) ltac:(lia)).
    pose proof (max_time_ge (oslice (l_heads l')) 0). lia.
  - destruct (nth_error (s_logs s) r) as [l|] eqn:L; [|split; auto]. cbn [fst].
    split; [exact TU|]. cbn [s_logs s_univ]. intros r' l' H. rewrite nth_error_set_nth, L in H.
    destruct (Nat.eqb r r'); [|eauto]. injection H as <-. cbn [set_identity l_time].
    destruct (TL r l L).
    pose proof (max_time_heads_bound (s_univ s) l (l_time l) ((B + Z.of_nat (length (s_univ s)))) (IL r l L)
                  (fun e He => proj2 (TU e He)) ltac:(lia)).
    pose proof (max_time_ge (oslice (l_heads l)) (l_time l)). lia.
  - destruct (nth_error (s_logs s) r) as [l|] eqn:L; [|split; auto].
    destruct (olen (l_heads l) =? 0); split; auto.
  - destruct (nth_error (s_logs s) r) as [l|] eqn:L; [|split; auto].
    destruct (iterator l io) as [[es c]| |]; split; auto.
  - destruct (nth_error (s_logs s) r) as [l|] eqn:L; [|split; auto].
    destruct (append_entry l payload pc h) as [e|] eqn:AE; [|split; auto].
    assert (Ht : 0 < e_time e <= (B + Z.of_nat (length (s_univ s))) + 1).
    { rewrite (ae_time l payload pc h e AE). destruct (TL r l L).
      assert (max_time (oslice (sorted_heads l)) 0 <= (B + Z.of_nat (length (s_univ s)))).
      { apply max_time_bound; [lia|]. intros x Hx. apply In_oslice in Hx. destruct Hx as [k Hx].
        apply sorted_heads_In in Hx; [|apply (li_heads_nodup _ _ (IL r l L))|apply (heads_well_keyed _ _ (IL r l L))].
        apply TU. eapply heads_in_U; [apply (IL r l L)|]. apply In_oslice. eauto. }
      pose proof (max_time_ge (oslice (sorted_heads l)) 0). lia. }
    cbn [fst]. split; cbn [s_univ s_logs]; rewrite app_length; cbn [length].
    + intros x Hx. rewrite in_app_iff in Hx. cbn [In] in Hx. destruct Hx as [Hx|[<-|[]]]; [specialize (TU x Hx)|]; lia.
    + intros r' l'' H. rewrite nth_error_set_nth, L in H. destruct (Nat.eqb r r').
      * injection H as <-. cbn [set_time l_time]. lia.
      * specialize (TL r' l'' H). lia.
  - split; auto.
  - destruct W.
Qed.

Theorem tbound_run_from B ops : 0 <= B -> Forall (fun o => seed_of o <= B) ops ->
  forall s, sinv s -> wf_from s ops -> tbound B s -> tbound B (run_from s ops).
Proof.
  intros HB HS. induction ops as [|o ops IH]; intros s SI W T; cbn [run_from fold_left]; [exact T|].
  inversion HS; subst.
  destruct W as [W1 W2]. apply IH; [assumption|now apply sinv_step|exact W2|now apply tbound_step].
Qed.

Theorem tbound_run ops : wf ops -> tbound (max_seed ops) (run ops).
Proof.
  intros W. apply tbound_run_from; [apply max_seed_nonneg|apply max_seed_bounds|apply sinv_empty|exact W|].
  split; [intros e []|]. intros [|r] l H; discriminate.
Qed.

(* the universe grows by at most one entry per operation *)
Lemma univ_length_step s o : (length (s_univ (fst (step s o))) <= S (length (s_univ s)))%nat.
Proof.
  destruct o as [id key sf deny t0|r payload pc h|r src size|r key|r mh|r io|r payload pc h|r|osrc okeep ohh oid okey osf odeny]; cbn [step]; cbn [fst s_univ]; try lia.
  - destruct (nth_error (s_logs s) r) as [l|]; [|cbn; lia].
    destruct (append l payload pc h) as [l' [e|[]|]]; cbn [fst s_univ]; rewrite ?app_length; cbn [length]; try lia.
    destruct (append_entry l payload pc h); cbn [fst s_univ]; rewrite ?app_length; cbn [length]; lia.
  - destruct (nth_error (s_logs s) r) as [l|]; [|cbn; lia].
    destruct (nth_error (s_logs s) src) as [o|]; [|cbn; lia].
    destruct (join l o (Nat.eqb r src) size). cbn. lia.
  - destruct (nth_error (s_logs s) r) as [l|]; cbn; lia.
  - destruct (nth_error (s_logs s) r) as [l|]; [|cbn; lia]. destruct (olen (l_heads l) =? 0); cbn; lia.
  - destruct (nth_error (s_logs s) r) as [l|]; [|cbn; lia]. destruct (iterator l io) as [[es c]| |]; cbn; lia.
  - destruct (nth_error (s_logs s) r) as [l|]; [|cbn; lia].
    destruct (append_entry l payload pc h); cbn [fst s_univ]; rewrite ?app_length; cbn [length]; lia.
  - destruct (nth_error (s_logs s) osrc) as [l|]; cbn; lia.
Qed.

Lemma univ_length_run_from ops : forall s, (length (s_univ (run_from s ops)) <= length (s_univ s) + length ops)%nat.
Proof.
  induction ops as [|o ops IH]; intros s; cbn [run_from fold_left length]; [lia|].
  specialize (IH (fst (step s o))). pose proof (univ_length_step s o). unfold run_from in *. lia.
Qed.

(* hence: in any history of fewer than 2^63 operations all times are in the int64 range *)
Theorem times_in_range ops r l :
  wf ops -> hist_bound ops < two63 -> nth_error (s_logs (run ops)) r = Some l ->
  forall e, In e (ents l) -> int64_range (e_time e).
Proof.
  intros W Hlen L e He. destruct (tbound_run ops W) as [TU _]. destruct (sinv_run ops W) as [_ IL].
  destruct (linv_entry _ _ _ (IL r l L) He) as [_ HU]. specialize (TU e HU).
  pose proof (univ_length_run_from ops empty_sys). unfold run in *. cbn [empty_sys s_univ length] in H.
  pose proof (max_seed_nonneg ops). unfold hist_bound, int64_range, two63 in *. lia.
Qed.
