(* The size-bounded Join (C16): it keeps exactly the last min(n, total) entries of the linearisation
   of the unbounded merge, with heads = the unreferenced entries among them, and never panics. *)
From Coq Require Import List ZArith Bool Lia Permutation Sorted.
From IpfsLog Require Import Model.Log Proofs.OmapProofs Proofs.SortProofs Proofs.Inv Proofs.DiffProofs
     Proofs.JoinProofs Proofs.TravProofs Proofs.ValuesProofs.
Import ListNotations.
Open Scope Z_scope.

Definition lastn {A} (k : nat) (l : list A) : list A := skipn (length l - k) l.

Lemma lastn_all {A} k (l : list A) : (length l <= k)%nat -> lastn k l = l.
Proof. intros H. unfold lastn. replace (length l - k)%nat with 0%nat by lia. reflexivity. Qed.

Lemma lastn_length {A} k (l : list A) : length (lastn k l) = Nat.min k (length l).
Proof. unfold lastn. rewrite skipn_length. lia. Qed.

Lemma skipn_In {A} n (l : list A) x : In x (skipn n l) -> In x l.
Proof. revert l. induction n as [|n IH]; intros [|y l]; cbn; auto. Qed.

Lemma skipn_NoDup {A} n (l : list A) : NoDup l -> NoDup (skipn n l).
Proof.
  revert l. induction n as [|n IH]; intros [|y l] H; cbn; auto. inversion H; auto.
Qed.

Lemma map_skipn {A B} (f : A -> B) n l : map f (skipn n l) = skipn n (map f l).
Proof. revert l. induction n as [|n IH]; intros [|y l]; cbn; auto. Qed.

(* values only reads entries, heads and the ordering *)
Lemma values_fields l t c k d :
  values (mkLog (l_id l) (l_entries l) (l_heads l) (l_next l) t c k (l_sort l) d) = values l.
Proof. reflexivity. Qed.

(* from_entries of a list with distinct hashes *)
Lemma from_entries_iff (L : list entry) k v : NoDup (map e_hash L) ->
  (In (k, v) (from_entries L) <-> In v L /\ e_hash v = k).
Proof.
  intros Hnd. split; [apply from_entries_In|]. intros [Hin <-]. now apply from_entries_complete.
Qed.

Lemma oslice_from_entries_iff (L : list entry) v : NoDup (map e_hash L) ->
  (In v (oslice (from_entries L)) <-> In v L).
Proof.
  intros Hnd. rewrite In_oslice. split.
  - intros [k H]. now apply from_entries_iff in H.
  - intros H. exists (e_hash v). now apply from_entries_iff.
Qed.

Lemma from_entries_hashes_nodup (L : list entry) : NoDup (map e_hash (oslice (from_entries L))).
Proof.
  destruct (from_entries_props L) as [A [B _]].
  replace (map e_hash (oslice (from_entries L))) with (okeys (from_entries L)); [exact A|].
  unfold okeys, oslice. rewrite map_map. apply map_ext_in. intros [k' e'] Hin. cbn. symmetry. now apply B.
Qed.

Lemma find_heads_hashes_nodup (m : omap) : NoDup (map e_hash (oslice m)) -> NoDup (map e_hash (find_heads m)).
Proof.
  intros H. unfold find_heads.
  eapply Permutation_NoDup; [apply Permutation_map; symmetry; apply gosort_perm|].
  now apply NoDup_map_filter.
Qed.

(* the reverse next index built from a list of entries knows exactly the hashes they name *)
Lemma next_fold_keys (e : entry) (ns : list hash) (nx : omap) n :
  In n (okeys (fold_left (fun nx n => oset nx n e) ns nx)) <-> In n (okeys nx) \/ In n ns.
Proof.
  revert nx. induction ns as [|x ns IH]; intros nx; cbn [fold_left In]; [tauto|].
  rewrite IH, In_okeys_oset. intuition (subst; auto).
Qed.

Lemma next_index_keys (tmp : list entry) (nx : omap) n :
  In n (okeys (fold_left (fun nx e => fold_left (fun nx n => oset nx n e) (e_next e) nx) tmp nx)) <->
  In n (okeys nx) \/ named_in tmp n.
Proof.
  revert nx. induction tmp as [|e es IH]; intros nx; cbn [fold_left].
  - unfold named_in. cbn. tauto.
  - rewrite IH, next_fold_keys. unfold named_in, all_nexts. cbn [flat_map]. rewrite in_app_iff. tauto.
Qed.

Section Bounded.
  Variables (U : list entry) (l o : log).
  Hypothesis UO : univ_ok U.
  Hypothesis Il : linv U l.
  Hypothesis Io : linv U o.
  Hypothesis SameId : l_id l = l_id o.
  Variable newitems : omap.
  Hypothesis D : difference (l_entries o) (oslice (l_heads o)) l = Some newitems.
  Hypothesis OK : forallb (entry_ok l) (oslice newitems) = true.

  Notation full := (j_log l o newitems).
  Hypothesis TO : times_ok full.
  Hypothesis OT : order_total full.

  Variable size : Z.
  Hypothesis Hsize : 0 <= size.

  Theorem bounded_join_spec :
    exists vu l',
      values full = Some vu /\
      join l o false size = (l', Ok tt) /\
      let keep := lastn (Z.to_nat size) (oslice vu) in
      (forall k v, In (k, v) (l_entries l') <-> In v keep /\ e_hash v = k) /\
      (forall k v, In (k, v) (l_heads l') <-> In v keep /\ e_hash v = k /\ ~ named_in keep k) /\
      NoDup (okeys (l_entries l')) /\ NoDup (okeys (l_heads l')).
  Proof.
    pose proof (linv_join U l o UO Il Io SameId newitems D) as If.
    destruct (values_spec U full UO If TO OT) as [vu [V [A [B _]]]].
    exists vu.
    assert (Hnd : NoDup (map e_hash (oslice vu))).
    { replace (map e_hash (oslice vu)) with (okeys vu); [exact A|].
      unfold okeys, oslice. rewrite map_map. apply map_ext_in. intros [k' e'] Hin. cbn. symmetry.
      apply B in Hin. now apply (li_in_U _ _ If) in Hin. }
    set (tmp := if size <? olen vu then skipn (Z.to_nat (olen vu - size)) (oslice vu) else oslice vu).
    assert (Htmp : tmp = lastn (Z.to_nat size) (oslice vu)).
    { unfold tmp, lastn, olen. assert (length (oslice vu) = length vu) by (unfold oslice; apply map_length).
      destruct (Z.ltb_spec size (Z.of_nat (length vu))).
      - f_equal. lia.
      - replace (length (oslice vu) - Z.to_nat size)%nat with 0%nat by lia. reflexivity. }
    assert (Hndt : NoDup (map e_hash tmp)).
    { rewrite Htmp. unfold lastn. rewrite map_skipn. now apply skipn_NoDup. }
    eexists. split; [exact V|]. split.
    - unfold join, join_reads.
      assert (E0 : N.eqb (l_id l) (l_id o) = true) by (apply N.eqb_eq; exact SameId). rewrite E0. cbn [negb].
      rewrite D, OK. cbn [negb].
      assert (E : size <? 0 = false) by (apply Z.ltb_ge; lia). rewrite E.
      fold_j_ents l newitems. rewrite (own_heads_o U l o UO Il Io SameId newitems D).
      change (values _) with (values full). rewrite V. fold tmp. reflexivity.
    - cbn zeta. cbn [l_entries l_heads]. rewrite <- Htmp. split; [|split; [|split]].
      + intros k v. now apply from_entries_iff.
      + intros k v. rewrite from_entries_iff by (apply find_heads_hashes_nodup, from_entries_hashes_nodup).
        rewrite find_heads_In, oslice_from_entries_iff by assumption. unfold named_in.
        assert (X : forall h, In h (all_nexts (oslice (from_entries tmp))) <-> In h (all_nexts tmp)).
        { intros h. apply (named_in_perm (oslice (from_entries tmp)) tmp h). intros x. now apply oslice_from_entries_iff. }
        split.
        * intros [[H1 H2] H3]. repeat split; auto. rewrite <- H3. intro Hc. apply H2. now apply X.
        * intros [H1 [H2 H3]]. repeat split; auto. rewrite H2. intro Hc. apply H3. now apply X.
      + apply (from_entries_props tmp).
      + apply (from_entries_props _).
  Qed.

  (* ... and the reverse next index of the log it leaves is that of the kept entries: nothing is
     remembered of the entries that were dropped *)
  Theorem bounded_join_next :
    exists vu l',
      values full = Some vu /\ join l o false size = (l', Ok tt) /\
      forall n, In n (okeys (l_next l')) <-> named_in (lastn (Z.to_nat size) (oslice vu)) n.
  Proof.
    pose proof (linv_join U l o UO Il Io SameId newitems D) as If.
    destruct (values_spec U full UO If TO OT) as [vu [V _]].
    exists vu.
    set (tmp := if size <? olen vu then skipn (Z.to_nat (olen vu - size)) (oslice vu) else oslice vu).
    assert (Htmp : tmp = lastn (Z.to_nat size) (oslice vu)).
    { unfold tmp, lastn, olen. assert (length (oslice vu) = length vu) by (unfold oslice; apply map_length).
      destruct (Z.ltb_spec size (Z.of_nat (length vu))).
      - f_equal. lia.
      - replace (length (oslice vu) - Z.to_nat size)%nat with 0%nat by lia. reflexivity. }
    eexists. split; [exact V|]. split.
    - unfold join, join_reads.
      assert (E0 : N.eqb (l_id l) (l_id o) = true) by (apply N.eqb_eq; exact SameId). rewrite E0. cbn [negb].
      rewrite D, OK. cbn [negb].
      assert (E : size <? 0 = false) by (apply Z.ltb_ge; lia). rewrite E.
      fold_j_ents l newitems. rewrite (own_heads_o U l o UO Il Io SameId newitems D).
      change (values _) with (values full). rewrite V. fold tmp. reflexivity.
    - cbn zeta. cbn [l_next]. rewrite <- Htmp. intros n. rewrite next_index_keys. cbn. tauto.
  Qed.

  (* a bound at least as large as the merged log keeps everything *)
  Corollary bounded_join_large vu l' :
    values full = Some vu -> join l o false size = (l', Ok tt) -> Z.of_nat (length vu) <= size ->
    forall k v, In (k, v) (l_entries l') <-> In (k, v) (l_entries full).
  Proof.
    intros V J Hl. destruct bounded_join_spec as [vu' [l'' [V' [J' [A _]]]]].
    rewrite V in V'. injection V' as <-. rewrite J in J'. injection J' as <-.
    intros k v. rewrite A. rewrite lastn_all by (unfold oslice; rewrite map_length; lia).
    destruct (values_spec U full UO (linv_join U l o UO Il Io SameId newitems D) TO OT) as [vu2 [V2 [_ [B _]]]].
    rewrite V in V2. injection V2 as <-. rewrite <- B. rewrite In_oslice. split.
    - intros [[k' H] Hk]. pose proof H as H'. apply B in H'. apply (li_in_U _ _ (linv_join U l o UO Il Io SameId newitems D)) in H'.
      destruct H' as [_ H']. congruence.
    - intros H. split; [eauto|]. apply B in H. now apply (li_in_U _ _ (linv_join U l o UO Il Io SameId newitems D)) in H.
  Qed.
End Bounded.

(* ---- difference never runs out of fuel: Join never panics ---- *)
Section DiffFuel.
  Variable ea : omap.
  Variable lb : log.

  Let pool : list hash := nodup N.eq_dec (all_nexts (oslice ea)).
  Definition dunseen (seen : list hash) : nat := length (filter (fun k => negb (mem k seen)) pool).

  Lemma dunseen_cons_le seen h : (dunseen (h :: seen) <= dunseen seen)%nat.
  Proof.
    unfold dunseen. apply filter_length_mono. intros x. cbn [mem]. rewrite !negb_true_iff, orb_false_iff. tauto.
  Qed.

  Lemma dunseen_cons_lt seen h : In h pool -> ~ In h seen -> S (dunseen (h :: seen)) = dunseen seen.
  Proof.
    intros Hin Hn. unfold dunseen.
    rewrite <- (filter_remove_one (fun k => negb (mem k seen)) pool h (NoDup_nodup _ _) Hin).
    - f_equal. f_equal. apply filter_ext. intros k. cbn [mem]. now rewrite negb_orb.
    - apply negb_true_iff. now apply mem_false.
  Qed.

  Lemma diff_push_measure ns : forall st sn st' sn',
    (forall n, In n ns -> In n pool) ->
    fold_left (diff_push lb) ns (st, sn) = (st', sn') ->
    (length st' + dunseen sn' <= length st + dunseen sn)%nat.
  Proof.
    induction ns as [|n ns IH]; intros st sn st' sn' Hp; cbn [fold_left].
    - intros H. injection H as <- <-. lia.
    - unfold diff_push at 2. destruct (mem n sn) eqn:M; cbn [negb andb].
      + apply IH. intros; apply Hp; now right.
      + destruct (ohas (l_entries lb) n); cbn [negb].
        * apply IH. intros; apply Hp; now right.
        * intros H. apply IH in H; [|intros; apply Hp; now right].
          apply mem_false in M. pose proof (dunseen_cons_lt sn n (Hp n (or_introl eq_refl)) M).
          rewrite app_length in H. cbn [length] in H. lia.
  Qed.

  Lemma diff_loop_fuel_ok fuel : forall stack seen res,
    (length stack + dunseen seen < fuel)%nat -> diff_loop fuel ea lb stack seen res <> None.
  Proof.
    induction fuel as [|f IH]; intros stack seen res Hm; [lia|].
    destruct stack as [|h stack']; cbn [diff_loop]; [discriminate|]. cbn [length] in Hm.
    destruct (oget ea h) as [eA|] eqn:G; [|apply IH; lia].
    destruct (negb (ohas (l_entries lb) h) && N.eqb (e_logid eA) (l_id lb) && N.eqb (e_hash eA) h); [|apply IH; lia].
    destruct (fold_left (diff_push lb) (e_next eA) (stack', h :: seen)) as [st' sn'] eqn:F.
    apply IH. pose proof (dunseen_cons_le seen h).
    assert (Hp : forall n, In n (e_next eA) -> In n pool).
    { intros n Hn. unfold pool. apply nodup_In. unfold all_nexts. apply in_flat_map. exists eA. split; [|exact Hn].
      apply In_oslice. exists h. now apply oget_In. }
    pose proof (diff_push_measure _ _ _ _ _ Hp F). lia.
  Qed.

  Theorem difference_total heads : difference ea heads lb <> None.
  Proof.
    unfold difference. destruct (_ || _); [discriminate|].
    apply diff_loop_fuel_ok. rewrite map_length. unfold dunseen.
    pose proof (filter_length_le (fun k => negb (mem k [])) pool).
    assert (length pool <= length (all_nexts (oslice ea)))%nat.
    { unfold pool. apply NoDup_incl_length; [apply NoDup_nodup|]. intros x Hx. now apply nodup_In in Hx. }
    lia.
  Qed.
End DiffFuel.
