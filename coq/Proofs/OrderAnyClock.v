(* The ordering functions with an application-defined clock type.

   sorting.SortByClocks calls the Compare METHOD of the entries' clocks (iface.IPFSLogLamportClock is
   an interface; the codecs and LogOptions take prototypes of application-defined entry and clock
   types), and only when that answers 0 goes on to compare the clock ids itself (SortByClockID) and
   then to the tiebreaker.  So the laws of C19 must not depend on what entry.LamportClock.Compare
   happens to do on equal times.  Here the comparison is a parameter [cc] of which only this is
   assumed: it ranks by time, and on equal times it either does not decide or decides like the ids.
   The built-in clock (time, then id) and a clock that compares times alone are both instances.
   Under that assumption alone both orderings have the sign of the same closed forms
   ([hash_val], [lww_val]) as with the built-in clock - hence all the laws. *)
From Coq Require Import List ZArith Bool Lia.
From IpfsLog Require Import Model.Order Proofs.OrderProofs.
Import ListNotations.
Open Scope Z_scope.

Section AnyClock.
  Variable K : Type.
  Variable kcmp : K -> K -> Z.
  Hypothesis KO : KOrd K kcmp.
  Notation skey := (skey K).
  Notation time_ok := (time_ok K).

  Variable cc : skey -> skey -> Z.

  Definition clock_law : Prop :=
    forall a b, time_ok a -> time_ok b ->
      (sk_time a < sk_time b -> cc a b < 0) /\
      (sk_time b < sk_time a -> 0 < cc a b) /\
      (sk_time a = sk_time b ->
         cc a b = 0 \/ (cc a b < 0 /\ kcmp (sk_id a) (sk_id b) < 0) \/ (0 < cc a b /\ 0 < kcmp (sk_id a) (sk_id b))).
  Hypothesis CL : clock_law.

  Notation by_clocks := (by_clocks K cc).
  Notation hash_g := (hash_g K kcmp cc).
  Notation lww_g := (lww_g K kcmp cc).
  Notation fww_g := (fww_g K kcmp cc).

  Definition same_sign (x y : Z) : Prop := (x < 0 <-> y < 0) /\ (x = 0 <-> y = 0) /\ (0 < x <-> 0 < y).

  Lemma time_dist_sign t1 t2 : int64_range t1 -> int64_range t2 ->
    (t1 < t2 -> time_dist t1 t2 < 0) /\ (t2 < t1 -> 0 < time_dist t1 t2).
  Proof.
    intros H1 H2. split; intros L.
    - pose proof (time_dist_lt t1 t2 H1 H2 L). lia.
    - pose proof (time_dist_gt t1 t2 H1 H2 L). lia.
  Qed.

  Theorem hash_g_sign a b : time_ok a -> time_ok b ->
    exists r, hash_g a b = COk r /\ same_sign r (hash_val K kcmp a b).
  Proof.
    intros Ha Hb. destruct (CL a b Ha Hb) as [C1 [C2 C3]].
    destruct (time_dist_sign _ _ Ha Hb) as [D1 D2].
    unfold Order.hash_g, Order.by_clocks, sort_by_clock_id, hash_val, same_sign.
    destruct (sk_time a =? sk_time b) eqn:E; rewrite ?Z.eqb_eq, ?Z.eqb_neq in E.
    - destruct (C3 E) as [Z0|[[N1 N2]|[P1 P2]]].
      + rewrite Z0. cbn [Z.eqb]. destruct (kcmp (sk_id a) (sk_id b) =? 0) eqn:E2; eexists; (split; [reflexivity|]); lia.
      + assert (X : cc a b =? 0 = false) by (apply Z.eqb_neq; lia). rewrite X.
        assert (Y : kcmp (sk_id a) (sk_id b) =? 0 = false) by (apply Z.eqb_neq; lia). rewrite Y.
        eexists; split; [reflexivity|]. lia.
      + assert (X : cc a b =? 0 = false) by (apply Z.eqb_neq; lia). rewrite X.
        assert (Y : kcmp (sk_id a) (sk_id b) =? 0 = false) by (apply Z.eqb_neq; lia). rewrite Y.
        eexists; split; [reflexivity|]. lia.
    - destruct (Z_lt_ge_dec (sk_time a) (sk_time b)) as [L|G].
      + specialize (C1 L). specialize (D1 L).
        assert (X : cc a b =? 0 = false) by (apply Z.eqb_neq; lia). rewrite X.
        eexists; split; [reflexivity|]. lia.
      + assert (L : sk_time b < sk_time a) by lia. specialize (C2 L). specialize (D2 L).
        assert (X : cc a b =? 0 = false) by (apply Z.eqb_neq; lia). rewrite X.
        eexists; split; [reflexivity|]. lia.
  Qed.

  Theorem lww_g_sign a b : time_ok a -> time_ok b ->
    exists r, lww_g a b = COk r /\ same_sign r (lww_val K kcmp a b).
  Proof.
    intros Ha Hb. destruct (CL a b Ha Hb) as [C1 [C2 C3]].
    destruct (time_dist_sign _ _ Ha Hb) as [D1 D2].
    unfold Order.lww_g, Order.by_clocks, sort_by_clock_id, first, lww_val, same_sign.
    destruct (sk_time a =? sk_time b) eqn:E; rewrite ?Z.eqb_eq, ?Z.eqb_neq in E.
    - destruct (C3 E) as [Z0|[[N1 N2]|[P1 P2]]].
      + rewrite Z0. cbn [Z.eqb]. destruct (kcmp (sk_id a) (sk_id b) =? 0) eqn:E2; eexists; (split; [reflexivity|]); lia.
      + assert (X : cc a b =? 0 = false) by (apply Z.eqb_neq; lia). rewrite X.
        assert (Y : kcmp (sk_id a) (sk_id b) =? 0 = false) by (apply Z.eqb_neq; lia). rewrite Y.
        eexists; split; [reflexivity|]. lia.
      + assert (X : cc a b =? 0 = false) by (apply Z.eqb_neq; lia). rewrite X.
        assert (Y : kcmp (sk_id a) (sk_id b) =? 0 = false) by (apply Z.eqb_neq; lia). rewrite Y.
        eexists; split; [reflexivity|]. lia.
    - destruct (Z_lt_ge_dec (sk_time a) (sk_time b)) as [L|G].
      + specialize (C1 L). specialize (D1 L).
        assert (X : cc a b =? 0 = false) by (apply Z.eqb_neq; lia). rewrite X.
        eexists; split; [reflexivity|]. lia.
      + assert (L : sk_time b < sk_time a) by lia. specialize (C2 L). specialize (D2 L).
        assert (X : cc a b =? 0 = false) by (apply Z.eqb_neq; lia). rewrite X.
        eexists; split; [reflexivity|]. lia.
  Qed.

  Definition ltg (f : skey -> skey -> cres) a b := exists r, f a b = COk r /\ r < 0.
  Definition gtg (f : skey -> skey -> cres) a b := exists r, f a b = COk r /\ 0 < r.

  Lemma ltg_hash a b : time_ok a -> time_ok b -> (ltg hash_g a b <-> hash_val K kcmp a b < 0).
  Proof.
    intros Ha Hb. destruct (hash_g_sign a b Ha Hb) as [r [E [S1 _]]]. unfold ltg. rewrite E.
    split; [intros [r' [E' L]]; inversion E'; subst; tauto|intros L; exists r; tauto].
  Qed.
  Lemma gtg_hash a b : time_ok a -> time_ok b -> (gtg hash_g a b <-> 0 < hash_val K kcmp a b).
  Proof.
    intros Ha Hb. destruct (hash_g_sign a b Ha Hb) as [r [E [_ [_ S3]]]]. unfold gtg. rewrite E.
    split; [intros [r' [E' L]]; inversion E'; subst; tauto|intros L; exists r; tauto].
  Qed.
  Lemma ltg_lww a b : time_ok a -> time_ok b -> (ltg lww_g a b <-> lww_val K kcmp a b < 0).
  Proof.
    intros Ha Hb. destruct (lww_g_sign a b Ha Hb) as [r [E [S1 _]]]. unfold ltg. rewrite E.
    split; [intros [r' [E' L]]; inversion E'; subst; tauto|intros L; exists r; tauto].
  Qed.

  (* the laws, for every clock type obeying [clock_law] *)
  Theorem any_clock_hash_irreflexive a : time_ok a -> ~ ltg hash_g a a /\ ~ gtg hash_g a a.
  Proof.
    intros Ha. rewrite ltg_hash, gtg_hash by assumption.
    assert (hash_val K kcmp a a = 0) by (apply (hash_zero K kcmp KO); auto). lia.
  Qed.

  Theorem any_clock_hash_antisymmetric a b : time_ok a -> time_ok b -> (ltg hash_g a b <-> gtg hash_g b a).
  Proof.
    intros Ha Hb. rewrite ltg_hash, gtg_hash by assumption. rewrite (hash_anti K kcmp KO a b Ha Hb). lia.
  Qed.

  Theorem any_clock_hash_transitive a b c : time_ok a -> time_ok b -> time_ok c ->
    ltg hash_g a b -> ltg hash_g b c -> ltg hash_g a c.
  Proof. intros Ha Hb Hc. rewrite !ltg_hash by assumption. apply (hash_trans K kcmp KO); assumption. Qed.

  Theorem any_clock_hash_total a b : time_ok a -> time_ok b -> sk_hash a <> sk_hash b ->
    ltg hash_g a b \/ ltg hash_g b a.
  Proof.
    intros Ha Hb Hne. rewrite !ltg_hash by assumption.
    pose proof (hash_total K kcmp KO a b Ha Hb Hne). pose proof (hash_anti K kcmp KO a b Ha Hb). lia.
  Qed.

  Theorem any_clock_respects_time a b : time_ok a -> time_ok b -> sk_time a < sk_time b ->
    ltg hash_g a b /\ ltg lww_g a b.
  Proof.
    intros Ha Hb L. rewrite ltg_hash, ltg_lww by assumption.
    split; [now apply (hash_time K kcmp KO)|now apply (lww_time K kcmp)].
  Qed.

  Theorem any_clock_default_same_when_distinct a b : time_ok a -> time_ok b ->
    (sk_time a, sk_id a) <> (sk_time b, sk_id b) -> (ltg lww_g a b <-> ltg hash_g a b).
  Proof.
    intros Ha Hb Hne. rewrite ltg_hash, ltg_lww by assumption. now rewrite (lww_eq_hash K kcmp KO a b Ha Hb Hne).
  Qed.

  (* on distinct (time, id) pairs the default ordering is antisymmetric as well: exactly one direction is "less" *)
  Theorem any_clock_default_decides_distinct a b : time_ok a -> time_ok b ->
    (sk_time a, sk_id a) <> (sk_time b, sk_id b) -> (ltg lww_g a b <-> ~ ltg lww_g b a).
  Proof.
    intros Ha Hb Hne. assert (Hne' : (sk_time b, sk_id b) <> (sk_time a, sk_id a)) by congruence.
    rewrite !ltg_lww by assumption.
    rewrite (lww_eq_hash K kcmp KO a b Ha Hb Hne), (lww_eq_hash K kcmp KO b a Hb Ha Hne').
    pose proof (hash_anti K kcmp KO a b Ha Hb).
    assert (hash_val K kcmp a b <> 0).
    { intros Z0. apply (hash_zero K kcmp KO) in Z0; auto. destruct Z0 as [T [I _]]. apply Hne. congruence. }
    lia.
  Qed.

  (* first-write-wins is the reverse, provided the clock's answers can be negated in an int
     (entry.LamportClock saturates for exactly that reason) *)
  Theorem any_clock_fww_reverse a b : time_ok a -> time_ok b -> - two63 < cc a b < two63 ->
    exists r, lww_g a b = COk r /\ fww_g a b = COk (- r).
  Proof.
    intros Ha Hb R. unfold Order.fww_g, Order.lww_g, Order.by_clocks, sort_by_clock_id, first.
    pose proof (k_range _ _ KO (sk_id a) (sk_id b)) as KR.
    destruct (cc a b =? 0).
    - destruct (kcmp (sk_id a) (sk_id b) =? 0); eexists; (split; [reflexivity|]); f_equal; rewrite wrap64_id; unfold two63 in *; lia.
    - eexists; split; [reflexivity|]. f_equal. rewrite wrap64_id; unfold two63 in *; lia.
  Qed.
End AnyClock.

(* ---- instances: the assumption is satisfiable, by the built-in clock and by a time-only clock ---- *)
Section Instances.
  Variable K : Type.
  Variable kcmp : K -> K -> Z.
  Hypothesis KO : KOrd K kcmp.

  Definition builtin_cc (a b : skey K) : Z := clock_compare K kcmp (sk_time a) (sk_id a) (sk_time b) (sk_id b).

  (* with the built-in clock the generic definitions ARE the model of sorting.go *)
  Lemma by_clocks_builtin a b r : by_clocks K builtin_cc a b r = sort_by_clocks K kcmp a b r.
  Proof. reflexivity. Qed.
  Lemma hash_g_builtin a b : hash_g K kcmp builtin_cc a b = sort_by_entry_hash K kcmp a b.
  Proof. reflexivity. Qed.
  Lemma lww_g_builtin a b : lww_g K kcmp builtin_cc a b = last_write_wins K kcmp a b.
  Proof. reflexivity. Qed.

  Lemma builtin_clock_law : clock_law K kcmp builtin_cc.
  Proof.
    intros a b Ha Hb. unfold builtin_cc. repeat split.
    - intros L. now apply (clock_compare_time K kcmp).
    - intros L. pose proof (clock_compare_time K kcmp (sk_time b) (sk_id b) (sk_time a) (sk_id a) Hb Ha L).
      rewrite (clock_compare_anti K kcmp KO (sk_time b) (sk_id b) (sk_time a) (sk_id a) Hb Ha). lia.
    - intros E. unfold clock_compare. rewrite E, Z.eqb_refl.
      destruct (Z.lt_trichotomy (kcmp (sk_id a) (sk_id b)) 0) as [L|[L|L]]; [right; left|left|right; right]; lia.
  Qed.

  Lemma time_only_clock_law : clock_law K kcmp time_only_cc.
  Proof.
    intros a b Ha Hb. unfold time_only_cc. repeat split.
    - intros L. apply Z.compare_lt_iff in L. rewrite L. lia.
    - intros L. apply Z.compare_gt_iff in L. rewrite L. lia.
    - intros E. apply Z.compare_eq_iff in E. rewrite E. now left.
  Qed.
End Instances.
