(* Basic facts about the ordered-map model and small list helpers of Model/Log.v *)
From Coq Require Import List ZArith Bool Lia Permutation.
From IpfsLog Require Import Model.Log.
Import ListNotations.
Open Scope Z_scope.

Lemma mem_In h l : mem h l = true <-> In h l.
Proof.
  induction l as [|x l IH]; cbn [mem In]; [split; [discriminate|tauto]|].
  rewrite orb_true_iff, IH. destruct (N.eqb_spec h x); subst; intuition (try congruence; try discriminate).
Qed.

Lemma mem_false h l : mem h l = false <-> ~ In h l.
Proof. rewrite <- mem_In. destruct (mem h l); intuition congruence. Qed.

(* ---- oget / oset ---- *)
Lemma oget_In m k v : oget m k = Some v -> In (k, v) m.
Proof.
  induction m as [|[k' v'] m IH]; cbn [oget]; [discriminate|].
  destruct (N.eqb_spec k k'); intros H; [inversion H; subst; now left|right; auto].
Qed.

Lemma oget_keys m k : oget m k <> None <-> In k (okeys m).
Proof.
  induction m as [|[k' v'] m IH]; cbn [oget okeys map fst In]; [tauto|].
  destruct (N.eqb_spec k k'); subst.
  - split; [auto|discriminate].
  - rewrite IH. unfold okeys. split; [auto|]. intros [H|H]; [congruence|auto].
Qed.

Lemma oget_None_keys m k : oget m k = None <-> ~ In k (okeys m).
Proof. rewrite <- oget_keys. destruct (oget m k); intuition congruence. Qed.

Lemma ohas_keys m k : ohas m k = true <-> In k (okeys m).
Proof. unfold ohas. rewrite <- oget_keys. destruct (oget m k); intuition congruence. Qed.

Lemma ohas_false m k : ohas m k = false <-> ~ In k (okeys m).
Proof. rewrite <- ohas_keys. destruct (ohas m k); intuition congruence. Qed.

Lemma oget_oset_same m k v : oget (oset m k v) k = Some v.
Proof.
  induction m as [|[k' v'] m IH]; cbn [oset oget]; [now rewrite N.eqb_refl|].
  destruct (N.eqb_spec k k'); cbn [oget]; subst; [now rewrite N.eqb_refl|].
  destruct (N.eqb_spec k k'); [contradiction|exact IH].
Qed.

Lemma oget_oset_other m k v k' : k' <> k -> oget (oset m k v) k' = oget m k'.
Proof.
  intros Hne. induction m as [|[k2 v2] m IH]; cbn [oset oget].
  - destruct (N.eqb_spec k' k); [contradiction|reflexivity].
  - destruct (N.eqb_spec k k2); cbn [oget]; subst.
    + destruct (N.eqb_spec k' k2); [contradiction|reflexivity].
    + destruct (N.eqb_spec k' k2); [reflexivity|exact IH].
Qed.

Lemma okeys_oset m k v :
  okeys (oset m k v) = if ohas m k then okeys m else okeys m ++ [k].
Proof.
  unfold ohas. induction m as [|[k2 v2] m IH]; cbn [oset oget okeys map fst app]; [reflexivity|].
  destruct (N.eqb_spec k k2); cbn [map fst]; subst; [reflexivity|].
  unfold okeys in IH. rewrite IH. destruct (oget m k); reflexivity.
Qed.

Lemma oset_fresh m k v : ~ In k (okeys m) -> oset m k v = m ++ [(k, v)].
Proof.
  induction m as [|[k2 v2] m IH]; intros F; cbn [oset app]; [reflexivity|].
  cbn [okeys map fst In] in F. destruct (N.eqb_spec k k2); [subst; tauto|]. f_equal. apply IH. unfold okeys. tauto.
Qed.

Lemma In_okeys_oset m k v k' : In k' (okeys (oset m k v)) <-> k' = k \/ In k' (okeys m).
Proof.
  rewrite okeys_oset. destruct (ohas m k) eqn:E.
  - apply ohas_keys in E. split; [auto|]. intros [->|H]; auto.
  - rewrite in_app_iff. cbn [In]. split; intros; intuition.
Qed.


Lemma NoDup_snoc {A} (l : list A) x : NoDup l -> ~ In x l -> NoDup (l ++ [x]).
Proof.
  intros H Hn. induction l as [|y l IH]; cbn [app]; [constructor; [tauto|constructor]|].
  inversion H; subst. constructor.
  - rewrite in_app_iff. cbn [In]. intros [?|[?|[]]]; [contradiction|subst; apply Hn; now left].
  - apply IH; auto. intro; apply Hn; now right.
Qed.

Lemma NoDup_okeys_oset m k v : NoDup (okeys m) -> NoDup (okeys (oset m k v)).
Proof.
  intros H. rewrite okeys_oset. destruct (ohas m k) eqn:E; [exact H|].
  apply ohas_false in E. now apply NoDup_snoc.
Qed.

(* membership of pairs after oset *)
Lemma In_oset m k v k' v' : NoDup (okeys m) ->
  (In (k', v') (oset m k v) <-> (k' = k /\ v' = v) \/ (k' <> k /\ In (k', v') m)).
Proof.
  induction m as [|[k2 v2] m IH]; intros Hnd; cbn [oset].
  - cbn [In]. split; [intros [H|[]]; inversion H; auto|intros [[-> ->]|[_ []]]; now left].
  - inversion Hnd as [|? ? Hn Hnd']; subst. destruct (N.eqb_spec k k2); subst.
    + cbn [In]. split.
      * intros [H|H]; [inversion H; auto|]. right. split; [|auto].
        intro; subst. apply Hn. change (In (fst (k2, v')) (map fst m)). now apply in_map.
      * intros [[-> ->]|[Hne [H|H]]]; [now left|inversion H; congruence|now right].
    + cbn [In]. rewrite IH by assumption. split.
      * intros [H|[H|[Hne H]]]; [inversion H; subst; right; split; [congruence|now left]|auto|right; auto].
      * intros [H|[Hne [H|H]]]; [right; now left|now left|right; right; auto].
Qed.

Lemma In_okeys m k : In k (okeys m) <-> exists v, In (k, v) m.
Proof.
  unfold okeys. rewrite in_map_iff. split.
  - intros [[k' v] [H1 H2]]. cbn in H1. subst. eauto.
  - intros [v H]. exists (k, v). auto.
Qed.

Definition well_keyed (m : omap) : Prop := forall k e, In (k, e) m -> e_hash e = k.

Lemma In_oget m k v : NoDup (okeys m) -> In (k, v) m -> oget m k = Some v.
Proof.
  induction m as [|[k2 v2] m IH]; intros Hnd; cbn [In oget]; [tauto|].
  inversion Hnd as [|? ? Hn Hnd']; subst. intros [H|H].
  - inversion H; subst. now rewrite N.eqb_refl.
  - destruct (N.eqb_spec k k2); subst.
    + exfalso. apply Hn. change (In (fst (k2, v)) (map fst m)). now apply in_map.
    + auto.
Qed.

Lemma In_oslice m e : In e (oslice m) <-> exists k, In (k, e) m.
Proof.
  unfold oslice. rewrite in_map_iff. split.
  - intros [[k v] [H1 H2]]. cbn in H1. subst. eauto.
  - intros [k H]. exists (k, e). auto.
Qed.

Lemma well_keyed_oset m k v : NoDup (okeys m) -> well_keyed m -> e_hash v = k -> well_keyed (oset m k v).
Proof.
  intros Hnd Hw Hk k' e' H. apply In_oset in H; auto. destruct H as [[-> ->]|[_ H]]; auto.
Qed.

(* ---- from_entries ---- *)
Lemma fold_oset_props (l : list entry) (m : omap) :
  NoDup (okeys m) -> well_keyed m ->
  let m' := fold_left (fun m e => oset m (e_hash e) e) l m in
  NoDup (okeys m') /\ well_keyed m' /\
  (forall h, In h (okeys m') <-> In h (okeys m) \/ In h (map e_hash l)).
Proof.
  revert m. induction l as [|e l IH]; intros m Hnd Hw; cbn [fold_left map In].
  - repeat split; auto; tauto.
  - specialize (IH (oset m (e_hash e) e) (NoDup_okeys_oset _ _ _ Hnd) (well_keyed_oset _ _ _ Hnd Hw eq_refl)).
    destruct IH as [A [B C]]. repeat split; auto.
    + intros H. apply C in H. rewrite In_okeys_oset in H. intuition (subst; auto).
    + intros H. apply C. rewrite In_okeys_oset. intuition (subst; auto).
Qed.

Lemma from_entries_props (l : list entry) :
  NoDup (okeys (from_entries l)) /\ well_keyed (from_entries l) /\
  (forall h, In h (okeys (from_entries l)) <-> In h (map e_hash l)).
Proof.
  unfold from_entries. destruct (fold_oset_props l []) as [A [B C]]; [constructor|intros ? ? []|].
  repeat split; auto; intros H; [apply C in H; cbn in H; tauto|apply C; auto].
Qed.

(* values present in a fold of osets come from the list or the initial map *)
Lemma fold_oset_In (l : list entry) (m : omap) k v :
  In (k, v) (fold_left (fun m e => oset m (e_hash e) e) l m) -> In (k, v) m \/ (In v l /\ e_hash v = k).
Proof.
  revert m. induction l as [|e l IH]; intros m; cbn [fold_left]; [auto|].
  intros H. apply IH in H. destruct H as [H|[H1 H2]]; [|right; split; [now right|auto]].
  clear IH. induction m as [|[k2 v2] m IHm]; cbn [oset] in H.
  - destruct H as [H|[]]. inversion H; subst. right; split; [now left|auto].
  - destruct (N.eqb_spec (e_hash e) k2).
    + destruct H as [H|H]; [inversion H; subst; right; split; [now left|auto]|left; now right].
    + destruct H as [H|H]; [left; now left|]. apply IHm in H. destruct H; [left; now right|auto].
Qed.

Lemma from_entries_In l k v : In (k, v) (from_entries l) -> In v l /\ e_hash v = k.
Proof. intros H. apply fold_oset_In in H. destruct H as [[]|H]; auto. Qed.

(* if hashes are unique in l, every element of l is in from_entries l *)
Lemma fold_oset_keeps (l : list entry) (m : omap) k v :
  In (k, v) m -> ~ In k (map e_hash l) -> NoDup (okeys m) ->
  In (k, v) (fold_left (fun m e => oset m (e_hash e) e) l m).
Proof.
  revert m. induction l as [|e l IH]; intros m H Hn Hnd; cbn [fold_left]; [auto|].
  cbn [map In] in Hn. apply IH; [|tauto|now apply NoDup_okeys_oset].
  apply In_oset; auto. right. split; [intro; subst; tauto|auto].
Qed.

Lemma fold_oset_complete l : forall m e,
  NoDup (okeys m) -> NoDup (map e_hash l) -> In e l ->
  In (e_hash e, e) (fold_left (fun m e => oset m (e_hash e) e) l m).
Proof.
  induction l as [|x l IH]; intros m e Hm Hnd Hin; [destruct Hin|].
  cbn [fold_left map] in *. inversion Hnd as [|? ? Hnx Hnd']; subst. destruct Hin as [->|Hin].
  - apply fold_oset_keeps; auto; [|now apply NoDup_okeys_oset].
    apply In_oset; auto.
  - apply IH; auto. now apply NoDup_okeys_oset.
Qed.

Lemma from_entries_complete l e :
  NoDup (map e_hash l) -> In e l -> In (e_hash e, e) (from_entries l).
Proof. intros Hnd Hin. unfold from_entries. apply fold_oset_complete; auto. constructor. Qed.

Lemma oslice_from_entries_subset l e : In e (oslice (from_entries l)) -> In e l.
Proof. intros H. apply In_oslice in H. destruct H as [k H]. now apply from_entries_In in H. Qed.

(* max_time *)
Lemma max_time_ge l d : d <= max_time l d.
Proof.
  unfold max_time. revert d. induction l as [|e l IH]; intros d; cbn [fold_left]; [lia|].
  specialize (IH (Z.max (e_time e) d)). lia.
Qed.

Lemma max_time_In l d e : In e l -> e_time e <= max_time l d.
Proof.
  unfold max_time. revert d. induction l as [|x l IH]; intros d []; cbn [fold_left].
  - subst. pose proof (max_time_ge l (Z.max (e_time e) d)). unfold max_time in H. lia.
  - auto.
Qed.

Lemma max_time_bound l d b : d <= b -> (forall e, In e l -> e_time e <= b) -> max_time l d <= b.
Proof.
  unfold max_time. revert d. induction l as [|x l IH]; intros d Hd H; cbn [fold_left]; [auto|].
  apply IH; [|intros; apply H; now right]. specialize (H x (or_introl eq_refl)). lia.
Qed.

(* uniq *)
Lemma uniq_aux_In seen l x : In x (uniq_aux seen l) <-> In x l /\ ~ In x seen.
Proof.
  revert seen. induction l as [|y l IH]; intros seen; cbn [uniq_aux In]; [tauto|].
  destruct (mem y seen) eqn:E.
  - apply mem_In in E. rewrite IH. split; [tauto|]. intros [[->|H] Hn]; [contradiction|auto].
  - apply mem_false in E. cbn [In]. rewrite IH. cbn [In]. split.
    + intros [->|[H Hn]]; [auto|]. split; [auto|]. intro; apply Hn; now right.
    + intros [[->|H] Hn]; [auto|]. destruct (N.eq_dec x y); [left; congruence|].
      right. split; [auto|]. intros [?|?]; [congruence|contradiction].
Qed.

Lemma uniq_In l x : In x (uniq l) <-> In x l.
Proof. unfold uniq. rewrite uniq_aux_In. cbn. tauto. Qed.

Lemma uniq_aux_NoDup seen l : NoDup (uniq_aux seen l).
Proof.
  revert seen. induction l as [|y l IH]; intros seen; cbn [uniq_aux]; [constructor|].
  destruct (mem y seen); [apply IH|]. constructor; [|apply IH].
  rewrite uniq_aux_In. cbn [In]. tauto.
Qed.

Lemma uniq_NoDup l : NoDup (uniq l).
Proof. apply uniq_aux_NoDup. Qed.

Lemma uniq_aux_id seen l : NoDup l -> (forall x, In x l -> ~ In x seen) -> uniq_aux seen l = l.
Proof.
  revert seen. induction l as [|y l IH]; intros seen Hnd H; cbn [uniq_aux]; [reflexivity|].
  inversion Hnd; subst. assert (E : mem y seen = false) by (apply mem_false; apply H; now left).
  rewrite E. f_equal. apply IH; auto. intros x Hx [->|Hs]; [contradiction|].
  apply (H x); [now right|auto].
Qed.

Lemma uniq_id l : NoDup l -> uniq l = l.
Proof. intros H. apply uniq_aux_id; auto. Qed.

Lemma NoDup_map_filter {A B} (f : A -> B) (p : A -> bool) (l : list A) :
  NoDup (map f l) -> NoDup (map f (filter p l)).
Proof.
  induction l as [|x l IH]; cbn [map filter]; intros H; [constructor|].
  inversion H as [|? ? Hn Hnd]; subst. destruct (p x); cbn [map]; [|auto].
  constructor; [|auto]. intros Hc. apply Hn. apply in_map_iff in Hc. destruct Hc as [y [Hy Hin]].
  apply filter_In in Hin. apply in_map_iff. exists y. tauto.
Qed.
