(* Boolean form of history well-formedness, so that concrete histories (the Examples beside the
   theorems, and the histories the harness ran on the implementation) can be checked by computation. *)
From Coq Require Import List ZArith Bool Lia.
From IpfsLog Require Import Model.System Model.Check19 Model.WfDef Proofs.SysProofs.
From IpfsLog Require Export Model.WfDef.
Import ListNotations.
Open Scope Z_scope.

Lemma list_eqb_N_eq l1 l2 : list_eqb N.eqb l1 l2 = true -> l1 = l2.
Proof.
  revert l2. induction l1 as [|x l1 IH]; destruct l2 as [|y l2]; cbn; try discriminate; [reflexivity|].
  intros H. apply andb_true_iff in H. destruct H as [H1 H2]. apply N.eqb_eq in H1. subst. f_equal. auto.
Qed.

Lemma entry_eqb_full_eq a b : entry_eqb_full a b = true -> a = b.
Proof.
  unfold entry_eqb_full. rewrite !andb_true_iff. intros [[[[[[[[H1 H2] H3] H4] H5] H6] H7] H8] H9].
  destruct a, b. cbn in *. apply N.eqb_eq in H1, H2, H3, H7, H8. apply list_eqb_N_eq in H4, H5.
  apply Z.eqb_eq in H6. apply Bool.eqb_prop in H9. now subst.
Qed.

Lemma wf_stepb_wf s o : wf_stepb s o = true -> wf_step s o.
Proof.
  destruct o; cbn [wf_stepb wf_step]; auto.
  - intros H. now apply Z.leb_le.
  - intros H l e L AE a Ha Hh. rewrite L, AE in H. rewrite forallb_forall in H. specialize (H a Ha).
    apply orb_true_iff in H. destruct H as [H|H].
    + apply negb_true_iff, N.eqb_neq in H. contradiction.
    + now apply entry_eqb_full_eq.
  - intros H. now apply Z.ltb_lt.
  - intros H l e L AE a Ha Hh. rewrite L, AE in H. rewrite forallb_forall in H. specialize (H a Ha).
    apply orb_true_iff in H. destruct H as [H|H].
    + apply negb_true_iff, N.eqb_neq in H. contradiction.
    + now apply entry_eqb_full_eq.
  - discriminate.
Qed.

Theorem wfb_wf ops : wfb ops = true -> wf ops.
Proof.
  unfold wfb, wf. generalize empty_sys. induction ops as [|o ops IH]; intros s; cbn [wfb_from wf_from]; [auto|].
  intros H. apply andb_true_iff in H. destruct H as [H1 H2]. split; [now apply wf_stepb_wf|auto].
Qed.

From IpfsLog Require Import Proofs.PSys.

Lemma pwf_stepb_pwf s o : pwf_stepb s o = true -> pwf_step s o.
Proof.
  destruct o; cbn [pwf_stepb pwf_step]; auto; intros H; apply wf_stepb_wf in H; exact H.
Qed.

Theorem pwfb_pwf ops : pwfb ops = true -> pwf ops.
Proof.
  unfold pwfb, pwf. generalize empty_sys. induction ops as [|o ops IH]; intros s; cbn [pwfb_from pwf_from]; [auto|].
  intros H. apply andb_true_iff in H. destruct H as [H1 H2]. split; [now apply pwf_stepb_pwf|auto].
Qed.
