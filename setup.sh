#!/bin/sh
# Build the framework from files on disk only (offline): Coq development, translators, harness.
set -e
cd "$(dirname "$0")"
export GOFLAGS=-mod=mod GOPROXY=off GOSUMDB=off GOTOOLCHAIN=local
mkdir -p bin work evidence replays
python3 tools/mkgomod.py harness
(cd harness && go build -tags verif -o ../bin/harness .)
for g in tools/gen*/main.go; do
  [ -f "$g" ] || continue
  d=$(dirname "$g"); (cd "$d" && go build -o "../../bin/$(basename "$d")" .)
done
python3 -c "import sys; sys.path.insert(0,'lib'); import verif; verif.write_coqproject()"
cd coq
coq_makefile -f _CoqProject -o Makefile.coq
timeout 3000 make -f Makefile.coq -j16
