#!/bin/sh
# usage: tools/coqbuild.sh [target.vo ...]   (regenerates _CoqProject / Makefile.coq first)
cd /verif && python3 -c "import sys; sys.path.insert(0,'lib'); import verif; verif.write_coqproject()" && cd coq && coq_makefile -f _CoqProject -o Makefile.coq >/dev/null && timeout 1500 make -f Makefile.coq -k -j16 "$@" 2>&1 | grep -v "^COQ\|conda\|^make\|^Closed under" | head -60
