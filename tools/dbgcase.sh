#!/bin/sh
# usage: tools/dbgcase.sh C04 <shard> <index>   -- diagnose a history mismatch
P=$1; S=$2; I=$3
cd /verif/work/$P || exit 1
cat > dbg.v <<EOT
From IpfsLog Require Import Model.System Model.CheckLog.
Require Import Case_${P}_${S}.
Open Scope Z_scope.
Definition h := nth $I hist_cases [].
Definition bad := match first_bad h with Some i => i | None => 0%nat end.
Eval vm_compute in first_bad h.
Definition upto (n : nat) := fold_left (fun s o => fst (step s (fst o))) (firstn n h) empty_sys.
Eval vm_compute in nth_error h bad.
Definition dflt := (ONew 0 0 SLww [] 0, mkObs 0 RcOk None None true true [] [] [] 0 []).
Definition sb := step (upto bad) (fst (nth bad h dflt)).
Eval vm_compute in snd sb.
Eval vm_compute in map (fun l => (okeys (l_entries l), map e_hash (heads l), match values l with Some v => okeys v | None => [] end, l_time l)) (s_logs (fst sb)).
Eval vm_compute in skipn (length (s_store (upto bad))) (s_store (fst sb)).
Eval vm_compute in map (fun l => (map (fun e => (e_hash e, e_next e, e_time e, e_cid e)) (oslice (l_entries l)))) (s_logs (upto bad)).
EOT
coqc -Q /verif/coq IpfsLog Case_${P}_${S}.v >/dev/null 2>&1
coqc -Q /verif/coq IpfsLog -Q . "" dbg.v 2>&1 | grep -v WARNING
