module gentables

go 1.22
