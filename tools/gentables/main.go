// gentables: reads io/cbor/cbor.go of the repository under check and emits the refmt atlas
// declared in cbor.IO() as Coq data (coq/Gen/Tables.v).
//
//	gentables -repo DIR -out FILE
//
// Pure standard library (go/parser, go/ast).  What is understood:
//
//	_io.atlasEntries = []*atlas.AtlasEntry{ <entry>, ... }        inside func IO
//	<entry> = atlas.BuildEntry(T{}).StructMap().
//	             AddField("F", atlas.StructMapEntry{SerialName: "s"[, OmitEmpty: true|false]})...
//	             .Complete()
//	        | atlas.BuildEntry(T{}).Transform()....Complete()       (recorded by name only)
//	func createCborMarshaller: every atlas.MapMorphism{KeySortMode: atlas.X} literal, all equal
//
// plus, from io/cbor/cid.go, the tag used by the cid.Cid transform (`UseTag(cbornode.CBORTagLink)`)
// and the multibase prefix byte in castCidToBytes (`append([]byte{0}, ...)`).
// Anything else in these places (another builder method, a non-literal argument, an unknown key
// in the StructMapEntry literal, IgnoreKey, Autogenerate, ...) makes the tool exit non-zero: the
// model must not silently drift from a shape it does not understand.
package main

import (
	"flag"
	"fmt"
	"go/ast"
	"go/parser"
	"go/token"
	"os"
	"path/filepath"
	"strconv"
	"strings"
)

type row struct {
	structName, field, serial string
	omit                      bool
}

type refusal struct{ msg string }

func refuse(fset *token.FileSet, n ast.Node, format string, args ...interface{}) {
	pos := ""
	if n != nil && fset != nil {
		pos = fset.Position(n.Pos()).String() + ": "
	}
	panic(refusal{pos + fmt.Sprintf(format, args...)})
}

func main() {
	repo := flag.String("repo", "/repo", "repository root")
	out := flag.String("out", "", "output .v file")
	flag.Parse()
	if *out == "" {
		fmt.Fprintln(os.Stderr, "gentables: missing -out")
		os.Exit(2)
	}
	defer func() {
		if r := recover(); r != nil {
			if rf, ok := r.(refusal); ok {
				fmt.Fprintln(os.Stderr, "gentables: REFUSED:", rf.msg)
				os.Exit(1)
			}
			panic(r)
		}
	}()
	text := generate(*repo)
	if err := os.WriteFile(*out, []byte(text), 0o644); err != nil {
		fmt.Fprintln(os.Stderr, "gentables:", err)
		os.Exit(2)
	}
	fmt.Printf("gentables: wrote %s\n", *out)
}

func selName(e ast.Expr) string { // "pkg.Name" or "Name"
	switch x := e.(type) {
	case *ast.Ident:
		return x.Name
	case *ast.SelectorExpr:
		return selName(x.X) + "." + x.Sel.Name
	}
	return ""
}

func strLit(fset *token.FileSet, e ast.Expr) string {
	bl, ok := e.(*ast.BasicLit)
	if !ok || bl.Kind != token.STRING {
		refuse(fset, e, "expected a string literal")
	}
	s, err := strconv.Unquote(bl.Value)
	if err != nil {
		refuse(fset, e, "bad string literal %s", bl.Value)
	}
	return s
}

// unchain turns a.M1(x).M2(y).M3() into base expression a and the calls [M1 M2 M3].
type call struct {
	name string
	args []ast.Expr
	node ast.Node
}

func unchain(e ast.Expr) (ast.Expr, []call) {
	var calls []call
	for {
		ce, ok := e.(*ast.CallExpr)
		if !ok {
			break
		}
		se, ok := ce.Fun.(*ast.SelectorExpr)
		if !ok {
			break
		}
		calls = append([]call{{se.Sel.Name, ce.Args, ce}}, calls...)
		e = se.X
	}
	return e, calls
}

func generate(repo string) string {
	fset := token.NewFileSet()
	cborPath := filepath.Join(repo, "io", "cbor", "cbor.go")
	f, err := parser.ParseFile(fset, cborPath, nil, 0)
	if err != nil {
		refuse(nil, nil, "cannot parse %s: %v", cborPath, err)
	}
	var ioFn, mkFn *ast.FuncDecl
	for _, d := range f.Decls {
		if fd, ok := d.(*ast.FuncDecl); ok {
			if fd.Name.Name == "IO" && fd.Recv == nil {
				ioFn = fd
			}
			if fd.Name.Name == "createCborMarshaller" {
				mkFn = fd
			}
		}
	}
	if ioFn == nil {
		refuse(nil, nil, "func IO not found in %s", cborPath)
	}
	if mkFn == nil {
		refuse(nil, nil, "func createCborMarshaller not found in %s", cborPath)
	}

	// ---- the atlas literal ----
	var lit *ast.CompositeLit
	nAssign := 0
	ast.Inspect(ioFn.Body, func(n ast.Node) bool {
		as, ok := n.(*ast.AssignStmt)
		if !ok || len(as.Lhs) != 1 || len(as.Rhs) != 1 {
			return true
		}
		if !strings.HasSuffix(selName(as.Lhs[0]), ".atlasEntries") {
			return true
		}
		nAssign++
		cl, ok := as.Rhs[0].(*ast.CompositeLit)
		if !ok {
			refuse(fset, as, "atlasEntries is not assigned a composite literal")
		}
		lit = cl
		return true
	})
	if nAssign != 1 || lit == nil {
		refuse(fset, ioFn, "expected exactly one assignment to atlasEntries in IO(), found %d", nAssign)
	}
	// no later mutation of the slice (append etc.) that we would miss
	ast.Inspect(f, func(n ast.Node) bool {
		if as, ok := n.(*ast.AssignStmt); ok {
			for _, l := range as.Lhs {
				if strings.HasSuffix(selName(l), ".atlasEntries") && as != nil {
					if cl, ok := as.Rhs[0].(*ast.CompositeLit); !ok || cl != lit {
						refuse(fset, as, "atlasEntries assigned outside the literal in IO()")
					}
				}
			}
		}
		return true
	})

	var rows []row
	var structs, transforms []string
	seenStruct := map[string]bool{}
	for _, el := range lit.Elts {
		base, calls := unchain(el)
		if selName(base) != "atlas" || len(calls) < 3 || calls[0].name != "BuildEntry" {
			refuse(fset, el, "atlas entry is not of the form atlas.BuildEntry(T{})...")
		}
		if len(calls[0].args) != 1 {
			refuse(fset, el, "BuildEntry takes one argument")
		}
		tl, ok := calls[0].args[0].(*ast.CompositeLit)
		if !ok || len(tl.Elts) != 0 {
			refuse(fset, calls[0].args[0], "BuildEntry argument is not an empty composite literal T{}")
		}
		tname := selName(tl.Type)
		if tname == "" {
			refuse(fset, tl, "cannot name the type of the BuildEntry argument")
		}
		if seenStruct[tname] {
			refuse(fset, el, "type %s has two atlas entries", tname)
		}
		seenStruct[tname] = true
		if calls[len(calls)-1].name != "Complete" || len(calls[len(calls)-1].args) != 0 {
			refuse(fset, el, "atlas entry for %s does not end in .Complete()", tname)
		}
		switch calls[1].name {
		case "Transform":
			for _, c := range calls[2 : len(calls)-1] {
				if c.name != "TransformMarshal" && c.name != "TransformUnmarshal" {
					refuse(fset, c.node, "unknown builder method %s in transform entry for %s", c.name, tname)
				}
			}
			transforms = append(transforms, tname)
		case "StructMap":
			if len(calls[1].args) != 0 {
				refuse(fset, calls[1].node, "StructMap() with arguments")
			}
			structs = append(structs, tname)
			seenField := map[string]bool{}
			for _, c := range calls[2 : len(calls)-1] {
				if c.name != "AddField" {
					refuse(fset, c.node, "unknown builder method %s in struct map for %s (only AddField is understood)", c.name, tname)
				}
				if len(c.args) != 2 {
					refuse(fset, c.node, "AddField takes two arguments")
				}
				field := strLit(fset, c.args[0])
				if strings.Contains(field, ".") {
					refuse(fset, c.args[0], "nested field route %q is not understood", field)
				}
				if seenField[field] {
					refuse(fset, c.args[0], "field %s.%s mapped twice", tname, field)
				}
				seenField[field] = true
				sl, ok := c.args[1].(*ast.CompositeLit)
				if !ok || selName(sl.Type) != "atlas.StructMapEntry" {
					refuse(fset, c.args[1], "second AddField argument is not an atlas.StructMapEntry literal")
				}
				r := row{structName: tname, field: field}
				haveSerial := false
				for _, kvE := range sl.Elts {
					kv, ok := kvE.(*ast.KeyValueExpr)
					if !ok {
						refuse(fset, kvE, "positional StructMapEntry literal")
					}
					switch selName(kv.Key) {
					case "SerialName":
						r.serial = strLit(fset, kv.Value)
						haveSerial = true
					case "OmitEmpty":
						id, ok := kv.Value.(*ast.Ident)
						if !ok || (id.Name != "true" && id.Name != "false") {
							refuse(fset, kv.Value, "OmitEmpty is not a boolean literal")
						}
						r.omit = id.Name == "true"
					default:
						refuse(fset, kv.Key, "unknown StructMapEntry key %s", selName(kv.Key))
					}
				}
				if !haveSerial {
					refuse(fset, sl, "StructMapEntry for %s.%s has no SerialName", tname, field)
				}
				rows = append(rows, r)
			}
		default:
			refuse(fset, calls[1].node, "unknown atlas entry kind %s for %s", calls[1].name, tname)
		}
	}
	if len(rows) == 0 {
		refuse(fset, lit, "no struct map rows found")
	}

	// ---- key sort mode ----
	mode := ""
	nMode := 0
	ast.Inspect(mkFn.Body, func(n ast.Node) bool {
		cl, ok := n.(*ast.CompositeLit)
		if !ok || selName(cl.Type) != "atlas.MapMorphism" {
			return true
		}
		if len(cl.Elts) != 1 {
			refuse(fset, cl, "MapMorphism literal with %d elements", len(cl.Elts))
		}
		kv, ok := cl.Elts[0].(*ast.KeyValueExpr)
		if !ok || selName(kv.Key) != "KeySortMode" {
			refuse(fset, cl, "MapMorphism literal without KeySortMode key")
		}
		m := selName(kv.Value)
		if !strings.HasPrefix(m, "atlas.KeySortMode_") {
			refuse(fset, kv.Value, "KeySortMode is not an atlas.KeySortMode_* constant")
		}
		m = strings.TrimPrefix(m, "atlas.")
		if mode != "" && mode != m {
			refuse(fset, kv.Value, "marshaller and unmarshaller use different key sort modes (%s, %s)", mode, m)
		}
		mode = m
		nMode++
		return true
	})
	if nMode == 0 {
		refuse(fset, mkFn, "no atlas.MapMorphism{KeySortMode: ...} in createCborMarshaller")
	}
	// both marshaller and unmarshaller must append cidAtlasEntry
	nCid := 0
	ast.Inspect(mkFn.Body, func(n ast.Node) bool {
		if id, ok := n.(*ast.Ident); ok && id.Name == "cidAtlasEntry" {
			nCid++
		}
		return true
	})
	if nCid < 2 {
		refuse(fset, mkFn, "cidAtlasEntry is not added to both marshaller and unmarshaller")
	}

	// ---- cid.go: tag and multibase prefix ----
	cidPath := filepath.Join(repo, "io", "cbor", "cid.go")
	cf, err := parser.ParseFile(fset, cidPath, nil, 0)
	if err != nil {
		refuse(nil, nil, "cannot parse %s: %v", cidPath, err)
	}
	tagName := ""
	prefix := -1
	ast.Inspect(cf, func(n ast.Node) bool {
		switch x := n.(type) {
		case *ast.CallExpr:
			if se, ok := x.Fun.(*ast.SelectorExpr); ok && se.Sel.Name == "UseTag" && len(x.Args) == 1 {
				tagName = selName(x.Args[0])
				if bl, ok := x.Args[0].(*ast.BasicLit); ok {
					tagName = bl.Value
				}
			}
		case *ast.FuncDecl:
			if x.Name.Name == "castCidToBytes" {
				ast.Inspect(x.Body, func(m ast.Node) bool {
					ce, ok := m.(*ast.CallExpr)
					if !ok || selName(ce.Fun) != "append" || len(ce.Args) != 2 {
						return true
					}
					cl, ok := ce.Args[0].(*ast.CompositeLit)
					if !ok || len(cl.Elts) != 1 {
						refuse(fset, ce, "castCidToBytes: append's first argument is not a one byte literal")
					}
					bl, ok := cl.Elts[0].(*ast.BasicLit)
					if !ok || bl.Kind != token.INT {
						refuse(fset, ce, "castCidToBytes: prefix is not an integer literal")
					}
					v, err := strconv.ParseInt(bl.Value, 0, 16)
					if err != nil || v < 0 || v > 255 {
						refuse(fset, bl, "castCidToBytes: bad prefix %s", bl.Value)
					}
					prefix = int(v)
					return true
				})
			}
		}
		return true
	})
	tag := -1
	switch tagName {
	case "cbornode.CBORTagLink":
		tag = 42 // github.com/ipfs/go-ipld-cbor: const CBORTagLink = 42
	default:
		if v, err := strconv.ParseInt(tagName, 0, 64); err == nil && v >= 0 {
			tag = int(v)
		}
	}
	if tag < 0 {
		refuse(nil, nil, "%s: cannot determine the CBOR tag of the cid transform (UseTag(%s))", cidPath, tagName)
	}
	if prefix < 0 {
		refuse(nil, nil, "%s: cannot find the multibase prefix in castCidToBytes", cidPath)
	}

	// ---- emit ----
	var sb strings.Builder
	sb.WriteString("(* GENERATED by tools/gentables from io/cbor/cbor.go and io/cbor/cid.go - DO NOT EDIT.\n")
	sb.WriteString("   The refmt atlas declared in cbor.IO(): one row per AddField, in source order (refmt emits\n")
	sb.WriteString("   struct fields in this order), plus the map key sort mode and the cid transform constants. *)\n")
	sb.WriteString("From Coq Require Import List NArith String.\nImport ListNotations.\nLocal Open Scope string_scope.\n\n")
	sb.WriteString("Record atlas_row := { ar_struct : string; ar_field : string; ar_serial : list N; ar_omit : bool }.\n\n")
	sb.WriteString("Definition atlas_table : list atlas_row := [\n")
	for i, r := range rows {
		sep := ";"
		if i == len(rows)-1 {
			sep = ""
		}
		fmt.Fprintf(&sb, "  {| ar_struct := %s; ar_field := %s; ar_serial := %s (* %s *); ar_omit := %v |}%s\n",
			coqString(r.structName), coqString(r.field), coqBytes(r.serial), commentSafe(r.serial), r.omit, sep)
	}
	sb.WriteString("].\n\n")
	fmt.Fprintf(&sb, "Definition atlas_structs : list string := [%s].\n", joinCoqStrings(structs))
	fmt.Fprintf(&sb, "Definition atlas_transforms : list string := [%s].\n", joinCoqStrings(transforms))
	fmt.Fprintf(&sb, "Definition key_sort_mode : string := %s.\n", coqString(mode))
	fmt.Fprintf(&sb, "Definition cid_tag : N := %d%%N.\n", tag)
	fmt.Fprintf(&sb, "Definition cid_multibase_prefix : N := %d%%N.\n", prefix)
	return sb.String()
}

func coqString(s string) string {
	for _, c := range []byte(s) {
		if c < 0x20 || c > 0x7e {
			refuse(nil, nil, "non printable character in identifier %q", s)
		}
	}
	return "\"" + strings.ReplaceAll(s, "\"", "\"\"") + "\""
}

func commentSafe(s string) string {
	s = strings.ReplaceAll(s, "*)", "* )")
	s = strings.ReplaceAll(s, "(*", "( *")
	return strconv.Quote(s)
}

func coqBytes(s string) string {
	parts := make([]string, len(s))
	for i := 0; i < len(s); i++ {
		parts[i] = fmt.Sprintf("%d%%N", s[i])
	}
	return "[" + strings.Join(parts, "; ") + "]"
}

func joinCoqStrings(xs []string) string {
	ps := make([]string, len(xs))
	for i, x := range xs {
		ps[i] = coqString(x)
	}
	return strings.Join(ps, "; ")
}
