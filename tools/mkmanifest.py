#!/usr/bin/env python3
"""Writes MANIFEST.json from the table below (kept in one place so it is always valid)."""
import json, os
ROOT = os.path.dirname(os.path.dirname(os.path.abspath(__file__)))
props = [json.loads(l) for l in open(os.path.join(ROOT, "properties.jsonl"))]

TB = ("Coq 8.16.1 kernel and vm_compute; axioms per theorem as printed by Print Assumptions into the evidence file; "
      "hand-written Gallina model tied to /repo by the Go correspondence harness (stub DAG store, rank canonicalisation) "
      "and by Go-AST translators for the generated tables; SHA-256/CID collision freedom; see DESIGN.md section 7")

CLAIMED = {
 "C19": dict(
   text="Theorems (Props/C19.v): the hash-tiebreak ordering is a strict total order on the whole int64 time range, "
        "default ordering equals it on distinct (id,time) pairs, clock comparison antisymmetric/transitive, smaller time "
        "first, FWW = -LWW, sorting is a permutation and (for the strict order) sorted and input-order independent; "
        "proved for any id/hash comparison that is a three-way total order and instantiated for ranks and for raw bytes, "
        "and (C19_any_clock_*) for EVERY pluggable clock type whose Compare ranks by time and on equal times answers 0 or "
        "like the ids (built-in clock and a time-only clock are proved instances). "
        "Tied to the code by differential execution of sorting.*/LamportClock.Compare vs the model on all pairs of a pool "
        "and on random sort inputs (built-in clock, and an application-defined entry/clock type comparing times only), plus "
        "direct law monitors on the implementation.",
   technique="Coq proof (order laws, insertion-sort model) + differential correspondence vs Go", design="6/C19"),
 "C20": dict(
   text="Theorems (Props/C20.v): for every history of create/get/has/get-or-create/restart over any number of keystore "
        "instances sharing a datastore and any cache capacity >= 1 (each id raw-created at most once), cache coherence is "
        "invariant, GetKey returns exactly the datastore's key on every instance incl. after eviction and restart, HasKey "
        "(repaired code) = membership in the datastore; identity creation is idempotent and its id-, public-key- and entry "
        "signatures verify under the stated signature-correctness hypothesis. Tied to keystore.go/identities.go/orbitdb.go by "
        "differential execution of op sequences (more ids than the 128-entry cache, 1-6 instances) and direct monitors with real crypto.",
   technique="Coq proof (LRU/datastore refinement, identity algebra modulo signature oracle) + differential correspondence vs Go", design="6/C20"),
 "C07": dict(
   text="Theorems (Props/C07.v): json.Marshal on the fragment toBuffer uses is injective up to the U+FFFD replacement of invalid "
        "UTF-8; the signed view, folded over the field table regenerated from entry.go by tools/gensigned, determines log id, "
        "payload (both up to that replacement), next and refs as lists, v, clock id, clock time, additional data; under the stated "
        "unforgeability assumption every single-field modification, key or signature substitution of an honestly signed entry with "
        "valid-UTF-8 payload/log id fails Verify; for arbitrary binary payloads the statement is refuted (known findings K1, K1b). "
        "Tied to the code by the generated table, byte-for-byte comparison with signing bytes validated against real signatures, "
        "and tamper monitors on Entry.Verify.",
   technique="Coq proof modulo signature oracle + Go-AST generated field table + differential correspondence vs Go", design="6/C07"),
 "C13": dict(
   text="General theorems (Proofs/ConcProofs.v), proved once for any program given as event paths under a small-step semantics of "
        "sync.RWMutex with writer preference: well-locked programs have no two conflicting accesses enabled at once (drf), writer "
        "sections are exclusive and reader sections see whole writer sections, no path acquiring a lock while holding one => no "
        "deadlock. About today's code (Props/C13.v): the lock/access skeleton of every IPFSLog method and OrderedMap method is "
        "regenerated from log.go/log_io.go/entry_map.go by tools/genlocks on every run and the boolean facts well_locked / "
        "no_nested_acquire / single_section are proved over it by vm_compute. Runtime half (interleavings, -race, watchdog, "
        "append chain, structural soundness of concurrent reads) is exercised by the harness with forced preemption at the hooks; "
        "the Go memory model (DRF=>SC), sync.RWMutex and the event abstraction are trusted.",
   technique="Coq proof over lock skeleton regenerated from Go AST + race-detector/forced-schedule exploration", design="6/C13"),
 "C14": dict(
   text="Theorems (Props/C14.v) over the generated skeleton: Join performs no call on the other log while holding its own lock and reads "
        "the source's heads exactly once and before its entries; hence (general theorem) cross-merges of any number of logs cannot "
        "deadlock, and (model theorem C14_snapshot) for a source that only grows, the difference walk from heads@t1 inside "
        "entries@t2>=t1 equals the walk on the consistent state at t1. Harness: merges parked at the join.* hooks while the source "
        "is appended to / merged, symmetric cross-merges with a watchdog, under -race.",
   technique="Coq proof over lock skeleton regenerated from Go AST + forced-schedule exploration", design="6/C14"),
 "C02": dict(
   text="Theorems (Props/C02.v): for every reachable state of every well-formed history (appends with content-consistent CIDs, "
        "unbounded joins incl. overlapping/repeated/self/foreign-id, identity changes, publications) the head map holds exactly the "
        "entries of the log no entry of the log names in next, without duplicates, non-empty iff the log is; proved as part of a log "
        "invariant (entries inside a hash-consistent universe, next-closed, exact heads, exact reverse index, clock bound) preserved "
        "by Append and by the faithful model of Join (difference walk, reverse-index and FindHeads filters). Tied to log.go by "
        "differential execution of random multi-replica histories (model state compared after every op) and a brute-force monitor.",
   technique="Coq proof (invariant over operation histories) + differential correspondence vs Go", design="6/C02"),
 "C03": dict(
   text="Theorems (Props/C03.v): in every reachable state, for the hash-tiebreak ordering and for the default ordering on tie-free logs, "
        "Values() returns each entry of the log exactly once, sorted by the configured ordering, every entry after all its predecessors "
        "present in the log, and is a function of the entry set (two replicas with equal entry sets have equal linearisations). Proved "
        "by a loop invariant of the priority traversal (sorted stack, popped >= stacked, reachability closure), fuel sufficiency, and "
        "an extensionality argument transferring the hash ordering to LastWriteWins on tie-free logs. Histories may open replicas with a "
        "clock of their own (LogOptions.Clock, up to 2^62; premise: largest seed + number of operations < 2^63). Tie via history "
        "correspondence (seeded clocks included) and scenario monitors on logs opened with entries and a lagging clock.",
   technique="Coq proof (traversal loop invariant, order laws) + differential correspondence vs Go", design="6/C03"),
 "C05": dict(
   text="Theorems (Props/C05.v): every operation of a well-formed history keeps every entry of every replica under the same hash with "
        "identical content, never decreases the entry count, and leaves all other replicas untouched; over any continuation of a "
        "history. The Values()-subsequence clause follows for strict total orderings from C03 (sorted enumerations of nested sets) "
        "and is monitored; for the default ordering with (id,time) ties it fails (known finding K2). The aliasing clause (Go shares "
        "entries by pointer) is checked by execution only: the harness snapshots every log before each operation.",
   technique="Coq proof (monotonicity over histories) + differential correspondence and snapshot monitors vs Go", design="6/C05"),
 "C06": dict(
   text="Theorems (Props/C06.v), for arbitrary logs: a Join that returns an error leaves the log unchanged; every entry a successful "
        "Join adds carries the log's id and passed access controller, signature check and key presence; an invalid candidate makes the "
        "Join fail; under the log invariant the candidates are exactly the source's entries the destination lacks (success iff all "
        "valid); with any bound, between any two replicas of any history, everything the log holds afterwards it held before or it "
        "passed the checks (C06_any_merge_admits_only_valid); the heads of a merge are the log's own held-or-checked entries whatever "
        "an arbitrary other log presents as its heads (C06_heads_are_own_verified_entries; found and repaired: Join trusted the other "
        "log's head objects, 2c00552); a denied Append changes neither entries nor heads. 'Appended entries verify' is C07 (default "
        "codec) / C18 (link codec) / harness (legacy). Tied by histories with refusing access controllers and monitors on the real "
        "Join/Append, incl. forged entries at any position, an entry of another log on top of the heads, an entry-dependent access "
        "controller and tampered copies in the head list.",
   technique="Coq proof (control flow of Join/Append model, difference specification) + differential correspondence vs Go", design="6/C06"),
 "C08": dict(
   text="Theorems (Props/C08.v): CBOR byte layer decode(encode t ++ rest) = (t, rest) for well-formed trees (prefix-free, injective); "
        "entry layer: reading back a written entry yields every field (nil/empty link lists, binary payloads, additional data), "
        "re-encoding gives the same bytes hence the same CID, manifests likewise, link-encrypting codec round-trips under "
        "open(seal)=id; field names/omit-empty/order come from the atlas table regenerated from cbor.go by tools/gentables. Tied by "
        "byte-for-byte comparison of stored blocks, read-back and re-encode monitors, pinned interop vectors and v0/v1 fixtures.",
   technique="Coq proof (codec round trip over generated atlas table) + byte-level differential correspondence vs Go", design="6/C08"),
 "C09": dict(
   text="Theorems (Props/C09.v): for a stored log that is the next-closure of its heads with refs inside and heads = unreferenced entries "
        "(facts C02/C04/C17 establish for reachable logs), every schedule of the fetcher returns a permutation of the log, and the four "
        "loaders rebuild the same id, entry set, heads and (for a strict total order) values; the bridge theorems instantiate this for "
        "every replica of every well-formed history, and (Proofs/ReloadBridge.v) show that the reloaded log is the replica the model's "
        "re-opening step makes from the loaded entries and heads, an admissible step of the histories with re-opened logs, so the "
        "theorems about those histories cover what is appended to and merged with a reloaded log. Tied by reloading reachable states "
        "through all loaders under forced completion orders, validating recorded event traces against the executable model; logs with a "
        "configured ordering are reloaded with it through every loader and must linearise as the original.",
   technique="Coq proof (fetcher transition system) + trace validation and differential correspondence vs Go", design="6/C09"),
 "C10": dict(
   text="Theorems (Props/C10.v): the min-clock invariant of the limited fetch holds in every reachable state of every schedule; top-n of "
        "the log is contained in the results which are contained in the log; the (repaired) loaders return exactly the supplied entries plus "
        "the most recent others, min(max(n,k),size) entries, independent of the schedule, on tie-free logs. On logs with (id,time) "
        "ties the outcome depends on arrival order (known finding K4). The log a limited load returns is, for all four loaders, "
        "the replica the model's re-opening step makes from the loaded entries (and, for the manifest loader, the heads among them, "
        "which are exactly the unreferenced entries of the loaded part), an admissible step of the histories with re-opened logs. "
        "Tied by trace validation and exact result comparison.",
   technique="Coq proof (invariant over a non-deterministic transition system) + trace validation vs Go", design="6/C10"),
 "C11": dict(
   text="Theorems (Props/C11.v) over ALL executions of the fetcher transition system (any store, fault set, exclusion predicate, "
        "concurrency): bounded length (termination, no deadlock), results duplicate free, each hash requested at most once and never an "
        "excluded/undefined one, terminal unbounded runs return exactly the entries reachable through retrievable non-excluded blocks, "
        "runs cut by a timeout a subset; the executable trace validator is sound w.r.t. the relation. Real time, the cond-var/"
        "semaphore implementation and ctx honouring are exercised (forced schedules, fault subsets, watchdog), not proved.",
   technique="Coq proof (well-founded measure and invariants over a transition relation) + trace validation / fault enumeration vs Go", design="6/C11"),
 "C12": dict(
   text="Theorems (Props/C12.v): the conversion layer (refmt tree -> entry: DecryptLinks, Entry/EntryV0/Identity/Clock.ToPlain, manifest) "
        "never reaches a nil dereference for any tree and any key, and an entry it returns has a clock, a complete-or-absent identity "
        "and re-encodes; which dereferences are guarded is a table regenerated from types.go by tools/genguards, so removing a nil "
        "check makes the model panic again. Third-party byte decoders are trusted to return a tree or an error and are fuzzed "
        "(structure-aware + raw), incl. bad blocks at every position of a stored log loaded in child processes.",
   technique="Coq proof (totality over generated guard table) + structured fuzzing with outcome-class correspondence vs Go", design="6/C12"),
 "C18": dict(
   text="Theorems (Props/C18.v): with a link key the stored block has empty next/refs and no tag-42 item, every clear field except "
        "enc_links/nonce/sig is independent of the links; same key recovers identical lists, no key gives empty lists, another key an "
        "error (secretbox authenticity assumed); created link entries verify as created and as read back (nonce reference independent "
        "of the key, as repaired). Byte-level secrecy of seal/signature is cryptography (assumed). Tied by byte scans of raw blocks "
        "for every link in all encodings, reader matrix, Verify/Join monitors, nonce-reference and block-byte correspondence.",
   technique="Coq proof modulo secretbox/signature oracles + byte-level differential correspondence vs Go", design="6/C18"),
 "C01": dict(
   text="Theorems (Props/C01.v): on logs satisfying the invariant (every replica of every well-formed history) an accepted unbounded "
        "Join yields exactly the union of the two entry sets and preserves the invariant, hence commutativity, associativity and "
        "idempotence on what replicas hold; heads and (total ordering) Values() are functions of the entry set, so replicas that "
        "merged the same appended entries expose identical entries, heads and values; merging itself, an empty log or a log of "
        "another id changes nothing. Tied by histories that finish with a complete all-pairs exchange in random order with repeats "
        "(convergence monitor) and state correspondence after every operation.",
   technique="Coq proof (Join = union under the log invariant; views are functions of the entry set) + differential correspondence vs Go", design="6/C01"),
 "C04": dict(
   text="Theorems (Props/C04.v): for every reachable log and every pointer count the appended entry names exactly the current heads "
        "(each once), carries the writer's key as clock id, has a time strictly greater than every entry of the log, becomes the single "
        "head; its skip references are entries of the log (all of which lie in its causal past), disjoint from next, duplicate free, "
        "at most log2(pointer count)+2; an append that returned is reachable from every later successful append on that log "
        "(C04_appends_form_a_chain); on re-opened logs, whose clock lags behind their entries, and on everything merged from them the "
        "new entry still names exactly the heads and is newer than everything held (C04_append_on_reopened_log). Tied by field-by-field comparison of every appended entry with the model and direct monitors, "
        "incl. wide unbalanced forks with more heads than pointers, logs with seeded clocks around 2^53 and 2^62 and logs reloaded "
        "under each ordering; the concurrent half is C13.",
   technique="Coq proof (log invariant, traversal subset and power-of-two loop bound) + differential correspondence vs Go", design="6/C04"),
 "C17": dict(
   text="Theorems (Props/C17.v): along every well-formed history over one shared store every block is written after all blocks it links "
        "to, so every prefix of the write trace (every crash point) is causally closed; every entry of every replica, its predecessors "
        "and references, and the heads of every manifest are stored, and the store only grows; an append that returns an entry has "
        "written its block, and an append or publication whose block write the store refuses changes nothing but the clock. With "
        "C09's bridge theorem every returned head/manifest loads to the state at publication. Tied by per-write closure monitors and "
        "store-trace correspondence over histories that include appends/publications during injected store outages and pinned "
        "appends; the effect order inside Append (block write before publication) is also what the model's step encodes.",
   technique="Coq proof (store-order invariant over histories) + per-write closure monitor and differential correspondence vs Go", design="6/C17"),
 "C15": dict(
   text="Theorems (Props/C15.v): for every reachable log and option combination the iterator never panics, closes the channel on every "
        "success (also amount 0), reports unknown upper bounds as errors; for every total ordering (hash-tiebreak; default on tie-free logs) the emitted list is "
        "iter_post(cut(R)) where R is proved to be exactly the causal past (inclusive) of the upper bounds inside the log, newest "
        "first, each entry once - for one or several, causally related or unrelated bounds - and cut/iter_post are read off as: all "
        "of R, its first k, R down to the lower bound (inclusive/exclusive), and the k entries nearest the lower bound. Proved via "
        "'a bounded traversal is a prefix of the full traversal' and 'LastWriteWins sorts like its irreflexive twin'. "
        "Tie: iterator ops inside random histories, "
        "exact output comparison, brute-force range monitor, drained channel with watchdog.",
   technique="Coq proof (traversal prefix lemma + causal-past characterisation) + differential correspondence vs Go", design="6/C15"),
 "C16": dict(
   text="Theorems (Props/C16.v): for any two replicas of any well-formed history Join never panics for any bound (difference and "
        "traversal fuel suffice); with a bound n >= 0 and an accepted unbounded merge under a total ordering, the result holds "
        "exactly the last min(n,total) entries of the unbounded merge's linearisation, heads = the unreferenced entries among them, "
        "and a bound >= total keeps everything, and its reverse next index forgets the dropped entries. For EVERY history whose "
        "joins carry any bounds (pwf: only hash-consistent appends are required) every replica satisfies the partial-log invariant: "
        "heads = exactly the unreferenced entries (non-empty when the log is), exact next index, clock >= entries, Values() complete, "
        "duplicate free, sorted and causal, and no merge with any bound panics. The same (C16_reopened_*, Proofs/POpen.v) for every "
        "history in which replicas are also RE-OPENED over arbitrary selections of another replica's entries (NewLog with "
        "LogOptions.Entries: what the loaders do after a complete or limited load), with 'nothing is newer than the newest head' in "
        "place of the clock clause (such a log's clock starts at 0), including the main clause between any two replicas. "
        "Tie: bounded joins with bounds 0..total+3 in random "
        "histories compared with the model and with an oracle that replays the history with the unbounded join; every history is "
        "checked against pwf / owf; histories open replicas over full, newest-n and random selections (also under a foreign log id) "
        "and append to and merge them; a truncated replica and a fresh log made from its entries must merge identically (twin probe); "
        "bounded merges into gap-loaded logs. Known finding K3: the early return for self/foreign-id joins skips the trimming. "
        "Found and repaired: stale next index after truncation (27edacc).",
   technique="Coq proof (bounded join over the values specification; fuel sufficiency) + replay-oracle correspondence vs Go", design="6/C16"),
}
NOT_YET = "machinery for this property is still being built in this round (see DESIGN.md section 10); not claimed yet"

checks, na = [], []
for p in props:
    pid = p["id"]
    if pid in CLAIMED:
        c = CLAIMED[pid]
        checks.append({
            "property_id": pid,
            "quick_cmd": "./check %s --tier quick" % pid,
            "thorough_cmd": "./check %s --tier thorough" % pid,
            "evidence_file": "/verif/evidence/%s.json" % pid,
            "replay_cmd_template": "./check %s --replay {path}" % pid,
            "engine": "coq+harness",
            "level_claimed": {"category": "proof", "text": c["text"], "design_ref": "DESIGN.md section " + c["design"]},
            "level_note": TB,
            "technique": c["technique"],
        })
    else:
        na.append({"property_id": pid, "reason": NOT_YET})

m = {
 "version": 1,
 "setup_cmd": "./setup.sh",
 "hooks": {
   "guard": "verif",
   "enable": "go build -tags verif (the harness module replaces berty.tech/go-ipfs-log by /repo and is always built with -tags verif)",
   "baseline_off_cmd": "cd /repo && GOFLAGS=-mod=mod GOPROXY=off GOSUMDB=off GOTOOLCHAIN=local go test -json -vet=off -count=1 -timeout 25m ./...",
   "source_commits": ["91e6abf", "0b04dcb"],
   "add_only": True,
 },
 "engines": [
   {"name": "coq+harness", "path": "/verif/check", "serves_properties": [c["property_id"] for c in checks],
    "kind_free_text": "Coq 8.16.1 development (coq/) + Go correspondence harness (harness/) + Go-AST translators (tools/gen*) driven by lib/verif.py"},
 ],
 "checks": checks,
 "not_applicable": na,
 "notes": "All checks share one Coq build (flock-serialised, incremental). Fix commits in /repo: see known_findings.json 'fixed'.",
}
json.dump(m, open(os.path.join(ROOT, "MANIFEST.json"), "w"), indent=1)
print("claimed:", [c["property_id"] for c in checks])
