#!/usr/bin/env python3
"""Writes MANIFEST.json from the table below (kept in one place so it is always valid)."""
import json, os
ROOT = os.path.dirname(os.path.dirname(os.path.abspath(__file__)))
props = [json.loads(l) for l in open(os.path.join(ROOT, "properties.jsonl"))]

TB = ("Coq 8.16.1 kernel and vm_compute; axioms per theorem as printed by Print Assumptions into the evidence file; "
      "hand-written Gallina model tied to /repo by the Go correspondence harness (stub DAG store, rank canonicalisation) "
      "and by Go-AST translators for the generated tables; SHA-256/CID collision freedom; see DESIGN.md section 7")

CLAIMED = {
 "C19": dict(
   text="Theorems (Props/C19.v): the hash-tiebreak ordering is a strict total order on the whole int64 time range, "
        "default ordering equals it on distinct (id,time) pairs, clock comparison antisymmetric/transitive, smaller time "
        "first, FWW = -LWW, sorting is a permutation and (for the strict order) sorted and input-order independent; "
        "proved for any id/hash comparison that is a three-way total order and instantiated for ranks and for raw bytes. "
        "Tied to the code by differential execution of sorting.*/LamportClock.Compare vs the model on all pairs of a pool "
        "and on random sort inputs, plus direct law monitors on the implementation.",
   technique="Coq proof (order laws, insertion-sort model) + differential correspondence vs Go", design="6/C19"),
 "C20": dict(
   text="Theorems (Props/C20.v): for every history of create/get/has/get-or-create/restart over any number of keystore "
        "instances sharing a datastore and any cache capacity >= 1 (each id raw-created at most once), cache coherence is "
        "invariant, GetKey returns exactly the datastore's key on every instance incl. after eviction and restart, HasKey "
        "(repaired code) = membership in the datastore; identity creation is idempotent and its id-, public-key- and entry "
        "signatures verify under the stated signature-correctness hypothesis. Tied to keystore.go/identities.go/orbitdb.go by "
        "differential execution of op sequences (more ids than the 128-entry cache, 1-6 instances) and direct monitors with real crypto.",
   technique="Coq proof (LRU/datastore refinement, identity algebra modulo signature oracle) + differential correspondence vs Go", design="6/C20"),
 "C07": dict(
   text="Theorems (Props/C07.v): json.Marshal on the fragment toBuffer uses is injective up to the U+FFFD replacement of invalid "
        "UTF-8; the signed view, folded over the field table regenerated from entry.go by tools/gensigned, determines log id, "
        "payload (both up to that replacement), next and refs as lists, v, clock id, clock time, additional data; under the stated "
        "unforgeability assumption every single-field modification, key or signature substitution of an honestly signed entry with "
        "valid-UTF-8 payload/log id fails Verify; for arbitrary binary payloads the statement is refuted (known findings K1, K1b). "
        "Tied to the code by the generated table, byte-for-byte comparison with signing bytes validated against real signatures, "
        "and tamper monitors on Entry.Verify.",
   technique="Coq proof modulo signature oracle + Go-AST generated field table + differential correspondence vs Go", design="6/C07"),
 "C13": dict(
   text="General theorems (Proofs/ConcProofs.v), proved once for any program given as event paths under a small-step semantics of "
        "sync.RWMutex with writer preference: well-locked programs have no two conflicting accesses enabled at once (drf), writer "
        "sections are exclusive and reader sections see whole writer sections, no path acquiring a lock while holding one => no "
        "deadlock. About today's code (Props/C13.v): the lock/access skeleton of every IPFSLog method and OrderedMap method is "
        "regenerated from log.go/log_io.go/entry_map.go by tools/genlocks on every run and the boolean facts well_locked / "
        "no_nested_acquire / single_section are proved over it by vm_compute. Runtime half (interleavings, -race, watchdog, "
        "append chain, structural soundness of concurrent reads) is exercised by the harness with forced preemption at the hooks; "
        "the Go memory model (DRF=>SC), sync.RWMutex and the event abstraction are trusted.",
   technique="Coq proof over lock skeleton regenerated from Go AST + race-detector/forced-schedule exploration", design="6/C13"),
 "C14": dict(
   text="Theorems (Props/C14.v) over the generated skeleton: Join performs no call on the other log while holding its own lock and reads "
        "the source's heads exactly once and before its entries; hence (general theorem) cross-merges of any number of logs cannot "
        "deadlock, and (model theorem C14_snapshot) for a source that only grows, the difference walk from heads@t1 inside "
        "entries@t2>=t1 equals the walk on the consistent state at t1. Harness: merges parked at the join.* hooks while the source "
        "is appended to / merged, symmetric cross-merges with a watchdog, under -race.",
   technique="Coq proof over lock skeleton regenerated from Go AST + forced-schedule exploration", design="6/C14"),
}
NOT_YET = "machinery for this property is still being built in this round (see DESIGN.md section 10); not claimed yet"

checks, na = [], []
for p in props:
    pid = p["id"]
    if pid in CLAIMED:
        c = CLAIMED[pid]
        checks.append({
            "property_id": pid,
            "quick_cmd": "./check %s --tier quick" % pid,
            "thorough_cmd": "./check %s --tier thorough" % pid,
            "evidence_file": "/verif/evidence/%s.json" % pid,
            "replay_cmd_template": "./check %s --replay {path}" % pid,
            "engine": "coq+harness",
            "level_claimed": {"category": "proof", "text": c["text"], "design_ref": "DESIGN.md section " + c["design"]},
            "level_note": TB,
            "technique": c["technique"],
        })
    else:
        na.append({"property_id": pid, "reason": NOT_YET})

m = {
 "version": 1,
 "setup_cmd": "./setup.sh",
 "hooks": {
   "guard": "verif",
   "enable": "go build -tags verif (the harness module replaces berty.tech/go-ipfs-log by /repo and is always built with -tags verif)",
   "baseline_off_cmd": "cd /repo && GOFLAGS=-mod=mod GOPROXY=off GOSUMDB=off GOTOOLCHAIN=local go test -json -vet=off -count=1 -timeout 25m ./...",
   "source_commits": ["91e6abf", "0b04dcb"],
   "add_only": True,
 },
 "engines": [
   {"name": "coq+harness", "path": "/verif/check", "serves_properties": [c["property_id"] for c in checks],
    "kind_free_text": "Coq 8.16.1 development (coq/) + Go correspondence harness (harness/) + Go-AST translators (tools/gen*) driven by lib/verif.py"},
 ],
 "checks": checks,
 "not_applicable": na,
 "notes": "All checks share one Coq build (flock-serialised, incremental). Fix commits in /repo: see known_findings.json 'fixed'.",
}
json.dump(m, open(os.path.join(ROOT, "MANIFEST.json"), "w"), indent=1)
print("claimed:", [c["property_id"] for c in checks])
