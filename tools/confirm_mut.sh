#!/bin/bash
# usage: tools/confirm_mut.sh <agent output dir (patch.diff, demo_test.go, meta.json)> <seeded id, e.g. C20-a>
# Confirms in a scratch worktree: suite passes with the change, demo fails with it, demo passes without.
# On success copies the change to /verif/seeded/<id>/ with the confirmation recorded in meta.json.
set -u
MUT_TEST_FLAGS=${MUT_TEST_FLAGS:-}
SRC=$1; ID=$2
export GOFLAGS=-mod=mod GOPROXY=off GOSUMDB=off GOTOOLCHAIN=local
WT=/tmp/confirm-$ID
git -C /repo worktree remove --force $WT >/dev/null 2>&1
git -C /repo worktree add --detach $WT HEAD >/dev/null 2>&1 || { echo "cannot create worktree"; exit 2; }
cd $WT
DEMO=test/zz_mut_$(echo $ID | tr 'A-Z-' 'a-z_')_test.go
R_APPLY=ok; R_SUITE=?; R_DEMO_WITH=?; R_DEMO_WITHOUT=?
git apply $SRC/patch.diff 2>/dev/null || R_APPLY=fail
if [ $R_APPLY = ok ]; then
  if go build ./... >/dev/null 2>&1 && go test -count=1 ./test/ ./enc/ >/tmp/confirm-$ID.suite 2>&1; then R_SUITE=pass; else R_SUITE=fail; fi
  cp $SRC/demo_test.go $DEMO
  if go test $MUT_TEST_FLAGS -count=1 -run 'Mut' ./test/ >/tmp/confirm-$ID.with 2>&1; then R_DEMO_WITH=pass; else R_DEMO_WITH=fail; fi
  git apply -R $SRC/patch.diff
  if go test $MUT_TEST_FLAGS -count=1 -run 'Mut' ./test/ >/tmp/confirm-$ID.without 2>&1; then R_DEMO_WITHOUT=pass; else R_DEMO_WITHOUT=fail; fi
fi
cd /verif
git -C /repo worktree remove --force $WT >/dev/null 2>&1
echo "$ID: apply=$R_APPLY suite_with_change=$R_SUITE demo_with_change=$R_DEMO_WITH demo_without_change=$R_DEMO_WITHOUT"
if [ "$R_SUITE" = pass ] && [ "$R_DEMO_WITH" = fail ] && [ "$R_DEMO_WITHOUT" = pass ]; then
  mkdir -p seeded/$ID
  cp $SRC/patch.diff seeded/$ID/patch.diff
  cp $SRC/demo_test.go seeded/$ID/demo_test.go
  python3 - "$SRC/meta.json" "seeded/$ID/meta.json" "$ID" <<PY
import json,sys
try: m=json.load(open(sys.argv[1]))
except Exception: m={}
m["seeded_id"]=sys.argv[3]
m["confirmed_by_main"]={"repo_head":"$(git -C /repo rev-parse --short HEAD)","suite_passes_with_change":True,"demo_fails_with_change":True,"demo_passes_without_change":True,
  "how":"tools/confirm_mut.sh: scratch worktree of /repo HEAD; git apply patch.diff; go build ./... && go test -count=1 ./test/ ./enc/; demo copied into test/ and run with go test -run Mut ./test/ with and without the patch; worktree removed"}
json.dump(m,open(sys.argv[2],"w"),indent=1)
PY
  rm -f /tmp/confirm-$ID.suite /tmp/confirm-$ID.with /tmp/confirm-$ID.without
  exit 0
fi
exit 1
