module genguards

go 1.22
