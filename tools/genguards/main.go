// genguards: reads io/jsonable/types.go of the repository under check and emits, for every
// ToPlain method (the conversion layer between decoded blocks and entries), which pointer fields
// of the receiver are dereferenced and whether a nil check dominates the dereference
// (coq/Gen/Guards.v).  The codec model (Model/EntryCodec.v) panics exactly where this table says
// today's text dereferences a possibly-nil pointer without a check.
//
//	genguards -repo DIR -out FILE
//
// Pure standard library.  Understood guard shapes, for a receiver r and a pointer field F:
//
//	if r.F != nil { ...guarded... }            (also `r.F != nil && ...`)
//	if r.F == nil { ...; return ... }  ...guarded afterwards...
//	if r == nil { return ... }                 at the top of a method: receiver guard
//
// A dereference is `r.F.X` (field access or method call through the pointer) or `*r.F`.  For a
// method call the callee's own receiver guard is recorded too, because calling a method on a nil
// pointer is legal in Go and only panics when the callee touches a field.  Conditions that mention
// a pointer field in any other way make the tool exit non-zero (refuse) instead of guessing.
package main

import (
	"flag"
	"fmt"
	"go/ast"
	"go/parser"
	"go/token"
	"os"
	"path/filepath"
	"sort"
	"strings"
)

type refusal struct{ msg string }

var fset = token.NewFileSet()

func refuse(n ast.Node, format string, args ...interface{}) {
	pos := ""
	if n != nil {
		pos = fset.Position(n.Pos()).String() + ": "
	}
	panic(refusal{pos + fmt.Sprintf(format, args...)})
}

type row struct {
	method, field, callee string
	guarded               bool
	line                  int
}

type analysis struct {
	recv     string
	typeName string
	ptrs     map[string]string // pointer fields of the receiver's struct -> pointee type name
	methods  map[string]bool   // "T.M" declared with pointer receiver in this file
	rows     []row
}

func main() {
	repo := flag.String("repo", "/repo", "repository root")
	out := flag.String("out", "", "output .v file")
	flag.Parse()
	if *out == "" {
		fmt.Fprintln(os.Stderr, "genguards: missing -out")
		os.Exit(2)
	}
	defer func() {
		if r := recover(); r != nil {
			if rf, ok := r.(refusal); ok {
				fmt.Fprintln(os.Stderr, "genguards: REFUSED:", rf.msg)
				os.Exit(1)
			}
			panic(r)
		}
	}()
	text := generate(*repo)
	if err := os.WriteFile(*out, []byte(text), 0o644); err != nil {
		fmt.Fprintln(os.Stderr, "genguards:", err)
		os.Exit(2)
	}
	fmt.Printf("genguards: wrote %s\n", *out)
}

func typeName(e ast.Expr) (name string, ptr bool) {
	switch x := e.(type) {
	case *ast.StarExpr:
		n, _ := typeName(x.X)
		return n, true
	case *ast.Ident:
		return x.Name, false
	case *ast.SelectorExpr:
		return x.Sel.Name, false
	}
	return "", false
}

func isNil(e ast.Expr) bool { id, ok := e.(*ast.Ident); return ok && id.Name == "nil" }

// recvField returns F when e is `recv.F`
func (a *analysis) recvField(e ast.Expr) (string, bool) {
	se, ok := e.(*ast.SelectorExpr)
	if !ok {
		return "", false
	}
	id, ok := se.X.(*ast.Ident)
	if !ok || id.Name != a.recv {
		return "", false
	}
	return se.Sel.Name, true
}

func (a *analysis) isRecv(e ast.Expr) bool { id, ok := e.(*ast.Ident); return ok && id.Name == a.recv }

func copySet(g map[string]bool) map[string]bool {
	o := map[string]bool{}
	for k, v := range g {
		o[k] = v
	}
	return o
}

// guardsOf splits a condition into the pointer fields it proves non-nil (when true) and the ones
// it proves nil (when true); other uses of pointer fields in a condition are refused.
func (a *analysis) guardsOf(cond ast.Expr, g map[string]bool, method string) (nonNil, isNilF []string) {
	switch c := cond.(type) {
	case *ast.ParenExpr:
		return a.guardsOf(c.X, g, method)
	case *ast.BinaryExpr:
		if c.Op == token.LAND {
			n1, _ := a.guardsOf(c.X, g, method)
			g2 := copySet(g)
			for _, f := range n1 {
				g2[f] = true
			}
			n2, _ := a.guardsOf(c.Y, g2, method)
			return append(n1, n2...), nil
		}
		if c.Op == token.NEQ || c.Op == token.EQL {
			f, ok := a.recvField(c.X)
			other := c.Y
			if !ok {
				f, ok = a.recvField(c.Y)
				other = c.X
			}
			if ok {
				if _, isPtr := a.ptrs[f]; isPtr {
					if !isNil(other) {
						refuse(cond, "pointer field %s.%s compared with something other than nil", a.typeName, f)
					}
					if c.Op == token.NEQ {
						return []string{f}, nil
					}
					return nil, []string{f}
				}
			}
		}
	}
	a.exprs(cond, g, method)
	return nil, nil
}

func endsInReturn(b *ast.BlockStmt) bool {
	if b == nil || len(b.List) == 0 {
		return false
	}
	_, ok := b.List[len(b.List)-1].(*ast.ReturnStmt)
	return ok
}

// exprs records every dereference of a pointer field inside e
func (a *analysis) exprs(n ast.Node, g map[string]bool, method string) {
	if n == nil {
		return
	}
	ast.Inspect(n, func(m ast.Node) bool {
		switch x := m.(type) {
		case *ast.FuncLit:
			refuse(x, "function literal inside %s: not analysed", method)
		case *ast.StarExpr:
			if f, ok := a.recvField(x.X); ok {
				if _, isPtr := a.ptrs[f]; isPtr {
					a.rows = append(a.rows, row{method, f, "", g[f], fset.Position(x.Pos()).Line})
				}
			}
		case *ast.SelectorExpr:
			if f, ok := a.recvField(x.X); ok {
				if pt, isPtr := a.ptrs[f]; isPtr {
					callee := ""
					if a.methods[pt+"."+x.Sel.Name] {
						callee = pt + "." + x.Sel.Name
					}
					a.rows = append(a.rows, row{method, f, callee, g[f], fset.Position(x.Pos()).Line})
				}
			}
		}
		return true
	})
}

func (a *analysis) block(list []ast.Stmt, g map[string]bool, method string) {
	g = copySet(g)
	for _, st := range list {
		switch s := st.(type) {
		case *ast.IfStmt:
			if s.Init != nil {
				a.exprs(s.Init, g, method)
			}
			nonNil, nilF := a.guardsOf(s.Cond, g, method)
			gb := copySet(g)
			for _, f := range nonNil {
				gb[f] = true
			}
			a.block(s.Body.List, gb, method)
			switch e := s.Else.(type) {
			case *ast.BlockStmt:
				ge := copySet(g)
				for _, f := range nilF {
					ge[f] = true
				}
				a.block(e.List, ge, method)
			case *ast.IfStmt:
				a.block([]ast.Stmt{e}, g, method)
			}
			if len(nilF) > 0 && endsInReturn(s.Body) {
				for _, f := range nilF {
					g[f] = true
				}
			}
		case *ast.BlockStmt:
			a.block(s.List, g, method)
		case *ast.ForStmt:
			a.exprs(s.Init, g, method)
			a.exprs(s.Cond, g, method)
			a.exprs(s.Post, g, method)
			a.block(s.Body.List, g, method)
		case *ast.RangeStmt:
			a.exprs(s.X, g, method)
			a.block(s.Body.List, g, method)
		case *ast.SwitchStmt, *ast.TypeSwitchStmt, *ast.SelectStmt, *ast.GoStmt, *ast.DeferStmt, *ast.LabeledStmt:
			refuse(st, "statement kind %T inside %s: not analysed", st, method)
		case *ast.AssignStmt:
			// re-assignment of a pointer field invalidates what is known about it
			for _, l := range s.Lhs {
				if f, ok := a.recvField(l); ok {
					if _, isPtr := a.ptrs[f]; isPtr {
						refuse(s, "%s assigns pointer field %s", method, f)
					}
				}
			}
			a.exprs(s, g, method)
		default:
			a.exprs(st, g, method)
		}
	}
}

func generate(repo string) string {
	path := filepath.Join(repo, "io", "jsonable", "types.go")
	f, err := parser.ParseFile(fset, path, nil, 0)
	if err != nil {
		refuse(nil, "cannot parse %s: %v", path, err)
	}
	// struct types and their pointer fields
	ptrFields := map[string]map[string]string{}
	aliases := map[string]string{}
	for _, d := range f.Decls {
		gd, ok := d.(*ast.GenDecl)
		if !ok || gd.Tok != token.TYPE {
			continue
		}
		for _, sp := range gd.Specs {
			ts := sp.(*ast.TypeSpec)
			switch t := ts.Type.(type) {
			case *ast.StructType:
				m := map[string]string{}
				for _, fl := range t.Fields.List {
					if n, ptr := typeName(fl.Type); ptr {
						for _, nm := range fl.Names {
							m[nm.Name] = n
						}
					}
				}
				ptrFields[ts.Name.Name] = m
			case *ast.Ident:
				aliases[ts.Name.Name] = t.Name
			}
		}
	}
	methods := map[string]bool{}
	var decls []*ast.FuncDecl
	for _, d := range f.Decls {
		fd, ok := d.(*ast.FuncDecl)
		if !ok || fd.Recv == nil || len(fd.Recv.List) != 1 {
			continue
		}
		tn, ptr := typeName(fd.Recv.List[0].Type)
		if ptr {
			methods[tn+"."+fd.Name.Name] = true
		}
		if fd.Name.Name == "ToPlain" {
			decls = append(decls, fd)
		}
	}
	if len(decls) == 0 {
		refuse(nil, "no ToPlain method found in %s", path)
	}
	var rows []row
	recvGuard := map[string]bool{}
	var names []string
	for _, fd := range decls {
		tn, ptr := typeName(fd.Recv.List[0].Type)
		if !ptr || len(fd.Recv.List[0].Names) != 1 {
			refuse(fd, "ToPlain of %s does not have a named pointer receiver", tn)
		}
		if _, ok := ptrFields[tn]; !ok {
			refuse(fd, "receiver type %s of ToPlain is not a struct declared in this file", tn)
		}
		method := tn + ".ToPlain"
		names = append(names, method)
		a := &analysis{recv: fd.Recv.List[0].Names[0].Name, typeName: tn, ptrs: ptrFields[tn], methods: methods}
		// receiver guard: `if r == nil { ...return }` before any other statement
		body := fd.Body.List
		if len(body) > 0 {
			if is, ok := body[0].(*ast.IfStmt); ok && is.Init == nil {
				if be, ok := is.Cond.(*ast.BinaryExpr); ok && be.Op == token.EQL &&
					((a.isRecv(be.X) && isNil(be.Y)) || (a.isRecv(be.Y) && isNil(be.X))) && endsInReturn(is.Body) {
					recvGuard[method] = true
					body = body[1:]
				}
			}
		}
		if _, ok := recvGuard[method]; !ok {
			recvGuard[method] = false
		}
		a.block(body, map[string]bool{}, method)
		rows = append(rows, a.rows...)
	}
	sort.Strings(names)

	var sb strings.Builder
	sb.WriteString("(* GENERATED by tools/genguards from io/jsonable/types.go - DO NOT EDIT.\n")
	sb.WriteString("   Every dereference of a pointer field of the receiver inside a ToPlain method: is it dominated\n")
	sb.WriteString("   by a nil check?  [g_callee] is the method called through the pointer (\"\" for a direct field\n")
	sb.WriteString("   access or *p); such a call only panics if the callee does not check its own receiver. *)\n")
	sb.WriteString("From Coq Require Import List String Bool.\nImport ListNotations.\nLocal Open Scope string_scope.\n\n")
	sb.WriteString("Record guard_row := { g_method : string; g_field : string; g_callee : string; g_guarded : bool }.\n\n")
	sb.WriteString("Definition guard_table : list guard_row := [\n")
	for i, r := range rows {
		sep := ";"
		if i == len(rows)-1 {
			sep = ""
		}
		fmt.Fprintf(&sb, "  {| g_method := %q; g_field := %q; g_callee := %q; g_guarded := %v |}%s   (* types.go:%d *)\n", r.method, r.field, r.callee, r.guarded, sep, r.line)
	}
	sb.WriteString("].\n\n")
	sb.WriteString("(* does the method return before touching its receiver when the receiver is nil? *)\n")
	sb.WriteString("Definition receiver_guard_table : list (string * bool) := [\n")
	for i, n := range names {
		sep := ";"
		if i == len(names)-1 {
			sep = ""
		}
		fmt.Fprintf(&sb, "  (%q, %v)%s\n", n, recvGuard[n], sep)
	}
	sb.WriteString("].\n\n")
	sb.WriteString(`Definition receiver_guarded (m : string) : bool :=
  match find (fun p => String.eqb (fst p) m) receiver_guard_table with Some p => snd p | None => false end.

(* a nil pointer in field [f] makes method [m] panic: some dereference of it is not dominated by a
   nil check and (for a method call through it) the callee does not check its receiver either;
   a method/field pair that is not in the table at all is not dereferenced, hence safe *)
Definition nil_panics (m f : string) : bool :=
  existsb (fun r => String.eqb (g_method r) m && String.eqb (g_field r) f && negb (g_guarded r) &&
                    (String.eqb (g_callee r) "" || negb (receiver_guarded (g_callee r)))) guard_table.

(* is the field dereferenced at all?  (the model relies on it for the fields it knows about) *)
Definition dereferenced (m f : string) : bool :=
  existsb (fun r => String.eqb (g_method r) m && String.eqb (g_field r) f) guard_table.
`)
	_ = aliases
	return sb.String()
}
