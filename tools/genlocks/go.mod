module genlocks

go 1.22
