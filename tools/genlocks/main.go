// genlocks: lock/access skeleton extractor for go-ipfs-log (DESIGN.md section 4.1).
//
//	genlocks -repo DIR -out FILE [-text]
//
// Reads DIR/log.go, DIR/log_io.go and DIR/entry/entry_map.go with go/parser and, for every
// method of *IPFSLog, every free function taking a *IPFSLog, and every method of *OrderedMap,
// enumerates the control-flow paths at statement granularity and emits, per path, the list of
// concurrency-relevant events as Gallina data (coq/Gen/Locks.v).  It refuses (exit 1) on any
// construct it does not understand inside these functions instead of guessing.
//
// Abstraction (what an event path means):
//   - if/else: both ways; for/range bodies: 0 or 1 times (the body must leave the lock state
//     unchanged on every path that stays in the loop, otherwise refusal);
//   - `defer X.lock.(R)Unlock()` runs at every return of the function that registered it;
//   - calls on the same receiver (l.values(), l.traverse(..)), calls of same-package functions
//     that receive the log or an alias of one of its guarded maps, and calls of local closures
//     (f := func(..){..}) are inlined;
//   - `go func(..){..}(..)`: Spawn with the alternatives (paths) of the body; two Spawns when the
//     go statement is inside a loop; wg.Wait() of a local sync.WaitGroup = WaitChildren;
//   - a local assigned from a guarded map field (heads := l.heads) or to one (l.Entries = m)
//     keeps the field's identity (alias), so heads.Slice() after the unlock is `ObjRd heads`;
//   - evaluation order: operands left to right, arguments before the call, right-hand sides
//     before the assignment.
//   - calls into other packages / on other objects are assumed not to touch the log (callbacks
//     such as AccessController.CanAppend are outside the abstraction); an alias of a guarded map
//     passed to such a call counts as an object read.
package main

import (
	"flag"
	"fmt"
	"go/ast"
	"go/parser"
	"go/token"
	"os"
	"path/filepath"
	"sort"
	"strings"
)

// ---------------------------------------------------------------------------------------------
// events

type event struct {
	kind string // Acq Rel PtrRd PtrWr ObjRd ObjWr Foreign ForeignObjRd CapRd CapWr Send Close Hook Spawn WaitChildren
	a, b string
	alts [][]event // Spawn
}

func (e event) text() string {
	switch e.kind {
	case "Spawn":
		var alts []string
		for _, a := range e.alts {
			alts = append(alts, "["+textPath(a)+"]")
		}
		return "Spawn{" + strings.Join(alts, " | ") + "}"
	case "WaitChildren":
		return "WaitChildren"
	case "Acq", "Rel":
		return e.kind + " " + e.a + " " + e.b
	}
	return e.kind + " " + e.a
}

func textPath(p []event) string {
	s := make([]string, len(p))
	for i, e := range p {
		s[i] = e.text()
	}
	return strings.Join(s, "; ")
}

func coqStr(s string) string { return "\"" + strings.ReplaceAll(s, "\"", "\"\"") + "\"" }

func coqLock(l string) string {
	if l == "self" {
		return "LSelf"
	}
	return "(LLocal " + coqStr(l) + ")"
}

func (e event) coqB() string {
	switch e.kind {
	case "Acq", "Rel":
		return fmt.Sprintf("%s %s %s", e.kind, coqLock(e.a), e.b)
	case "Spawn", "WaitChildren":
		panic("not basic")
	}
	return e.kind + " " + coqStr(e.a)
}

func (e event) coq() string {
	switch e.kind {
	case "Spawn":
		var alts []string
		for _, a := range e.alts {
			var bs []string
			for _, b := range a {
				bs = append(bs, b.coqB())
			}
			alts = append(alts, "["+strings.Join(bs, "; ")+"]")
		}
		return "Spawn [" + strings.Join(alts, ";\n        ") + "]"
	case "WaitChildren":
		return "WaitChildren"
	}
	return "B (" + e.coqB() + ")"
}

// ---------------------------------------------------------------------------------------------
// refusal

type refusal struct{ msg string }

var fset = token.NewFileSet()

func refuse(n ast.Node, format string, args ...interface{}) {
	pos := ""
	if n != nil {
		pos = fset.Position(n.Pos()).String() + ": "
	}
	panic(refusal{pos + fmt.Sprintf(format, args...)})
}

// ---------------------------------------------------------------------------------------------
// class description (IPFSLog or OrderedMap)

type class struct {
	typeName   string
	lockField  string
	fields     []string                 // all struct fields
	mapFields  map[string]bool          // fields holding an internally locked ordered map (IPFSLog only)
	guarded    map[string]bool          // derived: assigned outside constructors or mutated in place
	ptrWritten map[string]bool          // assigned outside constructors
	methods    map[string]*ast.FuncDecl // methods with receiver *typeName
	funcs      map[string]*ast.FuncDecl // package-level functions of the same files
	returnsFld map[string]string        // method -> field whose value it returns (RawHeads -> heads)
	ifaceNames map[string]bool          // interface type names by which "another instance" is passed
	// ordered-map method classification (for the IPFSLog class): name -> is writer
	omapMethods map[string]bool
}

func isStarOf(t ast.Expr, name string) bool {
	if st, ok := t.(*ast.StarExpr); ok {
		if id, ok := st.X.(*ast.Ident); ok && id.Name == name {
			return true
		}
	}
	return false
}

func typeString(t ast.Expr) string {
	switch x := t.(type) {
	case *ast.Ident:
		return x.Name
	case *ast.SelectorExpr:
		return typeString(x.X) + "." + x.Sel.Name
	case *ast.StarExpr:
		return "*" + typeString(x.X)
	case *ast.ArrayType:
		return "[]" + typeString(x.Elt)
	case *ast.MapType:
		return "map[" + typeString(x.Key) + "]" + typeString(x.Value)
	}
	return fmt.Sprintf("%T", t)
}

func loadClass(files []string, typeName string, ifaceNames []string, mapTypeName string) *class {
	c := &class{typeName: typeName, mapFields: map[string]bool{}, guarded: map[string]bool{}, ptrWritten: map[string]bool{},
		methods: map[string]*ast.FuncDecl{}, funcs: map[string]*ast.FuncDecl{}, returnsFld: map[string]string{}, ifaceNames: map[string]bool{}}
	for _, n := range ifaceNames {
		c.ifaceNames[n] = true
	}
	found := false
	for _, f := range files {
		af, err := parser.ParseFile(fset, f, nil, 0)
		if err != nil {
			panic(refusal{"cannot parse " + f + ": " + err.Error()})
		}
		for _, d := range af.Decls {
			switch x := d.(type) {
			case *ast.FuncDecl:
				if x.Body == nil {
					continue
				}
				if x.Recv == nil {
					c.funcs[x.Name.Name] = x
				} else if len(x.Recv.List) == 1 && isStarOf(x.Recv.List[0].Type, typeName) {
					if len(x.Recv.List[0].Names) != 1 {
						refuse(x, "method %s has an unnamed receiver", x.Name.Name)
					}
					c.methods[x.Name.Name] = x
				} else if len(x.Recv.List) == 1 {
					if id, ok := x.Recv.List[0].Type.(*ast.Ident); ok && id.Name == typeName {
						refuse(x, "method %s has a value receiver (copies the lock)", x.Name.Name)
					}
				}
			case *ast.GenDecl:
				for _, s := range x.Specs {
					ts, ok := s.(*ast.TypeSpec)
					if !ok || ts.Name.Name != typeName {
						continue
					}
					st, ok := ts.Type.(*ast.StructType)
					if !ok {
						refuse(ts, "%s is not a struct", typeName)
					}
					found = true
					for _, fl := range st.Fields.List {
						tstr := typeString(fl.Type)
						for _, n := range fl.Names {
							c.fields = append(c.fields, n.Name)
							if tstr == "sync.RWMutex" || tstr == "sync.Mutex" {
								if c.lockField != "" {
									refuse(fl, "%s has more than one lock field", typeName)
								}
								c.lockField = n.Name
							}
							if mapTypeName != "" && tstr == mapTypeName {
								c.mapFields[n.Name] = true
							}
						}
					}
				}
			}
		}
	}
	if !found {
		panic(refusal{"type " + typeName + " not found in " + strings.Join(files, ", ")})
	}
	if c.lockField == "" {
		panic(refusal{"type " + typeName + " has no sync.RWMutex field"})
	}
	return c
}

// instVars returns the variables of fd that denote an instance of the class:
// name -> "self" (pointer to the struct) or "other" (passed by interface).
func (c *class) instVars(fd *ast.FuncDecl) map[string]string {
	m := map[string]string{}
	if fd.Recv != nil && len(fd.Recv.List) == 1 && isStarOf(fd.Recv.List[0].Type, c.typeName) {
		m[fd.Recv.List[0].Names[0].Name] = "self"
	}
	for _, p := range fd.Type.Params.List {
		for _, n := range p.Names {
			if isStarOf(p.Type, c.typeName) {
				for k, v := range m {
					if v == "self" {
						refuse(fd, "function %s has two concrete %s variables (%s, %s)", fd.Name.Name, c.typeName, k, n.Name)
					}
				}
				m[n.Name] = "self"
			} else if c.ifaceNames[typeString(p.Type)] {
				m[n.Name] = "other"
			}
		}
	}
	return m
}

// derive guarded fields and method classification by a syntactic pre-pass
func (c *class) prepass() {
	scan := func(fd *ast.FuncDecl) {
		iv := c.instVars(fd)
		selfField := func(e ast.Expr) (string, bool) {
			if s, ok := e.(*ast.SelectorExpr); ok {
				if id, ok := s.X.(*ast.Ident); ok && iv[id.Name] == "self" {
					return s.Sel.Name, true
				}
			}
			return "", false
		}
		ast.Inspect(fd.Body, func(n ast.Node) bool {
			switch x := n.(type) {
			case *ast.AssignStmt:
				for _, l := range x.Lhs {
					if f, ok := selfField(l); ok {
						c.ptrWritten[f] = true
						c.guarded[f] = true
					}
					if ix, ok := l.(*ast.IndexExpr); ok {
						if f, ok := selfField(ix.X); ok {
							c.guarded[f] = true
						}
					}
				}
			case *ast.IncDecStmt:
				if f, ok := selfField(x.X); ok {
					c.ptrWritten[f] = true
					c.guarded[f] = true
				}
			case *ast.CallExpr:
				if s, ok := x.Fun.(*ast.SelectorExpr); ok {
					if f, ok := selfField(s.X); ok && c.mapFields[f] && c.omapMethods[s.Sel.Name] {
						c.guarded[f] = true
					}
				}
			}
			return true
		})
	}
	for _, fd := range c.methods {
		scan(fd)
	}
	for _, fd := range c.funcs {
		if len(c.instVars(fd)) > 0 {
			scan(fd)
		}
	}
	delete(c.guarded, c.lockField)
	// methods that return the value of a guarded field (possibly through a local)
	for name, fd := range c.methods {
		recv := fd.Recv.List[0].Names[0].Name
		local := map[string]string{}
		ast.Inspect(fd.Body, func(n ast.Node) bool {
			if as, ok := n.(*ast.AssignStmt); ok && len(as.Lhs) == 1 && len(as.Rhs) == 1 {
				if id, ok := as.Lhs[0].(*ast.Ident); ok {
					if s, ok := as.Rhs[0].(*ast.SelectorExpr); ok {
						if x, ok := s.X.(*ast.Ident); ok && x.Name == recv && c.guarded[s.Sel.Name] {
							local[id.Name] = s.Sel.Name
						}
					}
				}
			}
			return true
		})
		fld, all, any := "", true, false
		ast.Inspect(fd.Body, func(n ast.Node) bool {
			if _, ok := n.(*ast.FuncLit); ok {
				return false
			}
			if r, ok := n.(*ast.ReturnStmt); ok {
				any = true
				if len(r.Results) != 1 {
					all = false
					return true
				}
				f := ""
				switch e := r.Results[0].(type) {
				case *ast.Ident:
					f = local[e.Name]
				case *ast.SelectorExpr:
					if x, ok := e.X.(*ast.Ident); ok && x.Name == recv && c.guarded[e.Sel.Name] {
						f = e.Sel.Name
					}
				}
				if f == "" || (fld != "" && fld != f) {
					all = false
				}
				fld = f
			}
			return true
		})
		if any && all && fld != "" {
			c.returnsFld[name] = fld
		}
	}
}

// ---------------------------------------------------------------------------------------------
// path enumeration

const (
	stNormal = iota
	stReturned
	stBreak
	stContinue
)

type pth struct {
	ev     []event
	status int
	defers []event // deferred events, in registration order (run in reverse)
}

func (p pth) key() string {
	return fmt.Sprint(p.status, "|", textPath(p.ev), "|", textPath(p.defers))
}

func clonePaths(ps []pth) []pth {
	out := make([]pth, len(ps))
	for i, p := range ps {
		out[i] = pth{append([]event{}, p.ev...), p.status, append([]event{}, p.defers...)}
	}
	return out
}

func dedupe(ps []pth) []pth {
	seen := map[string]bool{}
	var out []pth
	for _, p := range ps {
		k := p.key()
		if !seen[k] {
			seen[k] = true
			out = append(out, p)
		}
	}
	return out
}

var accessKinds = map[string]bool{"PtrRd": true, "PtrWr": true, "ObjRd": true, "ObjWr": true, "CapRd": true, "CapWr": true, "ForeignObjRd": true}

// appendEvent appends e to a path.  Inside a maximal run of access events (no lock operation,
// spawn, wait, foreign call, hook or channel operation in between) a repeated identical access
// is dropped: every analysis made on the paths looks at an access together with the locks held
// at that point, which do not change inside a run.
func appendEvent(evs []event, e event) []event {
	if accessKinds[e.kind] {
		for i := len(evs) - 1; i >= 0 && accessKinds[evs[i].kind]; i-- {
			if evs[i].kind == e.kind && evs[i].a == e.a {
				return evs
			}
		}
	}
	return append(evs, e)
}

func appendAll(ps []pth, ev []event) []pth {
	if len(ev) == 0 {
		return ps
	}
	for i := range ps {
		if ps[i].status == stNormal {
			n := append([]event{}, ps[i].ev...)
			for _, e := range ev {
				n = appendEvent(n, e)
			}
			ps[i].ev = n
		}
	}
	return ps
}

// held simulates the lock events of a path and returns a canonical description of what is held
func held(ev []event) string {
	var h []string
	for _, e := range ev {
		switch e.kind {
		case "Acq":
			h = append(h, e.a+"/"+e.b)
		case "Rel":
			k := e.a + "/" + e.b
			for i := len(h) - 1; i >= 0; i-- {
				if h[i] == k {
					h = append(h[:i:i], h[i+1:]...)
					break
				}
			}
		}
	}
	sort.Strings(h)
	return strings.Join(h, ",")
}

type alias struct{ who, field string } // who: self|other ; field: field name (self) or method name (other)

type frame struct {
	c        *class
	fn       string
	inst     map[string]string // instance variables: name -> self|other
	aliases  map[string]alias  // locals aliasing a guarded map
	byAssign map[string]bool   // alias names introduced by an assignment in this body (resolved per variable through aliasObjs)
	mutexes  map[string]bool   // local sync.Mutex / sync.RWMutex variables
	wgs      map[string]bool   // local sync.WaitGroup variables
	closures map[string]*ast.FuncLit
	captured map[string]bool // locals of the enclosing function shared with goroutines and written somewhere
	shadow   map[string]bool // names declared inside the current closure (shadowing captured ones)
	inGo     bool
	inClos   bool // inside a function literal (spawned or inlined local closure)
	inLoop   int
	stack    []string // inlining stack (recursion check)
}

func (f *frame) child() *frame {
	g := *f
	g.shadow = map[string]bool{}
	for k, v := range f.shadow {
		g.shadow[k] = v
	}
	return &g
}

func (f *frame) closureFrame(fl *ast.FuncLit) *frame {
	g := f.child()
	g.inClos = true
	for _, p := range fl.Type.Params.List {
		for _, n := range p.Names {
			g.shadow[n.Name] = true
		}
	}
	return g
}

var lockOps = map[string][2]string{"Lock": {"Acq", "W"}, "RLock": {"Acq", "R"}, "Unlock": {"Rel", "W"}, "RUnlock": {"Rel", "R"}}

// aliasOf: does expression e denote (an alias of) a guarded map?
func (f *frame) aliasOf(e ast.Expr) (alias, bool) {
	switch x := e.(type) {
	case *ast.ParenExpr:
		return f.aliasOf(x.X)
	case *ast.Ident:
		a, ok := f.aliases[x.Name]
		if ok && x.Obj != nil && f.byAssign[x.Name] {
			// an alias made by an assignment holds for that variable only, not for another
			// variable of the same name declared in a different scope of the function
			if _, same := aliasObjs[x.Obj]; !same {
				return alias{}, false
			}
		}
		return a, ok
	case *ast.SelectorExpr:
		if id, ok := x.X.(*ast.Ident); ok && f.inst[id.Name] == "self" && f.c.mapFields[x.Sel.Name] {
			return alias{"self", x.Sel.Name}, true
		}
	case *ast.CallExpr:
		if s, ok := x.Fun.(*ast.SelectorExpr); ok {
			if id, ok := s.X.(*ast.Ident); ok {
				if who, ok := f.inst[id.Name]; ok {
					if fld, ok := f.c.returnsFld[s.Sel.Name]; ok {
						if who == "self" {
							return alias{"self", fld}, true
						}
						return alias{"other", s.Sel.Name}, true
					}
				}
			}
		}
	}
	return alias{}, false
}

// variables (parser-resolved objects) that an assignment made an alias of a guarded map
var aliasObjs = map[*ast.Object]bool{}

func (f *frame) markAssigned(id *ast.Ident) {
	if id.Obj == nil {
		return
	}
	if f.byAssign == nil {
		f.byAssign = map[string]bool{}
	}
	f.byAssign[id.Name] = true
	aliasObjs[id.Obj] = true
}

func (f *frame) objEvent(a alias, write bool, n ast.Node) event {
	if a.who == "other" {
		if write {
			refuse(n, "%s: write to an ordered map obtained from another instance", f.fn)
		}
		return event{kind: "ForeignObjRd", a: a.field}
	}
	if write {
		return event{kind: "ObjWr", a: a.field}
	}
	return event{kind: "ObjRd", a: a.field}
}

// expr returns the paths obtained by evaluating e after each of ps (inlined calls may fork).
// lhs: e is the target of an assignment.
func (f *frame) expr(e ast.Node, ps []pth, lhs bool) []pth {
	emit := func(ev ...event) { ps = appendAll(ps, ev) }
	switch x := e.(type) {
	case nil:
		return ps
	case *ast.BasicLit:
		return ps
	case *ast.Ident:
		if f.captured[x.Name] && !f.shadow[x.Name] {
			if lhs {
				emit(event{kind: "CapWr", a: x.Name})
			} else {
				emit(event{kind: "CapRd", a: x.Name})
			}
		}
		return ps
	case *ast.ParenExpr:
		return f.expr(x.X, ps, lhs)
	case *ast.StarExpr:
		return f.expr(x.X, ps, false)
	case *ast.UnaryExpr:
		if x.Op == token.ARROW {
			refuse(x, "%s: channel receive", f.fn)
		}
		return f.expr(x.X, ps, false)
	case *ast.BinaryExpr:
		ps = f.expr(x.X, ps, false)
		return f.expr(x.Y, ps, false)
	case *ast.KeyValueExpr:
		return f.expr(x.Value, ps, false)
	case *ast.CompositeLit:
		for _, el := range x.Elts {
			ps = f.expr(el, ps, false)
		}
		return ps
	case *ast.TypeAssertExpr:
		return f.expr(x.X, ps, false)
	case *ast.SliceExpr:
		ps = f.expr(x.X, ps, false)
		ps = f.expr(x.Low, ps, false)
		ps = f.expr(x.High, ps, false)
		return f.expr(x.Max, ps, false)
	case *ast.ArrayType, *ast.MapType, *ast.ChanType, *ast.FuncType, *ast.InterfaceType, *ast.StructType:
		return ps
	case *ast.IndexExpr:
		// X.f[i] : element access of a field's object
		if s, ok := x.X.(*ast.SelectorExpr); ok {
			if id, ok := s.X.(*ast.Ident); ok && f.inst[id.Name] == "self" && f.c.guarded[s.Sel.Name] {
				ps = f.expr(x.Index, ps, false)
				emit(event{kind: "PtrRd", a: s.Sel.Name})
				if lhs {
					emit(event{kind: "ObjWr", a: s.Sel.Name})
				} else {
					emit(event{kind: "ObjRd", a: s.Sel.Name})
				}
				return ps
			}
		}
		ps = f.expr(x.X, ps, false)
		return f.expr(x.Index, ps, false)
	case *ast.SelectorExpr:
		if id, ok := x.X.(*ast.Ident); ok {
			if who, ok := f.inst[id.Name]; ok {
				if who == "other" {
					refuse(x, "%s: field access %s.%s on another instance", f.fn, id.Name, x.Sel.Name)
				}
				if x.Sel.Name == f.c.lockField {
					refuse(x, "%s: the lock field is used other than by a direct Lock/RLock/Unlock/RUnlock call", f.fn)
				}
				if f.c.guarded[x.Sel.Name] {
					if lhs {
						emit(event{kind: "PtrWr", a: x.Sel.Name})
					} else {
						emit(event{kind: "PtrRd", a: x.Sel.Name})
					}
				}
				return ps
			}
		}
		return f.expr(x.X, ps, false)
	case *ast.FuncLit:
		// a closure that is neither spawned nor bound to a local: it must be event free
		g := f.child()
		sub := g.block(x.Body.List, []pth{{}})
		for _, p := range sub {
			if len(p.ev) > 0 || len(p.defers) > 0 {
				refuse(x, "%s: function literal with lock/field events used as a value", f.fn)
			}
		}
		return ps
	case *ast.CallExpr:
		return f.call(x, ps)
	}
	refuse(e, "%s: unsupported expression %T", f.fn, e)
	return nil
}

func (f *frame) args(args []ast.Expr, ps []pth) []pth {
	for _, a := range args {
		ps = f.expr(a, ps, false)
	}
	return ps
}

// an alias handed to code we do not see counts as an object read
func (f *frame) argAliasReads(args []ast.Expr, ps []pth, n ast.Node) []pth {
	for _, a := range args {
		if al, ok := f.aliasOf(a); ok {
			ps = appendAll(ps, []event{f.objEvent(al, false, n)})
		}
	}
	return ps
}

func (f *frame) call(x *ast.CallExpr, ps []pth) []pth {
	emit := func(ev ...event) { ps = appendAll(ps, ev) }
	// conversions / builtins / local closures / package functions
	if id, ok := x.Fun.(*ast.Ident); ok {
		switch id.Name {
		case "close":
			if len(x.Args) == 1 {
				if ch, ok := x.Args[0].(*ast.Ident); ok {
					emit(event{kind: "Close", a: ch.Name})
					return ps
				}
			}
			refuse(x, "%s: close of a non-variable", f.fn)
		case "len", "cap", "append", "make", "new", "copy", "delete", "panic", "string", "uint", "int", "min", "max":
			ps = f.args(x.Args, ps)
			// range/len/copy over a field's object reads the object
			for _, a := range x.Args {
				if s, ok := a.(*ast.SelectorExpr); ok {
					if v, ok := s.X.(*ast.Ident); ok && f.inst[v.Name] == "self" && f.c.guarded[s.Sel.Name] && !f.c.mapFields[s.Sel.Name] {
						emit(event{kind: "ObjRd", a: s.Sel.Name})
					}
				}
			}
			return ps
		}
		if fl, ok := f.closures[id.Name]; ok {
			ps = f.args(x.Args, ps)
			return f.inlineBody(id.Name, fl.Body, f.closureFrame(fl), ps, x)
		}
		if fd, ok := f.c.funcs[id.Name]; ok {
			ps = f.args(x.Args, ps)
			// bind parameters
			g := &frame{c: f.c, fn: f.fn + ">" + id.Name, inst: map[string]string{}, aliases: map[string]alias{}, mutexes: map[string]bool{},
				wgs: map[string]bool{}, closures: map[string]*ast.FuncLit{}, captured: map[string]bool{}, shadow: map[string]bool{},
				inGo: f.inGo, stack: f.stack}
			var pnames []string
			for _, p := range fd.Type.Params.List {
				for _, n := range p.Names {
					pnames = append(pnames, n.Name)
				}
			}
			interesting := false
			for i, a := range x.Args {
				if i >= len(pnames) {
					break
				}
				if aid, ok := a.(*ast.Ident); ok {
					if who, ok := f.inst[aid.Name]; ok {
						g.inst[pnames[i]] = who
						interesting = true
						continue
					}
				}
				if al, ok := f.aliasOf(a); ok {
					g.aliases[pnames[i]] = al
					interesting = true
				}
			}
			if !interesting {
				// same-package helper that sees neither the log nor one of its maps: it must not lock anything
				f.assertNoLockOps(fd)
				return ps
			}
			return f.inlineBody(id.Name, fd.Body, g, ps, x)
		}
		// conversion or unknown identifier call (e.g. a func-typed parameter): arguments only
		ps = f.args(x.Args, ps)
		return f.argAliasReads(x.Args, ps, x)
	}
	sel, ok := x.Fun.(*ast.SelectorExpr)
	if !ok {
		if fl, ok := x.Fun.(*ast.FuncLit); ok {
			ps = f.args(x.Args, ps)
			return f.inlineBody("func literal", fl.Body, f.closureFrame(fl), ps, x)
		}
		ps = f.expr(x.Fun, ps, false)
		ps = f.args(x.Args, ps)
		return f.argAliasReads(x.Args, ps, x)
	}
	name := sel.Sel.Name
	// verifhook.Yield("point", ..)
	if id, ok := sel.X.(*ast.Ident); ok && id.Name == "verifhook" && name == "Yield" && len(x.Args) >= 1 {
		if bl, ok := x.Args[0].(*ast.BasicLit); ok && bl.Kind == token.STRING {
			emit(event{kind: "Hook", a: strings.Trim(bl.Value, "\"")})
			return ps
		}
	}
	// X.lock.Lock() etc.
	if op, isLockOp := lockOps[name]; isLockOp && len(x.Args) == 0 {
		if inner, ok := sel.X.(*ast.SelectorExpr); ok {
			if id, ok := inner.X.(*ast.Ident); ok && inner.Sel.Name == f.c.lockField {
				if who, ok := f.inst[id.Name]; ok {
					if who != "self" {
						refuse(x, "%s: direct lock operation on another instance", f.fn)
					}
					emit(event{kind: op[0], a: "self", b: op[1]})
					return ps
				}
			}
		}
		if id, ok := sel.X.(*ast.Ident); ok && f.mutexes[id.Name] {
			emit(event{kind: op[0], a: id.Name, b: op[1]})
			return ps
		}
		refuse(x, "%s: %s() on something that is neither the receiver's lock nor a local mutex", f.fn, name)
	}
	// wg.Wait / wg.Add / wg.Done
	if id, ok := sel.X.(*ast.Ident); ok && f.wgs[id.Name] {
		switch name {
		case "Wait":
			if f.inGo {
				refuse(x, "%s: Wait inside a spawned goroutine", f.fn)
			}
			emit(event{kind: "WaitChildren"})
			return ps
		case "Add", "Done":
			return f.args(x.Args, ps)
		}
		refuse(x, "%s: unsupported WaitGroup method %s", f.fn, name)
	}
	// call on an instance variable: same receiver -> inline, other instance -> Foreign
	if id, ok := sel.X.(*ast.Ident); ok {
		if who, ok := f.inst[id.Name]; ok {
			ps = f.args(x.Args, ps)
			if who == "other" {
				emit(event{kind: "Foreign", a: name})
				return ps
			}
			fd, ok := f.c.methods[name]
			if !ok {
				refuse(x, "%s: call of unknown method %s on the receiver", f.fn, name)
			}
			g := &frame{c: f.c, fn: f.fn + ">" + name, inst: map[string]string{fd.Recv.List[0].Names[0].Name: "self"}, aliases: map[string]alias{},
				mutexes: map[string]bool{}, wgs: map[string]bool{}, closures: map[string]*ast.FuncLit{}, captured: map[string]bool{}, shadow: map[string]bool{},
				inGo: f.inGo, stack: f.stack}
			var pnames []string
			for _, p := range fd.Type.Params.List {
				for _, n := range p.Names {
					pnames = append(pnames, n.Name)
				}
			}
			for i, a := range x.Args {
				if i >= len(pnames) {
					break
				}
				if aid, ok := a.(*ast.Ident); ok {
					if w, ok := f.inst[aid.Name]; ok {
						if w == "self" {
							refuse(x, "%s: the receiver is passed to its own method %s", f.fn, name)
						}
						g.inst[pnames[i]] = w
						continue
					}
				}
				if al, ok := f.aliasOf(a); ok {
					g.aliases[pnames[i]] = al
				}
			}
			return f.inlineBody(name, fd.Body, g, ps, x)
		}
	}
	// method call on (an alias of) a guarded ordered map
	if al, ok := f.aliasOf(sel.X); ok {
		ps = f.expr(sel.X, ps, false)
		ps = f.args(x.Args, ps)
		ps = f.argAliasReads(x.Args, ps, x)
		if f.c.omapMethods != nil {
			w, known := f.c.omapMethods[name]
			if !known {
				refuse(x, "%s: unknown ordered-map method %s", f.fn, name)
			}
			emit(f.objEvent(al, w, x))
		}
		return ps
	}
	// anything else: evaluate receiver expression and arguments
	ps = f.expr(sel.X, ps, false)
	ps = f.args(x.Args, ps)
	return f.argAliasReads(x.Args, ps, x)
}

func (f *frame) assertNoLockOps(fd *ast.FuncDecl) {
	ast.Inspect(fd.Body, func(n ast.Node) bool {
		if c, ok := n.(*ast.CallExpr); ok {
			if s, ok := c.Fun.(*ast.SelectorExpr); ok {
				if _, isLock := lockOps[s.Sel.Name]; isLock && len(c.Args) == 0 {
					refuse(c, "%s: lock operation in callee %s which is not inlined", f.fn, fd.Name.Name)
				}
			}
		}
		if _, ok := n.(*ast.GoStmt); ok {
			refuse(n, "%s: go statement in callee %s which is not inlined", f.fn, fd.Name.Name)
		}
		return true
	})
}

// inlineBody runs body in frame g after each normal path of ps; returns of the body end the body only.
func (f *frame) inlineBody(name string, body *ast.BlockStmt, g *frame, ps []pth, at ast.Node) []pth {
	for _, s := range f.stack {
		if s == name {
			refuse(at, "%s: recursive call of %s", f.fn, name)
		}
	}
	if len(f.stack) > 12 {
		refuse(at, "%s: inlining too deep", f.fn)
	}
	g.stack = append(append([]string{}, f.stack...), name)
	g.inLoop = 0
	g.prescan(body)
	callee := g.block(body.List, []pth{{}})
	for i := range callee {
		callee[i] = finish(callee[i])
		if callee[i].status == stBreak || callee[i].status == stContinue {
			refuse(at, "%s: break/continue escapes %s", f.fn, name)
		}
	}
	callee = dedupe(callee)
	var out []pth
	for _, p := range ps {
		if p.status != stNormal {
			out = append(out, p)
			continue
		}
		for _, q := range callee {
			n := append([]event{}, p.ev...)
			for _, e := range q.ev {
				n = appendEvent(n, e)
			}
			out = append(out, pth{n, stNormal, p.defers})
		}
	}
	return dedupe(out)
}

// finish runs the deferred events of a path that reached the end of its function
func finish(p pth) pth {
	if p.status == stNormal || p.status == stReturned {
		for i := len(p.defers) - 1; i >= 0; i-- {
			p.ev = append(append([]event{}, p.ev...), p.defers[i])
		}
		p.defers = nil
		p.status = stNormal
	}
	return p
}

// prescan collects the local declarations the walker needs to know in advance.
func (f *frame) prescan(body *ast.BlockStmt) {
	// local mutexes, wait groups, closures
	ast.Inspect(body, func(n ast.Node) bool {
		switch x := n.(type) {
		case *ast.DeclStmt:
			if gd, ok := x.Decl.(*ast.GenDecl); ok {
				for _, s := range gd.Specs {
					if vs, ok := s.(*ast.ValueSpec); ok && vs.Type != nil {
						t := typeString(vs.Type)
						for _, n := range vs.Names {
							if t == "sync.Mutex" || t == "sync.RWMutex" {
								f.mutexes[n.Name] = true
							}
							if t == "sync.WaitGroup" {
								f.wgs[n.Name] = true
							}
						}
					}
				}
			}
		case *ast.AssignStmt:
			if len(x.Lhs) == 1 && len(x.Rhs) == 1 {
				if id, ok := x.Lhs[0].(*ast.Ident); ok {
					rhs := x.Rhs[0]
					if u, ok := rhs.(*ast.UnaryExpr); ok && u.Op == token.AND {
						rhs = u.X
					}
					if cl, ok := rhs.(*ast.CompositeLit); ok && cl.Type != nil {
						switch typeString(cl.Type) {
						case "sync.WaitGroup":
							f.wgs[id.Name] = true
						case "sync.Mutex", "sync.RWMutex":
							f.mutexes[id.Name] = true
						}
					}
					if fl, ok := x.Rhs[0].(*ast.FuncLit); ok {
						if x.Tok != token.DEFINE {
							refuse(x, "%s: closure assigned with = (not :=)", f.fn)
						}
						if _, dup := f.closures[id.Name]; dup {
							refuse(x, "%s: closure %s defined twice", f.fn, id.Name)
						}
						f.closures[id.Name] = fl
					}
				}
			}
		}
		return true
	})
	if len(f.mutexes) > 1 {
		refuse(body, "%s: more than one local mutex (the model gives captured variables a single guard)", f.fn)
	}
	// aliases (flow insensitive): x := l.f / x = l.f / l.f = x / x := other.M() with M returning a field
	ast.Inspect(body, func(n ast.Node) bool {
		as, ok := n.(*ast.AssignStmt)
		if !ok || len(as.Lhs) != len(as.Rhs) {
			return true
		}
		for i := range as.Lhs {
			if id, ok := as.Lhs[i].(*ast.Ident); ok && id.Name != "_" {
				if al, ok := f.aliasOf(as.Rhs[i]); ok {
					if old, dup := f.aliases[id.Name]; dup && old != al {
						refuse(as, "%s: local %s aliases two different maps", f.fn, id.Name)
					}
					f.aliases[id.Name] = al
					f.markAssigned(id)
				}
			}
			if id, ok := as.Rhs[i].(*ast.Ident); ok {
				if al, ok := f.aliasOf(as.Lhs[i]); ok {
					if _, isSel := as.Lhs[i].(*ast.SelectorExpr); isSel {
						if old, dup := f.aliases[id.Name]; dup && old != al {
							refuse(as, "%s: local %s aliases two different maps", f.fn, id.Name)
						}
						f.aliases[id.Name] = al
						f.markAssigned(id)
					}
				}
			}
		}
		return true
	})
	// captured variables: free variables of spawned closures (and of local closures called from
	// them) that are declared in this body and written somewhere other than their declaration
	declared := map[string]bool{}
	written := map[string]bool{}
	var collect func(n ast.Node, inClosure bool, local map[string]bool)
	collect = func(n ast.Node, inClosure bool, local map[string]bool) {
		ast.Inspect(n, func(m ast.Node) bool {
			switch x := m.(type) {
			case *ast.FuncLit:
				if m == n {
					return true
				}
				loc := map[string]bool{}
				for k := range local {
					loc[k] = true
				}
				for _, p := range x.Type.Params.List {
					for _, pn := range p.Names {
						loc[pn.Name] = true
					}
				}
				collect(x.Body, true, loc)
				return false
			case *ast.DeclStmt:
				if gd, ok := x.Decl.(*ast.GenDecl); ok {
					for _, s := range gd.Specs {
						if vs, ok := s.(*ast.ValueSpec); ok {
							for _, vn := range vs.Names {
								if inClosure {
									local[vn.Name] = true
								} else {
									declared[vn.Name] = true
								}
							}
						}
					}
				}
			case *ast.AssignStmt:
				for _, l := range x.Lhs {
					if id, ok := l.(*ast.Ident); ok {
						if x.Tok == token.DEFINE {
							if inClosure {
								local[id.Name] = true
							} else if declared[id.Name] {
								written[id.Name] = true // redeclaration in := assigns
							} else {
								declared[id.Name] = true
							}
						} else if !local[id.Name] {
							written[id.Name] = true
						}
					}
				}
			case *ast.IncDecStmt:
				if id, ok := x.X.(*ast.Ident); ok && !local[id.Name] {
					written[id.Name] = true
				}
			case *ast.RangeStmt:
				for _, e := range []ast.Expr{x.Key, x.Value} {
					if id, ok := e.(*ast.Ident); ok {
						if inClosure {
							local[id.Name] = true
						} else {
							declared[id.Name] = true
						}
					}
				}
			}
			return true
		})
	}
	collect(body, false, map[string]bool{})
	free := map[string]bool{}
	var freeVars func(fl *ast.FuncLit, seen map[string]bool)
	freeVars = func(fl *ast.FuncLit, seen map[string]bool) {
		local := map[string]bool{}
		for _, p := range fl.Type.Params.List {
			for _, pn := range p.Names {
				local[pn.Name] = true
			}
		}
		ast.Inspect(fl.Body, func(m ast.Node) bool {
			switch x := m.(type) {
			case *ast.AssignStmt:
				if x.Tok == token.DEFINE {
					for _, l := range x.Lhs {
						if id, ok := l.(*ast.Ident); ok {
							local[id.Name] = true
						}
					}
				}
			case *ast.SelectorExpr:
				// only the root of a selector is a variable reference
				ast.Inspect(x.X, func(k ast.Node) bool {
					if id, ok := k.(*ast.Ident); ok && !local[id.Name] {
						free[id.Name] = true
					}
					return true
				})
				return false
			case *ast.Ident:
				if !local[x.Name] {
					free[x.Name] = true
					if cl, ok := f.closures[x.Name]; ok && !seen[x.Name] {
						seen[x.Name] = true
						freeVars(cl, seen)
					}
				}
			}
			return true
		})
	}
	ast.Inspect(body, func(n ast.Node) bool {
		if g, ok := n.(*ast.GoStmt); ok {
			if fl, ok := g.Call.Fun.(*ast.FuncLit); ok {
				freeVars(fl, map[string]bool{})
			}
		}
		return true
	})
	for v := range free {
		if declared[v] && written[v] && !f.mutexes[v] && !f.wgs[v] && f.closures[v] == nil {
			if _, isInst := f.inst[v]; !isInst {
				f.captured[v] = true
			}
		}
	}
}

func (f *frame) block(stmts []ast.Stmt, ps []pth) []pth {
	for _, s := range stmts {
		ps = dedupe(f.stmt(s, ps))
	}
	return ps
}

func setStatus(ps []pth, st int) []pth {
	for i := range ps {
		if ps[i].status == stNormal {
			ps[i].status = st
		}
	}
	return ps
}

// split separates the paths that continue normally from those that already left
func split(ps []pth) (normal, rest []pth) {
	for _, p := range ps {
		if p.status == stNormal {
			normal = append(normal, p)
		} else {
			rest = append(rest, p)
		}
	}
	return
}

func (f *frame) loop(body *ast.BlockStmt, ps []pth, at ast.Node) []pth {
	normal, rest := split(ps)
	if len(normal) == 0 {
		return ps
	}
	f.inLoop++
	iter := f.block(body.List, clonePaths(normal))
	f.inLoop--
	var out []pth
	out = append(out, rest...)
	out = append(out, normal...) // zero iterations
	for _, p := range iter {
		if p.status == stReturned {
			out = append(out, p)
			continue
		}
		// the path stays in / leaves the loop normally: the lock state must be what it was at loop entry
		p.status = stNormal
		ok := false
		for _, q := range normal {
			if len(p.ev) >= len(q.ev) && textPath(p.ev[:len(q.ev)]) == textPath(q.ev) && held(p.ev) == held(q.ev) && len(p.defers) == len(q.defers) {
				ok = true
				break
			}
		}
		if !ok {
			refuse(at, "%s: a loop body changes the lock state (or registers a defer) on a path that stays in the loop", f.fn)
		}
		out = append(out, p)
	}
	return dedupe(out)
}

func (f *frame) stmt(s ast.Stmt, ps []pth) []pth {
	normal, rest := split(ps)
	if len(normal) == 0 {
		return ps
	}
	res := f.stmt1(s, normal)
	return append(rest, res...)
}

func (f *frame) stmt1(s ast.Stmt, ps []pth) []pth {
	switch x := s.(type) {
	case *ast.ExprStmt:
		return f.expr(x.X, ps, false)
	case *ast.SendStmt:
		ps = f.expr(x.Value, ps, false)
		ch, ok := x.Chan.(*ast.Ident)
		if !ok {
			refuse(x, "%s: send on a non-variable channel", f.fn)
		}
		return appendAll(ps, []event{{kind: "Send", a: ch.Name}})
	case *ast.AssignStmt:
		for i, r := range x.Rhs {
			if fl, ok := r.(*ast.FuncLit); ok && len(x.Lhs) == len(x.Rhs) {
				if id, ok := x.Lhs[i].(*ast.Ident); ok && f.closures[id.Name] == fl {
					continue // local closure: inlined at its calls
				}
			}
			ps = f.expr(r, ps, false)
		}
		for _, l := range x.Lhs {
			if id, ok := l.(*ast.Ident); ok {
				if x.Tok == token.DEFINE {
					if f.inClos {
						f.shadow[id.Name] = true
					}
					if f.captured[id.Name] && !f.shadow[id.Name] {
						ps = appendAll(ps, []event{{kind: "CapWr", a: id.Name}})
					}
					continue
				}
				ps = f.expr(id, ps, true)
				if x.Tok != token.ASSIGN { // op=
					ps = f.expr(id, ps, false)
				}
				continue
			}
			ps = f.expr(l, ps, true)
		}
		return ps
	case *ast.IncDecStmt:
		ps = f.expr(x.X, ps, false)
		return f.expr(x.X, ps, true)
	case *ast.DeclStmt:
		gd, ok := x.Decl.(*ast.GenDecl)
		if !ok {
			refuse(x, "%s: unsupported declaration", f.fn)
		}
		for _, sp := range gd.Specs {
			if vs, ok := sp.(*ast.ValueSpec); ok {
				for _, v := range vs.Values {
					ps = f.expr(v, ps, false)
				}
				if f.inClos {
					for _, n := range vs.Names {
						f.shadow[n.Name] = true
					}
				}
			}
		}
		return ps
	case *ast.EmptyStmt:
		return ps
	case *ast.DeferStmt:
		// supported: defer X.lock.(R)Unlock(), defer mu.Unlock(), defer wg.Done()
		sub := f.expr(x.Call, []pth{{}}, false)
		if len(sub) != 1 {
			refuse(x, "%s: deferred call forks", f.fn)
		}
		for _, e := range sub[0].ev {
			if e.kind != "Rel" {
				refuse(x, "%s: deferred call with an effect other than an unlock (%s)", f.fn, e.text())
			}
		}
		if f.inLoop > 0 && len(sub[0].ev) > 0 {
			refuse(x, "%s: defer of an unlock inside a loop", f.fn)
		}
		for i := range ps {
			ps[i].defers = append(append([]event{}, ps[i].defers...), sub[0].ev...)
		}
		return ps
	case *ast.ReturnStmt:
		for _, r := range x.Results {
			ps = f.expr(r, ps, false)
		}
		return setStatus(ps, stReturned)
	case *ast.BlockStmt:
		return f.block(x.List, ps)
	case *ast.IfStmt:
		if x.Init != nil {
			ps = f.stmt(x.Init, ps)
		}
		ps = f.expr(x.Cond, ps, false)
		thenPs := f.block(x.Body.List, clonePaths(ps))
		elsePs := clonePaths(ps)
		if x.Else != nil {
			elsePs = f.stmt(x.Else, elsePs)
		}
		return dedupe(append(thenPs, elsePs...))
	case *ast.ForStmt:
		if x.Init != nil {
			ps = f.stmt(x.Init, ps)
		}
		if x.Cond != nil {
			ps = f.expr(x.Cond, ps, false)
		}
		body := x.Body
		if x.Post != nil {
			body = &ast.BlockStmt{List: append(append([]ast.Stmt{}, x.Body.List...), x.Post)}
			// `continue` skips to Post; Post is event free in all supported code, checked here
			post := f.stmt(x.Post, []pth{{}})
			for _, p := range post {
				if len(p.ev) > 0 {
					refuse(x.Post, "%s: loop post statement with events", f.fn)
				}
			}
		}
		return f.loop(body, ps, x)
	case *ast.RangeStmt:
		ps = f.expr(x.X, ps, false)
		if s, ok := x.X.(*ast.SelectorExpr); ok {
			if v, ok := s.X.(*ast.Ident); ok && f.inst[v.Name] == "self" && f.c.guarded[s.Sel.Name] && !f.c.mapFields[s.Sel.Name] {
				ps = appendAll(ps, []event{{kind: "ObjRd", a: s.Sel.Name}})
			}
		}
		if x.Tok == token.ASSIGN {
			for _, e := range []ast.Expr{x.Key, x.Value} {
				if e != nil {
					ps = f.expr(e, ps, true)
				}
			}
		} else if f.inClos {
			for _, e := range []ast.Expr{x.Key, x.Value} {
				if id, ok := e.(*ast.Ident); ok {
					f.shadow[id.Name] = true
				}
			}
		}
		return f.loop(x.Body, ps, x)
	case *ast.BranchStmt:
		if x.Label != nil {
			refuse(x, "%s: labelled %s", f.fn, x.Tok)
		}
		switch x.Tok {
		case token.BREAK:
			if f.inLoop == 0 {
				refuse(x, "%s: break outside a loop", f.fn)
			}
			return setStatus(ps, stBreak)
		case token.CONTINUE:
			if f.inLoop == 0 {
				refuse(x, "%s: continue outside a loop", f.fn)
			}
			return setStatus(ps, stContinue)
		}
		refuse(x, "%s: unsupported branch statement %s", f.fn, x.Tok)
	case *ast.GoStmt:
		if f.inGo {
			refuse(x, "%s: nested go statement", f.fn)
		}
		fl, ok := x.Call.Fun.(*ast.FuncLit)
		if !ok {
			refuse(x, "%s: go statement that does not call a function literal", f.fn)
		}
		ps = f.args(x.Call.Args, ps)
		g := f.closureFrame(fl)
		g.inGo = true
		g.inLoop = 0
		sub := g.block(fl.Body.List, []pth{{}})
		var alts [][]event
		seen := map[string]bool{}
		for _, p := range sub {
			if p.status == stBreak || p.status == stContinue {
				refuse(x, "%s: break/continue escapes a goroutine body", f.fn)
			}
			p = finish(p)
			for _, e := range p.ev {
				if e.kind == "Spawn" || e.kind == "WaitChildren" {
					refuse(x, "%s: spawn/wait inside a goroutine body", f.fn)
				}
			}
			if held(p.ev) != "" {
				refuse(x, "%s: a goroutine body ends while holding a lock", f.fn)
			}
			k := textPath(p.ev)
			if !seen[k] {
				seen[k] = true
				alts = append(alts, p.ev)
			}
		}
		sort.Slice(alts, func(i, j int) bool { return textPath(alts[i]) < textPath(alts[j]) })
		sp := event{kind: "Spawn", alts: alts}
		if f.inLoop > 0 {
			return appendAll(ps, []event{sp, sp})
		}
		return appendAll(ps, []event{sp})
	case *ast.LabeledStmt:
		refuse(x, "%s: labelled statement", f.fn)
	case *ast.SelectStmt:
		refuse(x, "%s: select statement", f.fn)
	case *ast.SwitchStmt, *ast.TypeSwitchStmt:
		refuse(x, "%s: switch statement", f.fn)
	}
	refuse(s, "%s: unsupported statement %T", f.fn, s)
	return nil
}

// ---------------------------------------------------------------------------------------------

type fnResult struct {
	name     string
	exported bool
	paths    [][]event
	captured []string
	mutexes  []string
}

func analyse(c *class, fd *ast.FuncDecl) fnResult {
	f := &frame{c: c, fn: fd.Name.Name, inst: c.instVars(fd), aliases: map[string]alias{}, mutexes: map[string]bool{}, wgs: map[string]bool{},
		closures: map[string]*ast.FuncLit{}, captured: map[string]bool{}, shadow: map[string]bool{}, stack: []string{fd.Name.Name}}
	f.prescan(fd.Body)
	ps := f.block(fd.Body.List, []pth{{}})
	seen := map[string]bool{}
	var out [][]event
	for _, p := range ps {
		if p.status == stBreak || p.status == stContinue {
			refuse(fd, "%s: break/continue at function level", f.fn)
		}
		p = finish(p)
		k := textPath(p.ev)
		if !seen[k] {
			seen[k] = true
			out = append(out, p.ev)
		}
	}
	sort.Slice(out, func(i, j int) bool { return textPath(out[i]) < textPath(out[j]) })
	r := fnResult{name: fd.Name.Name, exported: ast.IsExported(fd.Name.Name), paths: out}
	for v := range f.captured {
		r.captured = append(r.captured, v)
	}
	for v := range f.mutexes {
		r.mutexes = append(r.mutexes, v)
	}
	sort.Strings(r.captured)
	sort.Strings(r.mutexes)
	return r
}

func analyseClass(c *class) []fnResult {
	var names []string
	decl := map[string]*ast.FuncDecl{}
	for n, fd := range c.methods {
		names = append(names, n)
		decl[n] = fd
	}
	for n, fd := range c.funcs {
		if len(c.instVars(fd)) > 0 {
			isSelf := false
			for _, v := range c.instVars(fd) {
				if v == "self" {
					isSelf = true
				}
			}
			if isSelf {
				if _, dup := decl[n]; dup {
					panic(refusal{"function and method share the name " + n})
				}
				names = append(names, n)
				decl[n] = fd
			}
		}
	}
	sort.Strings(names)
	var out []fnResult
	for _, n := range names {
		out = append(out, analyse(c, decl[n]))
	}
	return out
}

func coqStrList(xs []string) string {
	q := make([]string, len(xs))
	for i, x := range xs {
		q[i] = coqStr(x)
	}
	return "[" + strings.Join(q, "; ") + "]"
}

func emitTable(sb *strings.Builder, name string, rs []fnResult, filter func(fnResult) bool) {
	fmt.Fprintf(sb, "Definition %s : list (string * list path) := [\n", name)
	first := true
	for _, r := range rs {
		if !filter(r) {
			continue
		}
		if !first {
			sb.WriteString(";\n")
		}
		first = false
		fmt.Fprintf(sb, "  (%s, [\n", coqStr(r.name))
		for i, p := range r.paths {
			es := make([]string, len(p))
			for j, e := range p {
				es[j] = e.coq()
			}
			fmt.Fprintf(sb, "    (* %s #%d *) [%s]", r.name, i, strings.Join(es, ";\n      "))
			if i+1 < len(r.paths) {
				sb.WriteString(";")
			}
			sb.WriteString("\n")
		}
		sb.WriteString("  ])")
	}
	sb.WriteString("\n].\n\n")
}

func sortedKeys(m map[string]bool) []string {
	var out []string
	for k, v := range m {
		if v {
			out = append(out, k)
		}
	}
	sort.Strings(out)
	return out
}

func hasEvent(rs []fnResult, kind, a string) bool {
	var in func(p []event) bool
	in = func(p []event) bool {
		for _, e := range p {
			if e.kind == kind && e.a == a {
				return true
			}
			for _, alt := range e.alts {
				if in(alt) {
					return true
				}
			}
		}
		return false
	}
	for _, r := range rs {
		for _, p := range r.paths {
			if in(p) {
				return true
			}
		}
	}
	return false
}

func run(repo, out string, text bool) {
	// 1. the ordered map
	om := loadClass([]string{filepath.Join(repo, "entry", "entry_map.go")}, "OrderedMap", []string{"iface.IPFSLogOrderedEntries"}, "")
	om.prepass()
	omRes := analyseClass(om)
	omMethods := map[string]bool{}
	for _, r := range omRes {
		if _, isMethod := om.methods[r.name]; !isMethod {
			continue
		}
		w := false
		for _, p := range r.paths {
			for _, e := range p {
				if e.kind == "Acq" && e.a == "self" && e.b == "W" {
					w = true
				}
			}
		}
		omMethods[r.name] = w
	}
	// 2. the log
	lg := loadClass([]string{filepath.Join(repo, "log.go"), filepath.Join(repo, "log_io.go")}, "IPFSLog",
		[]string{"iface.IPFSLog", "Log"}, "iface.IPFSLogOrderedEntries")
	lg.omapMethods = omMethods
	lg.prepass()
	lgRes := analyseClass(lg)

	if text {
		for _, set := range [][]fnResult{lgRes, omRes} {
			for _, r := range set {
				fmt.Printf("== %s (%d paths) captured=%v mutexes=%v\n", r.name, len(r.paths), r.captured, r.mutexes)
				for _, p := range r.paths {
					fmt.Println("   " + textPath(p))
				}
			}
		}
	}

	var sb strings.Builder
	sb.WriteString("(* GENERATED by tools/genlocks from log.go, log_io.go, entry/entry_map.go - do not edit.\n")
	sb.WriteString("   Lock/access skeleton of every method of *IPFSLog (ops: exported entry points, helpers:\n")
	sb.WriteString("   unexported functions that are only reached inlined) and of *OrderedMap (omap_ops). *)\n")
	sb.WriteString("From Coq Require Import List String.\nFrom IpfsLog Require Import Model.Conc.\nImport ListNotations.\nOpen Scope string_scope.\n\n")
	emitTable(&sb, "ops", lgRes, func(r fnResult) bool { return r.exported })
	emitTable(&sb, "helpers", lgRes, func(r fnResult) bool { return !r.exported })
	emitTable(&sb, "omap_ops", omRes, func(r fnResult) bool { return true })

	fmt.Fprintf(&sb, "(* fields of IPFSLog assigned outside the constructor or mutated in place *)\nDefinition guarded_fields : list string := %s.\n", coqStrList(sortedKeys(lg.guarded)))
	fmt.Fprintf(&sb, "Definition ptr_written_fields : list string := %s.\n", coqStrList(sortedKeys(lg.ptrWritten)))
	fmt.Fprintf(&sb, "Definition map_fields : list string := %s.\n", coqStrList(sortedKeys(lg.mapFields)))
	var ro []string
	for _, f := range sortedKeys(lg.mapFields) {
		if !hasEvent(lgRes, "ObjWr", f) {
			ro = append(ro, f)
		}
	}
	fmt.Fprintf(&sb, "(* guarded map fields whose object is never mutated after publication (no ObjWr anywhere) *)\nDefinition obj_readonly_fields : list string := %s.\n", coqStrList(ro))
	noHeadsWr := !hasEvent(lgRes, "ObjWr", "heads")
	fmt.Fprintf(&sb, "Definition no_objwr_heads : bool := %v.\n", noHeadsWr)
	var rf []string
	for _, m := range sortedKeys(func() map[string]bool {
		x := map[string]bool{}
		for k := range lg.returnsFld {
			x[k] = true
		}
		return x
	}()) {
		rf = append(rf, "("+coqStr(m)+", "+coqStr(lg.returnsFld[m])+")")
	}
	fmt.Fprintf(&sb, "(* methods returning the value of a guarded field (an alias of the internal object) *)\nDefinition returns_field : list (string * string) := [%s].\n", strings.Join(rf, "; "))
	var caps, mus []string
	for _, r := range lgRes {
		if len(r.captured) > 0 {
			caps = append(caps, "("+coqStr(r.name)+", "+coqStrList(r.captured)+")")
		}
		if len(r.mutexes) > 0 {
			mus = append(mus, "("+coqStr(r.name)+", "+coqStrList(r.mutexes)+")")
		}
	}
	fmt.Fprintf(&sb, "Definition captured_vars : list (string * list string) := [%s].\n", strings.Join(caps, "; "))
	fmt.Fprintf(&sb, "Definition local_mutexes : list (string * list string) := [%s].\n", strings.Join(mus, "; "))
	var ws, rs []string
	for _, m := range sortedKeys(func() map[string]bool {
		x := map[string]bool{}
		for k := range omMethods {
			x[k] = true
		}
		return x
	}()) {
		if omMethods[m] {
			ws = append(ws, m)
		} else {
			rs = append(rs, m)
		}
	}
	fmt.Fprintf(&sb, "(* OrderedMap methods by whether they take the map's write lock *)\nDefinition omap_writers : list string := %s.\nDefinition omap_readers : list string := %s.\n", coqStrList(ws), coqStrList(rs))
	fmt.Fprintf(&sb, "Definition omap_guarded_fields : list string := %s.\n", coqStrList(sortedKeys(om.guarded)))

	if err := os.WriteFile(out, []byte(sb.String()), 0o644); err != nil {
		panic(refusal{"cannot write " + out + ": " + err.Error()})
	}
}

func main() {
	repo := flag.String("repo", "/repo", "repository to read")
	out := flag.String("out", "", "output .v file")
	text := flag.Bool("text", false, "also print the paths as text")
	flag.Parse()
	if *out == "" {
		fmt.Fprintln(os.Stderr, "genlocks: missing -out")
		os.Exit(2)
	}
	defer func() {
		if r := recover(); r != nil {
			if rf, ok := r.(refusal); ok {
				fmt.Fprintln(os.Stderr, "genlocks: REFUSED: "+rf.msg)
				os.Exit(1)
			}
			panic(r)
		}
	}()
	run(*repo, *out, *text)
}
