#!/bin/sh
# run every claimed check (quick tier) on the current tree; prints one line per check
cd "$(dirname "$0")/.." || exit 2
for P in $(python3 -c "import json;print(' '.join(c['property_id'] for c in json.load(open('MANIFEST.json'))['checks']))"); do
  ./check $P --tier ${1:-quick} 2>&1 | grep -v conda | cut -c1-240
done
