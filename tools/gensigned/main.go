// gensigned: reads entry/entry.go of the go-ipfs-log tree and emits coq/Gen/Signed.v, the table of
// fields covered by the signing buffer (property C07).
//
//	gensigned -repo DIR -out FILE
//
// What is extracted (text of the program, not behaviour):
//   - toBuffer: the keys of the map literal that is handed to json.Marshal and, for each key, the
//     shape of its value expression; the conditional `data["additional_data"] = e.AdditionalData`;
//   - ToHashable: for every field of the returned iface.Hashable literal, where it is copied from
//     (entry getter, or the local slice filled with cidB58 of every element of a getter);
//   - cidB58: base58btc multibase encoding of the CID;
//   - CreateEntryWithIO / Entry.Verify: the bytes handed to Sign / pubKey.Verify are
//     toBuffer(ToHashable(x)).
//
// The two tables are composed: a map entry `"id": e.ID` with `ID: e.GetLogID()` becomes
// `SF_id "id"` ("the JSON string holding the entry's log id").  Any shape that is not recognised
// makes the tool exit non-zero (the check reports a broken tie) instead of guessing.
package main

import (
	"bytes"
	"flag"
	"fmt"
	"go/ast"
	"go/parser"
	"go/printer"
	"go/token"
	"os"
	"path/filepath"
	"sort"
	"strconv"
	"strings"
)

var fset = token.NewFileSet()

func refuse(format string, a ...interface{}) {
	fmt.Fprintf(os.Stderr, "gensigned: REFUSED: "+format+"\n", a...)
	os.Exit(3)
}

func src(n ast.Node) string {
	var b bytes.Buffer
	if err := printer.Fprint(&b, fset, n); err != nil {
		return "?"
	}
	return strings.Join(strings.Fields(b.String()), " ")
}

func findFunc(f *ast.File, name string, recv string) *ast.FuncDecl {
	for _, d := range f.Decls {
		fd, ok := d.(*ast.FuncDecl)
		if !ok || fd.Name.Name != name {
			continue
		}
		if recv == "" && fd.Recv == nil {
			return fd
		}
		if recv != "" && fd.Recv != nil && len(fd.Recv.List) == 1 && strings.TrimPrefix(src(fd.Recv.List[0].Type), "*") == recv {
			return fd
		}
	}
	refuse("function %s (receiver %q) not found in entry/entry.go", name, recv)
	return nil
}

// sel matches X.Sel with X an identifier; returns (x, sel).
func sel(e ast.Expr) (string, string, bool) {
	s, ok := e.(*ast.SelectorExpr)
	if !ok {
		return "", "", false
	}
	id, ok := s.X.(*ast.Ident)
	if !ok {
		return "", "", false
	}
	return id.Name, s.Sel.Name, true
}

// getterCall matches x.GetFoo() ; returns (x, "GetFoo").
func getterCall(e ast.Expr) (string, string, bool) {
	c, ok := e.(*ast.CallExpr)
	if !ok || len(c.Args) != 0 {
		return "", "", false
	}
	return sel(c.Fun)
}

func strLit(e ast.Expr) (string, bool) {
	b, ok := e.(*ast.BasicLit)
	if !ok || b.Kind != token.STRING {
		return "", false
	}
	s, err := strconv.Unquote(b.Value)
	if err != nil {
		return "", false
	}
	return s, true
}

func isMapStringIface(t ast.Expr) bool {
	m, ok := t.(*ast.MapType)
	if !ok {
		return false
	}
	k, ok := m.Key.(*ast.Ident)
	if !ok || k.Name != "string" {
		return false
	}
	it, ok := m.Value.(*ast.InterfaceType)
	return ok && (it.Methods == nil || len(it.Methods.List) == 0)
}

// ------------------------------------------------------------------------------------------------
// ToHashable: Hashable field -> source

// source kinds of a Hashable field
const (
	srcNil     = "nil"
	srcLogID   = "logid"    // e.GetLogID()
	srcPayload = "payload"  // e.GetPayload()
	srcNextB58 = "next_b58" // cidB58 of every element of e.GetNext(), same order
	srcRefsB58 = "refs_b58" // cidB58 of every element of e.GetRefs(), same order
	srcV       = "v"        // e.GetV()
	srcClock   = "clock"    // e.GetClock()
	srcKey     = "key"      // e.GetKey()
	srcAD      = "additional_data"
)

var getterSource = map[string]string{
	"GetLogID": srcLogID, "GetPayload": srcPayload, "GetV": srcV, "GetClock": srcClock, "GetKey": srcKey,
	"GetAdditionalData": srcAD,
}

type hfield struct{ name, source, text string }

func analyseToHashable(fd *ast.FuncDecl) []hfield {
	if fd.Type.Params == nil || len(fd.Type.Params.List) != 1 || len(fd.Type.Params.List[0].Names) != 1 {
		refuse("ToHashable: expected exactly one parameter")
	}
	param := fd.Type.Params.List[0].Names[0].Name
	// locals of the form  x := make([]string, len(e.GetNext()))
	made := map[string]string{}   // local -> getter it is sized by
	filled := map[string]string{} // local -> getter whose elements are cidB58-encoded into it
	var ret *ast.CompositeLit
	for _, st := range fd.Body.List {
		switch s := st.(type) {
		case *ast.AssignStmt:
			if s.Tok != token.DEFINE || len(s.Lhs) != 1 || len(s.Rhs) != 1 {
				refuse("ToHashable: unexpected assignment %s", src(s))
			}
			lhs, ok := s.Lhs[0].(*ast.Ident)
			call, ok2 := s.Rhs[0].(*ast.CallExpr)
			if !ok || !ok2 {
				refuse("ToHashable: unexpected assignment %s", src(s))
			}
			fn, ok := call.Fun.(*ast.Ident)
			if !ok || fn.Name != "make" || len(call.Args) != 2 || src(call.Args[0]) != "[]string" {
				refuse("ToHashable: unexpected assignment %s", src(s))
			}
			ln, ok := call.Args[1].(*ast.CallExpr)
			if !ok || src(ln.Fun) != "len" || len(ln.Args) != 1 {
				refuse("ToHashable: unexpected make size %s", src(s))
			}
			x, g, ok := getterCall(ln.Args[0])
			if !ok || x != param {
				refuse("ToHashable: unexpected make size %s", src(s))
			}
			made[lhs.Name] = g
		case *ast.RangeStmt:
			// for i, n := range e.GetNext() { c, err := cidB58(n); if err != nil { return ... }; nexts[i] = c }
			x, g, ok := getterCall(s.X)
			ki, ok1 := s.Key.(*ast.Ident)
			vi, ok2 := s.Value.(*ast.Ident)
			if !ok || x != param || !ok1 || !ok2 || s.Tok != token.DEFINE {
				refuse("ToHashable: unexpected loop header %s", src(s.X))
			}
			if len(s.Body.List) != 3 {
				refuse("ToHashable: loop over %s has an unexpected body", g)
			}
			a, ok := s.Body.List[0].(*ast.AssignStmt)
			if !ok || len(a.Lhs) != 2 || len(a.Rhs) != 1 || src(a.Rhs[0]) != "cidB58("+vi.Name+")" {
				refuse("ToHashable: loop over %s: expected `c, err := cidB58(%s)`, got %s", g, vi.Name, src(s.Body.List[0]))
			}
			cname := src(a.Lhs[0])
			ifs, ok := s.Body.List[1].(*ast.IfStmt)
			if !ok || !strings.Contains(src(ifs.Cond), "!= nil") || len(ifs.Body.List) != 1 {
				refuse("ToHashable: loop over %s: expected an error check", g)
			}
			if _, ok := ifs.Body.List[0].(*ast.ReturnStmt); !ok {
				refuse("ToHashable: loop over %s: error branch does not return", g)
			}
			st2, ok := s.Body.List[2].(*ast.AssignStmt)
			if !ok || len(st2.Lhs) != 1 || len(st2.Rhs) != 1 || src(st2.Rhs[0]) != cname {
				refuse("ToHashable: loop over %s: expected `x[i] = %s`", g, cname)
			}
			ix, ok := st2.Lhs[0].(*ast.IndexExpr)
			if !ok || src(ix.Index) != ki.Name {
				refuse("ToHashable: loop over %s: store is not indexed by the loop index", g)
			}
			dst := src(ix.X)
			if made[dst] != g {
				refuse("ToHashable: %s is filled from %s but sized by %s", dst, g, made[dst])
			}
			if _, dup := filled[dst]; dup {
				refuse("ToHashable: %s filled twice", dst)
			}
			filled[dst] = g
		case *ast.ReturnStmt:
			if len(s.Results) != 2 || src(s.Results[1]) != "nil" {
				refuse("ToHashable: unexpected return %s", src(s))
			}
			u, ok := s.Results[0].(*ast.UnaryExpr)
			if !ok || u.Op != token.AND {
				refuse("ToHashable: unexpected return %s", src(s))
			}
			cl, ok := u.X.(*ast.CompositeLit)
			if !ok || src(cl.Type) != "iface.Hashable" {
				refuse("ToHashable: does not return &iface.Hashable{...}")
			}
			ret = cl
		default:
			refuse("ToHashable: statement not understood: %s", src(st))
		}
	}
	if ret == nil {
		refuse("ToHashable: no return of &iface.Hashable{...}")
	}
	var out []hfield
	for _, el := range ret.Elts {
		kv, ok := el.(*ast.KeyValueExpr)
		if !ok {
			refuse("ToHashable: positional composite literal")
		}
		name := src(kv.Key)
		h := hfield{name: name, text: src(kv.Value)}
		if id, ok := kv.Value.(*ast.Ident); ok {
			switch {
			case id.Name == "nil":
				h.source = srcNil
			case filled[id.Name] == "GetNext":
				h.source = srcNextB58
			case filled[id.Name] == "GetRefs":
				h.source = srcRefsB58
			default:
				refuse("ToHashable: field %s copied from unknown local %s", name, id.Name)
			}
		} else if x, g, ok := getterCall(kv.Value); ok && x == param && getterSource[g] != "" {
			h.source = getterSource[g]
		} else {
			refuse("ToHashable: field %s: value %s not understood", name, h.text)
		}
		out = append(out, h)
	}
	return out
}

func checkCidB58(fd *ast.FuncDecl) {
	s := src(fd.Body)
	if !strings.Contains(s, "multibase.NewEncoder(multibase.Base58BTC)") || !strings.Contains(s, "return c.Encode(e), nil") {
		refuse("cidB58: no longer `multibase.NewEncoder(multibase.Base58BTC)` + `c.Encode(e)`: %s", s)
	}
}

// ------------------------------------------------------------------------------------------------
// toBuffer

type sfield struct {
	key, tag, text string
	sub            []sfield // for the nested clock map
}

func analyseToBuffer(fd *ast.FuncDecl, hf map[string]string) (fields []sfield, adKey string, adCond string) {
	if fd.Type.Params == nil || len(fd.Type.Params.List) != 1 || len(fd.Type.Params.List[0].Names) != 1 {
		refuse("toBuffer: expected exactly one parameter")
	}
	p := fd.Type.Params.List[0].Names[0].Name
	dataVar := ""
	marshalled := false
	need := func(f, want string, ctx string) {
		got, ok := hf[f]
		if !ok {
			refuse("toBuffer: %s uses Hashable field %s which ToHashable does not set", ctx, f)
		}
		if got != want {
			refuse("toBuffer: %s uses Hashable.%s, which ToHashable fills from %q (expected %q)", ctx, f, got, want)
		}
	}
	classify := func(key string, v ast.Expr) sfield {
		sf := sfield{key: key, text: src(v)}
		// nil
		if id, ok := v.(*ast.Ident); ok && id.Name == "nil" {
			sf.tag = "SF_null"
			return sf
		}
		// e.F
		if x, f, ok := sel(v); ok && x == p {
			s, ok := hf[f]
			if !ok {
				refuse("toBuffer: key %q uses Hashable field %s which ToHashable does not set", key, f)
			}
			switch s {
			case srcLogID:
				sf.tag = "SF_id"
			case srcNextB58:
				sf.tag = "SF_next"
			case srcRefsB58:
				sf.tag = "SF_refs"
			case srcV:
				sf.tag = "SF_v"
			default:
				refuse("toBuffer: key %q: value %s (source %s) is not a shape the model knows", key, sf.text, s)
			}
			return sf
		}
		// string(e.Payload)
		if c, ok := v.(*ast.CallExpr); ok && len(c.Args) == 1 {
			if fn, ok := c.Fun.(*ast.Ident); ok && fn.Name == "string" {
				if x, f, ok := sel(c.Args[0]); ok && x == p {
					need(f, srcPayload, fmt.Sprintf("key %q", key))
					sf.tag = "SF_payload"
					return sf
				}
			}
		}
		// nested map literal for the clock
		if cl, ok := v.(*ast.CompositeLit); ok && isMapStringIface(cl.Type) {
			sf.tag = "SF_clock"
			for _, el := range cl.Elts {
				kv, ok := el.(*ast.KeyValueExpr)
				if !ok {
					refuse("toBuffer: key %q: malformed nested map", key)
				}
				k, ok := strLit(kv.Key)
				if !ok {
					refuse("toBuffer: key %q: nested key is not a string literal", key)
				}
				sub := sfield{key: k, text: src(kv.Value)}
				switch sub.text {
				case "hex.EncodeToString(" + p + ".Clock.GetID())":
					need("Clock", srcClock, "clock id")
					sub.tag = "SC_id_hex"
				case p + ".Clock.GetTime()":
					need("Clock", srcClock, "clock time")
					sub.tag = "SC_time"
				default:
					refuse("toBuffer: key %q.%q: value %s not understood", key, k, sub.text)
				}
				sf.sub = append(sf.sub, sub)
			}
			return sf
		}
		refuse("toBuffer: key %q: value %s not understood", key, sf.text)
		return sf
	}

	for _, st := range fd.Body.List {
		switch s := st.(type) {
		case *ast.IfStmt:
			cond := src(s.Cond)
			switch {
			case cond == p+" == nil":
				// nil guard: must return
				if len(s.Body.List) != 1 {
					refuse("toBuffer: nil guard has an unexpected body")
				}
				if _, ok := s.Body.List[0].(*ast.ReturnStmt); !ok {
					refuse("toBuffer: nil guard does not return")
				}
			case cond == "err != nil":
				if len(s.Body.List) != 1 {
					refuse("toBuffer: error check has an unexpected body")
				}
				if _, ok := s.Body.List[0].(*ast.ReturnStmt); !ok {
					refuse("toBuffer: error check does not return")
				}
			case dataVar != "" && !marshalled && len(s.Body.List) == 1 && s.Else == nil && s.Init == nil:
				// if e.AdditionalData != nil && len(e.AdditionalData) > 0 { data["additional_data"] = e.AdditionalData }
				a, ok := s.Body.List[0].(*ast.AssignStmt)
				if !ok || a.Tok != token.ASSIGN || len(a.Lhs) != 1 || len(a.Rhs) != 1 {
					refuse("toBuffer: conditional statement not understood: %s", src(s))
				}
				ix, ok := a.Lhs[0].(*ast.IndexExpr)
				if !ok || src(ix.X) != dataVar {
					refuse("toBuffer: conditional statement not understood: %s", src(s))
				}
				k, ok := strLit(ix.Index)
				x, f, ok2 := sel(a.Rhs[0])
				if !ok || !ok2 || x != p {
					refuse("toBuffer: conditional statement not understood: %s", src(s))
				}
				need(f, srcAD, fmt.Sprintf("conditional key %q", k))
				want1 := fmt.Sprintf("%s.%s != nil && len(%s.%s) > 0", p, f, p, f)
				want2 := fmt.Sprintf("len(%s.%s) > 0", p, f)
				if cond != want1 && cond != want2 {
					refuse("toBuffer: additional data is added under a condition the model does not know: %s", cond)
				}
				if adKey != "" {
					refuse("toBuffer: two conditional keys")
				}
				adKey, adCond = k, cond
			default:
				refuse("toBuffer: if statement not understood: %s", cond)
			}
		case *ast.AssignStmt:
			if len(s.Rhs) != 1 {
				refuse("toBuffer: assignment not understood: %s", src(s))
			}
			if cl, ok := s.Rhs[0].(*ast.CompositeLit); ok && s.Tok == token.DEFINE && len(s.Lhs) == 1 {
				if dataVar != "" || !isMapStringIface(cl.Type) {
					refuse("toBuffer: unexpected composite literal %s", src(cl.Type))
				}
				dataVar = src(s.Lhs[0])
				seen := map[string]bool{}
				for _, el := range cl.Elts {
					kv, ok := el.(*ast.KeyValueExpr)
					if !ok {
						refuse("toBuffer: malformed map literal")
					}
					k, ok := strLit(kv.Key)
					if !ok {
						refuse("toBuffer: map key %s is not a string literal", src(kv.Key))
					}
					if seen[k] {
						refuse("toBuffer: duplicate key %q", k)
					}
					seen[k] = true
					fields = append(fields, classify(k, kv.Value))
				}
				continue
			}
			if c, ok := s.Rhs[0].(*ast.CallExpr); ok && src(c.Fun) == "json.Marshal" && len(c.Args) == 1 && dataVar != "" && src(c.Args[0]) == dataVar && len(s.Lhs) == 2 {
				if marshalled {
					refuse("toBuffer: json.Marshal called twice")
				}
				marshalled = true
				if src(s.Lhs[0]) != "jsonBytes" {
					refuse("toBuffer: result of json.Marshal stored in %s", src(s.Lhs[0]))
				}
				continue
			}
			refuse("toBuffer: assignment not understood: %s", src(s))
		case *ast.ReturnStmt:
			if !marshalled || len(s.Results) != 2 || src(s.Results[0]) != "jsonBytes" || src(s.Results[1]) != "nil" {
				refuse("toBuffer: final return is not `return jsonBytes, nil`: %s", src(s))
			}
		default:
			refuse("toBuffer: statement not understood: %s", src(st))
		}
	}
	if dataVar == "" || !marshalled {
		refuse("toBuffer: map literal / json.Marshal not found")
	}
	return
}

// ------------------------------------------------------------------------------------------------
// call chain in CreateEntryWithIO and Verify

func checkChain(fd *ast.FuncDecl, sink string) (hashedExpr string) {
	var hashableFrom, bufFrom string
	used := false
	ast.Inspect(fd.Body, func(n ast.Node) bool {
		switch s := n.(type) {
		case *ast.AssignStmt:
			if len(s.Rhs) == 1 && len(s.Lhs) == 2 {
				if c, ok := s.Rhs[0].(*ast.CallExpr); ok {
					switch src(c.Fun) {
					case "ToHashable":
						if src(s.Lhs[0]) == "hashable" && len(c.Args) == 1 {
							hashableFrom = src(c.Args[0])
						}
					case "toBuffer":
						if src(s.Lhs[0]) == "jsonBytes" && len(c.Args) == 1 {
							bufFrom = src(c.Args[0])
						}
					}
				}
			}
		case *ast.CallExpr:
			if strings.HasSuffix(src(s.Fun), sink) {
				for _, a := range s.Args {
					if src(a) == "jsonBytes" {
						used = true
					}
				}
			}
		}
		return true
	})
	if hashableFrom == "" || bufFrom != "hashable" || !used {
		refuse("%s: the bytes given to %s are no longer toBuffer(ToHashable(..)) (hashable from %q, buffer from %q, used %v)",
			fd.Name.Name, sink, hashableFrom, bufFrom, used)
	}
	return hashableFrom
}

// ------------------------------------------------------------------------------------------------

func coqStr(s string) string { return "\"" + strings.ReplaceAll(s, "\"", "\"\"") + "\"" }

func main() {
	repo := flag.String("repo", "/repo", "go-ipfs-log tree")
	out := flag.String("out", "", "output .v file")
	flag.Parse()
	if *out == "" {
		fmt.Fprintln(os.Stderr, "gensigned: missing -out")
		os.Exit(2)
	}
	path := filepath.Join(*repo, "entry", "entry.go")
	f, err := parser.ParseFile(fset, path, nil, 0)
	if err != nil {
		refuse("cannot parse %s: %v", path, err)
	}
	hfields := analyseToHashable(findFunc(f, "ToHashable", ""))
	checkCidB58(findFunc(f, "cidB58", ""))
	hf := map[string]string{}
	for _, h := range hfields {
		if _, dup := hf[h.name]; dup {
			refuse("ToHashable: field %s set twice", h.name)
		}
		hf[h.name] = h.source
	}
	fields, adKey, adCond := analyseToBuffer(findFunc(f, "toBuffer", ""), hf)
	for _, sf := range fields {
		if sf.key == adKey {
			refuse("toBuffer: the conditional key %q overwrites a key of the map literal", adKey)
		}
	}
	signedIn := checkChain(findFunc(f, "CreateEntryWithIO", ""), ".Sign")
	verifiedIn := checkChain(findFunc(f, "Verify", "Entry"), ".Verify")

	var b strings.Builder
	b.WriteString("(* GENERATED by tools/gensigned from entry/entry.go (toBuffer, ToHashable, cidB58, CreateEntryWithIO,\n")
	b.WriteString("   Entry.Verify).  Do not edit: regenerated on every check; theorems in Proofs/SigningProofs.v and\n")
	b.WriteString("   Props/C07.v are stated over these tables. *)\n")
	b.WriteString("From Coq Require Import String List.\nFrom IpfsLog Require Import Model.SignedTags.   (* deps *)\nImport ListNotations.\nLocal Open Scope string_scope.\n\n")
	b.WriteString("(* keys of the map literal in toBuffer, in source order, with the shape of each value *)\n")
	b.WriteString("Definition signed_fields : list signed_field := [\n")
	for i, sf := range fields {
		line := ""
		if sf.tag == "SF_clock" {
			var subs []string
			for _, s := range sf.sub {
				subs = append(subs, fmt.Sprintf("%s %s", s.tag, coqStr(s.key)))
			}
			line = fmt.Sprintf("  SF_clock %s [%s]", coqStr(sf.key), strings.Join(subs, "; "))
		} else {
			line = fmt.Sprintf("  %s %s", sf.tag, coqStr(sf.key))
		}
		if i+1 < len(fields) {
			line += ";"
		}
		b.WriteString(fmt.Sprintf("%-40s (* %s *)\n", line, strings.ReplaceAll(sf.text, "*)", "* )")))
	}
	b.WriteString("].\n\n")
	b.WriteString("(* key added to the map only when the additional data map is non-empty *)\n")
	if adKey == "" {
		b.WriteString("Definition signed_additional_data : option string := None.\n\n")
	} else {
		b.WriteString(fmt.Sprintf("Definition signed_additional_data : option string := Some %s.   (* if %s *)\n\n", coqStr(adKey), adCond))
	}
	b.WriteString("(* fields of iface.Hashable as filled by ToHashable: (field, source) *)\n")
	b.WriteString("Definition hashable_fields : list (string * hashable_source) := [\n")
	srcTag := map[string]string{srcNil: "HS_nil", srcLogID: "HS_logid", srcPayload: "HS_payload", srcNextB58: "HS_next_b58",
		srcRefsB58: "HS_refs_b58", srcV: "HS_v", srcClock: "HS_clock", srcKey: "HS_key", srcAD: "HS_additional_data"}
	for i, h := range hfields {
		sep := ";"
		if i+1 == len(hfields) {
			sep = ""
		}
		b.WriteString(fmt.Sprintf("  (%s, %s)%s   (* %s *)\n", coqStr(h.name), srcTag[h.source], sep, h.text))
	}
	b.WriteString("].\n\n")
	b.WriteString("(* CreateEntryWithIO signs toBuffer(ToHashable(" + signedIn + ")); Entry.Verify checks toBuffer(ToHashable(" + verifiedIn + ")) *)\n")
	b.WriteString("Definition signing_chain : list (string * string) := [(\"CreateEntryWithIO\", " + coqStr(signedIn) + "); (\"Verify\", " + coqStr(verifiedIn) + ")].\n")
	keys := make([]string, 0, len(fields))
	for _, sf := range fields {
		keys = append(keys, sf.key)
	}
	sort.Strings(keys)
	b.WriteString("(* sorted keys: " + strings.Join(keys, " ") + " *)\n")
	if err := os.WriteFile(*out, []byte(b.String()), 0o644); err != nil {
		fmt.Fprintln(os.Stderr, "gensigned:", err)
		os.Exit(2)
	}
	fmt.Printf("gensigned: %d signed fields, additional data key %q, %d hashable fields\n", len(fields), adKey, len(hfields))
}
