module gensigned

go 1.22
