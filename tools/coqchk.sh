#!/bin/sh
# usage: tools/coqchk.sh   -- clean rebuild of the whole development in a scratch copy (outside /verif)
# followed by coqchk -silent -o over every module; the context summary goes to notes/coqchk_last.txt.
T=/root/scratch/coqchk_tree
rm -rf $T; mkdir -p $T
cd /verif/coq && cp -r Model Gen Proofs Props _CoqProject $T/ && cd $T || exit 2
find . -name "*.vo*" -o -name "*.glob" -o -name ".*.aux" | xargs rm -f
coq_makefile -f _CoqProject -o Makefile.coq >/dev/null && timeout 3000 make -f Makefile.coq -j8 > build.log 2>&1 || { echo "build failed"; tail -20 build.log; exit 1; }
mods=$(grep "\.v$" _CoqProject | sed 's/\.v$//; s/\//./g; s/^/IpfsLog./')
timeout 7200 coqchk -silent -o -Q . IpfsLog $mods > coqchk.log 2>&1
rc=$?
{ echo "coqchk -silent -o over $(echo $mods | wc -w) modules of /verif/coq at $(git -C /verif rev-parse --short HEAD) (scratch copy, clean rebuild): exit $rc"; sed -n '/CONTEXT SUMMARY/,$p' coqchk.log; } > /verif/notes/coqchk_last.txt
rm -rf $T
cat /verif/notes/coqchk_last.txt
