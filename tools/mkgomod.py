#!/usr/bin/env python3
"""Regenerate harness/go.mod and go.sum from /repo's (the harness builds against the current
working tree of /repo through a replace directive)."""
import re, sys, shutil, os
repo = os.environ.get("VERIF_REPO") or "/repo"
dst = sys.argv[1]
src = open(os.path.join(repo, "go.mod")).read()
blocks = re.findall(r"require \((.*?)\)", src, re.S)
out = ["module verifharness", "", "go 1.22", "", "require berty.tech/go-ipfs-log v0.0.0", "",
       "replace berty.tech/go-ipfs-log => " + repo, ""]
for b in blocks:
    out.append("require (" + b + ")\n")
new = "\n".join(out)
p = os.path.join(dst, "go.mod")
if not os.path.exists(p) or open(p).read() != new:
    open(p, "w").write(new)
shutil.copyfile(os.path.join(repo, "go.sum"), os.path.join(dst, "go.sum"))
