#!/bin/sh
# usage: tools/runmut.sh <dir with patch.diff> <prop> [<prop> ...]
# applies the seeded change to /repo, runs the given checks (quick), and undoes the change.
D=$(cd "$1" && pwd); shift
cd /repo || exit 1
if ! git diff --quiet; then echo "/repo has uncommitted changes"; exit 2; fi
git apply "$D/patch.diff" || { echo "patch does not apply"; exit 3; }
for P in "$@"; do
  (cd /verif && ./check $P 2>&1 | grep -v "conda" | tail -3)
done
git -C /repo checkout -- . && git -C /repo status --short
# evidence files must come from clean-tree runs: restore the committed ones
git -C /verif checkout -- evidence coq/Gen 2>/dev/null
