#!/usr/bin/env python3
"""Driver for the go-ipfs-log verification checks (see DESIGN.md section 5).

  ./check <Cxx> [--tier quick|thorough] [--replay FILE]

Steps: regenerate the generated model parts from /repo, (re)build the Coq development, check
that the property's theorem file compiled and list its assumptions, build and run the Go
correspondence harness against /repo's current working tree, evaluate the Coq model on the
recorded cases, decide, write evidence/<id>.json.
"""
import fcntl, glob, hashlib, json, os, re, shutil, subprocess, sys, time

ROOT = os.path.dirname(os.path.dirname(os.path.abspath(__file__)))
REPO = os.environ.get("VERIF_REPO") or "/repo"
COQ = os.path.join(ROOT, "coq")
WORK = os.path.join(ROOT, "work")
BIN = os.path.join(ROOT, "bin")
GOENV = dict(os.environ, GOFLAGS="-mod=mod", GOPROXY="off", GOSUMDB="off", GOTOOLCHAIN="local",
             CGO_ENABLED=os.environ.get("CGO_ENABLED", "1"))
NCPU = os.cpu_count() or 4

# properties whose harness runner needs the Go race detector: a second binary bin/harness-race is
# built with -race and used for them (GORACE sends the runtime's reports to <workdir>/race.<pid>,
# where the runner picks them up and turns them into monitor failures)
RACE_PROPS = {"C13", "C14"}

FORBIDDEN = re.compile(r"\b(Admitted|admit|Axiom|Axioms|Parameter|Parameters|Conjecture|Admit Obligations)\b|"
                       r"Unset Guard Checking|Unset Positivity Checking|Unset Universe Checking|bypass_check|"
                       r"-type-in-type|-impredicative-set")


def sh(cmd, cwd=None, env=None, timeout=None, stdout=None):
    """run, return (rc, output)"""
    p = subprocess.run(cmd, cwd=cwd, env=env, timeout=timeout, shell=isinstance(cmd, str),
                       stdout=subprocess.PIPE if stdout is None else stdout, stderr=subprocess.STDOUT)
    out = p.stdout.decode("utf-8", "replace") if p.stdout is not None else ""
    out = "\n".join(l for l in out.splitlines() if "conda.cli.condarc" not in l)
    return p.returncode, out


class Lock:
    def __enter__(self):
        os.makedirs(WORK, exist_ok=True)
        self.f = open(os.path.join(WORK, ".lock"), "w")
        fcntl.flock(self.f, fcntl.LOCK_EX)
        return self

    def __exit__(self, *a):
        fcntl.flock(self.f, fcntl.LOCK_UN)
        self.f.close()


# ---------------------------------------------------------------------------------------------
# generated model parts (translators)
def regenerate(log):
    """Run the Go translators over REPO; rewrite coq/Gen/*.v only when content changes.
    Returns list of (generator, problem) for generators that refused."""
    problems = []
    gens = sorted(glob.glob(os.path.join(ROOT, "tools", "gen*", "main.go")))
    for g in gens:
        d = os.path.dirname(g)
        name = os.path.basename(d)
        exe = os.path.join(BIN, name)
        rc, out = sh(["go", "build", "-o", exe, "."], cwd=d, env=GOENV, timeout=600)
        if rc != 0:
            problems.append((name, "translator does not build: " + out[-2000:]))
            continue
        target = os.path.join(COQ, "Gen", name[3:].capitalize() + ".v")
        tmp = target + ".new"
        rc, out = sh([exe, "-repo", REPO, "-out", tmp], timeout=120)
        log.write("== %s ==\n%s\n" % (name, out))
        if rc != 0:
            problems.append((name, "translator refused: " + out[-2000:]))
            if os.path.exists(tmp):
                os.remove(tmp)
            # no stale model part: what depended on the translation is not shown for this tree
            stub = "(* %s refused to translate the current /repo source; regenerated on the next run *)\nDefinition translator_refused : unit := tt.\n" % name
            if not os.path.exists(target) or open(target).read() != stub:
                open(target, "w").write(stub)
            continue
        if not os.path.exists(target) or open(target).read() != open(tmp).read():
            os.replace(tmp, target)
        else:
            os.remove(tmp)
    return problems


# ---------------------------------------------------------------------------------------------
# Coq build
def coq_sources():
    rc, out = sh("grep -v '^-' _CoqProject", cwd=COQ)
    return [l.strip() for l in out.splitlines() if l.strip().endswith(".v")]


def forbidden_scan():
    bad = []
    for f in coq_sources():
        txt = open(os.path.join(COQ, f)).read()
        # strip comments (non nested is enough for our sources; nested handled by loop)
        prev = None
        while prev != txt:
            prev = txt
            txt = re.sub(r"\(\*(?:(?!\(\*|\*\)).)*\*\)", " ", txt, flags=re.S)
        for m in FORBIDDEN.finditer(txt):
            bad.append("%s: %s" % (f, m.group(0)))
        # Variable/Hypothesis outside a section
        depth = 0
        for line in txt.splitlines():
            s = line.strip()
            if re.match(r"(Section|Module)\s+\w+", s) and not s.startswith("Module Type"):
                depth += 1
            elif re.match(r"End\s+\w+\s*\.", s):
                depth -= 1
            elif depth <= 0 and re.match(r"(Variable|Variables|Hypothesis|Hypotheses|Context)\b", s):
                bad.append("%s: %s outside a section" % (f, s.split()[0]))
    return bad


def write_coqproject():
    files = []
    for d in ("Model", "Gen", "Proofs", "Props"):
        files += sorted(os.path.relpath(f, COQ) for f in glob.glob(os.path.join(COQ, d, "*.v")))
    new = "-Q . IpfsLog\n" + "\n".join(files) + "\n"
    cp = os.path.join(COQ, "_CoqProject")
    if not os.path.exists(cp) or open(cp).read() != new:
        open(cp, "w").write(new)


def coq_build(log):
    """make -k the whole development.  Returns dict file.v -> error text for files that failed."""
    write_coqproject()
    mk = os.path.join(COQ, "Makefile.coq")
    cp = os.path.join(COQ, "_CoqProject")
    if not os.path.exists(mk) or os.path.getmtime(mk) < os.path.getmtime(cp):
        rc, out = sh(["coq_makefile", "-f", "_CoqProject", "-o", "Makefile.coq"], cwd=COQ)
        if rc != 0:
            raise RuntimeError("coq_makefile failed: " + out)
    rc, out = sh(["timeout", "3000", "make", "-f", "Makefile.coq", "-k", "-j%d" % NCPU], cwd=COQ, timeout=3100)
    log.write(out + "\n")
    failed = {}
    if rc != 0:
        # File "./Proofs/X.v", line 12, characters 3-9:\nError: ...
        for m in re.finditer(r'File "\./([^"]+\.v)", line (\d+), characters [^\n]*\nError:(.*?)(?=\nmake|\nFile "|\Z)', out, re.S):
            failed.setdefault(m.group(1), "line %s: %s" % (m.group(2), " ".join(m.group(3).split())[:400]))
        if not failed:
            failed["<build>"] = out[-1500:]
    return failed


def theorem_names(prop):
    src = open(os.path.join(COQ, "Props", prop + ".v")).read()
    return re.findall(r"^\s*(?:Theorem|Example)\s+(\w+)", src, re.M)


def deps_of(vfile):
    """transitive IpfsLog dependencies of a .v file (by scanning Require lines)"""
    seen, todo = set(), [vfile]
    while todo:
        f = todo.pop()
        if f in seen or not os.path.exists(os.path.join(COQ, f)):
            continue
        seen.add(f)
        txt = open(os.path.join(COQ, f)).read()
        txt_nc = re.sub(r"\(\*.*?\*\)", " ", txt, flags=re.S)
        for m in re.finditer(r"From\s+IpfsLog\s+Require\s+(?:Import\s+|Export\s+)?((?:[A-Za-z_]\w*(?:\.[A-Za-z_]\w*)*\s*)+)\.(?:\s|$)", txt_nc):
            for mod in m.group(1).split():
                todo.append(mod.replace(".", "/") + ".v")
    return seen


def print_assumptions(prop, names, workdir):
    """coqc a tiny file printing the assumptions of every theorem of the property."""
    f = os.path.join(workdir, "Assum_%s.v" % prop)
    with open(f, "w") as fh:
        fh.write("From IpfsLog Require Import Props.%s.\n" % prop)
        for n in names:
            fh.write('Goal True. idtac "@@ %s". Abort.\nPrint Assumptions %s.\n' % (n, n))
    rc, out = sh(["timeout", "600", "coqc", "-Q", COQ, "IpfsLog", f], cwd=workdir, timeout=700)
    res = {}
    cur = None
    for line in out.splitlines():
        if line.startswith("@@ "):
            cur = line[3:].strip()
            res[cur] = []
        elif cur is not None and line.strip():
            res[cur].append(line.rstrip())
    if rc != 0:
        return None, out
    return res, out


# ---------------------------------------------------------------------------------------------
# harness
def build_harness(log, race=False):
    hd = os.path.join(ROOT, "harness")
    rc, out = sh([sys.executable, os.path.join(ROOT, "tools", "mkgomod.py"), hd], env=GOENV)
    if rc != 0:
        return "mkgomod failed: " + out
    cmd = ["go", "build", "-tags", "verif", "-o", os.path.join(BIN, "harness"), "."]
    if race:
        cmd = ["go", "build", "-race", "-tags", "verif", "-o", os.path.join(BIN, "harness-race"), "."]
    rc, out = sh(cmd, cwd=hd, env=GOENV, timeout=1800)
    log.write(out + "\n")
    if rc != 0:
        return "harness (or /repo with -tags verif) does not build%s:\n" % (" with -race" if race else "") + out[-3000:]
    return None


def run_harness(prop, seed, tier, workdir, log, extra=None, timeout=3000):
    race = prop in RACE_PROPS
    cmd = [os.path.join(BIN, "harness-race" if race else "harness"), "-prop", prop, "-seed", str(seed), "-tier", tier, "-out", workdir]
    if extra:
        cmd += extra
    env = GOENV
    if race:
        env = dict(GOENV, GORACE="halt_on_error=0 exitcode=0 log_path=%s/race" % workdir)
    with open(os.path.join(workdir, "harness.out"), "w") as fh:
        try:
            p = subprocess.run(cmd, stdout=fh, stderr=subprocess.STDOUT, timeout=timeout, env=env)
            rc = p.returncode
        except subprocess.TimeoutExpired:
            rc = -9
    rj = os.path.join(workdir, "result.json")
    if rc != 0 or not os.path.exists(rj):
        tail = open(os.path.join(workdir, "harness.out"), errors="replace").read()[-3000:]
        return None, "harness exited %s\n%s" % (rc, tail)
    return json.load(open(rj)), None


def implementation_crash(prop, workdir):
    """The harness process died.  If the goroutine that panicked (or hit a fatal runtime error) was
    running library code only - no frame of the harness (package main) in its stack - the crash is
    the implementation's: return it as a violation whose failing input is the case the harness had
    announced in current_case.json."""
    try:
        out = open(os.path.join(workdir, "harness.out"), errors="replace").read()
    except OSError:
        return None
    m = re.search(r"^(panic: .*|fatal error: .*)$", out, re.M)
    if not m:
        return None
    g = re.search(r"^goroutine \d+ \[[^\]]*\]:\n(.*?)(?:\n\n|\Z)", out[m.start():], re.M | re.S)
    if not g:
        return None
    stack = g.group(1)
    frames = [l for l in stack.splitlines() if l and not l.startswith("\t")]
    if any(f.startswith("main.") for f in frames):
        # the harness called into the library on this goroutine.  A panic there may be the harness's
        # own doing (it is recovered and judged by the monitors instead); an unsynchronised map
        # access detected by the runtime is not: the faulting access is the top frame, and when that
        # frame is the library's, the library touched one of its maps without its lock.
        top = next((f for f in frames if not f.startswith("runtime.") and not f.startswith("internal/")), "")
        if not (m.group(1).startswith("fatal error: concurrent map") and top.startswith("berty.tech/go-ipfs-log")):
            return None
    if "berty.tech/go-ipfs-log" not in stack:
        return None
    case = None
    try:
        case = json.load(open(os.path.join(workdir, "current_case.json")))
    except (OSError, ValueError):
        pass
    return {"property": prop, "monitor": "no-crash", "key": "%s:process-crash" % prop,
            "detail": "the process crashed inside the library while the harness was running the case below: %s\n%s" % (m.group(1), stack[:1500]),
            "case": case}


def run_cases(case_files, workdir, log):
    """coqc every case file in parallel; returns (mismatches, errors)
    mismatches: list of dict(file, list, index, label)"""
    procs = []
    mism, errs = [], []
    pending = list(case_files)
    running = []

    def start(cf):
        return subprocess.Popen(["timeout", "1500", "coqc", "-Q", COQ, "IpfsLog", cf["file"]], cwd=workdir,
                                stdout=subprocess.PIPE, stderr=subprocess.STDOUT)
    while pending or running:
        while pending and len(running) < NCPU:
            cf = pending.pop(0)
            running.append((cf, start(cf)))
        cf, p = running.pop(0)
        out = p.communicate()[0].decode("utf-8", "replace")
        out = "\n".join(l for l in out.splitlines() if "conda.cli.condarc" not in l)
        if p.returncode != 0:
            errs.append("%s: coqc failed: %s" % (cf["file"], out[-800:]))
            continue
        m = re.search(r"M\s*=\s*(.*?)\n\s*:", out, re.S)
        if not m:
            errs.append("%s: no M in output: %s" % (cf["file"], out[-400:]))
            continue
        body = " ".join(m.group(1).split())
        # body is a tuple of lists of nat: ([..], [..], ...)
        lists = re.findall(r"\[([^\]]*)\]", body)
        for li, l in enumerate(lists):
            if li >= len(cf["lists"]):
                break
            for idx in [x for x in re.split(r"[;\s]+", l.strip()) if x]:
                i = int(idx.replace("%nat", ""))
                labels = cf["lists"][li]["labels"]
                mism.append({"file": os.path.basename(cf["file"]), "list": cf["lists"][li]["name"], "index": i,
                             "label": labels[i] if i < len(labels) else "?"})
    return mism, errs


# ---------------------------------------------------------------------------------------------
def load_known():
    p = os.path.join(ROOT, "known_findings.json")
    if not os.path.exists(p):
        return {"findings": [], "fixed": []}
    return json.load(open(p))


def main():
    import argparse
    ap = argparse.ArgumentParser()
    ap.add_argument("prop")
    ap.add_argument("--tier", default=os.environ.get("VERIF_TIER", "quick"))
    ap.add_argument("--replay", default=None)
    args = ap.parse_args()
    prop = args.prop
    tier = args.tier if args.tier in ("quick", "thorough") else "quick"
    try:
        seed = int(os.environ.get("VERIF_SEED", "1"))
    except ValueError:
        seed = 1
    t0 = time.time()
    workdir = os.path.join(WORK, prop)
    os.makedirs(workdir, exist_ok=True)
    for f in glob.glob(os.path.join(workdir, "*")):
        if os.path.isfile(f):
            os.remove(f)
    os.makedirs(os.path.join(ROOT, "evidence"), exist_ok=True)
    os.makedirs(os.path.join(ROOT, "replays"), exist_ok=True)
    os.makedirs(BIN, exist_ok=True)
    log = open(os.path.join(workdir, "check.log"), "w")

    broken = []       # (what, detail): proof obligations or ties that no longer check
    violations = []   # monitor failures on the real code not covered by known findings
    known_hits = {}   # finding id -> description
    obligations = theorem_names(prop) if os.path.exists(os.path.join(COQ, "Props", prop + ".v")) else []
    discharged = 0
    assumptions = {}
    trusted = []

    with Lock():
        # 1. generated parts
        gen_problems = regenerate(log)
        # 2. Coq
        bad = forbidden_scan()
        for b in bad:
            broken.append(("forbidden-construct", b))
        failed = coq_build(log)
        deps = deps_of("Props/%s.v" % prop)
        for name, problem in gen_problems:
            # a translator that refuses breaks the tie only for properties built on its output
            if ("Gen/%s.v" % name[3:].capitalize()) in deps:
                broken.append(("translator:" + name, problem))
        prop_failed = {f: e for f, e in failed.items() if f in deps or f == "<build>"}
        if prop_failed:
            for f, e in prop_failed.items():
                broken.append(("theorem-file:" + f, e))
        elif obligations:
            assumptions, raw = print_assumptions(prop, obligations, workdir)
            if assumptions is None:
                broken.append(("print-assumptions", raw[-1500:]))
                assumptions = {}
            else:
                discharged = len([n for n in obligations if n in assumptions])
                if discharged != len(obligations):
                    missing = [n for n in obligations if n not in assumptions]
                    broken.append(("print-assumptions", "no Print Assumptions report for %s" % ", ".join(missing)))
        # 3. harness
        err = build_harness(log, race=prop in RACE_PROPS)
    res = None
    mism, case_errs = [], []
    if err:
        broken.append(("harness-build", err))
    else:
        extra = ["-replay", args.replay] if args.replay else None
        res, herr = run_harness(prop, seed, tier, workdir, log, extra)
        if herr:
            crash = implementation_crash(prop, workdir)
            if crash:
                violations.append(crash)
            broken.append(("harness-run", herr))
        else:
            # 4. model on the recorded cases
            if not any(w.startswith("theorem-file:Model") for w, _ in broken):
                mism, case_errs = run_cases((res.get("case_files") or []), workdir, log)
                for e in case_errs:
                    broken.append(("model-evaluation", e))

    # 5. verdict
    known = load_known()
    kf = [k for k in known.get("findings", []) if k["property"] == prop]
    for f in ((res or {}).get("failures") or []):
        hit = None
        for k in kf:
            if re.fullmatch(k["key_regex"], f.get("key", "")):
                hit = k
                break
        if hit:
            known_hits.setdefault(hit["id"], hit["what"])
        else:
            violations.append(f)
    for m in mism:
        if m["list"].endswith("_wf"):
            broken.append(("hypotheses", "a history the harness ran is outside the theorems' well-formedness hypothesis (wfb = false) %s[%d]: %s" % (m["list"], m["index"], m["label"][:600])))
        else:
            broken.append(("correspondence", "model and implementation disagree on %s[%d]: %s" % (m["list"], m["index"], m["label"][:600])))

    axioms = set()
    for n, lines in assumptions.items():
        txt = " ".join(lines)
        if "Closed under the global context" in txt:
            continue
        for l in lines:
            mm = re.match(r"^(\S+)\s*:", l)
            if mm and mm.group(1) not in ("Axioms", "Section"):
                axioms.add(mm.group(1))
    trusted = ["Coq 8.16.1 kernel (coqc, full .vo build, no -vos); vm_compute for finite table checks and witnesses",
               "axioms reported by Print Assumptions over %d theorems: %s" % (len(assumptions), ", ".join(sorted(axioms)) or "none (closed under the global context; section hypotheses are explicit premises)"),
               "correspondence harness (Go, stub DAG store) and rank canonicalisation; hand-written Gallina model tied by differential execution"]

    exit_code = 0
    lines = []
    for kid, what in known_hits.items():
        lines.append("KNOWN-FINDING: property=%s %s" % (prop, what))
    replay_path = None
    if violations:
        v = violations[0]
        h = hashlib.sha1(json.dumps(v, sort_keys=True, default=str).encode()).hexdigest()[:10]
        replay_path = os.path.join(ROOT, "replays", "%s-%s.json" % (prop, h))
        json.dump({"property": prop, "kind": "failing-input", "seed": seed, "tier": tier, "violation": v,
                   "all_violations": violations[:20]}, open(replay_path, "w"), indent=1, default=str)
        lines.append("VIOLATION property=%s replay=%s" % (prop, replay_path))
        exit_code = 1
    elif broken:
        h = hashlib.sha1(json.dumps(broken, sort_keys=True).encode()).hexdigest()[:10]
        replay_path = os.path.join(ROOT, "replays", "%s-broken-%s.json" % (prop, h))
        json.dump({"property": prop, "kind": "obligation-or-tie-broken", "seed": seed, "tier": tier,
                   "broken": [{"what": w, "detail": d} for w, d in broken],
                   "note": "no failing input was found on the implementation by this run's monitors"},
                  open(replay_path, "w"), indent=1)
        lines.append("VIOLATION property=%s replay=%s no-failing-input-found" % (prop, replay_path))
        exit_code = 1

    wall = time.time() - t0
    cov = {
        "obligations": max(len(obligations), 1) if obligations else 0,
        "discharged": discharged,
        "checker_cmd": "make -C coq -f Makefile.coq -k (coqc 8.16.1 full build) ; coqc Assum_%s.v (Print Assumptions)" % prop,
        "trusted_base": trusted,
        "theorems": obligations,
        "evaluations": (res or {}).get("evaluations", 0),
        "distinct_nontrivial": (res or {}).get("distinct_nontrivial", 0),
        "rule": (res or {}).get("rule", ""),
        "samples": (res or {}).get("samples", []) or ["(no harness cases)"],
        "model_cases_compared": (res or {}).get("model_cases", 0),
        "model_mismatches": len(mism),
        "monitor_failures": len(((res or {}).get("failures") or [])),
        "known_findings_hit": sorted(known_hits.keys()),
        "stats": (res or {}).get("stats", {}),
        "broken": [{"what": w, "detail": d[:500]} for w, d in broken],
    }
    if not obligations:
        cov.pop("obligations"); cov.pop("discharged")
    ev = {
        "property_id": prop, "tier": tier, "seed": seed, "level": "proof", "coverage": cov,
        "assumptions": ["see DESIGN.md section 7", "distinct blocks have distinct CIDs (SHA-256)"],
        "wall_s": round(wall, 2), "violations": len(violations) + (1 if (broken and not violations) else 0),
    }
    json.dump(ev, open(os.path.join(ROOT, "evidence", prop + ".json"), "w"), indent=1, default=str)
    for l in lines:
        print(l)
    print("check %s tier=%s seed=%d: theorems %d/%d, harness evaluations %s, model cases %s, mismatches %d, monitor failures %d (known %d), %.1fs"
          % (prop, tier, seed, discharged, len(obligations), cov["evaluations"], cov["model_cases_compared"], len(mism),
             cov["monitor_failures"], len(known_hits), wall))
    sys.exit(exit_code)


if __name__ == "__main__":
    main()
