package main

// C18: with a link key, stored blocks never reveal the log's structure; readers with the key
// recover the links and can verify and merge the entries.
//
// Monitors on the real implementation (raw bytes scanned for every link in binary, base32 and
// base58 form; node.Links(); readers with the same / no / another key; Entry.Verify; Join), plus
// model cases for Model/Check18.v (NonceRefForEntry, the stored block, clear-part independence).

import (
	"bytes"
	"context"
	"fmt"
	"math/rand"
	"reflect"
	"strings"

	"github.com/ipfs/go-cid"
	cbornode "github.com/ipfs/go-ipld-cbor"
	"github.com/multiformats/go-multibase"

	ipfslog "berty.tech/go-ipfs-log"
	"berty.tech/go-ipfs-log/enc"
	"berty.tech/go-ipfs-log/entry"
	idp "berty.tech/go-ipfs-log/identityprovider"
	"berty.tech/go-ipfs-log/iface"
	"berty.tech/go-ipfs-log/io/cbor"
)

func init() { register("C18", runC18) }

// every textual / binary form under which a link could show up in a block
func c18Forms(c cid.Cid) map[string][]byte {
	out := map[string][]byte{"binary": c.Bytes(), "multihash": []byte(c.Hash()), "string": []byte(c.String())}
	for name, base := range map[string]multibase.Encoding{"base32": multibase.Base32, "base58btc": multibase.Base58BTC, "base64": multibase.Base64, "base16": multibase.Base16} {
		if s, err := multibase.Encode(base, c.Bytes()); err == nil {
			out[name] = []byte(s)
			out[name+"-noprefix"] = []byte(s[1:])
		}
	}
	out["b58-multihash"] = []byte(c.Hash().B58String())
	return out
}

func c18CidText(cs ...[]cid.Cid) string {
	seen := map[string]bool{}
	var parts []string
	for _, l := range cs {
		for _, c := range l {
			if !seen[c.KeyString()] {
				seen[c.KeyString()] = true
				parts = append(parts, fmt.Sprintf("(%s, %s)", c08Bytes(c.Bytes()), c08Bytes([]byte(c.String()))))
			}
		}
	}
	return "[" + strings.Join(parts, "; ") + "]"
}

func runC18(seed int64, tier string, outDir string) *result {
	rng := rand.New(rand.NewSource(seed))
	ctx := context.Background()
	res := &result{Property: "C18", Seed: seed, Tier: tier, Stats: map[string]interface{}{}}
	stats := map[string]int{}
	shapes := map[string]struct{}{}
	fail := func(mon, key, detail string, c interface{}) {
		stats["failure:"+key]++
		if len(res.Failures) < 40 {
			res.Failures = append(res.Failures, monitorFailure{Property: "C18", Monitor: mon, Detail: detail, Case: c, Key: key})
		}
	}

	dio, err := cbor.IO(&entry.Entry{}, &entry.LamportClock{})
	if err != nil {
		panic(err)
	}
	keyBytes := make([]byte, 32)
	rng.Read(keyBytes)
	// the writer builds its key from a scratch buffer and wipes the buffer afterwards (ordinary key
	// hygiene); the reader "with the same key" is another codec instance with an equal key
	scratch := append([]byte{}, keyBytes...)
	key, _ := enc.NewSecretbox(scratch)
	for i := range scratch {
		scratch[i] = 0
	}
	readerKey, _ := enc.NewSecretbox(append([]byte{}, keyBytes...))
	other := append([]byte{}, keyBytes...)
	other[0] ^= 0x80
	otherKey, _ := enc.NewSecretbox(other)
	zeroKey, _ := enc.NewSecretbox(make([]byte, 32))
	lio := dio.ApplyOptions(&cbor.Options{LinkKey: key})
	rio := dio.ApplyOptions(&cbor.Options{LinkKey: readerKey})
	oio := dio.ApplyOptions(&cbor.Options{LinkKey: otherKey})
	zio := dio.ApplyOptions(&cbor.Options{LinkKey: zeroKey})
	idents := c08Identities("c18-a", "c18-b")
	provider := idents[0].Provider
	api, d := newAPI()

	nrefList := &caseList{name: "nref_cases", typ: "nref_case", checker: "mismatches_nref"}
	blockList := &caseList{name: "block_cases", typ: "block_case", checker: "mismatches_block"}
	pairList := &caseList{name: "pair_cases", typ: "pair_case", checker: "mismatches_pair"}

	nEntries := 40
	if tier == "thorough" {
		nEntries = 400
	}

	// the monitors for one block written with the key
	checkBlock := func(kind string, oe *entry.Entry, links []cid.Cid) {
		presigned := strings.HasPrefix(kind, "presigned")
		res.Evaluations++
		raw := d.raw(oe.Hash)
		desc := c08Describe(kind, "link", oe, oe.Hash, raw)
		// (a) no identifier of a link anywhere in the bytes
		for _, l := range links {
			for form, b := range c18Forms(l) {
				if len(b) >= 8 && bytes.Contains(raw, b) {
					fail("scan", "C18:link-in-clear", fmt.Sprintf("the block contains link %s in %s form", l, form), desc)
				}
			}
		}
		// (b) no traversable link
		node, err := api.Dag().Get(ctx, oe.Hash)
		if err != nil {
			fail("links", "C18:block-unreadable", err.Error(), desc)
			return
		}
		if n := len(node.Links()); n != 0 {
			fail("links", "C18:traversable-link", fmt.Sprintf("node.Links() has %d items", n), desc)
		}
		// (b') the sealed entry re-stored through the public Entry.ToMultihash (default codec, as a
		//      key-less relay or pinner would do) must not expose its links either
		if rc, err := oe.ToMultihash(ctx, api, nil); err == nil {
			rraw := d.raw(rc)
			for _, l := range links {
				for form, b := range c18Forms(l) {
					if len(b) >= 8 && bytes.Contains(rraw, b) {
						fail("scan", "C18:link-in-clear", fmt.Sprintf("re-stored through Entry.ToMultihash: the block contains link %s in %s form", l, form), desc)
					}
				}
			}
			if rn, err := api.Dag().Get(ctx, rc); err == nil && len(rn.Links()) != 0 {
				fail("links", "C18:traversable-link", fmt.Sprintf("re-stored through Entry.ToMultihash: node.Links() has %d items", len(rn.Links())), desc)
			}
		}
		// (c) readers
		same, err := entry.FromMultihashWithIO(ctx, api, oe.Hash, provider, rio)
		if err != nil {
			fail("readers", "C18:same-key-read-error", err.Error(), desc)
			return
		}
		if a, _ := c08CidsEqual(oe.Next, same.GetNext()); !a {
			fail("readers", "C18:same-key-links-differ", "next differs for a reader with the same key", desc)
		}
		if a, _ := c08CidsEqual(oe.Refs, same.GetRefs()); !a {
			fail("readers", "C18:same-key-links-differ", "refs differs for a reader with the same key", desc)
		}
		// (b'') the entry as a reader with the key LOADED it, stored again - into another store through the
		//       keyed codec (a replicator), and through the public Entry.ToMultihash: no link in clear either
		{
			api2, d2 := newAPI()
			for how, store := range []func() (cid.Cid, error){
				func() (cid.Cid, error) { return entry.ToMultihashWithIO(ctx, same, api2, nil, rio) },
				func() (cid.Cid, error) { return same.(*entry.Entry).ToMultihash(ctx, api2, nil) },
			} {
				rc, err := store()
				if err != nil {
					continue
				}
				what := []string{"loaded with the key and stored again through the keyed codec", "loaded with the key and stored again through Entry.ToMultihash"}[how]
				rraw := d2.raw(rc)
				for _, l := range links {
					for form, b := range c18Forms(l) {
						if len(b) >= 8 && bytes.Contains(rraw, b) {
							fail("scan", "C18:link-in-clear", fmt.Sprintf("%s: the block contains link %s in %s form", what, l, form), desc)
						}
					}
				}
				if rn, err := api2.Dag().Get(ctx, rc); err == nil && len(rn.Links()) != 0 {
					fail("links", "C18:traversable-link", fmt.Sprintf("%s: node.Links() has %d items", what, len(rn.Links())), desc)
				}
				stats["loaded-entries-stored-again"]++
			}
		}
		nokey, err := entry.FromMultihashWithIO(ctx, api, oe.Hash, provider, dio)
		if err != nil {
			fail("readers", "C18:no-key-read-error", err.Error(), desc)
		} else if len(nokey.GetNext()) != 0 || len(nokey.GetRefs()) != 0 {
			fail("readers", "C18:no-key-links-visible", "a reader without key obtains links", desc)
		}
		ok, err := entry.FromMultihashWithIO(ctx, api, oe.Hash, provider, oio)
		if len(links) > 0 {
			if err == nil && (len(ok.GetNext()) != 0 || len(ok.GetRefs()) != 0) {
				fail("readers", "C18:other-key-links-visible", "a reader with another key obtains links", desc)
			}
			if err == nil {
				stats["other-key-read-without-error"]++
			} else {
				stats["other-key-read-error"]++
			}
		}
		if zk, err := entry.FromMultihashWithIO(ctx, api, oe.Hash, provider, zio); len(links) > 0 && err == nil && (len(zk.GetNext()) != 0 || len(zk.GetRefs()) != 0) {
			fail("readers", "C18:other-key-links-visible", "a reader with the all-zero key obtains links", desc)
		}
		if presigned {
			// written without its signature (CreateEntryOptions.PreSigned): the secrecy clauses apply, verification does not
			stats["presigned-blocks"]++
			return
		}
		// (d) verification: the entry as created and as read back with the key
		if len(links) > 0 {
			stats["entries-with-links"]++
		}
		if err := oe.Verify(provider, lio); err != nil {
			key := "C18:entry-does-not-verify"
			if len(links) > 0 {
				key = "C18:link-entry-does-not-verify"
			}
			fail("verify", key, "created entry: "+err.Error(), desc)
		}
		if err := same.(*entry.Entry).Verify(provider, rio); err != nil {
			key := "C18:entry-does-not-verify"
			if len(links) > 0 {
				key = "C18:link-entry-does-not-verify"
			}
			fail("verify", key, "entry read back with the key: "+err.Error(), desc)
		}
		// model cases
		blockList.add(fmt.Sprintf("Build_block_case %s %s", c08Entry(oe), c08Bytes(raw)), kind+" "+oe.Hash.String())
		se := same.(*entry.Entry)
		nrefList.add(fmt.Sprintf("Build_nref_case %s %s %s", c08Entry(se), c18CidText(se.Next), c08Bytes(cbor.NonceRefForEntry(se))), "nonce ref of "+oe.Hash.String())
		if len(res.Samples) < 4 {
			res.Samples = append(res.Samples, desc)
		}
	}

	// ---- directly created entries with 0..k links ----
	for n := 0; n < nEntries; n++ {
		p, pc := c08Payload(rng)
		if len(p) > 2000 {
			p = p[:2000]
		}
		if len(p) == 0 {
			p = []byte("x")
		}
		next, nc := c08CidList(rng, 5)
		refs, rc := c08CidList(rng, 30)
		shapes["direct,p:"+pc+",n:"+nc+",r:"+rc] = struct{}{}
		in := &entry.Entry{Payload: p, LogID: "c18", Next: next, Refs: refs}
		if rng.Intn(2) == 0 {
			in.Clock = entry.NewLamportClock(idents[0].PublicKey, c08Times[rng.Intn(14)])
		}
		id := idents[rng.Intn(len(idents))]
		out, err := entry.CreateEntryWithIO(ctx, api, id, in, nil, lio)
		if err != nil {
			fail("write", "C18:write-error", err.Error(), c08Describe("direct", "link", in, cid.Undef, nil))
			continue
		}
		oe := out.(*entry.Entry)
		var links []cid.Cid
		links = append(append(links, oe.Next...), oe.Refs...)
		checkBlock("direct", oe, links)
		if n%3 == 0 {
			// the same kind of entry stored through the PreSigned path of the keyed codec
			pin := &entry.Entry{Payload: append([]byte("ps-"), p...), LogID: "c18", Next: next, Refs: refs, Clock: in.Clock}
			if pout, err := entry.CreateEntryWithIO(ctx, api, id, pin, &iface.CreateEntryOptions{PreSigned: true}, lio); err == nil {
				pe := pout.(*entry.Entry)
				var pl []cid.Cid
				pl = append(append(pl, pe.Next...), pe.Refs...)
				checkBlock("presigned", pe, pl)
			}
		}

		// an entry made from a template that already carries sealed links (a copy of a stored entry,
		// re-parented): what is stored seals the NEW links, not the template's
		if n%5 == 0 && len(links) > 0 {
			tpl := oe.Copy().(*entry.Entry)
			tpl.Payload = append([]byte("tpl-"), p...)
			tpl.Next = []cid.Cid{c08Cid(rng, false), c08Cid(rng, true)}
			tpl.Refs = []cid.Cid{c08Cid(rng, false)}
			tpl.Sig = nil
			tpl.Hash = cid.Undef
			if tout, err := entry.CreateEntryWithIO(ctx, api, id, tpl, nil, lio); err == nil {
				te := tout.(*entry.Entry)
				var tl []cid.Cid
				tl = append(append(tl, te.Next...), te.Refs...)
				checkBlock("from-template", te, tl)
			}
		}

		// clear-part independence: the same entry with other links
		if n%4 == 0 {
			in2 := &entry.Entry{Payload: p, LogID: "c18", Next: []cid.Cid{c08Cid(rng, false), c08Cid(rng, true)}, Refs: []cid.Cid{c08Cid(rng, false)}, Clock: in.Clock}
			in1 := &entry.Entry{Payload: p, LogID: "c18", Next: []cid.Cid{c08Cid(rng, false)}, Clock: in.Clock}
			o1, err1 := entry.CreateEntryWithIO(ctx, api, id, in1, nil, lio)
			o2, err2 := entry.CreateEntryWithIO(ctx, api, id, in2, nil, lio)
			res.Evaluations++
			if err1 != nil || err2 != nil {
				fail("write", "C18:write-error", fmt.Sprint(err1, err2), nil)
				continue
			}
			r1, r2 := d.raw(o1.GetHash()), d.raw(o2.GetHash())
			var m1, m2 map[string]interface{}
			if cbornode.DecodeInto(r1, &m1) != nil || cbornode.DecodeInto(r2, &m2) != nil {
				fail("clear-part", "C18:block-unreadable", "generic decode failed", nil)
				continue
			}
			// two entries that differ only in their links never share a nonce (a shared nonce under one key
			// would let an observer XOR the two sealed link lists)
			if n1, n2 := fmt.Sprint(m1["enc_links_nonce"]), fmt.Sprint(m2["enc_links_nonce"]); n1 == n2 {
				fail("clear-part", "C18:nonce-reuse", "two entries with the same payload and clock but different links are sealed under the same nonce", c08Describe("pair", "link", o1.(*entry.Entry), o1.GetHash(), r1))
			}
			for _, k := range []string{"enc_links", "enc_links_nonce", "sig"} {
				delete(m1, k)
				delete(m2, k)
			}
			if !reflect.DeepEqual(m1, m2) || len(m1) < 8 {
				fail("clear-part", "C18:clear-part-depends-on-links", fmt.Sprintf("clear fields differ: %v vs %v", m1, m2), c08Describe("pair", "link", o1.(*entry.Entry), o1.GetHash(), r1))
			}
			pairList.add(fmt.Sprintf("Build_pair_case %s %s", c08Bytes(r1), c08Bytes(r2)), "pair "+o1.GetHash().String()+" "+o2.GetHash().String())
		}
	}

	// ---- an entry with several hundred links (an append on a log with many un-merged heads) ----
	{
		var many []cid.Cid
		for i := 0; i < 320; i++ {
			many = append(many, c08Cid(rng, false))
		}
		in := &entry.Entry{Payload: []byte("many-links"), LogID: "c18", Next: many, Refs: many[:40]}
		if out, err := entry.CreateEntryWithIO(ctx, api, idents[0], in, nil, lio); err != nil {
			fail("write", "C18:write-error", "entry with 320 links: "+err.Error(), nil)
		} else {
			oe := out.(*entry.Entry)
			var links []cid.Cid
			links = append(append(links, oe.Next...), oe.Refs...)
			checkBlock("many-links", oe, links)
		}
	}

	// ---- logs written with the key: every block, then merge into another log with the same key ----
	nLogs := 3
	if tier == "thorough" {
		nLogs = 12
	}
	for n := 0; n < nLogs; n++ {
		res.Evaluations++
		la, err := ipfslog.NewLog(api, idents[0], &ipfslog.LogOptions{ID: "c18log", IO: lio})
		if err != nil {
			panic(err)
		}
		lb, _ := ipfslog.NewLog(api, idents[1], &ipfslog.LogOptions{ID: "c18log", IO: lio})
		k := 2 + rng.Intn(6)
		var all []iface.IPFSLogEntry
		for i := 0; i < k; i++ {
			e, err := la.Append(ctx, []byte(fmt.Sprintf("a-%d-%d", n, i)), &iface.AppendOptions{PointerCount: 1 + rng.Intn(4)})
			if err != nil {
				fail("write", "C18:write-error", "Append: "+err.Error(), nil)
				break
			}
			all = append(all, e)
		}
		shapes[fmt.Sprintf("log,len:%d", minC18(k, 4))] = struct{}{}
		for _, e := range all {
			oe := e.(*entry.Entry)
			var links []cid.Cid
			links = append(append(links, oe.Next...), oe.Refs...)
			checkBlock("appended", oe, links)
		}
		// merge with the same key
		if _, err := lb.Join(la, -1); err != nil {
			fail("merge", "C18:link-entry-does-not-verify", "Join of a log written with the same link key: "+err.Error(), c08Case{Kind: "join", Note: fmt.Sprintf("log of %d entries", k)})
		} else if lb.Len() != la.Len() {
			fail("merge", "C18:merge-incomplete", fmt.Sprintf("joined %d of %d entries", lb.Len(), la.Len()), c08Case{Kind: "join"})
		}
		// load from the head with the same key, then merge the loaded log
		if len(all) > 0 {
			lc, err := ipfslog.NewFromEntryHash(ctx, api, idents[1], all[len(all)-1].GetHash(), &ipfslog.LogOptions{ID: "c18log", IO: lio}, &ipfslog.FetchOptions{})
			if err != nil {
				fail("merge", "C18:load-error", err.Error(), c08Case{Kind: "load"})
			} else {
				if lc.Len() != len(all) {
					fail("merge", "C18:load-incomplete", fmt.Sprintf("loaded %d of %d entries with the same key", lc.Len(), len(all)), c08Case{Kind: "load"})
				}
				ld, _ := ipfslog.NewLog(api, idents[0], &ipfslog.LogOptions{ID: "c18log", IO: lio})
				if _, err := ld.Join(lc, -1); err != nil {
					fail("merge", "C18:link-entry-does-not-verify", "Join of a log loaded from the store with the same key: "+err.Error(), c08Case{Kind: "join-loaded"})
				}
			}
			// the log re-opened through each loader with the keyed codec in LogOptions.IO (the normal way):
			// what is appended to the re-opened log must be sealed like everything else
			reopen := map[string]func() (*ipfslog.IPFSLog, error){
				"reopened-entryhash": func() (*ipfslog.IPFSLog, error) {
					return ipfslog.NewFromEntryHash(ctx, api, idents[0], all[len(all)-1].GetHash(), &ipfslog.LogOptions{ID: "c18log", IO: lio}, &ipfslog.FetchOptions{})
				},
				"reopened-json": func() (*ipfslog.IPFSLog, error) {
					return ipfslog.NewFromJSON(ctx, api, idents[0], la.ToJSONLog(), &ipfslog.LogOptions{ID: "c18log", IO: lio}, &entry.FetchOptions{})
				},
				"reopened-entry": func() (*ipfslog.IPFSLog, error) {
					return ipfslog.NewFromEntry(ctx, api, idents[0], la.Heads().Slice(), &ipfslog.LogOptions{ID: "c18log", IO: lio}, &entry.FetchOptions{})
				},
				"reopened-multihash": func() (*ipfslog.IPFSLog, error) {
					mh, err := la.ToMultihash(ctx)
					if err != nil {
						return nil, err
					}
					return ipfslog.NewFromMultihash(ctx, api, idents[0], mh, &ipfslog.LogOptions{ID: "c18log", IO: lio}, &ipfslog.FetchOptions{})
				},
			}
			for _, how := range []string{"reopened-entryhash", "reopened-json", "reopened-entry", "reopened-multihash"} {
				lr, err := reopen[how]()
				if err != nil {
					fail("merge", "C18:load-error", how+": "+err.Error(), c08Case{Kind: how})
					continue
				}
				ne, err := lr.Append(ctx, []byte(fmt.Sprintf("%s-%d", how, n)), &iface.AppendOptions{PointerCount: 2})
				if err != nil {
					fail("write", "C18:write-error", how+": Append: "+err.Error(), nil)
					continue
				}
				oe := ne.(*entry.Entry)
				var links []cid.Cid
				links = append(append(links, oe.Next...), oe.Refs...)
				checkBlock(how, oe, links)
			}
		}
	}

	header := "From Coq Require Import List NArith ZArith.\nFrom IpfsLog Require Import Model.Cbor Model.EntryCodec Model.Check08 Model.Check18.\nImport ListNotations.\nOpen Scope N_scope.\n"
	res.CaseFiles = writeShards(outDir, "C18", header, []*caseList{nrefList, blockList, pairList}, 10)
	res.ModelCases = len(nrefList.items) + len(blockList.items) + len(pairList.items)
	res.Distinct = len(shapes)
	res.Rule = "distinct (origin, payload class, next nil/empty/k, refs nil/empty/k) tuples of entries written with the link key, plus log lengths"
	for k, v := range stats {
		res.Stats[k] = v
	}
	res.Stats["generator"] = "entries created with CreateEntryWithIO under a secretbox link key: payload classes of C08, next 0..5, refs 0..30 links (nil, empty, CIDv0/v1, repeats), with/without explicit clock; logs of 2..7 entries appended with pointer counts 1..4; every link searched in the raw block as binary cid, multihash, String(), base32/base58btc/base64/base16 with and without multibase prefix"
	return res
}

func minC18(a, b int) int {
	if a < b {
		return a
	}
	return b
}

var _ = idp.Identity{}
