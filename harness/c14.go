package main

// C14: merging from a live log sees a consistent snapshot and cannot deadlock.
//
// Scenarios (all on the real implementation, yield points = verifhook):
//   snapshot  dst.Join(src) is parked at one of Join's yield points while the source is appended
//             to / merged into, then released; the result must be the union with a state the
//             source really had between call and return: every head of the result is an entry of
//             the result, the whole history of every head is included, and
//             dst_before U src_at_call <= result <= dst_before U src_at_return.
//   cross     n logs merge each other in a cycle (a.Join(b) || b.Join(a), and a 3-cycle); all
//             joins wait for each other at one yield point (e.g. join.locked, where the current
//             code holds its own lock and is about to call the other log's locking accessors);
//             a watchdog detects the deadlock and the goroutines are abandoned.
//   random    joins, appends and joins-into-the-source run freely (only runtime.Gosched in the
//             handler) under the race detector; the result is checked as above.
// Replay = the case (scenario, yield point, mutation): the schedule is forced by the handler.

import (
	"context"
	"encoding/json"
	"fmt"
	"math/rand"
	"runtime"
	"strings"
	"sync"
	"sync/atomic"
	"time"

	ipfslog "berty.tech/go-ipfs-log"
	"berty.tech/go-ipfs-log/enc"
	"berty.tech/go-ipfs-log/entry"
	"berty.tech/go-ipfs-log/iface"
	"berty.tech/go-ipfs-log/io/cbor"
	"berty.tech/go-ipfs-log/verifhook"
)

func init() { register("C14", runC14) }

type c14Case struct {
	Scenario string `json:"scenario"` // snapshot | cross | random | random-cross
	Seed     int64  `json:"seed"`
	Park     string `json:"park,omitempty"`     // snapshot: yield point at which the merge is parked
	Mutation string `json:"mutation,omitempty"` // snapshot: append | append2 | join (what happens to the source meanwhile)
	Logs     int    `json:"logs,omitempty"`     // cross: length of the cycle
	Barrier  string `json:"barrier,omitempty"`  // cross: yield point at which the merges wait for each other
	Rounds   int    `json:"rounds,omitempty"`   // random, ladder
	Keyed    bool   `json:"keyed,omitempty"`    // every log uses one link-encrypting codec
}

func (c c14Case) signature() string {
	return fmt.Sprintf("%s|%s|%s|%d|%s|%v", c.Scenario, c.Park, c.Mutation, c.Logs, c.Barrier, c.Keyed)
}

var c14Points = []string{"join.before-heads", "join.before-entries", "join.locked", "join.diffed"}

type c14Result struct {
	Reached bool     `json:"yield_point_reached"`
	Hung    bool     `json:"hung"`
	Errs    []string `json:"errors,omitempty"`
	Heads   []string `json:"result_heads,omitempty"`
	Entries int      `json:"result_entries,omitempty"`
}

func c14Set(xs []string) map[string]bool {
	m := map[string]bool{}
	for _, x := range xs {
		m[x] = true
	}
	return m
}

// c14CheckMerged checks the destination after a merge; before/atCall/atReturn may be nil (then the
// bounds are not checked).
func c14CheckMerged(prop string, cs interface{}, dst *ipfslog.IPFSLog, all []*ipfslog.IPFSLog, before, atCall, atReturn []string) []monitorFailure {
	var fails []monitorFailure
	fail := func(mon, key, detail string) {
		fails = append(fails, monitorFailure{Property: prop, Monitor: mon, Detail: detail, Case: cs, Key: key})
	}
	g := c13GraphOf(all...)
	entries := c13Hashes(dst.GetEntries().Slice())
	in := c14Set(entries)
	heads := c13Hashes(dst.Heads().Slice())
	for _, h := range heads {
		if !in[h] {
			fail("heads-are-entries", "C14:torn-snapshot", "head "+h+" of the result is not an entry of the result")
			continue
		}
		for p := range g.past(h) {
			if _, known := g.next[p]; known && !in[p] {
				fail("history-included", "C14:torn-snapshot", fmt.Sprintf("entry %s in the history of head %s is missing from the result", p, h))
				break
			}
		}
	}
	if want := c13Unreferenced(g, entries); !c13SameSet(want, heads) {
		fail("heads-unreferenced", "C14:torn-snapshot", fmt.Sprintf("heads %v, unreferenced entries of the result %v", heads, want))
	}
	if msg := c13CheckList(g, in, c13Hashes(dst.Values().Slice()), true, c13OldestFirst); msg != "" {
		fail("values", "C14:torn-snapshot", "Values() of the result: "+msg)
	}
	if before != nil {
		lo := c14Set(append(append([]string{}, before...), atCall...))
		hi := c14Set(append(append([]string{}, before...), atReturn...))
		for h := range lo {
			if !in[h] {
				fail("snapshot-bounds", "C14:not-a-snapshot", "entry "+h+" (present in the source when Join was called) is missing from the result")
				break
			}
		}
		for _, h := range entries {
			if !hi[h] {
				fail("snapshot-bounds", "C14:not-a-snapshot", "entry "+h+" of the result was in neither log when Join returned")
				break
			}
		}
	}
	return fails
}

func c14Logs(n int) (*memAPI, []*ipfslog.IPFSLog) {
	env := c13GetEnv()
	api, _ := newAPI()
	names := []string{"userA", "userB", "userC", "userD"}
	var logs []*ipfslog.IPFSLog
	for i := 0; i < n; i++ {
		l := c13NewLog(api, env.idents[names[i%len(names)]], nil)
		c13MustAppend(l, fmt.Sprintf("l%d-a", i))
		c13MustAppend(l, fmt.Sprintf("l%d-b", i))
		logs = append(logs, l)
	}
	return api, logs
}

const c14Watchdog = 3 * time.Second

func c14Snapshot(c c14Case) (c14Result, []monitorFailure) {
	var out c14Result
	_, logs := c14Logs(3)
	dst, src, third := logs[0], logs[1], logs[2]
	arrived, release := make(chan struct{}), make(chan struct{})
	var once sync.Once
	verifhook.SetHandler(func(point string, arg interface{}) {
		if l, ok := arg.(*ipfslog.IPFSLog); ok && l == dst && point == c.Park {
			first := false
			once.Do(func() { first = true })
			if first {
				close(arrived)
				select {
				case <-release:
				case <-time.After(3 * time.Second):
				}
			}
		}
	})
	defer verifhook.SetHandler(nil)
	before := c13Hashes(dst.GetEntries().Slice())
	var atCall, atReturn []string
	var joinErr error
	done := make(chan struct{})
	go func() {
		defer close(done)
		atCall = c13Hashes(src.GetEntries().Slice())
		_, joinErr = dst.Join(src, -1)
		atReturn = c13Hashes(src.GetEntries().Slice())
	}()
	select {
	case <-arrived:
		out.Reached = true
		mdone := make(chan struct{})
		go func() {
			defer close(mdone)
			switch c.Mutation {
			case "append":
				c13MustAppend(src, "src-during-1")
			case "append2":
				c13MustAppend(src, "src-during-1")
				c13MustAppend(src, "src-during-2")
			case "join":
				if _, err := src.Join(third, -1); err != nil {
					panic(err)
				}
				c13MustAppend(src, "src-after-join")
			}
		}()
		select {
		case <-mdone:
		case <-time.After(1500 * time.Millisecond):
			out.Errs = append(out.Errs, "the source could not be modified while the merge was parked")
		}
		close(release)
	case <-done:
	case <-time.After(700 * time.Millisecond):
		close(release)
	}
	select {
	case <-done:
	case <-time.After(c14Watchdog):
		out.Hung = true
		return out, []monitorFailure{{Property: "C14", Monitor: "completion", Key: "C14:deadlock", Case: c,
			Detail: "Join did not return after being released at " + c.Park}}
	}
	if joinErr != nil {
		out.Errs = append(out.Errs, joinErr.Error())
	}
	out.Heads = c13Hashes(dst.Heads().Slice())
	out.Entries = dst.Len()
	fails := c14CheckMerged("C14", c, dst, logs, before, atCall, atReturn)
	if joinErr != nil {
		fails = append(fails, monitorFailure{Property: "C14", Monitor: "join-error", Key: "C14:join-error", Case: c, Detail: joinErr.Error()})
	}
	return out, fails
}

func c14Cross(c c14Case) (c14Result, []monitorFailure) {
	var out c14Result
	n := c.Logs
	_, logs := c14Logs(n)
	isLog := map[*ipfslog.IPFSLog]bool{}
	for _, l := range logs {
		isLog[l] = true
	}
	var mu sync.Mutex
	count := 0
	all := make(chan struct{})
	seen := map[*ipfslog.IPFSLog]bool{}
	verifhook.SetHandler(func(point string, arg interface{}) {
		l, ok := arg.(*ipfslog.IPFSLog)
		if !ok || !isLog[l] || point != c.Barrier {
			return
		}
		mu.Lock()
		if seen[l] {
			mu.Unlock()
			return
		}
		seen[l] = true
		count++
		if count == n {
			close(all)
		}
		mu.Unlock()
		select {
		case <-all:
		case <-time.After(time.Second):
		}
	})
	defer verifhook.SetHandler(nil)
	before := make([][]string, n)
	for i, l := range logs {
		before[i] = c13Hashes(l.GetEntries().Slice())
	}
	done := make([]chan struct{}, n)
	errs := make([]error, n)
	for i := range logs {
		done[i] = make(chan struct{})
		go func(i int) {
			defer close(done[i])
			_, errs[i] = logs[i].Join(logs[(i+1)%n], -1)
		}(i)
	}
	deadline := time.After(c14Watchdog)
	for i := range done {
		select {
		case <-done[i]:
		case <-deadline:
			out.Hung = true
			mu.Lock()
			out.Reached = count == n
			mu.Unlock()
			return out, []monitorFailure{{Property: "C14", Monitor: "completion", Key: "C14:cross-join-deadlock", Case: c,
				Detail: fmt.Sprintf("%d logs merging each other in a cycle (merges held at yield point %s until all arrived: %v): the merges did not return within %v (goroutines abandoned)", n, c.Barrier, out.Reached, c14Watchdog)}}
		}
	}
	mu.Lock()
	out.Reached = count == n
	mu.Unlock()
	var fails []monitorFailure
	for i, l := range logs {
		if errs[i] != nil {
			out.Errs = append(out.Errs, errs[i].Error())
			fails = append(fails, monitorFailure{Property: "C14", Monitor: "join-error", Key: "C14:join-error", Case: c, Detail: errs[i].Error()})
		}
		// the neighbour may itself have grown meanwhile: lower bound only (its state at the call)
		fails = append(fails, c14CheckMerged("C14", c, l, logs, before[i], before[(i+1)%n], c13Hashes(logs[(i+1)%n].GetEntries().Slice()))...)
	}
	return out, fails
}

func c14Random(c c14Case) (c14Result, []monitorFailure) {
	var out c14Result
	cross := c.Scenario == "random-cross"
	_, logs := c14Logs(3)
	dst, src, third := logs[0], logs[1], logs[2]
	seed := c.Seed
	verifhook.SetHandler(func(point string, arg interface{}) {
		for i, k := 0, c13Yields(point, seed); i < k; i++ {
			runtime.Gosched()
		}
	})
	defer verifhook.SetHandler(nil)
	start := make(chan struct{})
	var wg sync.WaitGroup
	var emu sync.Mutex
	run := func(f func(k int) error) {
		wg.Add(1)
		go func() {
			defer wg.Done()
			<-start
			for k := 0; k < c.Rounds; k++ {
				if err := f(k); err != nil {
					emu.Lock()
					out.Errs = append(out.Errs, err.Error())
					emu.Unlock()
				}
			}
		}()
	}
	ctx := context.Background()
	run(func(k int) error { _, err := dst.Join(src, -1); return err })
	run(func(k int) error { _, err := src.Append(ctx, []byte(fmt.Sprintf("src-r%d", k)), nil); return err })
	run(func(k int) error { _, err := third.Append(ctx, []byte(fmt.Sprintf("third-r%d", k)), nil); return err })
	if cross {
		run(func(k int) error { _, err := src.Join(dst, -1); return err })
		run(func(k int) error { _, err := dst.Append(ctx, []byte(fmt.Sprintf("dst-r%d", k)), nil); return err })
	} else {
		run(func(k int) error { _, err := src.Join(third, -1); return err })
	}
	close(start)
	fin := make(chan struct{})
	go func() { wg.Wait(); close(fin) }()
	select {
	case <-fin:
	case <-time.After(c14Watchdog + 4*time.Second):
		out.Hung = true
		key := "C14:deadlock"
		if cross {
			key = "C14:cross-join-deadlock"
		}
		return out, []monitorFailure{{Property: "C14", Monitor: "completion", Key: key, Case: c,
			Detail: "concurrent merges/appends did not complete (goroutines abandoned)"}}
	}
	var fails []monitorFailure
	for _, e := range out.Errs {
		fails = append(fails, monitorFailure{Property: "C14", Monitor: "op-error", Key: "C14:op-error", Case: c, Detail: e})
	}
	fails = append(fails, c14CheckMerged("C14", c, dst, logs, nil, nil, nil)...)
	fails = append(fails, c14CheckMerged("C14", c, src, logs, nil, nil, nil)...)
	out.Heads = c13Hashes(dst.Heads().Slice())
	out.Entries = dst.Len()
	return out, fails
}

// c14CountLog is the source log as Join sees it, with the look-ups into the snapshot of its entries
// counted.  Past the budget the snapshot answers "not held", so that a runaway walk drains instead
// of eating the machine.
type c14CountLog struct {
	*ipfslog.IPFSLog
	gets, budget, size int64
}

type c14CountEntries struct {
	iface.IPFSLogOrderedEntries
	l *c14CountLog
}

func (l *c14CountLog) GetEntries() iface.IPFSLogOrderedEntries {
	inner := l.IPFSLog.GetEntries()
	var n int64
	for _, e := range inner.Slice() {
		n += 2 + int64(len(e.GetNext()))
	}
	atomic.StoreInt64(&l.size, n)
	atomic.StoreInt64(&l.budget, 16*n*n+1000)
	return &c14CountEntries{IPFSLogOrderedEntries: inner, l: l}
}

func (m *c14CountEntries) Get(k string) (iface.IPFSLogEntry, bool) {
	if atomic.AddInt64(&m.l.gets, 1) > atomic.LoadInt64(&m.l.budget) {
		return nil, false
	}
	return m.IPFSLogOrderedEntries.Get(k)
}

// c14Ladder: two logs append and merge each other after every round, so that every entry has two
// predecessors and the number of PATHS from the heads grows as 2^rounds while the number of
// entries grows as 2*rounds.  A log that holds none of it then merges from one of them while that
// one is appended to.  The merge must end: the look-ups it makes into the source's entries are
// counted and must stay polynomial (at most 16 (entries+links)^2) - a walk that follows every path
// separately makes 2^rounds of them and, in practice, never returns.
func c14Ladder(c c14Case) (c14Result, []monitorFailure) {
	var out c14Result
	_, logs := c14Logs(3)
	a, b, fresh := logs[0], logs[1], logs[2]
	ctx := context.Background()
	for k := 0; k < c.Rounds; k++ {
		for _, l := range []*ipfslog.IPFSLog{a, b} {
			if _, err := l.Append(ctx, []byte(fmt.Sprintf("ladder-%d", k)), nil); err != nil {
				panic(err)
			}
		}
		if _, err := a.Join(b, -1); err != nil {
			panic(err)
		}
		if _, err := b.Join(a, -1); err != nil {
			panic(err)
		}
	}
	src := &c14CountLog{IPFSLog: a}
	stop := make(chan struct{})
	adone := make(chan struct{})
	go func() {
		defer close(adone)
		for k := 0; k < 6; k++ {
			select {
			case <-stop:
				return
			default:
			}
			if _, err := a.Append(ctx, []byte(fmt.Sprintf("live-%d", k)), nil); err != nil {
				panic(err)
			}
			runtime.Gosched()
		}
	}()
	_, err := fresh.Join(src, -1)
	close(stop)
	<-adone
	out.Reached = true
	gets, budget, size := atomic.LoadInt64(&src.gets), atomic.LoadInt64(&src.budget), atomic.LoadInt64(&src.size)
	var fails []monitorFailure
	if gets > budget {
		fails = append(fails, monitorFailure{Property: "C14", Monitor: "merge-terminates", Key: "C14:merge-work-explodes", Case: c,
			Detail: fmt.Sprintf("merging a source of %d rounds of cross-merged appends (entries+links = %d) made more than %d look-ups into the source's entries (cut off there; the count doubles with every round)", c.Rounds, size, budget)})
		return out, fails
	}
	if err != nil {
		out.Errs = append(out.Errs, err.Error())
		fails = append(fails, monitorFailure{Property: "C14", Monitor: "join-error", Key: "C14:join-error", Case: c, Detail: err.Error()})
	}
	fails = append(fails, c14CheckMerged("C14", c, fresh, logs, nil, nil, nil)...)
	out.Heads = c13Hashes(fresh.Heads().Slice())
	out.Entries = fresh.Len()
	return out, fails
}

func c14AdditionalData(l *ipfslog.IPFSLog) map[string]string {
	m := map[string]string{}
	for _, e := range l.GetEntries().Slice() {
		b, _ := json.Marshal(e.GetAdditionalData()) // keys are sorted
		m[hs(e.GetHash())] = string(b)
	}
	return m
}

// c14Fanout: several logs merge from one source at the same time (under the race detector), while
// the source is appended to.  The entry objects of the source are shared by every log that merged
// them, so a merge must treat them as read-only: what the source's entries say is compared before
// and after.
func c14Fanout(c c14Case) (c14Result, []monitorFailure) {
	var out c14Result
	_, logs := c14Logs(4)
	src := logs[0]
	for k := 0; k < 4; k++ {
		c13MustAppend(src, fmt.Sprintf("fan-%d", k))
	}
	seed := c.Seed
	verifhook.SetHandler(func(point string, arg interface{}) {
		for i, k := 0, c13Yields(point, seed); i < k; i++ {
			runtime.Gosched()
		}
	})
	defer verifhook.SetHandler(nil)
	var fails []monitorFailure
	// one merge alone first: what it leaves in the source's entry objects
	before := c14AdditionalData(src)
	if _, err := logs[3].Join(src, -1); err != nil {
		fails = append(fails, monitorFailure{Property: "C14", Monitor: "join-error", Key: "C14:join-error", Case: c, Detail: err.Error()})
	}
	after := c14AdditionalData(src)
	for h, v := range before {
		if after[h] != v {
			fails = append(fails, monitorFailure{Property: "C14", Monitor: "source-untouched", Key: "C14:merge-writes-to-source", Case: c,
				Detail: fmt.Sprintf("merging from the source changed the source's entry %s: additional data %s before, %s after", h, v, after[h])})
			break
		}
	}
	start := make(chan struct{})
	var wg sync.WaitGroup
	var emu sync.Mutex
	for i := 1; i <= 2; i++ {
		wg.Add(1)
		go func(dst *ipfslog.IPFSLog) {
			defer wg.Done()
			<-start
			for k := 0; k < c.Rounds; k++ {
				if _, err := dst.Join(src, -1); err != nil {
					emu.Lock()
					out.Errs = append(out.Errs, err.Error())
					emu.Unlock()
				}
			}
		}(logs[i])
	}
	wg.Add(1)
	go func() {
		defer wg.Done()
		<-start
		for k := 0; k < c.Rounds; k++ {
			c13MustAppend(src, fmt.Sprintf("fan-live-%d", k))
		}
	}()
	close(start)
	fin := make(chan struct{})
	go func() { wg.Wait(); close(fin) }()
	select {
	case <-fin:
	case <-time.After(c14Watchdog + 4*time.Second):
		out.Hung = true
		return out, append(fails, monitorFailure{Property: "C14", Monitor: "completion", Key: "C14:deadlock", Case: c,
			Detail: "concurrent merges from one source did not complete (goroutines abandoned)"})
	}
	out.Reached = true
	for _, e := range out.Errs {
		fails = append(fails, monitorFailure{Property: "C14", Monitor: "op-error", Key: "C14:op-error", Case: c, Detail: e})
	}
	for i := 1; i <= 3; i++ {
		fails = append(fails, c14CheckMerged("C14", c, logs[i], logs, nil, nil, nil)...)
	}
	out.Heads = c13Hashes(logs[1].Heads().Slice())
	out.Entries = logs[1].Len()
	return out, fails
}

func c14Run(c c14Case) (c14Result, []monitorFailure) {
	c13IO, c13Pad = nil, 0
	if c.Keyed {
		key, err := enc.NewSecretbox([]byte("0123456789abcdef0123456789abcdef"))
		if err != nil {
			panic(err)
		}
		dio, err := cbor.IO(&entry.Entry{}, &entry.LamportClock{})
		if err != nil {
			panic(err)
		}
		c13IO = dio.ApplyOptions(&cbor.Options{LinkKey: key})
	}
	switch c.Scenario {
	case "ladder":
		return c14Ladder(c)
	case "fanout":
		return c14Fanout(c)
	case "snapshot":
		return c14Snapshot(c)
	case "cross":
		return c14Cross(c)
	case "random", "random-cross":
		return c14Random(c)
	}
	panic("unknown C14 scenario " + c.Scenario)
}

func runC14(seed int64, tier string, outDir string) *result {
	racePath := c13EnsureRaceLog(outDir)
	rng := rand.New(rand.NewSource(seed))
	res := &result{Property: "C14", Seed: seed, Tier: tier, Stats: map[string]interface{}{}}
	t := &c13Tally{res: res, prop: "C14", racelog: &c13RaceLog{path: racePath}, sigs: map[string]bool{}, keys: map[string]int{},
		runs: map[string]int{}, hooks: map[string]int{}}
	res.Stats["race_detector"] = c13RaceEnabled && racePath != ""
	reached := map[string]int{}
	deadlocks := 0
	exec := func(c c14Case) c14Result {
		if deadlocks >= 4 && (c.Scenario == "cross" || c.Scenario == "random-cross") {
			return c14Result{} // enough abandoned goroutines; the finding is established
		}
		out, fails := c14Run(c)
		res.Evaluations++
		t.runs[c.Scenario]++
		if out.Hung {
			deadlocks++
		}
		if out.Reached {
			reached[c.Park+c.Barrier]++
		}
		if out.Reached || strings.HasPrefix(c.Scenario, "random") {
			t.sigs[c.signature()] = true
		}
		for _, f := range fails {
			t.addFailure(f)
		}
		for _, rc := range t.racelog.fresh("C14") {
			t.addFailure(monitorFailure{Property: "C14", Monitor: "race-detector", Key: rc.Key, Case: c,
				Detail: strings.Join(rc.Frames, "  <->  ") + "\n" + rc.Text})
		}
		if len(res.Samples) < 4 && out.Reached {
			res.Samples = append(res.Samples, map[string]interface{}{"case": c, "outcome": out})
		}
		return out
	}

	if replayFile != "" {
		var c c14Case
		if !c13ReplayCase(replayFile, &c) {
			fmt.Println("replay: no C14 case in", replayFile)
			return res
		}
		out, fails := c14Run(c)
		b, _ := json.Marshal(out)
		fmt.Printf("replay: case %+v\n  observed: %s\n", c, b)
		for _, f := range fails {
			fmt.Printf("  FAILED %s (%s): %s\n", f.Monitor, f.Key, f.Detail)
			res.Failures = append(res.Failures, f)
		}
		if len(fails) == 0 {
			fmt.Println("  no monitor failed")
		}
		return res
	}

	// 1. consistent snapshot: every yield point of Join x every mutation of the source
	for _, p := range c14Points {
		for _, m := range []string{"append", "append2", "join"} {
			exec(c14Case{Scenario: "snapshot", Seed: seed, Park: p, Mutation: m})
		}
	}
	// 2. free runs under the race detector
	rounds, reps := 6, 40
	if tier == "thorough" {
		rounds, reps = 12, 300
	}
	for i := 0; i < reps; i++ {
		exec(c14Case{Scenario: "random", Seed: seed*31 + int64(i), Rounds: rounds + rng.Intn(4), Keyed: i%3 == 2})
	}
	// 2b. fan-out from one source (with and without sealed links); a deep ladder of cross merges
	for i := 0; i < reps/4; i++ {
		exec(c14Case{Scenario: "fanout", Seed: seed*41 + int64(i), Rounds: rounds, Keyed: i%2 == 0})
	}
	for _, n := range []int{3, 12, 30} {
		exec(c14Case{Scenario: "ladder", Seed: seed, Rounds: n, Keyed: n == 12})
	}
	// 3. symmetric cross merges: 2-cycle and 3-cycle, all merges meeting at each yield point
	for _, n := range []int{2, 3} {
		for _, p := range c14Points {
			exec(c14Case{Scenario: "cross", Seed: seed, Logs: n, Barrier: p})
		}
	}
	for i := 0; i < reps/2; i++ {
		exec(c14Case{Scenario: "random-cross", Seed: seed*37 + int64(i), Rounds: rounds})
	}

	res.Distinct = len(t.sigs)
	res.Rule = "distinct (scenario, yield point, mutation / cycle length) combinations in which the forced schedule was actually realised (the yield point was reached and the source was modified, or all merges of the cycle met at the barrier), plus the random scenarios"
	res.Stats["runs_by_scenario"] = t.runs
	res.Stats["yield_points_reached"] = reached
	res.Stats["failure_keys"] = t.keys
	res.Stats["watchdog_fired"] = deadlocks
	res.ModelCases = 0
	return res
}
