package main

// C10: a length-limited load returns exactly min(max(n,k),size) distinct entries: all supplied
// entries plus the most recent others, independent of schedule and concurrency.

import (
	"context"
	"encoding/json"
	"fmt"
	"math"
	"math/rand"
	"sort"
	"strings"

	"github.com/ipfs/go-cid"

	ipfslog "berty.tech/go-ipfs-log"
	"berty.tech/go-ipfs-log/entry"
	"berty.tech/go-ipfs-log/iface"
)

func init() { register("C10", runC10) }

func c10Min(a, b int) int {
	if a < b {
		return a
	}
	return b
}
func c10Max(a, b int) int {
	if a > b {
		return a
	}
	return b
}

func runC10(seed int64, tier string, outDir string) *result {
	rng := rand.New(rand.NewSource(seed))
	res := &result{Property: "C10", Seed: seed, Tier: tier, Stats: map[string]interface{}{}}
	mon := &c11Monitor{prop: "C10", res: res}
	thorough := tier == "thorough"
	dags := c11Corpus(rng, tier, "l")
	// the shape of DESIGN.md F7b: three heads of very different ages; whether a supplied entry is
	// dropped depends on the byte order of two clock ids, so both role assignments are built
	for _, names := range [][]string{{"A", "B", "C"}, {"A", "C", "B"}} {
		d := c11NewDag("f7b", names)
		d.append(0, "a0", 1)
		for i := 0; i < 4; i++ {
			d.append(2, fmt.Sprintf("c%d", i), 2)
		}
		for i := 0; i < 9; i++ {
			d.append(1, fmt.Sprintf("b%d", i), 4)
		}
		d.join(0, 1)
		d.join(0, 2)
		d.name = fmt.Sprintf("st_l%d", len(dags))
		dags = append(dags, d)
	}
	canon := newC11Canon()
	var loads []*c09Load
	var fetches []*c11Run
	var fetchWhat []string
	stats := map[string]int{}
	known := map[string]int{}
	type groupKey struct {
		dag, kind, n int
	}
	groups := map[groupKey][]*c09Load{}
	shapes := map[string]struct{}{}

	for di, d := range dags {
		src := d.logs[0]
		st := c09Snapshot(src)
		size := len(st.entries)
		if size == 0 {
			continue
		}
		nheads := len(st.heads)
		tieFree := !c10Ties(d, st.entries)
		maxN := size + 2
		for kind := 0; kind < 4; kind++ {
			if kind == c09EntryHash && nheads != 1 {
				continue
			}
			ns := []int{math.MaxInt} // "no limit" sentinels are legal limits too
			for n := 0; n <= maxN; n++ {
				ns = append(ns, n)
			}
			for _, n := range ns {
				if !thorough && size > 12 && n > 6 && n < size-3 && rng.Intn(2) == 0 {
					continue // thin out the middle of long logs in the quick tier
				}
				reps := 3
				if thorough {
					reps = 6
				}
				if !tieFree {
					reps += 6 // tied entries: the outcome depends on arrival order, look at more schedules
				}
				for rep := 0; rep < reps; rep++ {
					conc := 1 + rng.Intn(8)
					if rep == 0 {
						conc = 1
					}
					forced := rep != 2
					rr := rand.New(rand.NewSource(rng.Int63()))
					ld := c09DoLoad(d, src, kind, n, conc, forced, func(k int) int { return rr.Intn(k) }, 80, rng.Int63())
					loads = append(loads, ld)
					stats[c09KindNames[kind]]++
					gk := groupKey{di, kind, n}
					groups[gk] = append(groups[gk], ld)
					shapes[fmt.Sprintf("%d|%d|%d|%s", di, kind, n, canonTraceShape(ld.run.events))] = struct{}{}
					c10Monitor(mon, known, ld, st, tieFree)
				}
			}
		}
		// the fetcher itself in limited mode: top n of the closure is contained in the result
		for n := 0; n <= maxN; n++ {
			for rep := 0; rep < 2; rep++ {
				rr := rand.New(rand.NewSource(rng.Int63()))
				r := &c11Run{d: d, starts: st.heads, length: n, conc: 1 + rng.Intn(8), forced: rep == 0, choose: func(k int) int { return rr.Intn(k) }, delay: 60, seed: rng.Int63()}
				r.run()
				fetches = append(fetches, r)
				fetchWhat = append(fetchWhat, "limited-fetch")
				stats["fetchall"]++
				c10FetchMonitor(mon, r, st, d, n)
			}
		}
	}
	// schedule independence
	for gk, lds := range groups {
		var first *c09Load
		for _, ld := range lds {
			if ld.out == nil {
				continue
			}
			if first == nil {
				first = ld
				continue
			}
			if !c09SameSet(first.out.entries, ld.out.entries) {
				key := "C10:" + c09KindNames[gk.kind] + ":schedule-dependent"
				over := false
				for _, x := range lds {
					if x.out != nil && gk.kind == c09JSON && len(x.out.entries) > c10Min(gk.n, len(x.src.entries)) {
						over = true
					}
				}
				if gk.kind == c09JSON && over {
					key = "C10:json-loader-no-trim"
				} else if gk.kind == c09Manifest && gk.n == 0 {
					key = "C10:manifest-n0-returns-all"
				} else if c10OnlyTiedDiffer(dags[gk.dag], first.src.entries, first.out.entries, ld.out.entries) {
					// every entry on which the two outcomes differ shares its (clock id, time)
					// with another entry of the log: the log's order itself is not total there
					key = "C10:" + c09KindNames[gk.kind] + ":schedule-dependent:clock-tie"
				}
				known[key]++
				mon.fail("schedule-independent", key, fmt.Sprintf("two loads of the same log with n=%d returned different entry sets (%d vs %d entries)", gk.n, len(first.out.entries), len(ld.out.entries)),
					c10Case(first, ld))
				break
			}
		}
	}

	for _, d := range dags {
		canon.addDag(d)
	}
	for _, ld := range loads {
		canon.addState(ld.src)
		canon.addState(ld.out)
		canon.logids.add(ld.idGiven)
	}
	canon.freeze()
	var hdr strings.Builder
	hdr.WriteString("From IpfsLog Require Import Model.Order Model.Fetcher Model.Check11 Model.Check09.\nOpen Scope Z_scope.\n")
	for _, d := range dags {
		hdr.WriteString(canon.storeDef(d))
	}
	llist := &caseList{name: "loader_cases", typ: "loader_case", checker: c09Checker()}
	for _, ld := range loads {
		if ld.n > 1<<30 {
			// "no limit" sentinels: checked by the monitors only (the executable model turns the limit into a
			// unary number; the theorems cover every n)
			continue
		}
		if ld.run.hung || ld.run.skipped {
			continue
		}
		llist.add(canon.loaderCaseLit(ld), canon.loadLabel(ld))
	}
	flist := &caseList{name: "fetch_cases", typ: "fetch_case", checker: "mismatches_fetch"}
	for i, r := range fetches {
		if r.hung || r.skipped || r.panicked != "" {
			continue
		}
		flist.add(canon.fetchCaseLit(r), canon.runLabel(r, fetchWhat[i]))
	}
	res.CaseFiles = writeShards(outDir, "C10", hdr.String(), []*caseList{llist, flist}, 250)
	res.ModelCases = len(llist.items) + len(flist.items)
	res.Evaluations = len(loads) + len(fetches)
	res.Distinct = len(shapes)
	// the ordering handed to the loader decides which entries a limit keeps: a log ordered by the hash
	// tiebreak with two heads of ONE identity at the same Lamport time (both heads are start hashes, so
	// both are always fetched): the kept entries are the last n of the log's own linearisation
	{
		ctx := context.Background()
		w := newWorld()
		hash := sortFnOf("hash")
		l1, _ := ipfslog.NewLog(w.api, w.idents["A"], &ipfslog.LogOptions{ID: "T", SortFn: hash})
		l2, _ := ipfslog.NewLog(w.api, w.idents["A"], &ipfslog.LogOptions{ID: "T", SortFn: hash})
		for _, p := range []string{"t1", "t2"} {
			if _, err := l1.Append(ctx, []byte(p), nil); err != nil {
				panic(err)
			}
		}
		if _, err := l2.Join(l1, -1); err != nil {
			panic(err)
		}
		if _, err := l1.Append(ctx, []byte("left"), nil); err != nil {
			panic(err)
		}
		if _, err := l2.Append(ctx, []byte("right"), nil); err != nil {
			panic(err)
		}
		if _, err := l1.Join(l2, -1); err != nil {
			panic(err)
		}
		mh, err := l1.ToMultihash(ctx)
		if err != nil {
			panic(err)
		}
		all := hashesOf(l1.Values().Slice())
		for _, conc := range []int{1, 2, 8} {
			for n := 1; n <= len(all); n++ {
				n := n
				res.Evaluations++
				lr, err := ipfslog.NewFromMultihash(ctx, w.api, w.idents["B"], mh, &ipfslog.LogOptions{ID: "T", SortFn: hash},
					&ipfslog.FetchOptions{Length: &n, Concurrency: conc, SortFn: hash})
				info := map[string]interface{}{"scenario": "limited manifest load of a hash-ordered log with two tied heads", "limit": n, "concurrency": conc}
				if err != nil {
					mon.fail("exact-last-n", "C10:manifest:error", err.Error(), info)
					continue
				}
				if got, want := hashesOf(lr.Values().Slice()), all[len(all)-n:]; !eqStrings(got, want) {
					mon.fail("exact-last-n", "C10:manifest:wrong-entries", fmt.Sprintf("limit %d under the hash ordering given to the loader: got %v, the last %d of the log's linearisation are %v", n, got, n, want), info)
				}
			}
		}
	}
	// the same head reported by two replicas and handed to NewFromEntry twice: the load keeps
	// min(max(n, k), size) entries, k the number of supplied entries, and they are the most recent ones
	{
		ctx := context.Background()
		w := newWorld()
		l, _ := ipfslog.NewLog(w.api, w.idents["A"], &ipfslog.LogOptions{ID: "T"})
		for i := 1; i <= 6; i++ {
			if _, err := l.Append(ctx, []byte(fmt.Sprintf("e%d", i)), nil); err != nil {
				panic(err)
			}
		}
		all := hashesOf(l.Values().Slice())
		head := l.Heads().Slice()[0]
		twin, err := entry.FromMultihash(ctx, w.api, head.GetHash(), w.idents["A"].Provider) // the same entry, another object
		if err != nil {
			panic(err)
		}
		for _, supplied := range [][]iface.IPFSLogEntry{{head, head}, {head, twin}, {head, twin, head}} {
			for n := 0; n <= len(all)+1; n++ {
				n := n
				res.Evaluations++
				info := map[string]interface{}{"scenario": "NewFromEntry with the same head supplied more than once", "supplied": len(supplied), "limit": n}
				lr, err := ipfslog.NewFromEntry(ctx, w.api, w.idents["B"], supplied, &ipfslog.LogOptions{ID: "T"}, &entry.FetchOptions{Length: &n})
				if err != nil {
					mon.fail("exact-last-n", "C10:entries:error", err.Error(), info)
					continue
				}
				keep := n
				if len(supplied) > keep {
					keep = len(supplied)
				}
				if keep > len(all) {
					keep = len(all)
				}
				if got, want := hashesOf(lr.Values().Slice()), all[len(all)-keep:]; !eqStrings(got, want) {
					mon.fail("exact-last-n", "C10:entries:wrong-entries", fmt.Sprintf("limit %d, %d supplied entries (one distinct): got %d entries, want the %d most recent", n, len(supplied), len(got), keep), info)
				}
			}
		}
	}
	res.Rule = "one evaluation = one limited load (loader x limit n in 0..size+2 x schedule x concurrency) of a stored forked log with skip references, or one limited entry.FetchAll; distinct_nontrivial counts distinct (log, loader, n, recorded event trace) tuples"
	res.Stats["loads_by_loader"] = stats
	res.Stats["deviation_counts"] = known
	var sizes, heads []int
	for _, d := range dags {
		sizes = append(sizes, d.logs[0].Len())
		heads = append(heads, d.logs[0].Heads().Len())
	}
	res.Stats["log_sizes"] = sizes
	res.Stats["log_heads"] = heads
	if len(loads) > 0 {
		for _, i := range []int{0, len(loads) / 2, len(loads) - 1} {
			res.Samples = append(res.Samples, json.RawMessage(canon.loadLabel(loads[i])))
		}
	}
	return res
}

func c10Ties(d *c11Dag, entries []cid.Cid) bool {
	seen := map[string]bool{}
	for _, c := range entries {
		e := d.entries[c]
		k := fmt.Sprintf("%d/%x", e.time, e.id)
		if seen[k] {
			return true
		}
		seen[k] = true
	}
	return false
}

// c10OnlyTiedDiffer: the symmetric difference of a and b consists only of entries whose (clock
// id, time) pair occurs at least twice among the log's entries.
func c10OnlyTiedDiffer(d *c11Dag, logEntries, a, b []cid.Cid) bool {
	cnt := map[string]int{}
	key := func(c cid.Cid) string { e := d.entries[c]; return fmt.Sprintf("%d/%x", e.time, e.id) }
	for _, c := range logEntries {
		cnt[key(c)]++
	}
	sa, sb := c09Set(a), c09Set(b)
	for c := range sa {
		if !sb[c] && cnt[key(c)] < 2 {
			return false
		}
	}
	for c := range sb {
		if !sa[c] && cnt[key(c)] < 2 {
			return false
		}
	}
	return true
}

func c10Strs(cs []cid.Cid) []string {
	out := make([]string, len(cs))
	for i, c := range cs {
		out[i] = c.String()
	}
	return out
}

func c10Case(lds ...*c09Load) interface{} {
	var out []interface{}
	for _, ld := range lds {
		m := map[string]interface{}{"loader": c09KindNames[ld.kind], "n": ld.n, "conc": ld.run.conc, "forced": ld.run.forced,
			"starts": c10Strs(ld.starts), "source_values": c10Strs(ld.src.values), "err": ld.errStr}
		if ld.out != nil {
			m["loaded_entries"] = c10Strs(ld.out.entries)
		}
		var tr []string
		for _, e := range ld.run.events {
			tr = append(tr, fmt.Sprintf("%c:%s", e.Kind, e.Cid.String()))
		}
		m["trace"] = tr
		out = append(out, m)
	}
	return out
}

func c10Monitor(mon *c11Monitor, known map[string]int, ld *c09Load, st *c09State, tieFree bool) {
	name := c09KindNames[ld.kind]
	fail := func(m, key, detail string) {
		known[key]++
		mon.fail(m, key, detail, c10Case(ld))
	}
	if ld.run.skipped {
		return
	}
	if ld.run.hung {
		fail("terminates", "C10:"+name+":hang", "loader did not return")
		return
	}
	size := len(st.entries)
	n := ld.n
	var supplied []cid.Cid
	switch ld.kind {
	case c09EntryHash, c09Entries:
		supplied = ld.starts
	}
	k := len(supplied)
	m := c10Min(c10Max(n, k), size)
	if ld.out == nil {
		// NewFromEntry cannot return an empty log (it indexes the last element); nothing else may fail
		fail("loads", "C10:"+name+":error", "loader failed: "+ld.errStr)
		return
	}
	got := c09Set(ld.out.entries)
	inSrc := c09Set(st.entries)
	for c := range got {
		if !inSrc[c] {
			fail("subset-of-log", "C10:"+name+":foreign-entry", "the loaded log contains an entry that is not in the source log")
		}
	}
	countOK := len(got) == m
	if !countOK {
		key := "C10:" + name + ":count"
		if ld.kind == c09Manifest && n == 0 && len(got) > 0 {
			key = "C10:manifest-n0-returns-all"
		} else if ld.kind == c09JSON && len(got) > m {
			key = "C10:json-loader-no-trim"
		}
		fail("exact-count", key, fmt.Sprintf("n=%d k=%d size=%d: expected %d entries, loaded %d", n, k, size, m, len(got)))
	}
	dropped := false
	for _, c := range supplied {
		if !got[c] {
			dropped = true
			key := "C10:" + name + ":drops-supplied"
			if ld.kind == c09Entries {
				key = "C10:fromentry-drops-supplied"
			}
			fail("supplied-kept", key, fmt.Sprintf("n=%d k=%d size=%d: a supplied entry is missing from the loaded log", n, k, size))
			break
		}
	}
	if countOK && !dropped && tieFree {
		// expected: supplied + the most recent (m-k) others in the log's order
		want := c09Set(supplied)
		need := m - k
		for i := len(st.values) - 1; i >= 0 && need > 0; i-- {
			c := st.values[i]
			if !want[c] {
				want[c] = true
				need--
			}
		}
		for c := range want {
			if !got[c] {
				fail("most-recent", "C10:"+name+":wrong-set", fmt.Sprintf("n=%d k=%d size=%d: the loaded entries are not the supplied ones plus the most recent others", n, k, size))
				break
			}
		}
	}
}

// c10FetchMonitor: limited entry.FetchAll from the heads: no duplicates, inside the log, and the
// n most recent entries of the log are among the results.
func c10FetchMonitor(mon *c11Monitor, r *c11Run, st *c09State, d *c11Dag, n int) {
	mk := func() interface{} {
		return map[string]interface{}{"what": "FetchAll", "n": n, "conc": r.conc, "starts": c10Strs(r.starts), "results": c10Strs(r.results), "source_values": c10Strs(st.values)}
	}
	if r.skipped {
		return
	}
	if r.hung || r.panicked != "" {
		mon.fail("terminates", "C10:fetch:hang", "FetchAll did not return: "+r.panicked, mk())
		return
	}
	if c11HasDup(r.results) {
		mon.fail("no-duplicate-result", "C10:fetch:dup-result", "an entry was returned twice", mk())
	}
	if c11HasDup(r.gets) {
		mon.fail("request-once", "C10:fetch:dup-request", "a hash was requested twice", mk())
	}
	got := c09Set(r.results)
	inSrc := c09Set(st.entries)
	for c := range got {
		if !inSrc[c] {
			mon.fail("subset-of-log", "C10:fetch:foreign-entry", "a result is not in the log", mk())
		}
	}
	// an entry with fewer than n strictly newer entries in the log must be in the results
	times := make([]int, 0, len(st.entries))
	for _, c := range st.entries {
		times = append(times, d.entries[c].time)
	}
	sort.Ints(times)
	for _, c := range st.entries {
		t := d.entries[c].time
		newer := len(times) - sort.SearchInts(times, t+1)
		if newer < n && !got[c] {
			mon.fail("top-n-in-result", "C10:fetch:missing-recent", fmt.Sprintf("n=%d: an entry with only %d strictly newer entries is missing from the fetch result", n, newer), mk())
			break
		}
	}
}

var _ = ipfslog.NewLog
