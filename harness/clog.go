package main

// Runners for the log-core properties (C01-C06, C15-C17): history generators with per-property
// bias, all driving the engine in loghist.go.

import (
	"encoding/json"
	"fmt"
	"math"
	"math/rand"
	"os"
	"path/filepath"
	"sort"
	"strings"

	"berty.tech/go-ipfs-log/iface"
)

// number of appends with a 2.5 s block write the generator may still place in this run
var slowBudget int

type profile struct {
	name                                           string
	minReps, maxReps, minOps, maxOps               int
	pBounded, pIter, pSetID, pPublish, pDenyLog    float64
	pOtherID, pEmptyRep, pShareIdent, pNeutralJoin float64
	sorts                                          []string
	pcs                                            []int
	finale                                         bool    // complete the exchange at the end (C01)
	pWide                                          float64 // scripted prefix: many single-entry writers + one long chain merged into one log
	pFault, pPin                                   float64 // appends/publications during a store outage; appends that ask for pinning
	pOpen                                          float64 // a replica opened over a selection of another replica's entries, then used
}

var baseProfile = profile{name: "base", minReps: 2, maxReps: 4, minOps: 8, maxOps: 30,
	pBounded: 0, pIter: 0, pSetID: 0.02, pPublish: 0.03, pDenyLog: 0, pOtherID: 0.15, pEmptyRep: 0.3, pShareIdent: 0.35, pNeutralJoin: 0.05, pOpen: 0.03,
	sorts: []string{"lww", "lww", "hash"}, pcs: []int{0, 1, 1, 2, 4, 8, 16, 64}, finale: true}

// generator state kept across calls
type genState struct {
	rng     *rand.Rand
	p       profile
	nReps   int
	nOps    int
	setup   []hop
	finale  []hop
	phase   int
	sort    string
	started bool
	pending []hop // scripted follow-up of an "open": operations on and with the re-opened replica
}

func newGen(rng *rand.Rand, p profile) func(h *histRun, i int) *hop {
	g := &genState{rng: rng, p: p}
	g.nReps = p.minReps + rng.Intn(p.maxReps-p.minReps+1)
	g.nOps = p.minOps + rng.Intn(p.maxOps-p.minOps+1)
	g.sort = pick(rng, p.sorts)
	shared := rng.Float64() < p.pShareIdent
	seeded := rng.Intn(5) == 0
	keyed := rng.Intn(6) == 0                  // all replicas of this history seal their links with one key
	conc := pick(rng, []int{0, 0, 0, 1, 2, 3}) // LogOptions.Concurrency of the replicas: merges bring more entries than that
	for r := 0; r < g.nReps; r++ {
		id := identNames[r%len(identNames)]
		if shared && r > 0 && rng.Intn(2) == 0 {
			id = identNames[0]
		}
		o := hop{Kind: "new", LogID: "L", Ident: id, Sort: g.sort, Conc: conc}
		o.Keyed = keyed
		if seeded && rng.Intn(3) > 0 {
			// opened with a clock of its own: small, around 2^53 (where float64 has gaps), wall-clock nanoseconds, 2^62
			o.Clock = pick(rng, []int{7, 41, 1<<53 - 2, 1 << 53, 1<<53 + 1, 1700000000000000001, 1 << 62}) + rng.Intn(3)
		}
		if rng.Float64() < p.pDenyLog {
			o.Deny = []string{pick(rng, identNames)}
		}
		g.setup = append(g.setup, o)
	}
	if rng.Float64() < p.pOtherID {
		g.setup = append(g.setup, hop{Kind: "new", LogID: "M", Ident: pick(rng, identNames), Sort: g.sort, Keyed: keyed})
	}
	if rng.Float64() < p.pEmptyRep {
		g.setup = append(g.setup, hop{Kind: "new", LogID: "L", Ident: pick(rng, identNames), Sort: g.sort, Keyed: keyed})
	}
	if rng.Float64() < p.pWide {
		// wide, unbalanced fork: replica 0 gets a long chain, k others one entry each, a collector
		// joins them all and appends with a small pointer count (more heads than pointers)
		g.setup = nil
		k := 4 + rng.Intn(6)
		g.nReps = k + 2
		for r := 0; r < g.nReps; r++ {
			g.setup = append(g.setup, hop{Kind: "new", LogID: "L", Ident: identNames[r%len(identNames)], Sort: g.sort, Keyed: keyed})
		}
		for n, ln := 0, 6+rng.Intn(10); n < ln; n++ {
			g.setup = append(g.setup, hop{Kind: "append", R: 0, Payload: fmt.Sprintf("c%d", n), PC: pick(rng, p.pcs)})
		}
		for r := 1; r <= k; r++ {
			g.setup = append(g.setup, hop{Kind: "append", R: r, Payload: fmt.Sprintf("w%d", r), PC: 1})
		}
		order := rng.Perm(k + 1)
		for _, r := range order {
			g.setup = append(g.setup, hop{Kind: "join", R: k + 1, Src: r, Size: -1})
		}
		for n := 0; n < 2; n++ {
			g.setup = append(g.setup, hop{Kind: "append", R: k + 1, Payload: fmt.Sprintf("x%d", n), PC: []int{0, 1, 2, 3, 4}[rng.Intn(5)]})
		}
		g.nOps = rng.Intn(8)
	}
	return g.next
}

func (g *genState) next(h *histRun, i int) *hop {
	rng := g.rng
	if i < len(g.setup) {
		return &g.setup[i]
	}
	k := i - len(g.setup)
	nr := len(h.w.reps)
	if k < g.nOps && len(g.pending) > 0 {
		o := g.pending[0]
		g.pending = g.pending[1:]
		return &o
	}
	if k < g.nOps && g.p.pOpen > 0 && len(h.w.created) > 0 && rng.Float64() < g.p.pOpen {
		// open a new replica over a selection of a replica's entries: all of them, a newest-first prefix of
		// its linearisation (what a limited load returns), or a random subset in random order
		src := rng.Intn(nr)
		held := h.w.reps[src].log.Values().Slice()
		idx := map[string]int{}
		for i, e := range h.w.created {
			idx[e.GetHash().String()] = i
		}
		var keep []int
		for _, e := range held {
			if i, ok := idx[e.GetHash().String()]; ok {
				keep = append(keep, i)
			}
		}
		switch rng.Intn(4) {
		case 0: // everything, oldest first
		case 1: // the newest n
			if len(keep) > 0 {
				keep = keep[rng.Intn(len(keep)):]
			}
		case 2: // a random subset, shuffled
			rng.Shuffle(len(keep), func(a, b int) { keep[a], keep[b] = keep[b], keep[a] })
			if len(keep) > 0 {
				keep = keep[:1+rng.Intn(len(keep))]
			}
		case 3: // everything, newest first, one entry named twice and one the source does not hold
			for a, b := 0, len(keep)-1; a < b; a, b = a+1, b-1 {
				keep[a], keep[b] = keep[b], keep[a]
			}
			if len(keep) > 0 {
				keep = append(keep, keep[0], len(h.w.created)+3)
			}
		}
		o := &hop{Kind: "open", Src: src, Keep: keep, Ident: pick(rng, identNames), Sort: h.w.reps[src].sort}
		if rng.Intn(6) == 0 {
			o.LogID = "M" // opened under another id than the one its entries carry (LogOptions.ID is the caller's)
		}
		// LogOptions.Heads: mostly none (NewLog finds them); in a third of the opens exactly the unreferenced
		// entries of the selection (what NewFromMultihash hands over); now and then an entry that another selected
		// entry names ("opened at an earlier head": outside the invariants, merged but never appended to)
		earlier := false
		if len(keep) > 0 {
			sel := map[string]iface.IPFSLogEntry{}
			for _, k := range keep {
				if k < len(h.w.created) {
					sel[h.w.created[k].GetHash().String()] = h.w.created[k]
				}
			}
			var selEntries []iface.IPFSLogEntry
			for _, e := range sel {
				selEntries = append(selEntries, e)
			}
			named := map[string]bool{}
			for _, e := range selEntries {
				for _, n := range e.GetNext() {
					named[n.String()] = true
				}
			}
			switch x := rng.Intn(12); {
			case x < 4:
				for _, k := range keep {
					if k < len(h.w.created) && !named[h.w.created[k].GetHash().String()] {
						o.Heads = append(o.Heads, k)
					}
				}
				rng.Shuffle(len(o.Heads), func(a, b int) { o.Heads[a], o.Heads[b] = o.Heads[b], o.Heads[a] })
			case x == 4:
				for _, k := range keep {
					if k < len(h.w.created) && named[h.w.created[k].GetHash().String()] {
						o.Heads = []int{k}
						earlier = true
						break
					}
				}
			}
		}
		if rng.Float64() < g.p.pDenyLog {
			o.Deny = []string{pick(rng, identNames)}
		}
		// then: append on it, merge it with others in both directions, append again
		other := rng.Intn(nr)
		size := func() int {
			if rng.Float64() < g.p.pBounded {
				return rng.Intn(len(held) + 3)
			}
			return -1
		}
		script := []hop{
			{Kind: "append", R: nr, Payload: "o0", PC: pick(rng, g.p.pcs)},
			{Kind: "join", R: nr, Src: other, Size: size()},
			{Kind: "append", R: nr, Payload: "o1", PC: pick(rng, g.p.pcs)},
			{Kind: "join", R: other, Src: nr, Size: size()},
			{Kind: "setid", R: nr, Ident: pick(rng, identNames)},
			{Kind: "append", R: nr, Payload: "o2", PC: pick(rng, g.p.pcs)},
		}
		if o.LogID != "" {
			// first the original replicas (some of which lack entries it holds) merge it while its heads are
			// still the selected entries: a log under another id is never merged
			for r := 0; r < g.nReps && r < nr; r++ {
				g.pending = append(g.pending, hop{Kind: "join", R: r, Src: nr, Size: -1})
			}
		}
		for _, so := range script {
			if rng.Intn(3) > 0 && (!earlier || so.Kind == "join") {
				g.pending = append(g.pending, so)
			}
		}
		return o
	}
	if k < g.nOps {
		x := rng.Float64()
		// the optional "empty" replica (last one, when present with log id L) is never appended to
		appendable := g.nReps
		if nr > g.nReps && h.w.reps[g.nReps].logID == "M" && !h.w.reps[g.nReps].opened {
			appendable = g.nReps + 1 // the foreign-id replica may be appended to
		}
		switch {
		case x < g.p.pIter:
			return g.genIter(h)
		case x < g.p.pIter+g.p.pSetID:
			return &hop{Kind: "setid", R: rng.Intn(appendable), Ident: pick(rng, identNames)}
		case x < g.p.pIter+g.p.pSetID+g.p.pPublish:
			o := &hop{Kind: "publish", R: rng.Intn(nr)}
			if g.p.pFault > 0 && rng.Float64() < g.p.pFault {
				o.Fault = true
			}
			return o
		case x < g.p.pIter+g.p.pSetID+g.p.pPublish+0.5:
			pc := pick(rng, g.p.pcs)
			o := &hop{Kind: "append", R: rng.Intn(appendable), Payload: []string{"p0", "p1", "p2", "p3", "p4", ""}[rng.Intn(6)], PC: pc}
			if g.p.pPin > 0 && rng.Float64() < g.p.pPin {
				o.Pin = true
			}
			if g.p.pFault > 0 && rng.Float64() < g.p.pFault {
				o.Fault = true
			} else if g.p.pFault > 0 && rng.Float64() < 0.04 {
				o.Stall = "ctx"
			} else if g.p.pFault > 0 && slowBudget > 0 && rng.Intn(20) == 0 {
				slowBudget--
				o.Stall = "slow"
			}
			return o
		default:
			r, src := rng.Intn(g.nReps), rng.Intn(nr)
			if rng.Float64() < g.p.pNeutralJoin {
				src = r
			}
			size := -1
			if rng.Float64() < g.p.pBounded {
				tot := h.w.reps[r].log.Len() + h.w.reps[src].log.Len()
				size = rng.Intn(tot + 4)
			}
			return &hop{Kind: "join", R: r, Src: src, Size: size}
		}
	}
	if !g.p.finale {
		return nil
	}
	if g.finale == nil {
		// complete the exchange: every replica joins every other one, random order, some repeats
		var pairs [][2]int
		for a := 0; a < g.nReps; a++ {
			for b := 0; b < g.nReps; b++ {
				if a != b {
					pairs = append(pairs, [2]int{a, b})
				}
			}
		}
		rng.Shuffle(len(pairs), func(a, b int) { pairs[a], pairs[b] = pairs[b], pairs[a] })
		for _, p := range pairs {
			g.finale = append(g.finale, hop{Kind: "join", R: p[0], Src: p[1], Size: -1})
			if rng.Intn(4) == 0 {
				g.finale = append(g.finale, hop{Kind: "join", R: p[0], Src: p[1], Size: -1})
			}
		}
		g.finale = append(g.finale, hop{Kind: "publish", R: 0})
	}
	k -= g.nOps
	if k < len(g.finale) {
		return &g.finale[k]
	}
	return nil
}

// iterator options: biased towards bounds inside the selected range
func (g *genState) genIter(h *histRun) *hop {
	rng := g.rng
	w := h.w
	r := rng.Intn(len(w.reps))
	l := w.reps[r].log
	sp := &iterSpec{}
	idxOf := map[string]int{}
	for i, e := range w.created {
		idxOf[e.GetHash().String()] = i
	}
	var inLog []int
	inMap := map[string]iface.IPFSLogEntry{}
	for _, e := range l.GetEntries().Slice() {
		if i, ok := idxOf[e.GetHash().String()]; ok {
			inLog = append(inLog, i)
		}
		inMap[e.GetHash().String()] = e
	}
	sort.Ints(inLog)
	pickIn := func() int {
		if len(inLog) == 0 || rng.Intn(25) == 0 {
			return -1 // unknown hash
		}
		return inLog[rng.Intn(len(inLog))]
	}
	var start []iface.IPFSLogEntry
	related := false
	switch rng.Intn(5) {
	case 4: // several LTE bounds of which one lies in the past of another: an entry, one of its predecessors, now and then a third
		sp.HasLTE = true
		x := pickIn()
		sp.LTE = []int{x}
		if x >= 0 {
			for _, n := range w.created[x].GetNext() {
				if i, ok := idxOf[n.String()]; ok {
					if _, held := inMap[n.String()]; held {
						sp.LTE = append(sp.LTE, i)
						related = true
						break
					}
				}
			}
		}
		if rng.Intn(3) == 0 {
			sp.LTE = append(sp.LTE, pickIn())
		}
		if rng.Intn(2) == 0 {
			sp.LTE[0], sp.LTE[len(sp.LTE)-1] = sp.LTE[len(sp.LTE)-1], sp.LTE[0]
		}
	case 0: // heads
		start = l.Heads().Slice()
	case 1: // single LTE
		sp.HasLTE = true
		sp.LTE = []int{pickIn()}
	case 2: // several LTE, possibly causally related
		sp.HasLTE = true
		n := 1 + rng.Intn(3)
		for k := 0; k < n; k++ {
			sp.LTE = append(sp.LTE, pickIn())
		}
	case 3: // LT
		sp.HasLT = true
		sp.LT = []int{pickIn()}
	}
	for _, x := range sp.LTE {
		if x >= 0 {
			start = append(start, w.created[x])
		}
	}
	if sp.HasLT && sp.LT[0] >= 0 {
		for _, n := range w.created[sp.LT[0]].GetNext() {
			if p, ok := inMap[n.String()]; ok {
				start = append(start, p)
			}
		}
	}
	// range = causal past of start
	var rng_ []int
	seen := map[string]bool{}
	for _, s := range start {
		if !seen[s.GetHash().String()] {
			seen[s.GetHash().String()] = true
			if i, ok := idxOf[s.GetHash().String()]; ok {
				rng_ = append(rng_, i)
			}
		}
		for k := range causalPast(s, inMap) {
			if !seen[k] {
				seen[k] = true
				if i, ok := idxOf[k]; ok {
					if _, in := inMap[k]; in {
						rng_ = append(rng_, i)
					}
				}
			}
		}
	}
	if related && rng.Intn(2) == 0 {
		// no lower bound, and an amount of three or more that the range can satisfy: the entry that is both a
		// bound and a predecessor of another bound is met twice by the traversal and counts once
		a := 3
		if len(rng_) > 3 {
			a += rng.Intn(len(rng_) - 2)
		}
		sp.Amount = &a
		return &hop{Kind: "iter", R: r, Iter: sp}
	}
	if x := rng.Intn(3); x > 0 && len(rng_) > 0 {
		b := rng_[rng.Intn(len(rng_))]
		if rng.Intn(12) == 0 {
			b = pickIn() // occasionally anywhere (outside the property's quantifier; model comparison only)
		}
		if x == 1 {
			sp.GT = &b
		} else {
			sp.GTE = &b
		}
	}
	if rng.Intn(3) > 0 {
		a := rng.Intn(len(rng_) + 3)
		if rng.Intn(6) == 0 {
			a = 0
		}
		if rng.Intn(10) == 0 {
			a = pick(rng, []int{1 << 60, math.MaxInt}) // "everything" asked for with a no-limit sentinel
		}
		sp.Amount = &a
	}
	return &hop{Kind: "iter", R: r, Iter: sp}
}

// replay generator: plays back a recorded history
func replayGen(ops []hop) func(h *histRun, i int) *hop {
	return func(h *histRun, i int) *hop {
		if i >= len(ops) {
			return nil
		}
		return &ops[i]
	}
}

// convergence monitor at the end of a history with a finale (C01)
func (h *histRun) monitorConvergence() {
	if h.opens > 0 {
		// the finale exchanges the original replicas only; replicas opened over selections of entries (and
		// whoever merged them) are outside the histories C01 quantifies over
		return
	}
	w := h.w
	last := len(h.ops) - 1
	var base *replica
	var baseEntries, baseHeads, baseValues []string
	for r, rep := range w.reps {
		if rep.logID != "L" || rep.opened || !h.unbounded[r] || h.joinFailed[r] || rep.log.Len() == 0 {
			continue
		}
		skip := false
		for _, o := range h.ops {
			if o.Kind == "new" && len(o.Deny) > 0 {
				skip = true // access-controlled histories are C06's business
			}
		}
		if skip {
			return
		}
		// replicas created as "empty" never joined anybody: only the first nReps take part
		joined := false
		for _, o := range h.ops {
			if o.Kind == "join" && o.R == r && o.Src != r {
				joined = true
			}
		}
		if !joined {
			continue
		}
		e := sortedCopy(rep.log.GetEntries().Keys())
		hd := sortedCopy(hashesOf(rep.log.Heads().Slice()))
		v := hashesOf(rep.log.Values().Slice())
		if base == nil {
			base, baseEntries, baseHeads, baseValues = rep, e, hd, v
			continue
		}
		if !eqStrings(e, baseEntries) {
			h.fail("C01", "converge-entries", "C01:entries-diverge", fmt.Sprintf("replicas hold different entry sets after a complete exchange (%d vs %d)", len(e), len(baseEntries)), last)
		}
		if !eqStrings(hd, baseHeads) {
			h.fail("C01", "converge-heads", "C01:heads-diverge", fmt.Sprintf("heads differ: %v vs %v", hd, baseHeads), last)
		}
		total := rep.sort == "hash" || !hasTies(rep.log.GetEntries().Slice())
		if total && !eqStrings(v, baseValues) {
			h.fail("C01", "converge-values", "C01:values-diverge", "Values() sequences differ although the ordering is total", last)
		}
	}
}

// ---------------------------------------------------------------------------------------------

type logRunCfg struct {
	prop       string
	profile    profile
	nQuick     int
	nThorough  int
	perShard   int
	alsoReport []string // failures of these properties are reported too (besides prop)
}

func runLogProp(cfg logRunCfg) func(seed int64, tier string, outDir string) *result {
	return func(seed int64, tier string, outDir string) *result {
		res := &result{Property: cfg.prop, Seed: seed, Tier: tier, Stats: map[string]interface{}{}}
		n := cfg.nQuick
		prof := cfg.profile
		slowBudget = 1
		if tier == "thorough" {
			n = cfg.nThorough
			prof.maxOps *= 3
			prof.maxReps++
			slowBudget = 6
		}
		hl := &caseList{name: "hist_cases", typ: "history", checker: "mismatches_hist"}
		wl := &caseList{name: "hist_cases_wf", checker: "mismatches_wf", sameAs: hl}
		header := "From IpfsLog Require Import Model.System Model.CheckLog.\nOpen Scope Z_scope.\n"
		var gens []func(h *histRun, i int) *hop
		if replayFile != "" {
			ops, err := loadReplayOps(replayFile)
			if err != nil {
				fmt.Fprintln(os.Stderr, "cannot load replay:", err)
				os.Exit(2)
			}
			gens = append(gens, replayGen(ops))
		} else {
			// corpus first, then random histories
			for _, ops := range corpusFor(cfg.prop) {
				gens = append(gens, replayGen(ops))
			}
			rng := rand.New(rand.NewSource(seed))
			for k := 0; k < n; k++ {
				gens = append(gens, newGen(rand.New(rand.NewSource(rng.Int63())), prof))
			}
		}
		shapes := map[string]bool{}
		perKey := map[string]int{}
		totOps, totEntries, withTies, withForks, bounded, denied, panics, iters, faulted := 0, 0, 0, 0, 0, 0, 0, 0, 0
		keyedHist, seededHist := 0, 0
		opKinds := map[string]int{}
		for _, g := range gens {
			h := &histRun{gen: g, w: newWorld()}
			h.exec()
			if prof.finale && replayFile == "" {
				h.monitorConvergence()
			}
			for _, f := range h.failures {
				if f.Property == cfg.prop || contains(cfg.alsoReport, f.Property) {
					perKey[f.Key]++
					if perKey[f.Key] <= 5 {
						res.Failures = append(res.Failures, f)
					}
				}
			}
			js, _ := json.Marshal(h.ops)
			hl.add(h.coq(), string(js))
			// statistics / distinctness: shape = sequence of op kinds + result classes + head counts
			var sh strings.Builder
			maxHeads := 0
			for i, o := range h.ops {
				fmt.Fprintf(&sh, "%s%d/%s/%d;", o.Kind[:1], o.R, h.obs[i].Class, len(h.obs[i].Heads))
				opKinds[o.Kind]++
				if len(h.obs[i].Heads) > maxHeads {
					maxHeads = len(h.obs[i].Heads)
				}
				if o.Kind == "iter" {
					iters++
				}
			}
			nontrivial := h.merges > 0 && maxHeads > 1 && len(h.w.created) >= 3
			if nontrivial {
				shapes[sh.String()] = true
			}
			totOps += len(h.ops)
			totEntries += len(h.w.created)
			withTies += h.tiesPresent
			if maxHeads > 1 {
				withForks++
			}
			bounded += h.boundedJoins
			for _, o := range h.ops {
				if o.Kind == "new" && o.Keyed {
					keyedHist++
					break
				}
			}
			for _, o := range h.ops {
				if o.Kind == "new" && o.Clock != 0 {
					seededHist++
					break
				}
			}
			denied += h.denied
			faulted += h.faulted
			panics += h.panics
			if len(res.Samples) < 2 && nontrivial {
				res.Samples = append(res.Samples, json.RawMessage(js))
			}
		}
		// scenario monitors built on LogOptions.Entries (forged entries, shared entry maps)
		if replayFile == "" && (cfg.prop == "C06" || cfg.prop == "C05" || cfg.prop == "C03" || cfg.prop == "C02" || cfg.prop == "C04" || cfg.prop == "C01" || cfg.prop == "C16" || cfg.prop == "C17" || cfg.prop == "C15") {
			st := &c06Stats{kinds: map[string]int{}}
			xf := func(prop, mon, key, detail string, c interface{}) {
				if prop == cfg.prop || contains(cfg.alsoReport, prop) {
					perKey[key]++
					if perKey[key] <= 5 {
						res.Failures = append(res.Failures, monitorFailure{Property: prop, Monitor: mon, Key: key, Detail: detail, Case: c})
					}
				}
			}
			xr := rand.New(rand.NewSource(seed + 7919))
			nf, na := 40, 25
			if tier == "thorough" {
				nf, na = 600, 300
			}
			if cfg.prop == "C06" {
				runMixedCodecScenarios(xr, na, st, xf)
			}
			if cfg.prop == "C06" || cfg.prop == "C02" || cfg.prop == "C05" {
				runForgeScenarios(xr, nf, st, xf)
			}
			if cfg.prop == "C06" {
				runBackfillForgeScenarios(xr, nf/2, st, xf)
				runReloadedACScenarios(xr, na/3+1, st, xf)
			}
			if cfg.prop == "C04" {
				runAppendScenarios(xr, na, st, xf)
				runPartialJoinScenarios(xr, na, st, xf)
			} else if cfg.prop == "C16" {
				runGapScenarios(xr, na/5+1, st, xf)
				runMixedSortScenarios(xr, na/2+1, st, xf)
			} else if cfg.prop == "C17" {
				runPinFaultScenarios(xr, na, st, xf)
				runPartialJoinScenarios(xr, na, st, xf)
			} else if cfg.prop != "C06" {
				runAliasScenarios(xr, na, st, xf)
				runPartialJoinScenarios(xr, na, st, xf)
				if cfg.prop == "C02" {
					runPinFaultScenarios(xr, na, st, xf)
				}
				if cfg.prop == "C02" || cfg.prop == "C01" {
					runOpenedJoinScenarios(xr, na, st, xf)
				}
				if cfg.prop == "C03" {
					runSeededClockScenarios(xr, na, st, xf)
				}
				if cfg.prop == "C05" {
					runMixedCodecScenarios(xr, na, st, xf)
					runHeadTwinScenarios(xr, na/2+1, st, xf)
				}
			}
			res.Stats["forged_logs_joined"] = st.forged
			res.Stats["forged_logs_rejected"] = st.rejected
			res.Stats["forged_kinds"] = st.kinds
			res.Stats["shared_entry_map_runs"] = st.aliasRuns
			res.Evaluations0 = st.forged + st.aliasRuns
		}
		if len(res.Samples) == 0 {
			res.Samples = []interface{}{"(no non-trivial history)"}
		}
		res.CaseFiles = writeShards(outDir, cfg.prop, header, []*caseList{hl, wl}, cfg.perShard)
		res.ModelCases = len(hl.items)
		res.Evaluations = len(gens) + res.Evaluations0
		res.Distinct = len(shapes)
		res.Rule = "random multi-replica histories (profile " + prof.name + "): 2-5 replicas over 1-4 identities (shared identities with prob. " +
			fmt.Sprint(prof.pShareIdent) + "), appends with pointer counts " + fmt.Sprint(prof.pcs) + ", joins (bounded with prob. " + fmt.Sprint(prof.pBounded) +
			"), self/empty/foreign-id joins, set-identity, publish, iterator ops; followed by a complete all-pairs exchange in random order with repeats; " +
			"a history is non-trivial when it has at least one merge, a state with >1 heads and >=3 entries; distinct = distinct sequences of (op kind, replica, result class, head count)"
		res.Stats["histories"] = len(gens)
		res.Stats["ops_total"] = totOps
		res.Stats["entries_total"] = totEntries
		res.Stats["histories_with_id_time_ties"] = withTies
		res.Stats["histories_with_forks"] = withForks
		res.Stats["bounded_joins"] = bounded
		res.Stats["histories_with_sealed_links"] = keyedHist
		res.Stats["histories_with_seeded_clocks"] = seededHist
		res.Stats["denied_appends"] = denied
		res.Stats["operations_during_store_outage"] = faulted
		res.Stats["panics_observed"] = panics
		res.Stats["iterator_ops"] = iters
		res.Stats["op_kinds"] = opKinds
		res.Stats["monitor_failures_by_key"] = perKey
		return res
	}
}

func contains(xs []string, x string) bool {
	for _, y := range xs {
		if x == y {
			return true
		}
	}
	return false
}

func loadReplayOps(path string) ([]hop, error) {
	b, err := os.ReadFile(path)
	if err != nil {
		return nil, err
	}
	var rp struct {
		Violation struct {
			Case struct {
				History []hop `json:"history"`
			} `json:"case"`
		} `json:"violation"`
		History []hop `json:"history"`
	}
	if err := json.Unmarshal(b, &rp); err != nil {
		return nil, err
	}
	if len(rp.History) > 0 {
		return rp.History, nil
	}
	return rp.Violation.Case.History, nil
}

// corpusFor loads minimised past failures / hand-written histories that run before the random ones
func corpusFor(prop string) [][]hop {
	var out [][]hop
	seen := map[string]bool{}
	exe, _ := os.Executable()
	for _, dir := range []string{filepath.Join(filepath.Dir(exe), "..", "corpus", prop), "../corpus/" + prop, "corpus/" + prop} {
		files, _ := os.ReadDir(dir)
		for _, f := range files {
			if strings.HasSuffix(f.Name(), ".json") {
				if seen[f.Name()] {
					continue
				}
				if ops, err := loadReplayOps(dir + "/" + f.Name()); err == nil && len(ops) > 0 {
					seen[f.Name()] = true
					out = append(out, ops)
				}
			}
		}
	}
	return out
}

func init() {
	p := baseProfile
	p2 := p
	p2.name = "base+acl"
	p2.pDenyLog = 0.3
	p2.pOpen = 0.03
	register("C02", runLogProp(logRunCfg{prop: "C02", profile: p2, nQuick: 150, nThorough: 3000, perShard: 12}))
	p6 := p
	p6.name = "acl"
	p6.pDenyLog = 0.5
	p6.pSetID = 0.06
	p6.pOpen = 0
	register("C06", runLogProp(logRunCfg{prop: "C06", profile: p6, nQuick: 150, nThorough: 3000, perShard: 12}))
	p3 := p
	p3.name = "base+acl"
	p3.pDenyLog = 0.2
	register("C03", runLogProp(logRunCfg{prop: "C03", profile: p3, nQuick: 150, nThorough: 3000, perShard: 12}))
	register("C01", runLogProp(logRunCfg{prop: "C01", profile: p, nQuick: 150, nThorough: 3000, perShard: 12}))
	p4 := p
	p4.name = "append-heavy"
	p4.pcs = []int{0, 1, 2, 3, 4, 7, 8, 16, 31, 64, 1000}
	p4.pSetID = 0.05
	p4.pWide = 0.3
	p4.pOpen = 0.05
	register("C04", runLogProp(logRunCfg{prop: "C04", profile: p4, nQuick: 150, nThorough: 3000, perShard: 12}))
	p5 := p
	p5.name = "base+acl"
	p5.pDenyLog = 0.3
	register("C05", runLogProp(logRunCfg{prop: "C05", profile: p5, nQuick: 150, nThorough: 3000, perShard: 12}))
	p16 := p
	p16.name = "bounded-joins"
	p16.pBounded = 0.45
	p16.finale = false
	p16.pOpen = 0.05
	register("C16", runLogProp(logRunCfg{prop: "C16", profile: p16, nQuick: 150, nThorough: 3000, perShard: 12}))
	p15 := p
	p15.name = "iterator"
	p15.pIter = 0.3
	p15.finale = false
	p15.pOpen = 0
	register("C15", runLogProp(logRunCfg{prop: "C15", profile: p15, nQuick: 150, nThorough: 3000, perShard: 12}))
	p17 := p
	p17.name = "store"
	p17.pPublish = 0.15
	p17.pDenyLog = 0.3
	p17.pShareIdent = 0.6
	p17.pFault = 0.12
	p17.pPin = 0.3
	p17.pOpen = 0
	p17.pBounded = 0.12 // size-bounded merges drop entries from the log, never blocks from the store
	register("C17", runLogProp(logRunCfg{prop: "C17", profile: p17, nQuick: 150, nThorough: 3000, perShard: 12}))
}
