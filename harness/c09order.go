package main

// C09: logs that were configured with an ordering of their own reload with that ordering.  The four
// loaders are handed the same LogOptions.SortFn the original log was created with (and nothing in
// FetchOptions); a complete reload must then linearise exactly as the original does.  Monitor only:
// the loader model (Model/Fetcher.v) is about the default ordering.

import (
	"context"
	"fmt"
	"math/rand"

	ipfslog "berty.tech/go-ipfs-log"
	"berty.tech/go-ipfs-log/entry"
	"berty.tech/go-ipfs-log/entry/sorting"
	"berty.tech/go-ipfs-log/iface"
)

func c09OrderedReloads(mon *c11Monitor, seed int64) int {
	ctx := context.Background()
	rng := rand.New(rand.NewSource(seed*977 + 5))
	n := 0
	orders := []struct {
		name string
		fn   iface.EntrySortFn
	}{{"fww", sorting.FirstWriteWins}, {"hash", sorting.SortByEntryHash}}
	for round := 0; round < 4; round++ {
		for _, ord := range orders {
			w := newWorld()
			// two or three writers (with the hash ordering two of them share an identity: (id,time) ties)
			idents := []string{"A", "B", "C"}
			if ord.name == "hash" {
				idents = []string{"A", "A", "B"}
			}
			var logs []*ipfslog.IPFSLog
			for _, id := range idents {
				l, err := ipfslog.NewLog(w.api, w.idents[id], &ipfslog.LogOptions{ID: "S", SortFn: ord.fn})
				if err != nil {
					panic(err)
				}
				logs = append(logs, l)
			}
			for k := 0; k < 2+rng.Intn(3); k++ {
				for i, l := range logs {
					if _, err := l.Append(ctx, []byte(fmt.Sprintf("w%d-%d", i, k)), &ipfslog.AppendOptions{PointerCount: 1 + rng.Intn(3)}); err != nil {
						panic(err)
					}
				}
			}
			src := logs[0]
			for _, o := range logs[1:] {
				if _, err := src.Join(o, -1); err != nil {
					panic(err)
				}
			}
			if rng.Intn(2) == 0 {
				if _, err := src.Append(ctx, []byte("top"), nil); err != nil {
					panic(err)
				}
			}
			want := hashesOf(src.Values().Slice())
			mh, err := src.ToMultihash(ctx)
			if err != nil {
				panic(err)
			}
			heads := src.Heads().Slice()
			opts := func() *ipfslog.LogOptions { return &ipfslog.LogOptions{ID: "S", SortFn: ord.fn} }
			loaders := map[string]func() (*ipfslog.IPFSLog, error){
				"manifest": func() (*ipfslog.IPFSLog, error) {
					return ipfslog.NewFromMultihash(ctx, w.api, w.idents["D"], mh, opts(), &ipfslog.FetchOptions{})
				},
				"json": func() (*ipfslog.IPFSLog, error) {
					return ipfslog.NewFromJSON(ctx, w.api, w.idents["D"], src.ToJSONLog(), opts(), &entry.FetchOptions{})
				},
				"entries": func() (*ipfslog.IPFSLog, error) {
					return ipfslog.NewFromEntry(ctx, w.api, w.idents["D"], heads, opts(), &entry.FetchOptions{})
				},
			}
			if len(heads) == 1 {
				loaders["entry-hash"] = func() (*ipfslog.IPFSLog, error) {
					return ipfslog.NewFromEntryHash(ctx, w.api, w.idents["D"], heads[0].GetHash(), opts(), &ipfslog.FetchOptions{})
				}
			}
			for _, name := range []string{"manifest", "json", "entries", "entry-hash"} {
				load, ok := loaders[name]
				if !ok {
					continue
				}
				n++
				c := map[string]interface{}{"loader": name, "ordering": ord.name, "writers": idents, "source_values": want}
				l, err := load()
				if err != nil {
					mon.fail("loads", "C09:"+name+":error", "loader failed on a log with its own ordering: "+err.Error(), c)
					continue
				}
				got := hashesOf(l.Values().Slice())
				c["loaded_values"] = got
				if !eqStrings(got, want) {
					mon.fail("same-values", "C09:"+name+":values-configured-ordering",
						fmt.Sprintf("a log created with the %s ordering and reloaded with the same LogOptions.SortFn linearises differently", ord.name), c)
				}
			}
		}
	}
	return n
}
