//go:build !race

package main

// c13RaceEnabled reports whether this binary was built with the Go race detector (-race).
const c13RaceEnabled = false
