package main

// C07: signatures are tamper evident over every signed field.
//
// Real entries are created with entry.CreateEntryWithIO (default cbor codec, deterministic
// identities, in-memory store).  Two things are done with each of them:
//
//  1. correspondence: the bytes the library signed are recovered through the public API
//     (entry.ToHashable, then the same map shape through encoding/json) and VALIDATED against the
//     real signature with the real public key - only then are they compared, byte for byte, with
//     the model's print (sig_view e) (coq/Model/Check07.v).
//  2. monitor: every single-field modification of the entry (each payload byte incl. bytes inside
//     invalid UTF-8 sequences, log id, next/refs insert/delete/swap/replace, v, clock id, clock
//     time, additional data, another identity's key, another signature, truncated signature) must
//     make Entry.Verify return an error.

import (
	"bytes"
	"context"
	"crypto/sha256"
	"encoding/hex"
	"encoding/json"
	"fmt"
	"math"
	"math/rand"
	"os"
	"sort"
	"strings"
	"unicode/utf8"

	"github.com/decred/dcrd/dcrec/secp256k1/v4"
	"github.com/ipfs/go-cid"

	"berty.tech/go-ipfs-log/enc"
	"berty.tech/go-ipfs-log/entry"
	idp "berty.tech/go-ipfs-log/identityprovider"
	"berty.tech/go-ipfs-log/iface"
	"berty.tech/go-ipfs-log/io/cbor"
)

func init() { register("C07", runC07) }

// c07Input is everything needed to re-create an entry (identities are deterministic).
type c07Input struct {
	Ident     string            `json:"ident"`
	LogIDHex  string            `json:"logid_hex"`
	Payload   string            `json:"payload_hex"`
	Next      []string          `json:"next"`
	Refs      []string          `json:"refs"`
	HasClock  bool              `json:"has_clock"`
	ClockID   string            `json:"clock_id_hex"`
	ClockTime int               `json:"clock_time"`
	AD        map[string]string `json:"additional_data,omitempty"`
	Class     string            `json:"payload_class"`
}

// c07Mod is one single-field modification: the field and its complete new value.
type c07Mod struct {
	Field string            `json:"field"` // payload id next refs v clock.id clock.time additional_data key sig
	Kind  string            `json:"kind"`
	Hex   string            `json:"new_hex,omitempty"`
	List  []string          `json:"new_list,omitempty"`
	Int   int64             `json:"new_int,omitempty"`
	Map   map[string]string `json:"new_map,omitempty"`
}

type c07Case struct {
	Input c07Input `json:"input"`
	Mod   c07Mod   `json:"mod"`
}

func c07Cids(ss []string) []cid.Cid {
	out := make([]cid.Cid, len(ss))
	for i, s := range ss {
		c, err := cid.Decode(s)
		if err != nil {
			panic(err)
		}
		out[i] = c
	}
	return out
}

func c07CidStrings(cs []cid.Cid) []string {
	out := make([]string, len(cs))
	for i, c := range cs {
		out[i] = c.String()
	}
	return out
}

func c07Unhex(s string) []byte {
	b, err := hex.DecodeString(s)
	if err != nil {
		panic(err)
	}
	return b
}

type c07Env struct {
	ctx    context.Context
	api    *memAPI
	io     iface.IO
	idents map[string]*idp.Identity
}

func c07NewEnv() *c07Env {
	names := []string{"c07-A", "c07-B"}
	ie := newIdentEnv(names...)
	api, _ := newAPI()
	io, err := cbor.IO(&entry.Entry{}, &entry.LamportClock{})
	if err != nil {
		panic(err)
	}
	env := &c07Env{ctx: context.Background(), api: api, io: io, idents: map[string]*idp.Identity{}}
	for _, n := range names {
		env.idents[n] = ie.identity(n)
	}
	return env
}

func (env *c07Env) create(in c07Input) (*entry.Entry, error) {
	data := &entry.Entry{
		Payload: c07Unhex(in.Payload),
		LogID:   string(c07Unhex(in.LogIDHex)),
		Next:    c07Cids(in.Next),
		Refs:    c07Cids(in.Refs),
	}
	if in.HasClock {
		data.Clock = entry.NewLamportClock(c07Unhex(in.ClockID), in.ClockTime)
	}
	if in.AD != nil {
		data.AdditionalData = map[string]string{}
		for k, v := range in.AD {
			data.AdditionalData[k] = v
		}
	}
	e, err := entry.CreateEntryWithIO(env.ctx, env.api, env.idents[in.Ident], data, nil, env.io)
	if err != nil {
		return nil, err
	}
	return e.(*entry.Entry), nil
}

func c07Clone(e *entry.Entry) *entry.Entry {
	c := *e
	c.Payload = append([]byte{}, e.Payload...)
	c.Next = append([]cid.Cid{}, e.Next...)
	c.Refs = append([]cid.Cid{}, e.Refs...)
	c.Key = append([]byte{}, e.Key...)
	c.Sig = append([]byte{}, e.Sig...)
	c.Clock = &entry.LamportClock{ID: append([]byte{}, e.Clock.ID...), Time: e.Clock.Time}
	c.AdditionalData = map[string]string{}
	for k, v := range e.AdditionalData {
		c.AdditionalData[k] = v
	}
	return &c
}

func c07Apply(e *entry.Entry, m c07Mod) *entry.Entry {
	c := c07Clone(e)
	switch m.Field {
	case "payload":
		c.Payload = c07Unhex(m.Hex)
	case "id":
		c.LogID = string(c07Unhex(m.Hex))
	case "next":
		c.Next = c07Cids(m.List)
	case "refs":
		c.Refs = c07Cids(m.List)
	case "v":
		c.V = uint64(m.Int)
	case "clock.id":
		c.Clock.ID = c07Unhex(m.Hex)
	case "clock.time":
		c.Clock.Time = int(m.Int)
	case "additional_data":
		c.AdditionalData = map[string]string{}
		for k, v := range m.Map {
			c.AdditionalData[k] = v
		}
	case "key":
		c.Key = c07Unhex(m.Hex)
	case "sig":
		c.Sig = c07Unhex(m.Hex)
	default:
		panic("unknown field " + m.Field)
	}
	return c
}

// c07Verify calls the real Entry.Verify; a panic is reported separately.
func (env *c07Env) verify(e *entry.Entry, ident string) (err error, panicked interface{}) {
	defer func() {
		if r := recover(); r != nil {
			panicked = r
		}
	}()
	return e.Verify(env.idents[ident].Provider, env.io), nil
}

// c07SigningBytes re-derives the bytes covered by the signature through the public API
// (entry.ToHashable + encoding/json over the map shape of toBuffer).  They are only trusted after
// c07Validated has checked them against the real signature.
func c07SigningBytes(e iface.IPFSLogEntry) ([]byte, error) {
	h, err := entry.ToHashable(e)
	if err != nil {
		return nil, err
	}
	data := map[string]interface{}{
		"hash":    nil,
		"id":      h.ID,
		"payload": string(h.Payload),
		"next":    h.Next,
		"refs":    h.Refs,
		"v":       h.V,
		"clock": map[string]interface{}{
			"id":   hex.EncodeToString(h.Clock.GetID()),
			"time": h.Clock.GetTime(),
		},
	}
	if len(h.AdditionalData) > 0 {
		data["additional_data"] = h.AdditionalData
	}
	return json.Marshal(data)
}

func (env *c07Env) validated(e *entry.Entry, ident string, b []byte) bool {
	pk, err := env.idents[ident].Provider.UnmarshalPublicKey(e.GetKey())
	if err != nil {
		return false
	}
	ok, err := pk.Verify(b, e.GetSig())
	return err == nil && ok
}

// c07Mask marks the bytes that are part of a valid UTF-8 sequence.
func c07Mask(p []byte) []bool {
	m := make([]bool, len(p))
	for i := 0; i < len(p); {
		r, sz := utf8.DecodeRune(p[i:])
		if r == utf8.RuneError && sz == 1 {
			i++
			continue
		}
		for k := 0; k < sz; k++ {
			m[i+k] = true
		}
		i += sz
	}
	return m
}

// c07DiffOnlyInvalid: same length, same positions of valid sequences, equal on them: the two byte
// strings differ only inside bytes that are not part of valid UTF-8 sequences.
func c07DiffOnlyInvalid(p, q []byte) bool {
	if len(p) != len(q) || bytes.Equal(p, q) {
		return false
	}
	mp, mq := c07Mask(p), c07Mask(q)
	for i := range p {
		if mp[i] != mq[i] {
			return false
		}
		if mp[i] && p[i] != q[i] {
			return false
		}
	}
	return true
}

// Go's own per-byte replacement (conversion through []rune)
func c07Sanitize(p []byte) []byte { return []byte(string([]rune(string(p)))) }

func coqBytes(b []byte) string {
	s := make([]string, len(b))
	for i, x := range b {
		s[i] = fmt.Sprintf("%d", x)
	}
	return "[" + strings.Join(s, ";") + "]"
}

func coqBytesList(ss []string) string {
	s := make([]string, len(ss))
	for i, x := range ss {
		s[i] = coqBytes([]byte(x))
	}
	return "[" + strings.Join(s, "; ") + "]"
}

type c07Payload struct {
	class string
	b     []byte
}

func c07Payloads(rng *rand.Rand, tier string) []c07Payload {
	ps := []c07Payload{
		{"ascii", []byte("hello world")},
		{"ascii", []byte("x")},
		{"ascii", []byte("{\"json\":[1,2,3],\"k\":null}")},
		{"utf8-multibyte", []byte("h\u00e9llo w\u00f6rld \u4e16\u754c \U0001F600 \u07ff\u0800\uffff\U00010000\U0010FFFF")},
		{"utf8-multibyte", []byte("\u007f\u0080\ud7ff\ue000")},
		{"utf8-replacement-char", []byte("a\ufffdb")},
		{"html", []byte("<script>alert('x')&amp;</script>")},
		{"control", []byte{0x00, 0x01, 0x07, 0x08, 0x09, 0x0a, 0x0b, 0x0c, 0x0d, 0x0e, 0x1f, 0x20, 0x7f}},
		{"quotes", []byte("say \"hi\" \\ back\\slash \\\" \\u0041 \\n")},
		{"u2028", []byte("line\u2028sep\u2029end")},
		{"empty-ish", []byte(" ")},
		{"empty-ish", []byte{0x00}},
		{"invalid-utf8", []byte{0xff}},
		{"invalid-utf8", []byte{0xff, 0x01}},
		{"invalid-utf8", []byte{'a', 0x80, 'b', 0xbf, 'c'}},
		{"invalid-utf8", []byte{0xc3, 0x28, 0xa0, 0xa1}},                         // bad continuation, stray continuations
		{"invalid-utf8", []byte{0xe2, 0x82, 0x28, 0xe2, 0x28, 0xa1, 0xe2, 0x82}}, // truncated 3-byte sequences
		{"invalid-utf8", []byte{0xf0, 0x9f, 0x98, 0xf0, 0x28, 0x8c, 0xbc, 0xf0, 0x90, 0x28, 0xbc}},
		{"invalid-utf8", []byte{0xc0, 0xaf, 0xc1, 0xbf, 0xe0, 0x80, 0xaf, 0xf0, 0x80, 0x80, 0xaf}}, // overlong
		{"invalid-utf8", []byte{0xed, 0xa0, 0x80, 0xed, 0xbf, 0xbf}},                               // surrogates
		{"invalid-utf8", []byte{0xf4, 0x90, 0x80, 0x80, 0xf5, 0x80, 0x80, 0x80, 0xf8, 0x88, 0x80, 0x80, 0x80}},
		{"invalid-utf8", []byte{'o', 'k', 0xe4, 0xb8, 0x96, 0xfe, 0xe7, 0x95, 0x8c, 0xff, '!'}}, // valid text with two stray bytes
		{"invalid-utf8", []byte{0xef, 0xbf, 0xbd, 0xff, 0xef, 0xbf}},                            // literal U+FFFD next to invalid bytes
		{"binary", func() []byte {
			b := make([]byte, 256)
			for i := range b {
				b[i] = byte(i)
			}
			return b
		}()},
	}
	nrand := 12
	if tier == "thorough" {
		nrand = 500
	}
	for i := 0; i < nrand; i++ {
		n := 1 + rng.Intn(24)
		b := make([]byte, n)
		switch rng.Intn(3) {
		case 0: // uniformly random bytes
			rng.Read(b)
			ps = append(ps, c07Payload{"random-bytes", b})
		case 1: // bytes biased to UTF-8 structure
			alphabet := []byte{0x00, 0x22, 0x26, 0x3c, 0x3e, 0x5c, 0x41, 0x7f, 0x80, 0xa0, 0xbf, 0xc2, 0xdf, 0xe0, 0xe2, 0xed, 0xef, 0xf0, 0xf4, 0xf5, 0xff, 0xa8, 0xa9, 0xbd}
			for k := range b {
				b[k] = alphabet[rng.Intn(len(alphabet))]
			}
			ps = append(ps, c07Payload{"random-utf8ish", b})
		default: // random valid text
			var sb strings.Builder
			for k := 0; k < n/2+1; k++ {
				r := []rune{'a', '"', '\\', '<', 0x7f, 0x80, 0x7ff, 0x800, 0x2028, 0x2029, 0xfffd, 0xffff, 0x10000, 0x10ffff, '\n', 0x1b}[rng.Intn(16)]
				sb.WriteRune(r)
			}
			ps = append(ps, c07Payload{"random-text", []byte(sb.String())})
		}
	}
	return ps
}

func runC07(seed int64, tier string, outDir string) *result {
	rng := rand.New(rand.NewSource(seed))
	res := &result{Property: "C07", Seed: seed, Tier: tier, Stats: map[string]interface{}{}}
	env := c07NewEnv()

	failCount := map[string]int{}
	fail := func(mon, key, detail string, c interface{}) {
		failCount[key]++
		if failCount[key] <= 8 && len(res.Failures) < 60 {
			res.Failures = append(res.Failures, monitorFailure{Property: "C07", Monitor: mon, Detail: detail, Case: c, Key: key})
		}
	}

	if replayFile != "" {
		c07Replay(env, res, fail)
		return res
	}

	// ---- inputs ----
	payloads := c07Payloads(rng, tier)
	logids := [][]byte{[]byte("log-A"), []byte("l\u00f6g \u4e16\u754c"), []byte("<id&>\"q\"\\"), []byte("a b\tc"), []byte("X")}
	pubA, pubB := env.idents["c07-A"].PublicKey, env.idents["c07-B"].PublicKey
	// clock ids: key-shaped constants (33 and 65 bytes) and short ones; not the identities' own keys, so
	// that recorded cases do not depend on key material (entries without a clock get the identity key)
	k33, k65 := make([]byte, 33), make([]byte, 65)
	k33[0], k65[0] = 0x02, 0x04
	for i := 1; i < 65; i++ {
		if i < 33 {
			k33[i] = byte(7 * i)
		}
		k65[i] = byte(255 - 3*i)
	}
	clockIDs := [][]byte{k33, k65, {0x01}, {0x00, 0xff, 0x7f, 0x80}, []byte("peer")}
	times := []int{0, 1, 2, 9, 10, 99, 100, 12345, 1 << 31, 1 << 40, math.MaxInt64, -1, -10, math.MinInt64}
	ads := []map[string]string{nil, nil, {}, {"k": "v"}, {"b": "1", "a": "2", "ab": "<3>", "B": "", "\u00e9": "\u2028"}, {"enc": "QUJD", "nonce": "\"n\""}}
	var inputs []c07Input
	nfake := 0
	fakes := func(n int) []string {
		out := make([]string, n)
		for i := range out {
			nfake++
			c := fakeCid(fmt.Sprintf("c07-%d-%d", seed, nfake))
			if nfake%4 == 0 {
				c = cid.NewCidV0(c.Hash()) // links to blocks of the legacy pb codec are CIDv0 ("Qm...")
			}
			out[i] = c.String()
		}
		return out
	}
	for i, p := range payloads {
		in := c07Input{Ident: []string{"c07-A", "c07-B"}[i%2], Payload: hex.EncodeToString(p.b), Class: p.class,
			LogIDHex: hex.EncodeToString(logids[i%len(logids)])}
		in.Next = fakes([]int{0, 1, 2, 3, 5, 4}[rng.Intn(6)])
		in.Refs = fakes([]int{0, 1, 2, 5, 3, 4}[rng.Intn(6)])
		if rng.Intn(4) != 0 {
			in.HasClock = true
			in.ClockID = hex.EncodeToString(clockIDs[rng.Intn(len(clockIDs))])
			in.ClockTime = times[rng.Intn(len(times))]
		}
		if ad := ads[rng.Intn(len(ads))]; ad != nil {
			in.AD = ad
		}
		inputs = append(inputs, in)
	}
	// shapes independent of the payload: every next/refs count 0..5 x additional data, every time
	for n := 0; n <= 5; n++ {
		for r := 0; r <= 5; r += 1 + n%2 {
			in := c07Input{Ident: "c07-A", Payload: hex.EncodeToString([]byte(fmt.Sprintf("n%d r%d", n, r))), Class: "ascii",
				LogIDHex: hex.EncodeToString(logids[(n+r)%len(logids)]), Next: fakes(n), Refs: fakes(r), HasClock: true,
				ClockID: hex.EncodeToString(clockIDs[(n*7+r)%len(clockIDs)]), ClockTime: times[(n*6+r)%len(times)]}
			if (n+r)%3 == 0 {
				in.AD = ads[3+(n+r)%3]
			}
			inputs = append(inputs, in)
		}
	}
	// duplicated predecessors are removed by Copy() before signing
	dup := fakes(2)
	inputs = append(inputs, c07Input{Ident: "c07-B", Payload: hex.EncodeToString([]byte("dups")), Class: "ascii", LogIDHex: hex.EncodeToString(logids[0]),
		Next: []string{dup[0], dup[1], dup[0]}, Refs: []string{dup[1], dup[1]}})
	// a log id that is not valid UTF-8 (a Go string may hold any bytes)
	inputs = append(inputs, c07Input{Ident: "c07-A", Payload: hex.EncodeToString([]byte("binary log id")), Class: "ascii",
		LogIDHex: hex.EncodeToString([]byte{'i', 'd', 0xff, 0xc3}), Next: fakes(1), Refs: fakes(1)})

	// ---- run ----
	header := "From Coq Require Import List NArith ZArith.\nFrom IpfsLog Require Import Model.Json Model.Signing Model.Check07.\nImport ListNotations.\nOpen Scope N_scope.\n"
	signList := &caseList{name: "sign_cases", typ: "sign_case", checker: "mismatches_sign"}
	sanList := &caseList{name: "san_cases", typ: "san_case", checker: "mismatches_san"}
	distinct := map[[32]byte]struct{}{}
	modsPerField := map[string]int{}
	classCount := map[string]int{}
	shape := map[string]int{}
	evals := 0
	stillVerify := 0
	uncompressedVerifies := map[string]int{}
	unvalidated := 0

	type made struct {
		in c07Input
		e  *entry.Entry
		sb []byte
	}
	var entries []made
	for _, in := range inputs {
		e, err := env.create(in)
		if err != nil {
			fail("create", "C07:create-failed", err.Error(), in)
			continue
		}
		if err, p := env.verify(e, in.Ident); err != nil || p != nil {
			fail("created-entry-verifies", "C07:fresh-entry-does-not-verify", fmt.Sprintf("err=%v panic=%v", err, p), in)
			continue
		}
		sb, err := c07SigningBytes(e)
		shapeNote := ""
		if err != nil || !env.validated(e, in.Ident, sb) {
			// The map shape of toBuffer known to the harness is not what the signature covers any
			// more.  This is a broken tie, not a failing input: the model case is recorded with no
			// observed bytes (a guaranteed model/implementation disagreement, reported by the driver)
			// and the tamper monitors below still run on the entry.
			unvalidated++
			sb = nil
			shapeNote = "SIGNING BYTES NOT VALIDATED: json.Marshal of {hash,id,payload,next,refs,v,clock{id,time}[,additional_data]} over entry.ToHashable(e) does not verify under the entry's own key and signature (did toBuffer change shape?) "
		}
		entries = append(entries, made{in, e, sb})
		classCount[in.Class]++
		shape[fmt.Sprintf("next=%d refs=%d ad=%d", len(e.Next), len(e.Refs), len(e.AdditionalData))]++
		// model case
		adKeys := make([]string, 0, len(e.AdditionalData))
		for k := range e.AdditionalData {
			adKeys = append(adKeys, k)
		}
		sort.Sort(sort.Reverse(sort.StringSlice(adKeys))) // deliberately not in key order: the model sorts
		adItems := make([]string, len(adKeys))
		for i, k := range adKeys {
			adItems[i] = "(" + coqBytes([]byte(k)) + ", " + coqBytes([]byte(e.AdditionalData[k])) + ")"
		}
		// CIDs enter the model as the base58btc strings the library itself derives (cidB58)
		hb, _ := entry.ToHashable(e)
		signList.add(fmt.Sprintf("Build_sign_case %s %s %s %s %d %s %s %s %s %s",
			coqBytes([]byte(e.LogID)), coqBytes(e.Payload), coqBytesList(hb.Next), coqBytesList(hb.Refs),
			e.V, coqBytes(e.Clock.ID), coqZ(int64(e.Clock.Time)), coqList(adItems), coqBytes(sb), coqBool(utf8.Valid(e.Payload))),
			fmt.Sprintf("%sentry ident=%s logid=%x payload=%x next=%d refs=%d clock=(%x,%d) ad=%v signed=%q",
				shapeNote, in.Ident, e.LogID, e.Payload, len(e.Next), len(e.Refs), e.Clock.ID, e.Clock.Time, e.AdditionalData, sb))
		q, _ := json.Marshal(string(e.Payload))
		sanList.add(fmt.Sprintf("Build_san_case %s %s %s", coqBytes(e.Payload), coqBytes(c07Sanitize(e.Payload)), coqBytes(q)),
			fmt.Sprintf("payload=%x", e.Payload))
	}

	// ---- modifications ----
	for ei, m := range entries {
		e, in := m.e, m.in
		var mods []c07Mod
		add := func(mm c07Mod) { mods = append(mods, mm) }
		// payload
		mask := c07Mask(e.Payload)
		stride := 1
		if len(e.Payload) > 64 && tier != "thorough" {
			stride = 5
		}
		for i := 0; i < len(e.Payload); i += stride {
			alts := []byte{e.Payload[i] ^ 0x01, e.Payload[i] ^ 0x80, e.Payload[i] ^ 0x20}
			if !mask[i] {
				alts = append(alts, 0xff, 0xfe, 0x80, 0xc0, 0xf8)
			}
			seen := map[byte]bool{e.Payload[i]: true}
			for _, a := range alts {
				if seen[a] {
					continue
				}
				seen[a] = true
				p := append([]byte{}, e.Payload...)
				p[i] = a
				add(c07Mod{Field: "payload", Kind: fmt.Sprintf("byte[%d] %02x->%02x", i, e.Payload[i], a), Hex: hex.EncodeToString(p)})
			}
		}
		add(c07Mod{Field: "payload", Kind: "append 00", Hex: hex.EncodeToString(append(append([]byte{}, e.Payload...), 0))})
		add(c07Mod{Field: "payload", Kind: "append ff", Hex: hex.EncodeToString(append(append([]byte{}, e.Payload...), 0xff))})
		add(c07Mod{Field: "payload", Kind: "prepend 20", Hex: hex.EncodeToString(append([]byte{0x20}, e.Payload...))})
		if len(e.Payload) > 1 {
			add(c07Mod{Field: "payload", Kind: "drop last", Hex: hex.EncodeToString(e.Payload[:len(e.Payload)-1])})
		}
		// log id
		lid := []byte(e.LogID)
		add(c07Mod{Field: "id", Kind: "append x", Hex: hex.EncodeToString(append(append([]byte{}, lid...), 'x'))})
		lmask := c07Mask(lid)
		for i := range lid {
			alts := []byte{lid[i] ^ 0x01}
			if !lmask[i] {
				alts = append(alts, 0xfd, 0x80)
			}
			seen := map[byte]bool{lid[i]: true}
			for _, a := range alts {
				if seen[a] {
					continue
				}
				seen[a] = true
				p := append([]byte{}, lid...)
				p[i] = a
				add(c07Mod{Field: "id", Kind: fmt.Sprintf("byte[%d] %02x->%02x", i, lid[i], a), Hex: hex.EncodeToString(p)})
			}
		}
		if len(lid) > 1 {
			add(c07Mod{Field: "id", Kind: "drop last", Hex: hex.EncodeToString(lid[:len(lid)-1])})
		}
		// next / refs
		for _, fld := range []string{"next", "refs"} {
			cur := c07CidStrings(e.Next)
			if fld == "refs" {
				cur = c07CidStrings(e.Refs)
			}
			fresh := fakeCid(fmt.Sprintf("c07-tamper-%d-%s", ei, fld)).String()
			with := func(kind string, l []string) { add(c07Mod{Field: fld, Kind: kind, List: append([]string{}, l...)}) }
			with("insert front", append([]string{fresh}, cur...))
			with("insert back", append(append([]string{}, cur...), fresh))
			for i := range cur {
				del := append(append([]string{}, cur[:i]...), cur[i+1:]...)
				with(fmt.Sprintf("delete [%d]", i), del)
				rep := append([]string{}, cur...)
				rep[i] = fresh
				with(fmt.Sprintf("replace [%d]", i), rep)
				if i+1 < len(cur) {
					sw := append([]string{}, cur...)
					sw[i], sw[i+1] = sw[i+1], sw[i]
					with(fmt.Sprintf("swap [%d],[%d]", i, i+1), sw)
				}
				// a sibling identifier over the SAME multihash (other codec / CID version): a different
				// link, and a different string in the signed bytes
				if c, err := cid.Decode(cur[i]); err == nil {
					for _, sib := range []cid.Cid{cid.NewCidV1(cid.Raw, c.Hash()), cid.NewCidV1(cid.DagProtobuf, c.Hash()), cid.NewCidV0(c.Hash())} {
						if sib.String() != cur[i] {
							sb := append([]string{}, cur...)
							sb[i] = sib.String()
							with(fmt.Sprintf("replace [%d] by a sibling CID of the same multihash (codec %d, version %d)", i, sib.Type(), sib.Version()), sb)
						}
					}
				}
			}
			if len(cur) > 0 {
				with("duplicate [0] at end", append(append([]string{}, cur...), cur[0]))
			}
			if len(cur) > 2 {
				rv := make([]string, len(cur))
				for i := range cur {
					rv[len(cur)-1-i] = cur[i]
				}
				with("reverse", rv)
			}
			other := c07CidStrings(e.Refs)
			if fld == "refs" {
				other = c07CidStrings(e.Next)
			}
			if len(other) > 0 && !equalStrings(other, cur) {
				with("replace by the other link list", other)
			}
		}
		// v
		for _, v := range []uint64{0, 1, 3, e.V + 1, math.MaxInt64} {
			if v != e.V {
				add(c07Mod{Field: "v", Kind: fmt.Sprintf("%d->%d", e.V, v), Int: int64(v)})
			}
		}
		// clock id
		cidb := e.Clock.ID
		for _, i := range []int{0, len(cidb) / 2, len(cidb) - 1} {
			p := append([]byte{}, cidb...)
			p[i] ^= 0x01
			add(c07Mod{Field: "clock.id", Kind: fmt.Sprintf("flip byte[%d]", i), Hex: hex.EncodeToString(p)})
		}
		add(c07Mod{Field: "clock.id", Kind: "append 00", Hex: hex.EncodeToString(append(append([]byte{}, cidb...), 0))})
		add(c07Mod{Field: "clock.id", Kind: "drop last", Hex: hex.EncodeToString(cidb[:len(cidb)-1])})
		add(c07Mod{Field: "clock.id", Kind: "removed", Hex: ""})
		for _, o := range [][]byte{pubA, pubB} {
			if !bytes.Equal(o, cidb) {
				add(c07Mod{Field: "clock.id", Kind: "other identity's key", Hex: hex.EncodeToString(o)})
			}
		}
		// clock time
		tset := map[int]bool{e.Clock.Time: true}
		for _, t := range []int{e.Clock.Time + 1, e.Clock.Time - 1, -e.Clock.Time, 0, e.Clock.Time * 10, e.Clock.Time / 10} {
			if !tset[t] {
				tset[t] = true
				add(c07Mod{Field: "clock.time", Kind: fmt.Sprintf("%d->%d", e.Clock.Time, t), Int: int64(t)})
			}
		}
		// additional data
		{
			cp := func() map[string]string {
				o := map[string]string{}
				for k, v := range e.AdditionalData {
					o[k] = v
				}
				return o
			}
			a := cp()
			a["zz-added"] = "1"
			add(c07Mod{Field: "additional_data", Kind: "add key", Map: a})
			for k, v := range e.AdditionalData {
				b := cp()
				b[k] = v + "!"
				add(c07Mod{Field: "additional_data", Kind: "change value of " + k, Map: b})
				d := cp()
				delete(d, k)
				add(c07Mod{Field: "additional_data", Kind: "remove key " + k, Map: d})
				r := cp()
				delete(r, k)
				r[k+"_"] = v
				add(c07Mod{Field: "additional_data", Kind: "rename key " + k, Map: r})
			}
		}
		// key
		otherIdent := "c07-B"
		if in.Ident == "c07-B" {
			otherIdent = "c07-A"
		}
		add(c07Mod{Field: "key", Kind: "other identity's key", Hex: hex.EncodeToString(env.idents[otherIdent].PublicKey)})
		{
			k := append([]byte{}, e.Key...)
			k[len(k)-1] ^= 0x01
			add(c07Mod{Field: "key", Kind: "flip last byte", Hex: hex.EncodeToString(k)})
			k2 := append([]byte{}, e.Key...)
			k2[0] ^= 0x01 // 02 <-> 03: the other point with the same x
			add(c07Mod{Field: "key", Kind: "flip parity byte", Hex: hex.EncodeToString(k2)})
			add(c07Mod{Field: "key", Kind: "truncate", Hex: hex.EncodeToString(e.Key[:len(e.Key)-1])})
		}
		// signature
		oth := entries[(ei+1)%len(entries)]
		for off := 1; off < len(entries) && (oth.in.Ident != in.Ident || bytes.Equal(oth.e.Sig, e.Sig)); off++ {
			oth = entries[(ei+off)%len(entries)]
		}
		if !bytes.Equal(oth.e.Sig, e.Sig) {
			add(c07Mod{Field: "sig", Kind: "another entry's signature (same identity)", Hex: hex.EncodeToString(oth.e.Sig)})
		}
		{
			in2 := in
			in2.Ident = otherIdent
			if in.HasClock { // same signed content, signed by the other identity
				if e2, err := env.create(in2); err == nil {
					add(c07Mod{Field: "sig", Kind: "other identity's signature over the same bytes", Hex: hex.EncodeToString(e2.Sig)})
				}
			}
			add(c07Mod{Field: "sig", Kind: "truncate", Hex: hex.EncodeToString(e.Sig[:len(e.Sig)-1])})
			add(c07Mod{Field: "sig", Kind: "truncate to 1", Hex: hex.EncodeToString(e.Sig[:1])})
			add(c07Mod{Field: "sig", Kind: "append 00", Hex: hex.EncodeToString(append(append([]byte{}, e.Sig...), 0))})
			for _, i := range []int{0, 4, len(e.Sig) / 2, len(e.Sig) - 1} {
				s := append([]byte{}, e.Sig...)
				s[i] ^= 0x01
				add(c07Mod{Field: "sig", Kind: fmt.Sprintf("flip byte[%d]", i), Hex: hex.EncodeToString(s)})
			}
		}

		for _, mm := range mods {
			e2 := c07Apply(e, mm)
			evals++
			modsPerField[mm.Field]++
			sb2, _ := c07SigningBytes(e2)
			distinct[sha256.Sum256(append(append(append([]byte{}, sb2...), e2.Key...), e2.Sig...))] = struct{}{}
			err, p := env.verify(e2, in.Ident)
			c := c07Case{Input: in, Mod: mm}
			if p != nil {
				fail("verify-does-not-panic", "C07:verify-panics:"+mm.Field, fmt.Sprintf("Verify panicked: %v", p), c)
				continue
			}
			if err != nil {
				continue
			}
			stillVerify++
			switch {
			case mm.Field == "payload" && c07DiffOnlyInvalid(e.Payload, e2.Payload):
				q1, _ := json.Marshal(string(e.Payload))
				q2, _ := json.Marshal(string(e2.Payload))
				fail("tamper-detected", "C07:payload-invalid-utf8-not-bound",
					fmt.Sprintf("payload %x -> %x (%s) still verifies: encoding/json signs them as %s and %s", e.Payload, e2.Payload, mm.Kind, q1, q2), c)
			case mm.Field == "id" && c07DiffOnlyInvalid([]byte(e.LogID), []byte(e2.LogID)):
				fail("tamper-detected", "C07:logid-invalid-utf8-not-bound",
					fmt.Sprintf("log id %x -> %x (%s) still verifies", e.LogID, e2.LogID, mm.Kind), c)
			default:
				fail("tamper-detected", "C07:unbound-field:"+mm.Field,
					fmt.Sprintf("modification of %s (%s) still verifies; signing bytes before %q after %q", mm.Field, mm.Kind, m.sb, sb2), c)
			}
		}
		// informational: the same public key in its uncompressed encoding is not a different key
		if pk, err := secp256k1.ParsePubKey(e.Key); err == nil {
			e2 := c07Clone(e)
			e2.Key = pk.SerializeUncompressed()
			err, p := env.verify(e2, in.Ident)
			uncompressedVerifies[fmt.Sprintf("verifies=%v", err == nil && p == nil)]++
		}
	}

	// entries of logs that seal their links (cbor.Options.LinkKey): the signature covers the links all the
	// same - for a holder of the key every change of next or refs fails verification, on the entry as it
	// was created and as it is read back from the store
	sealedEvals := 0
	{
		key, err := enc.NewSecretbox([]byte("0123456789abcdef0123456789abcdef"))
		if err != nil {
			panic(err)
		}
		dio, err := cbor.IO(&entry.Entry{}, &entry.LamportClock{})
		if err != nil {
			panic(err)
		}
		kio := dio.ApplyOptions(&cbor.Options{LinkKey: key})
		id := env.idents["c07-A"]
		mkc := func(s string) cid.Cid { return fakeCid("c07-sealed-" + s) }
		for k := 0; k < 6; k++ {
			in := &entry.Entry{Payload: []byte(fmt.Sprintf("sealed-%d", k)), LogID: "c07s", Next: []cid.Cid{mkc(fmt.Sprint("n", k)), mkc(fmt.Sprint("m", k))}}
			if k%2 == 0 {
				in.Refs = []cid.Cid{mkc(fmt.Sprint("r", k)), mkc(fmt.Sprint("s", k))}
			}
			out, err := entry.CreateEntryWithIO(env.ctx, env.api, id, in, nil, kio)
			if err != nil {
				fail("sealed-links", "C07:sealed-entry-create-error", err.Error(), nil)
				continue
			}
			created := out.(*entry.Entry)
			subjects := map[string]*entry.Entry{"as created": created}
			if back, err := entry.FromMultihashWithIO(env.ctx, env.api, created.GetHash(), id.Provider, kio); err == nil {
				subjects["as read back"] = back.(*entry.Entry)
			}
			for how, e := range subjects {
				sealedEvals++
				if err := c07Clone(e).Verify(id.Provider, kio); err != nil {
					fail("sealed-links", "C07:genuine-rejected", fmt.Sprintf("a genuine entry with sealed links (%s) does not verify: %v", how, err), nil)
					continue
				}
				mods := map[string]func(c *entry.Entry){
					"next replaced":       func(c *entry.Entry) { c.Next = []cid.Cid{mkc("x"), c.Next[1]} },
					"next entry added":    func(c *entry.Entry) { c.Next = append(c.Next, mkc("y")) },
					"next entry removed":  func(c *entry.Entry) { c.Next = c.Next[:1] },
					"next order swapped":  func(c *entry.Entry) { c.Next = []cid.Cid{c.Next[1], c.Next[0]} },
					"reference added":     func(c *entry.Entry) { c.Refs = append(c.Refs, mkc("z")) },
					"references replaced": func(c *entry.Entry) { c.Refs = []cid.Cid{mkc("w")} },
				}
				for name, m := range mods {
					c := c07Clone(e)
					m(c)
					sealedEvals++
					if err := c.Verify(id.Provider, kio); err == nil {
						fail("tamper-detected", "C07:tamper-accepted:sealed-links", fmt.Sprintf("entry with sealed links, %s: %s - Verify still succeeds", how, name), map[string]interface{}{"entry": k, "modification": name, "subject": how})
					}
				}
			}
		}
	}
	res.Stats["sealed_link_tamper_evaluations"] = sealedEvals

	res.CaseFiles = writeShards(outDir, "C07", header, []*caseList{signList, sanList}, 40)
	res.ModelCases = len(signList.items) + len(sanList.items)
	res.Evaluations = evals + len(entries) + sealedEvals
	res.Distinct = len(distinct)
	res.Rule = "entries: one per payload of a fixed pool (ASCII, multi-byte UTF-8 incl. the boundary code points, HTML characters, all control characters, quotes/backslashes, U+2028/9, 1-byte, every kind of invalid UTF-8: stray continuation, truncated 2/3/4-byte sequences, overlong, surrogates, > U+10FFFF, all 256 byte values) plus seeded random byte/UTF-8-ish/text payloads, plus one per (#next, #refs) shape in 0..5 x 0..5, with and without clock and additional data; modifications: every payload byte x up to 8 replacement values, log id bytes, next/refs insert/delete/replace/swap/duplicate/reverse, v, clock id, clock time, additional data, key, signature. distinct_nontrivial = number of distinct tampered entries (SHA-256 of signing bytes, key and signature) that were verified"
	res.Stats["entries"] = len(entries)
	res.Stats["entries_whose_signing_bytes_could_not_be_validated"] = unvalidated
	res.Stats["payload_classes"] = classCount
	res.Stats["entry_shapes"] = shape
	res.Stats["modifications_per_field"] = modsPerField
	res.Stats["modifications_that_still_verify"] = stillVerify
	res.Stats["failures_per_key"] = failCount
	res.Stats["same_key_uncompressed_encoding"] = uncompressedVerifies
	if len(signList.labels) > 0 {
		res.Samples = []interface{}{signList.labels[0], signList.labels[len(signList.labels)/2], signList.labels[len(signList.labels)-1]}
	}
	return res
}

func equalStrings(a, b []string) bool {
	if len(a) != len(b) {
		return false
	}
	for i := range a {
		if a[i] != b[i] {
			return false
		}
	}
	return true
}

// c07Replay re-executes the recorded case (replay file written by the driver) on the real code.
func c07Replay(env *c07Env, res *result, fail func(mon, key, detail string, c interface{})) {
	raw, err := os.ReadFile(replayFile)
	if err != nil {
		panic(err)
	}
	var rf struct {
		Violation struct {
			Key  string  `json:"key"`
			Case c07Case `json:"case"`
		} `json:"violation"`
	}
	if err := json.Unmarshal(raw, &rf); err != nil {
		panic(err)
	}
	c := rf.Violation.Case
	if c.Mod.Field == "" {
		fmt.Println("replay: the file holds no failing input (obligation-or-tie-broken); nothing to re-execute on the implementation")
		return
	}
	e, err := env.create(c.Input)
	if err != nil {
		fmt.Println("replay: create failed:", err)
		fail("create", "C07:create-failed", err.Error(), c)
		return
	}
	sb, _ := c07SigningBytes(e)
	err0, _ := env.verify(e, c.Input.Ident)
	e2 := c07Apply(e, c.Mod)
	sb2, _ := c07SigningBytes(e2)
	err1, p := env.verify(e2, c.Input.Ident)
	fmt.Printf("replay C07: field=%s kind=%s\n original : payload=%x logid=%x verify error=%v\n  signed bytes %q\n modified : payload=%x logid=%x verify error=%v panic=%v\n  signed bytes %q\n",
		c.Mod.Field, c.Mod.Kind, e.Payload, e.LogID, err0, sb, e2.Payload, e2.LogID, err1, p, sb2)
	res.Evaluations = 1
	if err1 == nil && p == nil {
		fmt.Println(" ASSERTION FAILED: the modified entry still verifies")
		fail("tamper-detected", rf.Violation.Key, "replayed: the modified entry still verifies", c)
	} else {
		fmt.Println(" assertion holds: the modified entry is rejected")
	}
}
