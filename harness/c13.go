package main

// C13: a log shared between goroutines behaves atomically.
//
// Drives the real implementation with several goroutines operating on ONE *IPFSLog:
//   - "free" runs: goroutines start on a barrier and are perturbed only by runtime.Gosched() in the
//     verifhook handler (which touches no shared state, so the harness adds no happens-before
//     edges): these are the runs the Go race detector judges (binary built with -race; every
//     report written by the runtime is turned into a monitor failure keyed by the two top
//     library frames);
//   - "forced" runs: single-preemption schedules - one goroutine is parked at one of its yield
//     points (verifhook) while all the others run to completion (or block on it), for every
//     (goroutine, yield point) of the run, systematically for 2-3 goroutines x 1-2 operations;
//     these runs evaluate the functional monitors (completion, appended exactly once, one
//     append chain consistent with completion order, structurally sound concurrent reads).
// No model cases: the tie for C13/C14 is the generated coq/Gen/Locks.v.

import (
	"berty.tech/go-ipfs-log/enc"
	"berty.tech/go-ipfs-log/entry"
	"berty.tech/go-ipfs-log/io/cbor"
	"bytes"
	"context"
	"encoding/json"
	"fmt"
	"math/rand"
	"os"
	"regexp"
	"runtime"
	"sort"
	"strconv"
	"strings"
	"sync"
	"sync/atomic"
	"syscall"
	"time"

	"github.com/ipfs/go-cid"

	ipfslog "berty.tech/go-ipfs-log"
	"berty.tech/go-ipfs-log/accesscontroller"
	idp "berty.tech/go-ipfs-log/identityprovider"
	"berty.tech/go-ipfs-log/iface"
	"berty.tech/go-ipfs-log/verifhook"
)

func init() { register("C13", runC13) }

// ---------------------------------------------------------------------------------------------
// race detector plumbing

// c13EnsureRaceLog re-executes the process with GORACE pointing at a log file in outDir when the
// binary is race-instrumented and the variable is not set accordingly (the race runtime reads it
// once at start-up).
func c13EnsureRaceLog(outDir string) string {
	prefix := outDir + "/race"
	if !c13RaceEnabled {
		return ""
	}
	if !strings.Contains(os.Getenv("GORACE"), "log_path="+prefix) {
		env := []string{}
		for _, e := range os.Environ() {
			if !strings.HasPrefix(e, "GORACE=") {
				env = append(env, e)
			}
		}
		env = append(env, "GORACE=halt_on_error=0 exitcode=0 log_path="+prefix)
		exe, err := os.Executable()
		if err == nil {
			_ = syscall.Exec(exe, os.Args, env) // only returns on error
		}
		return ""
	}
	return prefix + "." + strconv.Itoa(os.Getpid())
}

type c13Race struct {
	Key    string   `json:"key"`
	Frames []string `json:"frames"`
	Text   string   `json:"text"`
}

var c13FrameRe = regexp.MustCompile(`^\s+(\S+)\(.*\)$`)

// c13ParseRaces extracts the race reports from the text of a race log.
func c13ParseRaces(prop, text string) []c13Race {
	var out []c13Race
	for _, blk := range strings.Split(text, "==================") {
		if !strings.Contains(blk, "WARNING: DATA RACE") {
			continue
		}
		lines := strings.Split(blk, "\n")
		var tops []string
		var locs []string
		for i := 0; i < len(lines); i++ {
			l := lines[i]
			if strings.Contains(l, " at 0x") && (strings.HasPrefix(l, "Read at") || strings.HasPrefix(l, "Write at") ||
				strings.HasPrefix(l, "Previous read at") || strings.HasPrefix(l, "Previous write at") ||
				strings.HasPrefix(l, "Atomic") || strings.HasPrefix(l, "Previous atomic")) {
				// frames follow until an empty line; pick the first one inside the library
				top, loc := "?", ""
				first := ""
				for j := i + 1; j < len(lines) && strings.TrimSpace(lines[j]) != ""; j += 2 {
					m := c13FrameRe.FindStringSubmatch(lines[j])
					if m == nil {
						continue
					}
					fn := m[1]
					if first == "" {
						first = fn
					}
					if strings.HasPrefix(fn, "berty.tech/go-ipfs-log") {
						top = strings.TrimPrefix(fn, "berty.tech/go-ipfs-log")
						top = strings.TrimPrefix(top, ".")
						top = strings.TrimPrefix(top, "/")
						if j+1 < len(lines) {
							loc = strings.TrimSpace(lines[j+1])
							if k := strings.Index(loc, " +0x"); k > 0 {
								loc = loc[:k]
							}
							if k := strings.LastIndex(loc, "/"); k >= 0 {
								loc = loc[k+1:]
							}
						}
						break
					}
				}
				if top == "?" {
					top = "outside:" + first
				}
				tops = append(tops, top)
				locs = append(locs, top+" "+loc)
			}
		}
		if len(tops) < 2 {
			tops = append(tops, "?", "?")
		}
		pair := []string{tops[0], tops[1]}
		sort.Strings(pair)
		t := strings.TrimSpace(blk)
		if len(t) > 2500 {
			t = t[:2500] + "..."
		}
		out = append(out, c13Race{Key: prop + ":race:" + pair[0] + "/" + pair[1], Frames: locs, Text: t})
	}
	return out
}

type c13RaceLog struct {
	path string
	off  int64
}

// fresh returns the reports appended to the log since the last call.
func (r *c13RaceLog) fresh(prop string) []c13Race {
	if r == nil || r.path == "" {
		return nil
	}
	b, err := os.ReadFile(r.path)
	if err != nil || int64(len(b)) <= r.off {
		return nil
	}
	chunk := string(b[r.off:])
	// only consume complete reports
	last := strings.LastIndex(chunk, "==================")
	if last < 0 {
		return nil
	}
	chunk = chunk[:last+len("==================")]
	r.off += int64(len(chunk))
	return c13ParseRaces(prop, chunk)
}

// ---------------------------------------------------------------------------------------------
// environment

type c13Env struct {
	ids    *identEnv
	idents map[string]*idp.Identity
}

var c13EnvOnce sync.Once
var c13TheEnv *c13Env

func c13GetEnv() *c13Env {
	c13EnvOnce.Do(func() {
		names := []string{"userA", "userB", "userC", "userD"}
		e := &c13Env{ids: newIdentEnv(names...), idents: map[string]*idp.Identity{}}
		for _, n := range names {
			e.idents[n] = e.ids.identity(n)
		}
		c13TheEnv = e
	})
	return c13TheEnv
}

// c13DenyAC refuses entries whose payload starts with the given prefix.
type c13DenyAC struct{ prefix string }

func (d *c13DenyAC) CanAppend(e accesscontroller.LogEntry, _ idp.Interface, actx accesscontroller.CanAppendAdditionalContext) error {
	// a controller may consult the log it guards (duplicate detection, earlier grants): the context it is
	// handed is there for that, and it is called while the log's lock is held
	if actx != nil {
		_ = actx.GetLogEntries()
	}
	if d.prefix != "" && strings.HasPrefix(string(e.GetPayload()), d.prefix) {
		return fmt.Errorf("denied by the harness access controller")
	}
	return nil
}

// c13IO, when set, is the codec of every log of the case being set up (a link-encrypting cbor codec
// shared by all of them, as replicas of one encrypted log share it)
var c13IO iface.IO

func c13NewLog(api *memAPI, id *idp.Identity, ac accesscontroller.Interface) *ipfslog.IPFSLog {
	l, err := ipfslog.NewLog(api, id, &ipfslog.LogOptions{ID: "X", AccessController: ac, IO: c13IO})
	if err != nil {
		panic(err)
	}
	return l
}

// c13Pad, when > 0, pads every payload of the case being set up to that many bytes, and appends use
// skip references
var c13Pad int

func c13MustAppend(l *ipfslog.IPFSLog, payload string) iface.IPFSLogEntry {
	var opts *ipfslog.AppendOptions
	if c13Pad > len(payload) {
		payload += strings.Repeat(".", c13Pad-len(payload))
		opts = &ipfslog.AppendOptions{PointerCount: 4}
	}
	e, err := l.Append(context.Background(), []byte(payload), opts)
	if err != nil {
		panic(err)
	}
	return e
}

// ---------------------------------------------------------------------------------------------
// cases

type c13Op struct {
	Kind string `json:"kind"` // append join joinb values heads get has len snapshot jsonlog entries iterator iter2 setid multihash
	Arg  int    `json:"arg,omitempty"`
}

type c13Park struct {
	Worker int    `json:"worker"`
	Point  string `json:"point"`
	Occ    int    `json:"occ"`
}

type c13Case struct {
	Scenario string    `json:"scenario"`
	Mode     string    `json:"mode"` // free | forced
	Seed     int64     `json:"seed"`
	Deny     bool      `json:"deny,omitempty"`           // destination refuses the source's entries
	Keyed    bool      `json:"keyed,omitempty"`          // all logs use one link-encrypting codec, payloads of 9 KiB, skip references
	SlowIO   bool      `json:"slow_store,omitempty"`     // every block write takes 120 ms while the workers run
	Big      bool      `json:"big_source,omitempty"`     // the second source log holds 150 more entries (merging it takes a while)
	SlowPub  bool      `json:"slow_manifests,omitempty"` // manifest writes take 300 ms while the workers run, entry writes are immediate
	Workers  [][]c13Op `json:"workers"`
	Park     *c13Park  `json:"park,omitempty"`
}

func (c c13Case) signature() string {
	var ws []string
	for _, w := range c.Workers {
		var ks []string
		for _, o := range w {
			ks = append(ks, o.Kind)
		}
		ws = append(ws, strings.Join(ks, ","))
	}
	sort.Strings(ws)
	s := c.Mode + "|" + strings.Join(ws, " || ")
	if c.Park != nil {
		s += fmt.Sprintf("|park@%s#%d", c.Park.Point, c.Park.Occ)
	}
	if c.Deny {
		s += "|deny"
	}
	if c.Keyed {
		s += "|keyed"
	}
	if c.SlowIO {
		s += "|slow-store"
	}
	if c.SlowPub {
		s += "|slow-manifests"
	}
	if c.Big {
		s += "|big-source"
	}
	return s
}

type c13Obs struct {
	Worker int      `json:"worker"`
	Op     c13Op    `json:"op"`
	Start  int64    `json:"start"`
	End    int64    `json:"end"`
	Err    string   `json:"err,omitempty"`
	List   []string `json:"list,omitempty"`  // hashes, in the order returned
	Heads  []string `json:"heads,omitempty"` // hashes
	N      int      `json:"n,omitempty"`
	Found  bool     `json:"found,omitempty"`
	Hash   string   `json:"hash,omitempty"` // appended entry
}

// goroutine id of the caller (the hook handler needs to know which worker it is running on)
func c13Gid() int64 {
	var buf [64]byte
	n := runtime.Stack(buf[:], false)
	f := bytes.Fields(buf[:n])
	if len(f) < 2 {
		return -1
	}
	id, _ := strconv.ParseInt(string(f[1]), 10, 64)
	return id
}

type c13Run struct {
	c        c13Case
	api      *memAPI
	log      *ipfslog.IPFSLog
	sources  []*ipfslog.IPFSLog
	initial  []string // hashes in the shared log before the run
	clock    int64
	obsMu    sync.Mutex
	obs      []c13Obs
	traces   [][]string // per worker: yield points reached, in order
	gids     sync.Map   // gid -> worker index (forced mode only)
	arrived  chan struct{}
	release  chan struct{}
	seen     []map[string]int
	hung     bool
	elapsed  time.Duration
	overlaps int
}

func hs(c cid.Cid) string { return c.String() }

func c13Hashes(es []iface.IPFSLogEntry) []string {
	out := make([]string, 0, len(es))
	for _, e := range es {
		if e == nil {
			out = append(out, "<nil>")
			continue
		}
		out = append(out, hs(e.GetHash()))
	}
	return out
}

func c13Setup(c c13Case) *c13Run {
	env := c13GetEnv()
	api, _ := newAPI()
	c13IO, c13Pad = nil, 0
	if c.Keyed {
		key, err := enc.NewSecretbox([]byte("0123456789abcdef0123456789abcdef"))
		if err != nil {
			panic(err)
		}
		dio, err := cbor.IO(&entry.Entry{}, &entry.LamportClock{})
		if err != nil {
			panic(err)
		}
		c13IO, c13Pad = dio.ApplyOptions(&cbor.Options{LinkKey: key}), 9000
	}
	var ac accesscontroller.Interface = &c13DenyAC{}
	if c.Deny {
		ac = &c13DenyAC{prefix: "s"}
	}
	r := &c13Run{c: c, api: api}
	r.log = c13NewLog(api, env.idents["userA"], ac)
	for i := 0; i < 3; i++ {
		e := c13MustAppend(r.log, fmt.Sprintf("init%d", i))
		r.initial = append(r.initial, hs(e.GetHash()))
	}
	s1 := c13NewLog(api, env.idents["userB"], nil)
	c13MustAppend(s1, "s1-a")
	c13MustAppend(s1, "s1-b")
	s2 := c13NewLog(api, env.idents["userC"], nil)
	c13MustAppend(s2, "s2-a")
	if _, err := s2.Join(s1, -1); err != nil {
		panic(err)
	}
	c13MustAppend(s2, "s2-b")
	c13MustAppend(s2, "s2-c")
	if c.Deny {
		// more refused entries than the log has verification slots (Concurrency defaults to 16)
		for i := 0; i < 18; i++ {
			c13MustAppend(s2, fmt.Sprintf("s2-x%d", i))
		}
	}
	if c.Big {
		for i := 0; i < 150; i++ {
			c13MustAppend(s2, fmt.Sprintf("s2-big%d", i))
		}
	}
	r.sources = []*ipfslog.IPFSLog{s1, s2}
	return r
}

func (r *c13Run) tick() int64 { return atomic.AddInt64(&r.clock, 1) }

func (r *c13Run) do(w int, k int, op c13Op, record bool) {
	env := c13GetEnv()
	o := c13Obs{Worker: w, Op: op}
	if record {
		o.Start = r.tick()
	}
	l := r.log
	ctx := context.Background()
	switch op.Kind {
	case "append":
		e, err := l.Append(ctx, []byte(fmt.Sprintf("w%d-%d", w, k)), nil)
		if err != nil {
			o.Err = err.Error()
		} else {
			o.Hash = hs(e.GetHash())
		}
	case "join":
		if _, err := l.Join(r.sources[op.Arg%len(r.sources)], -1); err != nil {
			o.Err = err.Error()
		}
	case "joinall": // a merge with a bound far beyond the merged size: nothing is dropped, the bounded code path runs
		if _, err := l.Join(r.sources[op.Arg%len(r.sources)], 1<<20); err != nil {
			o.Err = err.Error()
		}
	case "joinb": // bounded join; the bound never exceeds the initial size (F1 is another property's business)
		if _, err := l.Join(r.sources[op.Arg%len(r.sources)], 2); err != nil {
			o.Err = err.Error()
		}
	case "values":
		o.List = c13Hashes(l.Values().Slice())
	case "heads":
		o.Heads = c13Hashes(l.Heads().Slice())
	case "get":
		c, _ := cid.Decode(r.initial[op.Arg%len(r.initial)])
		_, o.Found = l.Get(c)
	case "has":
		c, _ := cid.Decode(r.initial[op.Arg%len(r.initial)])
		o.Found = l.Has(c)
	case "len":
		o.N = l.Len()
	case "snapshot":
		s := l.ToSnapshot()
		o.List = c13Hashes(s.Values)
		for _, h := range s.Heads {
			o.Heads = append(o.Heads, hs(h))
		}
	case "jsonlog":
		j := l.ToJSONLog()
		for _, h := range j.Heads {
			o.Heads = append(o.Heads, hs(h))
		}
	case "entries":
		o.List = c13Hashes(l.GetEntries().Slice())
	case "iterator", "iter2", "iterlte":
		opts := &ipfslog.IteratorOptions{}
		if op.Kind == "iter2" {
			n := 2
			opts.Amount = &n
		}
		if op.Kind == "iterlte" {
			// explicit upper bound: Iterator looks the bound up in the log while it holds the read lock
			c, _ := cid.Decode(r.initial[len(r.initial)-1])
			opts.LTE = []cid.Cid{c}
		}
		ch := make(chan iface.IPFSLogEntry, 4096)
		if err := l.Iterator(opts, ch); err != nil {
			o.Err = err.Error()
		} else {
			for e := range ch {
				o.List = append(o.List, hs(e.GetHash()))
			}
		}
	case "iterappend":
		// the consumer of a running iteration writes to the log before it has drained the (unbuffered) channel
		ch := make(chan iface.IPFSLogEntry)
		done := make(chan error, 1)
		go func() { done <- l.Iterator(&ipfslog.IteratorOptions{}, ch) }()
		first := true
		for e := range ch {
			o.List = append(o.List, hs(e.GetHash()))
			if first {
				first = false
				if ne, err := l.Append(ctx, []byte(fmt.Sprintf("w%d-%d-mid-iteration", w, k)), nil); err != nil {
					o.Err = err.Error()
				} else {
					o.Hash = hs(ne.GetHash())
				}
			}
		}
		if err := <-done; err != nil && o.Err == "" {
			o.Err = err.Error()
		}
	case "pause":
		time.Sleep(time.Duration(op.Arg) * 100 * time.Microsecond)
	case "setid":
		names := []string{"userA", "userD"}
		l.SetIdentity(env.idents[names[op.Arg%2]])
	case "multihash":
		c, err := l.ToMultihash(ctx)
		if err != nil {
			o.Err = err.Error()
		} else {
			o.Hash = hs(c)
			// what was published: the heads the manifest names
			if node, gerr := r.api.Dag().Get(ctx, c); gerr == nil {
				if jl, derr := l.IO().DecodeRawJSONLog(node); derr == nil {
					for _, h := range jl.Heads {
						o.Heads = append(o.Heads, hs(h))
					}
					o.Found = true
				}
			}
		}
	default:
		panic("unknown op " + op.Kind)
	}
	if record {
		o.End = r.tick()
		r.obsMu.Lock()
		r.obs = append(r.obs, o)
		r.obsMu.Unlock()
	}
}

// gosched counts derived from the point name and the seed only: the free-mode handler touches no
// shared mutable state, so it adds no synchronisation the race detector could see.
func c13Yields(point string, seed int64) int {
	h := uint64(seed)*1099511628211 + 14695981039346656037
	for i := 0; i < len(point); i++ {
		h = (h ^ uint64(point[i])) * 1099511628211
	}
	return int(h>>33) % 4
}

func (r *c13Run) handler() func(point string, arg interface{}) {
	seed := r.c.Seed
	if r.c.Mode == "free" {
		return func(point string, arg interface{}) {
			for i, n := 0, c13Yields(point, seed); i < n; i++ {
				runtime.Gosched()
			}
		}
	}
	return func(point string, arg interface{}) {
		v, ok := r.gids.Load(c13Gid())
		if !ok {
			return
		}
		w := v.(int)
		r.obsMu.Lock()
		occ := r.seen[w][point]
		r.seen[w][point]++
		r.traces[w] = append(r.traces[w], point)
		r.obsMu.Unlock()
		if p := r.c.Park; p != nil && p.Worker == w && p.Point == point && p.Occ == occ {
			close(r.arrived)
			select {
			case <-r.release:
			case <-time.After(3 * time.Second):
			}
		}
	}
}

const c13Watchdog = 6 * time.Second

// execute runs the case; returns false when the watchdog fired
func (r *c13Run) execute() bool {
	nw := len(r.c.Workers)
	r.traces = make([][]string, nw)
	r.seen = make([]map[string]int, nw)
	for i := range r.seen {
		r.seen[i] = map[string]int{}
	}
	r.arrived = make(chan struct{})
	r.release = make(chan struct{})
	verifhook.SetHandler(r.handler())
	defer verifhook.SetHandler(nil)
	start := make(chan struct{})
	done := make([]chan struct{}, nw)
	record := r.c.Mode != "free" || r.c.Scenario != "race-soak"
	forced := r.c.Mode == "forced"
	for w := range r.c.Workers {
		done[w] = make(chan struct{})
		go func(w int) {
			defer close(done[w])
			if forced {
				r.gids.Store(c13Gid(), w)
			}
			<-start
			for k, op := range r.c.Workers[w] {
				r.do(w, k, op, record)
			}
		}(w)
	}
	t0 := time.Now()
	close(start)
	deadline := time.After(c13Watchdog)
	if forced && r.c.Park != nil {
		// let everybody else finish (or block on the parked goroutine), then release it
		select {
		case <-r.arrived:
			others := time.After(40 * time.Millisecond)
		wait:
			for w := range done {
				if w == r.c.Park.Worker {
					continue
				}
				select {
				case <-done[w]:
				case <-others:
					break wait
				}
			}
			close(r.release)
		case <-time.After(500 * time.Millisecond): // the point was not reached in this run
			close(r.release)
		}
	}
	for w := range done {
		select {
		case <-done[w]:
		case <-deadline:
			r.hung = true
			r.elapsed = time.Since(t0)
			return false
		}
	}
	r.elapsed = time.Since(t0)
	return true
}

// ---------------------------------------------------------------------------------------------
// monitors

type c13Graph struct {
	next map[string][]string
}

func c13GraphOf(logs ...*ipfslog.IPFSLog) *c13Graph {
	g := &c13Graph{next: map[string][]string{}}
	for _, l := range logs {
		for _, e := range l.GetEntries().Slice() {
			var ns []string
			for _, n := range e.GetNext() {
				ns = append(ns, hs(n))
			}
			g.next[hs(e.GetHash())] = ns
		}
	}
	return g
}

// past returns the strict causal past of h inside the graph
func (g *c13Graph) past(h string) map[string]bool {
	seen := map[string]bool{}
	stack := append([]string{}, g.next[h]...)
	for len(stack) > 0 {
		x := stack[len(stack)-1]
		stack = stack[:len(stack)-1]
		if seen[x] {
			continue
		}
		seen[x] = true
		stack = append(stack, g.next[x]...)
	}
	return seen
}

const (
	c13Unordered = iota
	c13OldestFirst
	c13NewestFirst
)

// c13CheckList checks a linearisation: duplicate free, members of `universe`, closed under next
// (when complete), and causally ordered (oldestFirst: every entry after its predecessors).
func c13CheckList(g *c13Graph, universe map[string]bool, list []string, complete bool, order int) string {
	oldestFirst, ordered := order == c13OldestFirst, order != c13Unordered
	idx := map[string]int{}
	for i, h := range list {
		if _, dup := idx[h]; dup {
			return "duplicate entry " + h
		}
		idx[h] = i
		if !universe[h] {
			return "entry " + h + " is not an entry of the final log"
		}
	}
	for i, h := range list {
		for _, n := range g.next[h] {
			j, in := idx[n]
			if !in {
				if complete && universe[n] {
					return fmt.Sprintf("incomplete: %s is present but its predecessor %s is not", h, n)
				}
				continue
			}
			if !ordered {
				continue
			}
			if oldestFirst && j > i {
				return fmt.Sprintf("causal order violated: %s (position %d) before its predecessor %s (position %d)", h, i, n, j)
			}
			if !oldestFirst && j < i {
				return fmt.Sprintf("causal order violated: predecessor %s (position %d) before %s (position %d)", n, j, h, i)
			}
		}
	}
	return ""
}

func c13Unreferenced(g *c13Graph, set []string) []string {
	ref := map[string]bool{}
	for _, h := range set {
		for _, n := range g.next[h] {
			ref[n] = true
		}
	}
	var out []string
	for _, h := range set {
		if !ref[h] {
			out = append(out, h)
		}
	}
	sort.Strings(out)
	return out
}

func c13SameSet(a, b []string) bool {
	x := append([]string{}, a...)
	y := append([]string{}, b...)
	sort.Strings(x)
	sort.Strings(y)
	return strings.Join(x, ",") == strings.Join(y, ",")
}

// evaluate runs every functional monitor on a completed run; prop is the reporting property.
func (r *c13Run) evaluate(prop string) []monitorFailure {
	var fails []monitorFailure
	fail := func(mon, key, detail string) {
		fails = append(fails, monitorFailure{Property: prop, Monitor: mon, Detail: detail, Case: r.c, Key: key})
	}
	bounded := false
	for _, w := range r.c.Workers {
		for _, o := range w {
			if o.Kind == "joinb" {
				bounded = true
			}
		}
	}
	g := c13GraphOf(append([]*ipfslog.IPFSLog{r.log}, r.sources...)...)
	finalEntries := c13Hashes(r.log.GetEntries().Slice())
	universe := map[string]bool{}
	for _, h := range finalEntries {
		universe[h] = true
	}
	// final state: heads = unreferenced entries, values complete / duplicate free / causal
	finalHeads := c13Hashes(r.log.Heads().Slice())
	if !bounded {
		if want := c13Unreferenced(g, finalEntries); !c13SameSet(want, finalHeads) {
			fail("final-heads", prop+":final-heads", fmt.Sprintf("heads %v, unreferenced entries %v", finalHeads, want))
		}
		vals := c13Hashes(r.log.Values().Slice())
		if msg := c13CheckList(g, universe, vals, true, c13OldestFirst); msg != "" {
			fail("final-values", prop+":final-values", msg)
		} else if len(vals) != len(finalEntries) {
			fail("final-values", prop+":final-values", fmt.Sprintf("Values() has %d entries, the log %d", len(vals), len(finalEntries)))
		}
	}
	sort.Slice(r.obs, func(i, j int) bool { return r.obs[i].Start < r.obs[j].Start })
	// appended exactly once; one chain consistent with completion order
	var apps []c13Obs
	for _, o := range r.obs {
		if o.Err != "" && !(r.c.Deny && (o.Op.Kind == "join" || o.Op.Kind == "joinb")) {
			fail("op-error", prop+":op-error:"+o.Op.Kind, fmt.Sprintf("worker %d %s: %s", o.Worker, o.Op.Kind, o.Err))
		}
		if o.Op.Kind == "append" && o.Err == "" {
			apps = append(apps, o)
		}
	}
	if !bounded {
		count := map[string]int{}
		for _, h := range finalEntries {
			count[h]++
		}
		for _, a := range apps {
			if count[a.Hash] != 1 {
				fail("append-once", prop+":append-once", fmt.Sprintf("entry %s of a successful Append occurs %d times in the final log", a.Hash, count[a.Hash]))
			}
		}
		pasts := map[string]map[string]bool{}
		for _, a := range apps {
			pasts[a.Hash] = g.past(a.Hash)
		}
		for i, a := range apps {
			for _, b := range apps[i+1:] {
				if a.Hash == b.Hash {
					fail("append-chain", prop+":append-chain", "two Append calls returned the same entry "+a.Hash)
					continue
				}
				ab, ba := pasts[b.Hash][a.Hash], pasts[a.Hash][b.Hash]
				if !ab && !ba {
					fail("append-chain", prop+":append-chain", fmt.Sprintf("appends %s and %s on the same log are causally unrelated", a.Hash, b.Hash))
				}
				if a.End < b.Start && !ab {
					fail("append-chain", prop+":append-chain", fmt.Sprintf("append %s returned before append %s started but is not in its causal past", a.Hash, b.Hash))
				}
				if b.End < a.Start && !ba {
					fail("append-chain", prop+":append-chain", fmt.Sprintf("append %s returned before append %s started but is not in its causal past", b.Hash, a.Hash))
				}
			}
		}
		if r.c.Deny {
			for _, h := range finalEntries {
				for _, s := range r.sources {
					c, _ := cid.Decode(h)
					if e, ok := s.Get(c); ok && strings.HasPrefix(string(e.GetPayload()), "s") {
						fail("join-atomic", prop+":join-not-atomic", "a refused merge left entry "+h+" in the log")
					}
				}
			}
		}
	}
	// concurrent reads
	for _, o := range r.obs {
		tag := fmt.Sprintf("worker %d %s [%d,%d]: ", o.Worker, o.Op.Kind, o.Start, o.End)
		switch o.Op.Kind {
		case "values":
			if msg := c13CheckList(g, universe, o.List, !bounded, c13OldestFirst); msg != "" && !bounded {
				fail("read-values", prop+":read:values", tag+msg)
			}
		case "entries":
			if bounded {
				break
			}
			if msg := c13CheckList(g, universe, o.List, true, c13Unordered); msg != "" {
				fail("read-entries", prop+":read:entries", tag+msg)
			}
			in := map[string]bool{}
			for _, h := range o.List {
				in[h] = true
			}
			for _, h := range r.initial {
				if !in[h] {
					fail("read-entries", prop+":read:entries", tag+"initial entry "+h+" missing")
				}
			}
		case "iterlte":
			if bounded {
				break
			}
			// the causal past of the last initial entry, newest first: exactly the initial entries
			want := append([]string{}, r.initial...)
			for a, b := 0, len(want)-1; a < b; a, b = a+1, b-1 {
				want[a], want[b] = want[b], want[a]
			}
			if o.Err == "" && strings.Join(o.List, ",") != strings.Join(want, ",") {
				fail("read-iterator", prop+":read:iterator", tag+fmt.Sprintf("Iterator(LTE=last initial entry) returned %v, want %v", o.List, want))
			}
		case "iterator", "iter2":
			if bounded {
				break
			}
			if msg := c13CheckList(g, universe, o.List, o.Op.Kind == "iterator", c13NewestFirst); msg != "" {
				fail("read-iterator", prop+":read:iterator", tag+msg)
			}
			if o.Op.Kind == "iter2" && len(o.List) != 2 {
				fail("read-iterator", prop+":read:iterator", tag+fmt.Sprintf("asked for 2 entries, got %d", len(o.List)))
			}
		case "snapshot":
			if bounded {
				break
			}
			if msg := c13CheckList(g, universe, o.List, true, c13OldestFirst); msg != "" {
				fail("read-snapshot", prop+":read:snapshot", tag+msg)
			}
			if want := c13Unreferenced(g, o.List); !c13SameSet(want, o.Heads) {
				fail("read-snapshot", prop+":read:snapshot", tag+fmt.Sprintf("heads %v are not the unreferenced entries %v of the snapshot's values", o.Heads, want))
			}
		case "heads", "jsonlog":
			if bounded {
				break
			}
			for _, h := range o.Heads {
				if !universe[h] {
					fail("read-heads", prop+":read:heads", tag+"head "+h+" is not an entry of the log")
				}
			}
			for _, h := range o.Heads {
				p := g.past(h)
				for _, h2 := range o.Heads {
					if p[h2] {
						fail("read-heads", prop+":read:heads", tag+fmt.Sprintf("head %s is in the causal past of head %s", h2, h))
					}
				}
			}
			if len(o.Heads) == 0 {
				fail("read-heads", prop+":read:heads", tag+"no heads on a non-empty log")
			}
		case "multihash":
			// a publication names a state the log had during the call: every append that had returned
			// before it began is in the history of the heads it names
			if bounded || o.Err != "" || !o.Found {
				break
			}
			covered := map[string]bool{}
			for _, h := range o.Heads {
				covered[h] = true
				for p := range g.past(h) {
					covered[p] = true
				}
			}
			for _, a := range apps {
				if a.End < o.Start && !covered[a.Hash] {
					fail("read-manifest", prop+":read:manifest", tag+fmt.Sprintf("the manifest %s names heads %v; append %s had returned before the publication began and is not in their history", o.Hash, o.Heads, a.Hash))
					break
				}
			}
		case "get", "has":
			if !o.Found && !bounded {
				fail("read-get", prop+":read:get", tag+"an entry appended before the run was not found")
			}
		case "len":
			if !bounded && (o.N < len(r.initial) || o.N > len(finalEntries)) {
				fail("read-len", prop+":read:len", tag+fmt.Sprintf("Len() = %d outside [%d,%d]", o.N, len(r.initial), len(finalEntries)))
			}
		}
	}
	// did operations of different goroutines overlap in time?
	for i, a := range r.obs {
		for _, b := range r.obs[i+1:] {
			if a.Worker != b.Worker && a.Start < b.End && b.Start < a.End {
				r.overlaps++
			}
		}
	}
	return fails
}

// ---------------------------------------------------------------------------------------------
// runner

var c13Kinds = []string{"append", "join", "values", "heads", "get", "has", "len", "snapshot", "jsonlog", "entries", "iterator", "iter2", "iterlte", "iterappend", "setid", "multihash"}

type c13Tally struct {
	setupHangs int
	res        *result
	prop       string
	racelog    *c13RaceLog
	sigs       map[string]bool
	keys       map[string]int
	runs       map[string]int
	overlap    int
	hooks      map[string]int
	failCap    int
	samples    int
	maxFails   int
}

func (t *c13Tally) addFailure(f monitorFailure) {
	t.keys[f.Key]++
	if t.keys[f.Key] <= 3 && len(t.res.Failures) < 60 {
		t.res.Failures = append(t.res.Failures, f)
	}
}

// runCase executes one case, evaluates monitors, attributes fresh race reports to it
func (t *c13Tally) runCase(c c13Case) *c13Run {
	announce(c)
	if t.setupHangs >= 3 {
		return &c13Run{c: c, hung: true} // the sequential set-up keeps hanging: nothing else can be learnt from this tree
	}
	var r *c13Run
	ready := make(chan struct{})
	go func() {
		r = c13Setup(c)
		if c.SlowIO {
			r.api.d.stall = "brief"
		}
		if c.SlowPub {
			r.api.d.stall = "manifest"
		}
		close(ready)
	}()
	select {
	case <-ready:
	case <-time.After(3 * c13Watchdog):
		t.setupHangs++
		t.res.Evaluations++
		t.addFailure(monitorFailure{Property: t.prop, Monitor: "completion", Key: t.prop + ":deadlock", Case: c,
			Detail: fmt.Sprintf("the sequential set-up of the case (appends and one merge on fresh logs, no concurrency yet) did not complete within %v", 3*c13Watchdog)})
		return &c13Run{c: c, hung: true}
	}
	ok := r.execute()
	t.res.Evaluations++
	t.runs[c.Scenario+"/"+c.Mode]++
	if !ok {
		t.addFailure(monitorFailure{Property: t.prop, Monitor: "completion", Key: t.prop + ":deadlock", Case: c,
			Detail: fmt.Sprintf("operations did not complete within %v (goroutines abandoned)", c13Watchdog)})
	} else if c.Scenario != "race-soak" {
		for _, f := range r.evaluate(t.prop) {
			t.addFailure(f)
		}
		if r.overlaps > 0 || c.Mode == "forced" {
			t.sigs[c.signature()] = true
		}
		if r.overlaps > 0 {
			t.overlap++
		}
	} else {
		t.sigs[c.signature()] = true
	}
	for _, tr := range r.traces {
		for _, p := range tr {
			t.hooks[p]++
		}
	}
	for _, rc := range t.racelog.fresh(t.prop) {
		t.addFailure(monitorFailure{Property: t.prop, Monitor: "race-detector", Key: rc.Key, Case: c,
			Detail: strings.Join(rc.Frames, "  <->  ") + "\n" + rc.Text})
	}
	if t.samples < 4 && ok && c.Mode == "forced" && c.Park != nil {
		t.samples++
		t.res.Samples = append(t.res.Samples, map[string]interface{}{"case": c, "observations": r.obs, "hook_traces": r.traces})
	}
	return r
}

// systematic: the unparked run first (records every goroutine's yield points), then one run per
// (goroutine, yield point occurrence) with that goroutine parked there
func (t *c13Tally) systematic(base c13Case) {
	base.Mode = "forced"
	base.Park = nil
	r0 := t.runCase(base)
	if r0.hung {
		return
	}
	for w, tr := range r0.traces {
		occ := map[string]int{}
		for _, p := range tr {
			c := base
			c.Park = &c13Park{Worker: w, Point: p, Occ: occ[p]}
			occ[p]++
			t.runCase(c)
		}
	}
}

func c13ReplayCase(path string, into interface{}) bool {
	b, err := os.ReadFile(path)
	if err != nil {
		return false
	}
	var f struct {
		Violation struct {
			Case json.RawMessage `json:"case"`
		} `json:"violation"`
	}
	if json.Unmarshal(b, &f) != nil || len(f.Violation.Case) == 0 {
		return false
	}
	return json.Unmarshal(f.Violation.Case, into) == nil
}

func runC13(seed int64, tier string, outDir string) *result {
	racePath := c13EnsureRaceLog(outDir)
	rng := rand.New(rand.NewSource(seed))
	res := &result{Property: "C13", Seed: seed, Tier: tier, Stats: map[string]interface{}{}}
	t := &c13Tally{res: res, prop: "C13", racelog: &c13RaceLog{path: racePath}, sigs: map[string]bool{}, keys: map[string]int{},
		runs: map[string]int{}, hooks: map[string]int{}}
	res.Stats["race_detector"] = c13RaceEnabled && racePath != ""

	if replayFile != "" {
		var c c13Case
		if !c13ReplayCase(replayFile, &c) {
			fmt.Println("replay: no C13 case in", replayFile)
			return res
		}
		for i := 0; i < 5; i++ { // a free run depends on the scheduler; repeat it a few times
			r := t.runCase(c)
			fmt.Printf("replay %d: case %s hung=%v\n", i, c.signature(), r.hung)
			for _, o := range r.obs {
				b, _ := json.Marshal(o)
				fmt.Println("  observed:", string(b))
			}
			if c.Mode == "forced" {
				break
			}
		}
		for _, f := range res.Failures {
			fmt.Printf("  FAILED %s (%s): %s\n", f.Monitor, f.Key, strings.SplitN(f.Detail, "\n", 2)[0])
		}
		if len(res.Failures) == 0 {
			fmt.Println("  no monitor failed")
		}
		return res
	}

	thorough := tier == "thorough"
	// 1. race soak: no recording, no harness synchronisation after the start barrier
	soaks := 40
	if thorough {
		soaks = 1500
	}
	for i := 0; i < soaks; i++ {
		c := c13Case{Scenario: "race-soak", Mode: "free", Seed: seed*1000 + int64(i)}
		nw := 3 + rng.Intn(4)
		kinds := append(append([]string{}, c13Kinds...), "joinb")
		if i%4 == 3 {
			c.Deny = true // refused merges: the verification workers report errors
		}
		if i%8 == 1 || i%8 == 6 {
			c.Keyed = true // sealed links and large payloads: the verification workers share the codec
		}
		if i%8 == 2 {
			c.SlowIO = true // a slow store: other operations arrive while an append is writing its block
		}
		for w := 0; w < nw; w++ {
			var ops []c13Op
			for k := 0; k < 3+rng.Intn(4); k++ {
				ops = append(ops, c13Op{Kind: pick(rng, kinds), Arg: rng.Intn(4)})
			}
			c.Workers = append(c.Workers, ops)
		}
		// make sure the pairs named in the design occur regularly
		switch i % 4 {
		case 0:
			c.Workers[0] = []c13Op{{Kind: "append"}, {Kind: "append"}, {Kind: "append"}}
			c.Workers[1] = []c13Op{{Kind: "multihash"}, {Kind: "multihash"}, {Kind: "multihash"}, {Kind: "multihash"}, {Kind: "multihash"}, {Kind: "multihash"}}
		case 1:
			c.Workers[0] = []c13Op{{Kind: "joinb", Arg: 1}, {Kind: "joinb", Arg: 0}}
			// Len() is over in a microsecond while a merge verifies signatures for milliseconds: spread the calls
			lens := make([]c13Op, 0, 80)
			for k := 0; k < 40; k++ {
				lens = append(lens, c13Op{Kind: "len"}, c13Op{Kind: "pause", Arg: 3})
			}
			c.Workers[1], c.Workers[2] = lens, lens
		case 3:
			c.Workers[0] = []c13Op{{Kind: "join", Arg: 1}}
		}
		t.runCase(c)
	}
	// 2. systematic single-preemption schedules: every unordered pair of operation kinds
	for i, a := range c13Kinds {
		for _, b := range c13Kinds[i:] {
			t.systematic(c13Case{Scenario: "pair", Seed: seed, Workers: [][]c13Op{{{Kind: a, Arg: 1}}, {{Kind: b, Arg: 1}}}})
		}
	}
	// 3. three goroutines x two operations, sampled
	triples := 12
	if thorough {
		triples = 300
	}
	for i := 0; i < triples; i++ {
		c := c13Case{Scenario: "triple", Seed: seed + int64(i)}
		for w := 0; w < 3; w++ {
			c.Workers = append(c.Workers, []c13Op{{Kind: pick(rng, c13Kinds), Arg: rng.Intn(4)}, {Kind: pick(rng, c13Kinds), Arg: rng.Intn(4)}})
		}
		c.Workers[0][0] = c13Op{Kind: "append"}
		c.Workers[1][rng.Intn(2)] = c13Op{Kind: pick(rng, []string{"append", "join"}), Arg: rng.Intn(2)}
		t.systematic(c)
	}
	// 4. random free runs with recording (functional monitors under the scheduler's own interleavings)
	frees := 40
	if thorough {
		frees = 2000
	}
	for i := 0; i < frees; i++ {
		c := c13Case{Scenario: "random", Mode: "free", Seed: seed*7919 + int64(i), SlowIO: i%5 == 4}
		for w, nw := 0, 3+rng.Intn(4); w < nw; w++ {
			var ops []c13Op
			for k := 0; k < 2+rng.Intn(4); k++ {
				ops = append(ops, c13Op{Kind: pick(rng, c13Kinds), Arg: rng.Intn(4)})
			}
			c.Workers = append(c.Workers, ops)
		}
		t.runCase(c)
	}

	// 5. publications overlapping each other and appends on a slow store: a publication that begins after
	//    an append returned names that append, also when another publication is still being written
	for i := 0; i < 2; i++ {
		c := c13Case{Scenario: "random", Mode: "free", Seed: seed*104729 + int64(i), SlowIO: true}
		var app, pubA, pubB []c13Op
		for k := 0; k < 3; k++ {
			app = append(app, c13Op{Kind: "pause", Arg: 300 + 100*i}, c13Op{Kind: "append"}) // pause unit: 100 us
		}
		for k := 0; k < 5; k++ {
			pubA = append(pubA, c13Op{Kind: "multihash"})
			pubB = append(pubB, c13Op{Kind: "pause", Arg: 600}, c13Op{Kind: "multihash"})
		}
		c.Workers = [][]c13Op{app, pubA, pubB}
		t.runCase(c)
	}

	// 6. a publication that begins while another one is still being written (manifest writes take
	//    300 ms, entries none): an append that returned in between is named by the later publication
	for i := 0; i < 2; i++ {
		c := c13Case{Scenario: "random", Mode: "free", Seed: seed*15485863 + int64(i), SlowPub: true}
		pubA := []c13Op{{Kind: "multihash"}}
		app := []c13Op{{Kind: "pause", Arg: 500 + 200*i}, {Kind: "append"}} // pause unit: 100 us
		pubB := []c13Op{{Kind: "pause", Arg: 1500 + 300*i}, {Kind: "multihash"}}
		c.Workers = [][]c13Op{pubA, app, pubB}
		t.runCase(c)
	}

	// 6b. merges with a bound beyond the merged size (the bounded code path, nothing to drop) of a big source
	//     while other goroutines append: every append that returned is in the final log
	for i := 0; i < 2; i++ {
		c := c13Case{Scenario: "random", Mode: "free", Seed: seed*32452843 + int64(i), Big: true}
		var app1, app2 []c13Op
		for k := 0; k < 10; k++ {
			app1 = append(app1, c13Op{Kind: "append"})
			app2 = append(app2, c13Op{Kind: "append"}, c13Op{Kind: "pause", Arg: 2})
		}
		c.Workers = [][]c13Op{{{Kind: "joinall", Arg: 1}, {Kind: "joinall", Arg: 0}, {Kind: "joinall", Arg: 1}, {Kind: "joinall", Arg: 1}}, app1, app2}
		t.runCase(c)
	}

	// 7. error returns leave the log usable
	c13ErrorPaths(t)
	c13ViewsAreSnapshots(t)

	res.Distinct = len(t.sigs)
	res.Rule = "distinct case signatures (mode, multiset of per-goroutine operation sequences, parked yield point) among runs that completed and in which either a goroutine was parked at a yield point while the others ran, or operations of different goroutines measurably overlapped in time (logical timestamps), or (race soak) >= 3 goroutines ran unsynchronised under the race detector"
	res.Stats["runs_by_scenario"] = t.runs
	res.Stats["runs_with_overlapping_operations"] = t.overlap
	res.Stats["yield_points_reached"] = t.hooks
	res.Stats["failure_keys"] = t.keys
	res.Stats["operation_kinds"] = c13Kinds
	res.ModelCases = 0
	return res
}
