package main

// C09: a log rebuilt (without length limit) from its manifest, its JSON head list, its head
// entries or (single head) its head's hash equals the original: id, entry set, heads, Values().
// Also hosts the loader helper shared with C10 (c09Load).

import (
	"context"
	"encoding/json"
	"fmt"
	"math/rand"
	"strings"

	"github.com/ipfs/go-cid"

	ipfslog "berty.tech/go-ipfs-log"
	"berty.tech/go-ipfs-log/entry"
	"berty.tech/go-ipfs-log/iface"
)

func init() { register("C09", runC09) }

const (
	c09Manifest = iota
	c09EntryHash
	c09JSON
	c09Entries
)

var c09KindNames = []string{"manifest", "entryhash", "json", "entries"}

// snapshot of a log's observable state
type c09State struct {
	id      string
	entries []cid.Cid // GetEntries().Keys() order
	heads   []cid.Cid // Heads() order
	values  []cid.Cid // Values() order
}

func c09Snapshot(l *ipfslog.IPFSLog) *c09State {
	s := &c09State{id: l.GetID()}
	for _, e := range l.GetEntries().Slice() {
		s.entries = append(s.entries, e.GetHash())
	}
	for _, e := range l.Heads().Slice() {
		s.heads = append(s.heads, e.GetHash())
	}
	for _, e := range l.Values().Slice() {
		s.values = append(s.values, e.GetHash())
	}
	return s
}

type c09Load struct {
	kind    int
	n       int // -1 = no Length
	src     *c09State
	starts  []cid.Cid // what the fetcher is started with
	idGiven string
	run     *c11Run
	out     *c09State // nil when the loader failed
	errStr  string
	exact   bool
	exclude string // hash handed to the loader as FetchOptions.Exclude ("" = none)
}

// c09DoLoad reloads the current state of src (a log stored in d) through loader kind with limit n.
// the loaders are handed ONE LogOptions value per loader kind for the whole run, as an application that
// keeps its options around does (only the fields that legitimately vary are set before each call)
var c09SharedOpts = map[int]*ipfslog.LogOptions{}

func c09Opts(kind int, id string) *ipfslog.LogOptions {
	o, ok := c09SharedOpts[kind]
	if !ok {
		o = &ipfslog.LogOptions{}
		c09SharedOpts[kind] = o
	}
	o.ID = id
	o.IO = c11IO()
	return o
}

func c09DoLoad(d *c11Dag, src *ipfslog.IPFSLog, kind, n, conc int, forced bool, choose func(int) int, delay int, seed int64) *c09Load {
	ctx := context.Background()
	ld := &c09Load{kind: kind, n: n, src: c09Snapshot(src), idGiven: src.GetID()}
	ident := d.env.identity(d.idents[0])
	var lenp *int
	if n >= 0 {
		v := n
		lenp = &v
	} else if k := seed % 4; k > 0 {
		// "no limit" is any negative length (or none at all)
		v := []int{0, -1, -2, -100}[k]
		lenp = &v
	}
	ignore := map[cid.Cid]bool{}
	r := &c11Run{d: d, length: n, conc: conc, forced: forced, choose: choose, delay: delay, seed: seed, ignoreGets: ignore}
	// FetchOptions.Exclude ("entries the caller already has"): one entry from the middle of the log in a
	// third of the loads.  The fetcher does not use it, and NewFromEntry only merges the given entries
	// back into what it fetched, so an unlimited load must rebuild the same log with or without it; with
	// a limit NewFromEntry's candidates change, so there it is left out.
	var excl []iface.IPFSLogEntry
	if all := src.GetEntries().Slice(); seed%3 == 0 && len(all) >= 3 && (kind != c09Entries || n < 0) {
		excl = []iface.IPFSLogEntry{all[1+int(seed/3)%(len(all)-2)]}
		ld.exclude = excl[0].GetHash().String()
	}
	var loadFn func(ctx context.Context) (*ipfslog.IPFSLog, error)
	switch kind {
	case c09Manifest:
		mh, err := src.ToMultihash(ctx)
		if err != nil {
			panic(err)
		}
		ignore[mh] = true
		ld.starts = src.ToJSONLog().Heads
		loadFn = func(ctx context.Context) (*ipfslog.IPFSLog, error) {
			return ipfslog.NewFromMultihash(ctx, d.api, ident, mh, c09Opts(kind, ""), &ipfslog.FetchOptions{Length: lenp, Concurrency: conc, Exclude: excl})
		}
	case c09EntryHash:
		hs := src.Heads().Slice()
		h := hs[0].GetHash()
		ld.starts = []cid.Cid{h}
		loadFn = func(ctx context.Context) (*ipfslog.IPFSLog, error) {
			return ipfslog.NewFromEntryHash(ctx, d.api, ident, h, c09Opts(kind, ld.idGiven), &ipfslog.FetchOptions{Length: lenp, Concurrency: conc, Exclude: excl})
		}
	case c09JSON:
		jl := src.ToJSONLog()
		ld.starts = jl.Heads
		r.conc = 32 // NewFromJSON does not forward Concurrency: the fetcher's default applies
		loadFn = func(ctx context.Context) (*ipfslog.IPFSLog, error) {
			return ipfslog.NewFromJSON(ctx, d.api, ident, jl, c09Opts(kind, ""), &entry.FetchOptions{Length: lenp, Concurrency: conc, Exclude: excl})
		}
	case c09Entries:
		hs := src.Heads().Slice()
		for _, e := range hs {
			ld.starts = append(ld.starts, e.GetHash())
		}
		if n >= 0 && len(hs) > n {
			r.length = len(hs)
		}
		supplied := append([]iface.IPFSLogEntry{}, hs...)
		loadFn = func(ctx context.Context) (*ipfslog.IPFSLog, error) {
			return ipfslog.NewFromEntry(ctx, d.api, ident, supplied, c09Opts(kind, ""), &entry.FetchOptions{Length: lenp, Concurrency: conc, Exclude: excl})
		}
	}
	r.starts = ld.starts
	r.load = func(ctx context.Context, _ *c11Run) error {
		l, err := loadFn(ctx)
		if err != nil {
			ld.errStr = err.Error()
			return nil
		}
		ld.out = c09Snapshot(l)
		return nil
	}
	r.run()
	ld.run = r
	if r.panicked != "" {
		ld.errStr = "panic: " + r.panicked
		ld.out = nil
	}
	// the insertion-sort model of sort.SliceStable is exact up to 20 elements, and for any length
	// when no two entries tie on (clock id, time)
	ld.exact = len(d.entries) <= 20 || !c09HasTies(d)
	return ld
}

// c09Checker: the Coq function the loader cases are evaluated with (Model/Check09.v; the loader
// models follow log_io.go as of the length-limited loaders repair, commit ba56479).
func c09Checker() string { return "mismatches_loader" }

func c09HasTies(d *c11Dag) bool {
	seen := map[string]bool{}
	for _, e := range d.entries {
		k := fmt.Sprintf("%d/%x", e.time, e.id)
		if seen[k] {
			return true
		}
		seen[k] = true
	}
	return false
}

func c09Set(cs []cid.Cid) map[cid.Cid]bool {
	m := map[cid.Cid]bool{}
	for _, c := range cs {
		m[c] = true
	}
	return m
}

func c09SameSet(a, b []cid.Cid) bool {
	ma, mb := c09Set(a), c09Set(b)
	if len(ma) != len(mb) {
		return false
	}
	for c := range ma {
		if !mb[c] {
			return false
		}
	}
	return true
}

func c09SameSeq(a, b []cid.Cid) bool {
	if len(a) != len(b) {
		return false
	}
	for i := range a {
		if a[i] != b[i] {
			return false
		}
	}
	return true
}

func (k *c11Canon) loaderCaseLit(ld *c09Load) string {
	r := ld.run
	outOK := ld.out != nil
	outID, outEntries, outHeads := 0, []int{}, []int{}
	if outOK {
		outID = k.logids.rank(ld.out.id)
		outEntries = k.hs(ld.out.entries)
		outHeads = k.hs(ld.out.heads)
	}
	return fmt.Sprintf("Build_loader_case %s %s %s %s %s %s %s %s %s %s %s %s %s", coqNat(ld.kind), coqZ(int64(ld.n)),
		coqN(k.logids.rank(ld.idGiven)), r.d.name, coqNList(k.faultSet(r.faults, nil)), coqNat(r.conc), coqNList(k.hs(ld.starts)),
		k.eventsLit(r.events), coqBool(ld.exact), coqBool(outOK), coqN(outID), coqNList(outEntries), coqNList(outHeads))
}

func (k *c11Canon) loadLabel(ld *c09Load) string {
	r := ld.run
	m := map[string]interface{}{
		"loader": c09KindNames[ld.kind], "n": ld.n, "dag": r.d.name, "starts": k.hs(ld.starts), "conc": r.conc, "forced": r.forced,
		"trace": k.traceStr(r.events), "src_entries": len(ld.src.entries), "src_heads": k.hs(ld.src.heads), "err": ld.errStr,
	}
	if ld.out != nil {
		m["out_entries"] = k.hs(ld.out.entries)
		m["out_heads"] = k.hs(ld.out.heads)
	}
	b, _ := json.Marshal(m)
	return string(b)
}

func (k *c11Canon) addState(s *c09State) {
	if s == nil {
		return
	}
	k.logids.add(s.id)
}

func runC09(seed int64, tier string, outDir string) *result {
	rng := rand.New(rand.NewSource(seed))
	res := &result{Property: "C09", Seed: seed, Tier: tier, Stats: map[string]interface{}{}}
	mon := &c11Monitor{prop: "C09", res: res}
	thorough := tier == "thorough"
	nhist := 30
	if thorough {
		nhist = 80
	}
	canon := newC11Canon()
	var dags []*c11Dag
	var loads []*c09Load
	stats := map[string]int{}
	headHist := map[int]int{}
	shapes := map[string]struct{}{}

	for hi := 0; hi < nhist; hi++ {
		names := [][]string{{"A", "B"}, {"A", "B", "C"}, {"A", "B", "A"}, {"A", "B", "C", "D"}, {"A"}, {"A", "A"}}[rng.Intn(6)]
		c11LinkKey = nil
		if hi%4 == 3 { // logs whose blocks carry encrypted links: every loader must hand the log's IO to the fetcher
			c11LinkKey = []byte("0123456789abcdef0123456789abcdef")
			stats["histories_with_encrypted_links"]++
		}
		d := c11NewDag("history", names)
		d.name = fmt.Sprintf("st_h%d", hi)
		dags = append(dags, d)
		steps := 8 + rng.Intn(14)
		if thorough && hi%5 == 0 {
			steps = 30 + rng.Intn(30)
		}
		lastTouched := 0
		sample := 1
		if steps > 24 {
			sample = 3
		}
		// wrap randomHistory to know which replica changed: re-implement the step loop here
		n := len(d.logs)
		for s := 0; s < steps; s++ {
			r := rng.Intn(n)
			if rng.Intn(12) == 0 {
				// an append the access controller refuses: it fails, and the log reloads exactly as before
				d.gate.deny = true
				if _, err := d.logs[r].Append(context.Background(), []byte("refused"), nil); err == nil {
					panic("gate did not refuse")
				}
				d.gate.deny = false
				stats["refused_appends"]++
			}
			if n == 1 || rng.Intn(5) > 1 {
				payload := fmt.Sprintf("h%d-%d-%d", hi, r, s)
				if rng.Intn(9) == 0 {
					payload = "" // empty payloads are legal and must reload like any other entry
				}
				d.append(r, payload, 1<<uint(rng.Intn(7)))
			} else {
				d.join(r, rng.Intn(n))
			}
			lastTouched = r
			if rng.Intn(3) == 0 {
				lastTouched = rng.Intn(n) // also reload states of replicas that did not just change
			}
			if s%sample != 0 {
				continue
			}
			src := d.logs[lastTouched]
			if src.Len() == 0 {
				continue
			}
			nheads := src.Heads().Len()
			headHist[nheads]++
			for kind := 0; kind < 4; kind++ {
				if kind == c09EntryHash && nheads != 1 {
					continue
				}
				reps := 1
				if thorough {
					reps = 2
				}
				for rep := 0; rep < reps; rep++ {
					conc := 1 + rng.Intn(8)
					forced := rng.Intn(5) > 0
					rr := rand.New(rand.NewSource(rng.Int63()))
					ld := c09DoLoad(d, src, kind, -1, conc, forced, func(n int) int { return rr.Intn(n) }, 60, rng.Int63())
					loads = append(loads, ld)
					stats[c09KindNames[kind]]++
					shapes[fmt.Sprintf("%s|%d|%d|%s", c09KindNames[kind], hi, s, canonTraceShape(ld.run.events))] = struct{}{}
					c09Monitor(mon, ld, d)
				}
			}
		}
	}
	c11LinkKey = nil
	for _, d := range dags {
		canon.addDag(d)
	}
	for _, ld := range loads {
		canon.addState(ld.src)
		canon.addState(ld.out)
		canon.logids.add(ld.idGiven)
	}
	canon.freeze()
	var hdr strings.Builder
	hdr.WriteString("From IpfsLog Require Import Model.Order Model.Fetcher Model.Check11 Model.Check09.\nOpen Scope Z_scope.\n")
	for _, d := range dags {
		hdr.WriteString(canon.storeDef(d))
	}
	list := &caseList{name: "loader_cases", typ: "loader_case", checker: c09Checker()}
	for _, ld := range loads {
		if ld.run.hung || ld.run.skipped {
			continue
		}
		list.add(canon.loaderCaseLit(ld), canon.loadLabel(ld))
	}
	res.CaseFiles = writeShards(outDir, "C09", hdr.String(), []*caseList{list}, 150)
	res.ModelCases = len(list.items)
	res.Evaluations = len(loads) + c09OrderedReloads(mon, seed)
	res.Distinct = len(shapes)
	res.Rule = "one evaluation = one unbounded reload of one reachable log state (after a step of a random history of appends with pointer counts 1..64 and joins over 1-4 replicas) through one loader under one schedule; distinct_nontrivial counts distinct (loader, history, step, recorded event trace) tuples"
	res.Stats["loads_by_loader"] = stats
	res.Stats["source_head_count_histogram"] = headHist
	var sizes []int
	for _, d := range dags {
		sizes = append(sizes, len(d.order))
	}
	res.Stats["history_final_sizes"] = sizes
	if len(loads) > 0 {
		for _, i := range []int{0, len(loads) / 2, len(loads) - 1} {
			res.Samples = append(res.Samples, json.RawMessage(canon.loadLabel(loads[i])))
		}
	}
	return res
}

func canonTraceShape(evs []c11Event) string {
	var sb strings.Builder
	for _, e := range evs {
		sb.WriteByte(e.Kind)
		if e.Kind != 'T' {
			s := e.Cid.String()
			sb.WriteString(s[len(s)-6:])
		}
	}
	return sb.String()
}

// c09Monitor compares an unbounded reload with its source.
func c09Monitor(mon *c11Monitor, ld *c09Load, d *c11Dag) {
	name := c09KindNames[ld.kind]
	mk := func() interface{} {
		var src, out []string
		for _, c := range ld.src.values {
			src = append(src, c.String())
		}
		if ld.out != nil {
			for _, c := range ld.out.values {
				out = append(out, c.String())
			}
		}
		var starts []string
		for _, c := range ld.starts {
			starts = append(starts, c.String())
		}
		return map[string]interface{}{"loader": name, "n": ld.n, "conc": ld.run.conc, "starts": starts, "source_values": src, "loaded_values": out, "err": ld.errStr, "exclude_option": ld.exclude}
	}
	if ld.run.skipped {
		return
	}
	if ld.run.hung {
		mon.fail("terminates", "C09:"+name+":hang", "loader did not return", mk())
		return
	}
	if ld.out == nil {
		mon.fail("loads", "C09:"+name+":error", "loader failed: "+ld.errStr, mk())
		return
	}
	if ld.out.id != ld.src.id {
		mon.fail("same-id", "C09:"+name+":id", fmt.Sprintf("id %q != %q", ld.out.id, ld.src.id), mk())
	}
	if !c09SameSet(ld.out.entries, ld.src.entries) {
		mon.fail("same-entries", "C09:"+name+":entries", fmt.Sprintf("%d entries loaded, source has %d", len(ld.out.entries), len(ld.src.entries)), mk())
	}
	if !c09SameSet(ld.out.heads, ld.src.heads) {
		mon.fail("same-heads", "C09:"+name+":heads", "head sets differ", mk())
	}
	// Values(): the sequence when no two entries tie on (clock id, time), else the set
	ties := false
	seen := map[string]bool{}
	for _, c := range ld.src.entries {
		e := d.entries[c]
		if e == nil {
			// the source log holds an entry no successful append produced (reported above as an entry-set difference)
			mon.fail("same-entries", "C09:"+name+":entries", "the source log holds an entry that no successful append returned", mk())
			continue
		}
		k := fmt.Sprintf("%d/%x", e.time, e.id)
		if seen[k] {
			ties = true
		}
		seen[k] = true
	}
	if ties {
		if !c09SameSet(ld.out.values, ld.src.values) {
			mon.fail("same-values", "C09:"+name+":values-set", "Values() sets differ", mk())
		}
	} else if !c09SameSeq(ld.out.values, ld.src.values) {
		mon.fail("same-values", "C09:"+name+":values", "Values() sequences differ", mk())
	}
	// the fetch itself obeys C11
	c11Check(&c11Monitor{prop: "C09", res: mon.res, failures: mon.failures}, mk, ld.run)
}
