package main

// C20: key material and identities are stable and self-consistent.
//
// Drives real keystore.Keystore instances (1..n over ONE shared datastore, restarts = new Keystore
// over the same datastore) through generated operation histories with more ids than the LRU cache
// holds, plus identityprovider.CreateIdentity / Provider.Sign / entry.CreateEntry on top of them.
// Every keystore call goes through a recording wrapper (c20ks) that
//   * evaluates the property's monitors on the implementation's answers, and
//   * writes the call and its canonicalised answer as an item of a Coq history
//     (Model/Check20.v replays it on the model of Model/Keystore.v).
// Keys are random: each generated key gets its generation index (1, 2, ..) within the history,
// which is also the oracle input of the model's KCreate.

import (
	"bytes"
	"context"
	"encoding/hex"
	"encoding/json"
	"fmt"
	"math/big"
	"math/rand"
	"os"
	"sort"
	"strings"

	"github.com/btcsuite/btcd/btcec"
	"github.com/ipfs/go-datastore"
	dssync "github.com/ipfs/go-datastore/sync"
	"github.com/libp2p/go-libp2p/core/crypto"

	"berty.tech/go-ipfs-log/entry"
	idp "berty.tech/go-ipfs-log/identityprovider"
	"berty.tech/go-ipfs-log/io/cbor"
	"berty.tech/go-ipfs-log/keystore"
)

const (
	c20Cap       = 128     // lru.New(128) in keystore.NewKeystore
	c20HexBase   = 1000000 // Model/Check20.v hexbase
	c20MaxFail   = 120
	c20MaxPerKey = 8
)

func init() { register("C20", runC20) }

// c20op is a replayable operation descriptor.
type c20op struct {
	Op   string `json:"op"`             // new | create | get | has | ident | sign | entry
	Inst int    `json:"inst,omitempty"` // keystore instance
	ID   string `json:"id,omitempty"`   // key id (create/get/has) or user id (ident/sign/entry)
}

func (o c20op) String() string {
	if o.Op == "new" {
		return "new"
	}
	return fmt.Sprintf("%s(%d,%s)", o.Op, o.Inst, o.ID)
}

type c20call struct {
	op  string // get | create | has
	id  string
	err bool
	key int
}

type c20run struct {
	res     *result
	classes map[string]struct{}
	nFail   map[string]int
	evals   int
}

// one history
type c20env struct {
	run      *c20run
	label    string
	ds       datastore.Datastore
	insts    []*c20ks
	keys     [][]byte          // generation index-1 -> raw private key bytes
	keyIdx   map[string]int    // raw private key bytes -> generation index
	pubHex   map[string]int    // hex(compressed public key) -> generation index
	pubUnc   map[string]int    // uncompressed public key bytes -> generation index
	stored   map[string]int    // id -> generation index of the key last stored under it
	recreate map[string]bool   // ids raw-created more than once: the property's premise fails
	slots    map[string]string // datastore key -> the id spelling used for it
	idents   map[string]*idp.Identity
	identOf  map[string][2]int // user id -> (a, b)
	identIn  map[string]int    // user id -> instance its Provider is bound to
	items    []string
	ops      []c20op
	shadow   [][]string // harness-side recency lists, used only to CLASSIFY HasKey failures
	inner    bool       // inside CreateIdentity / Sign: calls are collected in calls
	calls    []c20call
	once     bool
	api      *memAPI
}

// c20ks wraps a real keystore and records every call.
type c20ks struct {
	real *keystore.Keystore
	env  *c20env
	inst int
}

var _ keystore.Interface = &c20ks{}

func (r *c20run) fail(env *c20env, mon, key, detail string) {
	r.nFail[key]++
	// keep a few failures of EACH kind (the frequent HasKey defect must not crowd out others)
	if r.nFail[key] > c20MaxPerKey || len(r.res.Failures) >= c20MaxFail {
		return
	}
	ops := make([]c20op, len(env.ops))
	copy(ops, env.ops)
	r.res.Failures = append(r.res.Failures, monitorFailure{Property: "C20", Monitor: mon, Detail: detail, Key: key,
		Case: map[string]interface{}{"history": env.label, "ops": ops}})
}

func c20newEnv(run *c20run, label string, once bool) *c20env {
	api, _ := newAPI()
	return &c20env{run: run, label: label, ds: &c20FlakyDS{Datastore: dssync.MutexWrap(datastore.NewMapDatastore())},
		keyIdx: map[string]int{}, pubHex: map[string]int{}, pubUnc: map[string]int{}, stored: map[string]int{},
		slots: map[string]string{}, recreate: map[string]bool{}, idents: map[string]*idp.Identity{}, identOf: map[string][2]int{},
		identIn: map[string]int{}, once: once, api: api}
}

// ---- canonical numbering ----
func (e *c20env) idNum(id string) int {
	if k, ok := e.pubHex[id]; ok {
		return c20HexBase + k
	}
	var n int
	if a, b, ok := c20ParseNS(id); ok && b < 300 {
		return c20NSBase + b*3 + a
	}
	if _, err := fmt.Sscanf(id, "id-%d", &n); err != nil || n <= 0 || n >= c20HexBase || fmt.Sprintf("id-%d", n) != id {
		panic("c20: id outside the numbering: " + id)
	}
	return n
}

// namespaced ids ("org0/alice7", "org1/alice7", ...: same last path component, different datastore
// keys) are written "id-<c20NSBase + 3*b + a>" in operation lists
const c20NSBase = 500000

// The three namespaces are written three ways: as a clean relative path, with a leading slash, and
// with a doubled separator.  The datastore key of an id is its cleaned path, so the three name
// three different slots (no history uses two spellings of one path; see c20aliasProbe for those).
var c20NSFormats = []string{"org0/alice%d", "/org1/alice%d", "org2//alice%d"}

func c20NSID(n int) string {
	return fmt.Sprintf(c20NSFormats[(n-c20NSBase)%3], (n-c20NSBase)/3)
}

func c20ParseNS(id string) (a, b int, ok bool) {
	for a, f := range c20NSFormats {
		var b int
		if _, err := fmt.Sscanf(id, f, &b); err == nil && b >= 0 && fmt.Sprintf(f, b) == id {
			return a, b, true
		}
	}
	return 0, 0, false
}

func (e *c20env) registerKey(priv crypto.PrivKey) int {
	raw, err := priv.Raw()
	if err != nil {
		panic(err)
	}
	if k, ok := e.keyIdx[string(raw)]; ok {
		return k
	}
	e.keys = append(e.keys, raw)
	k := len(e.keys)
	e.keyIdx[string(raw)] = k
	pc, err := priv.GetPublic().Raw()
	if err != nil {
		panic(err)
	}
	e.pubHex[hex.EncodeToString(pc)] = k
	pk, err := btcec.ParsePubKey(pc, btcec.S256())
	if err != nil {
		panic(err)
	}
	e.pubUnc[string(pk.SerializeUncompressed())] = k
	return k
}

func (e *c20env) lookupKey(priv crypto.PrivKey) int {
	raw, err := priv.Raw()
	if err != nil {
		return 0
	}
	return e.keyIdx[string(raw)]
}

// ---- shadow recency (classification only) ----
func (e *c20env) shadowHas(inst int, id string) bool {
	for _, x := range e.shadow[inst] {
		if x == id {
			return true
		}
	}
	return false
}

func (e *c20env) shadowTouch(inst int, id string) {
	l := e.shadow[inst]
	for i, x := range l {
		if x == id {
			l = append(l[:i], l[i+1:]...)
			break
		}
	}
	l = append([]string{id}, l...)
	if len(l) > c20Cap {
		l = l[:c20Cap]
	}
	e.shadow[inst] = l
}

func (e *c20env) status(inst int, id string) string {
	if _, ok := e.stored[id]; !ok {
		return "never-created"
	}
	if e.shadowHas(inst, id) {
		return "created,cached-here"
	}
	return "created,not-cached-here"
}

func (e *c20env) item(s string) {
	if !e.inner {
		e.items = append(e.items, s)
	}
}

// ---- the recording keystore ----
func (k *c20ks) Sign(privKey crypto.PrivKey, b []byte) ([]byte, error) {
	return k.real.Sign(privKey, b)
}
func (k *c20ks) Verify(sig []byte, pub crypto.PubKey, data []byte) error {
	return k.real.Verify(sig, pub, data)
}

func (k *c20ks) CreateKey(ctx context.Context, id string) (crypto.PrivKey, error) {
	e := k.env
	// two spellings of one datastore key are outside the property (see c20aliasProbe): the
	// generator never uses both
	if prev, ok := e.slots[datastore.NewKey(id).String()]; ok && prev != id {
		panic("c20: ids " + prev + " and " + id + " name one datastore key")
	}
	e.slots[datastore.NewKey(id).String()] = id
	priv, err := k.real.CreateKey(ctx, id)
	e.run.evals++
	e.run.classes["create/"+e.status(k.inst, id)] = struct{}{}
	if err != nil || priv == nil {
		e.run.fail(e, "createkey-succeeds", "C20:createkey-error", fmt.Sprintf("CreateKey(%q) on keystore %d: %v", id, k.inst, err))
		e.calls = append(e.calls, c20call{"create", id, true, 0})
		e.item(fmt.Sprintf("HOp (KCreate %d %d 0) KOut_err", k.inst, e.idNum(id)))
		return priv, err
	}
	idx := e.registerKey(priv)
	if prevKey, was := e.stored[id]; was && e.inner && !e.recreate[id] {
		e.run.fail(e, "identity-keeps-existing-key", "C20:identity-overwrites-key",
			fmt.Sprintf("CreateIdentity created key #%d for %q on keystore %d although key #%d is stored under that id: the stored key was replaced", idx, id, k.inst, prevKey))
	}
	if _, was := e.stored[id]; was && !e.inner {
		// a second raw create issued by the generator: the property's premise fails for this id
		// (a re-creation made by the library itself inside CreateIdentity is NOT excused)
		e.recreate[id] = true
	}
	e.stored[id] = idx
	e.shadowTouch(k.inst, id)
	e.calls = append(e.calls, c20call{"create", id, false, idx})
	e.item(fmt.Sprintf("HOp (KCreate %d %d %d) (KOut_key %d)", k.inst, e.idNum(id), idx, idx))
	return priv, err
}

func (k *c20ks) GetKey(ctx context.Context, id string) (crypto.PrivKey, error) {
	e := k.env
	priv, err := k.real.GetKey(ctx, id)
	e.run.evals++
	e.run.classes["get/"+e.status(k.inst, id)] = struct{}{}
	want, created := e.stored[id]
	got := 0
	if err == nil && priv != nil {
		got = e.lookupKey(priv)
	}
	if !e.recreate[id] {
		switch {
		case created && err != nil && ctx.Err() != nil:
			// the caller's context is done: an error is an answer (the key must survive it, see CreateKey)
		case created && (err != nil || priv == nil):
			e.run.fail(e, "getkey-returns-created-key", "C20:getkey-error-for-created",
				fmt.Sprintf("GetKey(%q) on keystore %d failed (%v) although the key was created (%s)", id, k.inst, err, e.status(k.inst, id)))
		case created && got != want:
			e.run.fail(e, "getkey-returns-created-key", "C20:getkey-differs",
				fmt.Sprintf("GetKey(%q) on keystore %d returned key #%d, created was #%d (%s)", id, k.inst, got, want, e.status(k.inst, id)))
		case !created && err == nil:
			e.run.fail(e, "getkey-never-created", "C20:getkey-ok-for-never-created",
				fmt.Sprintf("GetKey(%q) on keystore %d returned a key although none was created", id, k.inst))
		}
	}
	if err != nil || priv == nil {
		e.calls = append(e.calls, c20call{"get", id, true, 0})
		e.item(fmt.Sprintf("HOp (KGet %d %d) KOut_err", k.inst, e.idNum(id)))
	} else {
		e.shadowTouch(k.inst, id)
		e.calls = append(e.calls, c20call{"get", id, false, got})
		e.item(fmt.Sprintf("HOp (KGet %d %d) (KOut_key %d)", k.inst, e.idNum(id), got))
	}
	return priv, err
}

func (k *c20ks) HasKey(ctx context.Context, id string) (bool, error) {
	e := k.env
	has, err := k.real.HasKey(ctx, id)
	e.run.evals++
	st := e.status(k.inst, id)
	e.run.classes["has/"+st] = struct{}{}
	_, created := e.stored[id]
	switch {
	case created && err != nil:
		e.run.fail(e, "haskey-true-for-created", "C20:haskey-error-for-created",
			fmt.Sprintf("HasKey(%q) on keystore %d: error %v although the key was created (%s)", id, k.inst, err, st))
	case created && !has && st == "created,not-cached-here":
		e.run.fail(e, "haskey-true-for-created", "C20:haskey-false-after-cache-miss",
			fmt.Sprintf("HasKey(%q) on keystore %d returned (false, nil): the key is in the datastore (GetKey returns it) but not in this keystore's cache (evicted, or created through another keystore / before a restart)", id, k.inst))
	case created && !has:
		e.run.fail(e, "haskey-true-for-created", "C20:haskey-false-while-cached",
			fmt.Sprintf("HasKey(%q) on keystore %d returned (false, nil) for a key this keystore used recently", id, k.inst))
	case !created && err == nil && has:
		e.run.fail(e, "haskey-false-for-never-created", "C20:haskey-true-for-never-created",
			fmt.Sprintf("HasKey(%q) on keystore %d returned true although no such key was created", id, k.inst))
	}
	out := "KOut_err"
	if err == nil {
		out = "(KOut_bool " + coqBool(has) + ")"
	}
	e.calls = append(e.calls, c20call{"has", id, err != nil, 0})
	e.item(fmt.Sprintf("HOp (KHas %d %d) %s", k.inst, e.idNum(id), out))
	return has, err
}

// ---- operations ----
func (e *c20env) newInstance() {
	ks, err := keystore.NewKeystore(e.ds)
	if err != nil {
		panic(err)
	}
	e.insts = append(e.insts, &c20ks{real: ks, env: e, inst: len(e.insts)})
	e.shadow = append(e.shadow, nil)
	e.items = append(e.items, "HOp KNewInstance KOut_unit")
}

func c20pub(b []byte) crypto.PubKey {
	p, err := crypto.UnmarshalSecp256k1PublicKey(b)
	if err != nil {
		return nil
	}
	return p
}

func c20sameIdentity(a, b *idp.Identity) bool {
	return a.ID == b.ID && bytes.Equal(a.PublicKey, b.PublicKey) && a.Type == b.Type &&
		a.Signatures != nil && b.Signatures != nil &&
		bytes.Equal(a.Signatures.ID, b.Signatures.ID) && bytes.Equal(a.Signatures.PublicKey, b.Signatures.PublicKey)
}

func (e *c20env) createIdentity(inst int, uid string, cancelled bool) {
	ctx := context.Background()
	if cancelled {
		// a caller that has already given up: whatever the call answers, the keys stay what they are
		var cancel context.CancelFunc
		ctx, cancel = context.WithCancel(ctx)
		cancel()
	}
	r := e.run
	_, hadUID := e.stored[uid]
	uidCached := e.shadowHas(inst, uid)
	e.inner, e.calls = true, nil
	idn, err := idp.CreateIdentity(ctx, &idp.CreateIdentityOptions{Keystore: e.insts[inst], ID: uid, Type: "orbitdb"})
	e.inner = false
	calls := e.calls
	r.evals++
	prev, again := e.idents[uid]
	cls := "ident/first"
	if again {
		cls = fmt.Sprintf("ident/again,same-keystore=%v,uid-cached=%v", e.identIn[uid] == inst, uidCached)
	} else if hadUID {
		cls = "ident/first,key-exists"
	}
	r.classes[cls] = struct{}{}
	if err != nil || idn == nil || idn.Signatures == nil {
		if !cancelled {
			r.fail(e, "create-identity-succeeds", "C20:identity-error", fmt.Sprintf("CreateIdentity(%q) on keystore %d: %v", uid, inst, err))
		}
		e.items = append(e.items, fmt.Sprintf("HIdent %d %d 0 0 0 0", inst, e.idNum(uid)))
		return
	}
	// shape of the calls: Get(uid) [Create(uid)] Get(hex) [Create(hex)] Get(uid); a Create exactly after a failed Get
	k1, k2 := 0, 0
	shapeOK := true
	pos := 0
	next := func(op, id string) *c20call {
		if pos < len(calls) && calls[pos].op == op && calls[pos].id == id {
			pos++
			return &calls[pos-1]
		}
		return nil
	}
	if c := next("get", uid); c == nil {
		shapeOK = false
	} else if c.err {
		if cc := next("create", uid); cc == nil {
			shapeOK = false
		} else {
			k1 = cc.key
		}
	}
	if c := next("get", idn.ID); c == nil {
		shapeOK = false
	} else if c.err {
		if cc := next("create", idn.ID); cc == nil {
			shapeOK = false
		} else {
			k2 = cc.key
		}
	}
	if c := next("get", uid); c == nil || pos != len(calls) {
		shapeOK = false
	}
	if !shapeOK {
		r.fail(e, "create-identity-call-shape", "C20:identity-call-shape",
			fmt.Sprintf("CreateIdentity(%q) made keystore calls %v; expected GetKey(uid) [CreateKey(uid)] GetKey(ID) [CreateKey(ID)] GetKey(uid)", uid, calls))
	}
	a := e.pubHex[idn.ID]
	b := e.pubUnc[string(idn.PublicKey)]
	if a == 0 || b == 0 {
		r.fail(e, "identity-keys-known", "C20:identity-unknown-key",
			fmt.Sprintf("identity of %q: ID/PublicKey are not public keys of keys this history generated (a=%d b=%d)", uid, a, b))
	}
	if a != e.stored[uid] && !e.recreate[uid] {
		r.fail(e, "id-denotes-key-of-uid", "C20:id-not-key-of-uid",
			fmt.Sprintf("identity of %q: ID is the public key of key #%d but the key stored under %q is #%d", uid, a, uid, e.stored[uid]))
	}
	e.items = append(e.items, fmt.Sprintf("HIdent %d %d %d %d %d %d", inst, e.idNum(uid), k1, k2, a, b))

	// the three signature facts, with the real crypto
	pub := c20pub(idn.PublicKey)
	if pub == nil {
		r.fail(e, "id-signature", "C20:published-key-unparsable", fmt.Sprintf("identity of %q: PublicKey does not parse", uid))
	} else if ok, err := pub.Verify([]byte(idn.ID), idn.Signatures.ID); err != nil || !ok {
		r.fail(e, "id-signature", "C20:id-sig-fails", fmt.Sprintf("identity of %q: Signatures.ID does not verify under PublicKey over the ID text (%v)", uid, err))
	}
	rawID, herr := hex.DecodeString(idn.ID)
	idPub := c20pub(rawID)
	if herr != nil || idPub == nil {
		r.fail(e, "pubkey-signature", "C20:id-not-a-public-key", fmt.Sprintf("identity of %q: ID %q is not the hex of a public key", uid, idn.ID))
	} else {
		msg := []byte(hex.EncodeToString(append(append([]byte{}, idn.PublicKey...), idn.Signatures.ID...)))
		if ok, err := idPub.Verify(msg, idn.Signatures.PublicKey); err != nil || !ok {
			r.fail(e, "pubkey-signature", "C20:pk-sig-fails", fmt.Sprintf("identity of %q: Signatures.PublicKey does not verify under the key the ID denotes over hex(PublicKey++Signatures.ID) (%v)", uid, err))
		}
	}
	r.evals += 2
	if again && !e.recreate[uid] && !e.recreate[prev.ID] {
		r.evals++
		if !c20sameIdentity(prev, idn) {
			r.fail(e, "identity-idempotent", "C20:identity-not-idempotent",
				fmt.Sprintf("CreateIdentity(%q) on keystore %d differs from the identity created before on keystore %d", uid, inst, e.identIn[uid]))
		}
	}
	e.idents[uid], e.identOf[uid], e.identIn[uid] = idn, [2]int{a, b}, inst
}

// signer: the generation index of the key under whose public key sig verifies over data (b first)
func (e *c20env) signerOf(data, sig []byte, b int) int {
	try := func(k int) bool {
		if k <= 0 || k > len(e.keys) {
			return false
		}
		priv, err := crypto.UnmarshalSecp256k1PrivateKey(e.keys[k-1])
		if err != nil {
			return false
		}
		ok, err := priv.GetPublic().Verify(data, sig)
		return err == nil && ok
	}
	if try(b) {
		return b
	}
	for k := 1; k <= len(e.keys); k++ {
		if try(k) {
			return k
		}
	}
	return 0
}

// Provider.Sign through keystore inst (any instance over the datastore), checked with the real crypto
func (e *c20env) signWith(inst int, uid string, rng *rand.Rand) {
	idn := e.idents[uid]
	ab := e.identOf[uid]
	data := make([]byte, 1+rng.Intn(40))
	rng.Read(data)
	prov := idp.NewOrbitDBIdentityProvider(&idp.CreateIdentityOptions{Keystore: e.insts[inst]})
	e.run.classes[fmt.Sprintf("sign/same-keystore=%v,key-cached=%v", e.identIn[uid] == inst, e.shadowHas(inst, idn.ID))] = struct{}{}
	e.inner, e.calls = true, nil
	sig, err := prov.Sign(context.Background(), idn, data)
	e.inner = false
	e.run.evals++
	signer := 0
	if err == nil {
		signer = e.signerOf(data, sig, ab[1])
	}
	pub := c20pub(idn.PublicKey)
	ok := false
	if err == nil && pub != nil {
		ok, _ = pub.Verify(data, sig)
	}
	if !ok && !e.recreate[idn.ID] {
		e.run.fail(e, "signed-data-verifies", "C20:entry-sig-fails",
			fmt.Sprintf("Sign(identity of %q) on keystore %d: err=%v; the signature does not verify under identity.PublicKey", uid, inst, err))
	}
	e.items = append(e.items, fmt.Sprintf("HSign %d %d %d %d", inst, ab[0], ab[1], signer))
}

// a real log entry created with the identity (its Provider is bound to the keystore that made it)
func (e *c20env) entryWith(uid string, rng *rand.Rand) {
	idn := e.idents[uid]
	ab := e.identOf[uid]
	inst := e.identIn[uid]
	ctx := context.Background()
	io, err := cbor.IO(&entry.Entry{}, &entry.LamportClock{})
	if err != nil {
		panic(err)
	}
	e.inner, e.calls = true, nil
	ent, err := entry.CreateEntry(ctx, e.api, idn, &entry.Entry{Payload: []byte(fmt.Sprintf("p%d", rng.Intn(1000))), LogID: "L"}, nil)
	e.inner = false
	e.run.evals++
	e.run.classes["entry"] = struct{}{}
	signer := 0
	if err == nil {
		ee, isE := ent.(*entry.Entry)
		if !isE {
			panic("c20: CreateEntry returned an unexpected type")
		}
		verr := ee.Verify(idn.Provider, io)
		if verr == nil && bytes.Equal(ee.Key, idn.PublicKey) {
			signer = ab[1]
		}
		if (verr != nil || !bytes.Equal(ee.Key, idn.PublicKey)) && !e.recreate[idn.ID] {
			e.run.fail(e, "entry-verifies", "C20:entry-verify-fails",
				fmt.Sprintf("entry created with the identity of %q does not verify under the published key: %v", uid, verr))
		}
	} else if !e.recreate[idn.ID] {
		e.run.fail(e, "entry-verifies", "C20:entry-create-fails", fmt.Sprintf("CreateEntry with the identity of %q: %v", uid, err))
	}
	if len(e.calls) != 1 || e.calls[0].op != "get" || e.calls[0].id != idn.ID {
		e.run.fail(e, "entry-call-shape", "C20:sign-call-shape", fmt.Sprintf("CreateEntry made keystore calls %v; expected one GetKey(identity.ID)", e.calls))
	}
	if signer == 0 && len(e.calls) == 1 && e.calls[0].op == "get" && !e.calls[0].err {
		// the entry does not verify under the published key (only possible here when the identity's
		// key was raw-created again): which key signed cannot be read off the entry, so record
		// the call CreateEntry made instead of the signature
		e.items = append(e.items, fmt.Sprintf("HOp (KGet %d %d) (KOut_key %d)", inst, e.idNum(idn.ID), e.calls[0].key))
		return
	}
	e.items = append(e.items, fmt.Sprintf("HSign %d %d %d %d", inst, ab[0], ab[1], signer))
}

// Op descriptors name the hex id of the public key of key #k as "pub-k" (the text itself is
// random); resolve gives the real id string, symbolic the descriptor name of a real id.
func (e *c20env) resolve(id string) string {
	var k int
	if _, err := fmt.Sscanf(id, "pub-%d", &k); err == nil && fmt.Sprintf("pub-%d", k) == id {
		if k >= 1 && k <= len(e.keys) {
			priv, err := crypto.UnmarshalSecp256k1PrivateKey(e.keys[k-1])
			if err != nil {
				panic(err)
			}
			pc, err := priv.GetPublic().Raw()
			if err != nil {
				panic(err)
			}
			return hex.EncodeToString(pc)
		}
		return "id-899999" // never created
	}
	var n int
	if _, err := fmt.Sscanf(id, "id-%d", &n); err == nil && fmt.Sprintf("id-%d", n) == id && n >= c20NSBase && n < c20NSBase+900 {
		return c20NSID(n)
	}
	return id
}

func (e *c20env) symbolic(id string) string {
	if k, ok := e.pubHex[id]; ok {
		return fmt.Sprintf("pub-%d", k)
	}
	if _, _, ok := c20ParseNS(id); ok {
		return fmt.Sprintf("id-%d", e.idNum(id))
	}
	return id
}

func (e *c20env) exec(o c20op, rng *rand.Rand) {
	e.ops = append(e.ops, o)
	o.ID = e.resolve(o.ID)
	ctx := context.Background()
	if o.Op != "new" && (o.Inst < 0 || o.Inst >= len(e.insts)) {
		panic("c20: bad instance in op " + o.String())
	}
	switch o.Op {
	case "new":
		e.newInstance()
	case "create":
		e.insts[o.Inst].CreateKey(ctx, o.ID)
	case "createfail":
		e.createFail(o.Inst, o.ID)
	case "get":
		e.insts[o.Inst].GetKey(ctx, o.ID)
	case "has":
		e.insts[o.Inst].HasKey(ctx, o.ID)
	case "ident":
		e.createIdentity(o.Inst, o.ID, false)
	case "identc":
		e.createIdentity(o.Inst, o.ID, true)
	case "sign":
		if e.idents[o.ID] != nil {
			e.signWith(o.Inst, o.ID, rng)
		}
	case "entry":
		if e.idents[o.ID] != nil {
			e.entryWith(o.ID, rng)
		}
	default:
		panic("c20: unknown op " + o.Op)
	}
}

// c20FlakyDS: a datastore whose writes can be made to fail (full disk, locked repo)
type c20FlakyDS struct {
	datastore.Datastore
	failPut bool
}

func (d *c20FlakyDS) Put(ctx context.Context, key datastore.Key, value []byte) error {
	if d.failPut {
		return fmt.Errorf("injected datastore write failure for %s", key)
	}
	return d.Datastore.Put(ctx, key, value)
}

// createFail: CreateKey for a never created id while the datastore refuses writes.  It must report
// the error and leave no trace: the probes that follow (ordinary has/get operations, also compared
// with the model, in which nothing was created) must find the id absent on every keystore.
func (e *c20env) createFail(inst int, id string) {
	ctx := context.Background()
	if _, was := e.stored[id]; was {
		return
	}
	fd := e.ds.(*c20FlakyDS)
	fd.failPut = true
	priv, err := e.insts[inst].real.CreateKey(ctx, id)
	fd.failPut = false
	e.run.evals++
	e.run.classes["create-during-datastore-outage"] = struct{}{}
	if err == nil && priv != nil {
		e.run.fail(e, "failed-create-reports-error", "C20:createkey-succeeded-without-store", fmt.Sprintf("CreateKey(%q) on keystore %d returned a key although the datastore refused the write", id, inst))
	}
	e.insts[inst].HasKey(ctx, id)
	e.insts[inst].GetKey(ctx, id)
	e.insts[(inst+1)%len(e.insts)].HasKey(ctx, id)
}

func (e *c20env) coqCase() string {
	return fmt.Sprintf("Build_hist_case %d %s [\n   %s]", c20Cap, coqBool(e.once), strings.Join(e.items, ";\n   "))
}

// ---- generators ----
type c20params struct {
	flavour string
	nIDs    int // plain ids available for raw creation
	nOps    int
	nUIDs   int // user ids for identities
	maxInst int
}

func c20generate(e *c20env, p c20params, rng *rand.Rand) {
	do := func(o c20op) { e.exec(o, rng) }
	do(c20op{Op: "new"})
	for i := rng.Intn(3); i > 0; i-- {
		do(c20op{Op: "new"})
	}
	var createdPlain []string // raw-created plain ids, in creation order
	nextID := 1
	uids := make([]string, p.nUIDs)
	for i := range uids {
		uids[i] = fmt.Sprintf("id-%d", 900000+i)
	}
	known := func() []string { // every id in the datastore (plain, user ids, hex ids), by number
		ids := make([]string, 0, len(e.stored))
		for id := range e.stored {
			ids = append(ids, id)
		}
		sort.Slice(ids, func(i, j int) bool { return e.idNum(ids[i]) < e.idNum(ids[j]) })
		for i := range ids {
			ids[i] = e.symbolic(ids[i])
		}
		return ids
	}
	inst := func() int { return rng.Intn(len(e.insts)) }
	pickID := func() string {
		switch x := rng.Intn(10); {
		case x == 0 || len(e.stored) == 0: // never created
			return fmt.Sprintf("id-%d", 800000+rng.Intn(50))
		case x == 1 && nextID <= p.nIDs: // not created YET: probed now (a miss), created later, probed again
			return fmt.Sprintf("id-%d", nextID+rng.Intn(2))
		case x <= 3 && len(createdPlain) > 0: // an old one (evicted when there are many)
			return createdPlain[rng.Intn(1+len(createdPlain)/4)]
		case x == 4 && len(createdPlain) > 0: // a recent one
			return createdPlain[len(createdPlain)-1-rng.Intn(1+len(createdPlain)/8)]
		default:
			k := known()
			return k[rng.Intn(len(k))]
		}
	}
	// "evict" histories first fill one keystore beyond the capacity
	if p.flavour == "evict" {
		filler := inst()
		for nextID <= p.nIDs {
			who := filler
			if rng.Intn(12) == 0 {
				who = inst()
			}
			id := fmt.Sprintf("id-%d", nextID)
			nextID++
			do(c20op{Op: "create", Inst: who, ID: id})
			createdPlain = append(createdPlain, id)
			if rng.Intn(40) == 0 {
				do(c20op{Op: "ident", Inst: inst(), ID: uids[rng.Intn(len(uids))]})
			}
		}
	}
	for n := 0; n < p.nOps; n++ {
		x := rng.Intn(100)
		switch {
		case x < 14 && nextID <= p.nIDs:
			id := fmt.Sprintf("id-%d", nextID)
			nextID++
			do(c20op{Op: "create", Inst: inst(), ID: id})
			createdPlain = append(createdPlain, id)
		case x < 17 && p.flavour == "recreate" && len(e.stored) > 0:
			k := known()
			do(c20op{Op: "create", Inst: inst(), ID: k[rng.Intn(len(k))]})
		case x < 42:
			do(c20op{Op: "get", Inst: inst(), ID: pickID()})
		case x == 42:
			do(c20op{Op: "createfail", Inst: inst(), ID: fmt.Sprintf("id-%d", 700000+rng.Intn(1000))})
		case x == 43 || x == 44:
			// ids that share their last path component: one is created, its namesakes in the other
			// namespaces are probed (absent unless created earlier), then it is read back
			b, a := rng.Intn(40), rng.Intn(3)
			who := inst()
			if _, was := e.stored[c20NSID(c20NSBase+3*b+a)]; !was {
				do(c20op{Op: "create", Inst: who, ID: fmt.Sprintf("id-%d", c20NSBase+3*b+a)})
			}
			do(c20op{Op: "has", Inst: who, ID: fmt.Sprintf("id-%d", c20NSBase+3*b+(a+1)%3)})
			do(c20op{Op: "get", Inst: who, ID: fmt.Sprintf("id-%d", c20NSBase+3*b+(a+2)%3)})
			do(c20op{Op: "get", Inst: inst(), ID: fmt.Sprintf("id-%d", c20NSBase+3*b+a)})
		case x < 67:
			do(c20op{Op: "has", Inst: inst(), ID: pickID()})
		case x < 72 && len(e.insts) < p.maxInst:
			do(c20op{Op: "new"}) // restart / another keystore over the same datastore
		case x < 84:
			u := uids[rng.Intn(len(uids))]
			if x >= 82 && e.idents[u] != nil {
				do(c20op{Op: "identc", Inst: inst(), ID: u}) // for an existing identity, by a caller whose context is done
				do(c20op{Op: "get", Inst: inst(), ID: u})
			}
			do(c20op{Op: "ident", Inst: inst(), ID: u})
		case x < 92:
			u := uids[rng.Intn(len(uids))]
			if e.idents[u] != nil {
				do(c20op{Op: "sign", Inst: inst(), ID: u})
			}
		case x < 95:
			u := uids[rng.Intn(len(uids))]
			if e.idents[u] != nil {
				do(c20op{Op: "entry", Inst: e.identIn[u], ID: u})
			}
		default:
			do(c20op{Op: "get", Inst: inst(), ID: pickID()})
			do(c20op{Op: "has", Inst: inst(), ID: pickID()})
		}
	}
}

// fixed small histories that run first: the Coq witnesses of Props/C20.v and identity basics
func c20corpus() [][]c20op {
	restart := []c20op{{Op: "new"}, {Op: "create", Inst: 0, ID: "id-1"}, {Op: "new"},
		{Op: "get", Inst: 1, ID: "id-1"}, {Op: "has", Inst: 0, ID: "id-1"}, {Op: "has", Inst: 1, ID: "id-1"}}
	restartHasFirst := []c20op{{Op: "new"}, {Op: "create", Inst: 0, ID: "id-1"}, {Op: "new"},
		{Op: "has", Inst: 1, ID: "id-1"}, {Op: "get", Inst: 1, ID: "id-1"}, {Op: "has", Inst: 1, ID: "id-1"},
		{Op: "has", Inst: 1, ID: "id-2"}, {Op: "get", Inst: 1, ID: "id-2"}}
	evict := []c20op{{Op: "new"}}
	for i := 1; i <= c20Cap+1; i++ {
		evict = append(evict, c20op{Op: "create", Inst: 0, ID: fmt.Sprintf("id-%d", i)})
	}
	evict = append(evict, c20op{Op: "has", Inst: 0, ID: "id-2"}, c20op{Op: "get", Inst: 0, ID: "id-1"},
		c20op{Op: "has", Inst: 0, ID: "id-1"}, c20op{Op: "has", Inst: 0, ID: "id-2"}, c20op{Op: "has", Inst: 0, ID: "id-3"})
	ident := []c20op{{Op: "new"}, {Op: "ident", Inst: 0, ID: "id-900000"}, {Op: "ident", Inst: 0, ID: "id-900000"},
		{Op: "new"}, {Op: "ident", Inst: 1, ID: "id-900000"}, {Op: "sign", Inst: 1, ID: "id-900000"},
		{Op: "entry", Inst: 1, ID: "id-900000"}, {Op: "has", Inst: 0, ID: "id-900000"}, {Op: "has", Inst: 1, ID: "id-900000"}}
	return [][]c20op{restart, restartHasFirst, evict, ident}
}

// informational probe (not part of the property's scope, see notes/C20.md): ids that differ as
// strings but name the same datastore key
func c20aliasProbe() string {
	ctx := context.Background()
	ds := dssync.MutexWrap(datastore.NewMapDatastore())
	k1, _ := keystore.NewKeystore(ds)
	k2, _ := keystore.NewKeystore(ds)
	a, err1 := k1.CreateKey(ctx, "alias")
	b, err2 := k1.CreateKey(ctx, "/alias")
	if err1 != nil || err2 != nil {
		return "probe failed"
	}
	g1, e1 := k1.GetKey(ctx, "alias")
	g2, e2 := k2.GetKey(ctx, "alias")
	if e1 != nil || e2 != nil {
		return "probe: GetKey error"
	}
	return fmt.Sprintf("ids \"alias\" and \"/alias\" share one datastore slot but not one cache slot: after CreateKey(\"alias\"), CreateKey(\"/alias\") on keystore 1, GetKey(\"alias\") returns the first key on keystore 1: %v, on keystore 2: %v (second key: %v)",
		g1.Equals(a), g2.Equals(a), g2.Equals(b))
}

func runC20(seed int64, tier string, outDir string) *result {
	rng := rand.New(rand.NewSource(seed))
	res := &result{Property: "C20", Seed: seed, Tier: tier, Stats: map[string]interface{}{}}
	run := &c20run{res: res, classes: map[string]struct{}{}, nFail: map[string]int{}}
	header := "From IpfsLog Require Import Model.Keystore Model.Check20.\nOpen Scope N_scope.\n"
	list := &caseList{name: "hist_cases", typ: "hist_case", checker: "mismatches_hist"}
	var sizes, idCounts []int
	flavours := map[string]int{}
	if replayFile == "" {
		c20SpecialIdentities(run, func(mon, key, detail string) {
			res.Failures = append(res.Failures, monitorFailure{Property: "C20", Monitor: mon, Detail: detail, Key: key,
				Case: map[string]interface{}{"scenario": "identity whose key has a leading zero coordinate (deterministic search, seed 20200202)"}})
		})
	}
	finish := func(e *c20env, flavour string) {
		lab := fmt.Sprintf("%s: %d ops, %d keys, %d keystores", e.label, len(e.ops), len(e.keys), len(e.insts))
		if len(e.ops) <= 40 {
			s := make([]string, len(e.ops))
			for i, o := range e.ops {
				s[i] = o.String()
			}
			lab += ": " + strings.Join(s, " ")
		}
		list.add(e.coqCase(), lab)
		sizes = append(sizes, len(e.items))
		idCounts = append(idCounts, len(e.stored))
		flavours[flavour]++
	}

	if replayFile != "" {
		var rf struct {
			Violation struct {
				Case struct {
					History string  `json:"history"`
					Ops     []c20op `json:"ops"`
				} `json:"case"`
			} `json:"violation"`
		}
		b, err := os.ReadFile(replayFile)
		if err != nil {
			panic(err)
		}
		if err := json.Unmarshal(b, &rf); err != nil {
			panic(err)
		}
		e := c20newEnv(run, "replay of "+rf.Violation.Case.History, false)
		for _, o := range rf.Violation.Case.Ops {
			e.exec(o, rng)
		}
		finish(e, "replay")
		fmt.Printf("replayed %d ops; implementation observations (Coq items):\n  %s\n", len(e.ops), strings.Join(e.items, "\n  "))
		for _, f := range res.Failures {
			fmt.Printf("FAILED ASSERTION %s [%s]: %s\n", f.Monitor, f.Key, f.Detail)
		}
	} else {
		for i, ops := range c20corpus() {
			e := c20newEnv(run, fmt.Sprintf("corpus-%d", i), true)
			for _, o := range ops {
				e.exec(o, rng)
			}
			finish(e, "corpus")
		}
		nSmall, nEvict, nRecreate := 30, 8, 6
		if tier == "thorough" {
			nSmall, nEvict, nRecreate = 1500, 480, 240
		}
		for i := 0; i < nSmall; i++ {
			e := c20newEnv(run, fmt.Sprintf("small-%d", i), true)
			c20generate(e, c20params{flavour: "small", nIDs: 1 + rng.Intn(24), nOps: 30 + rng.Intn(90), nUIDs: 1 + rng.Intn(3), maxInst: 6}, rng)
			finish(e, "small")
		}
		for i := 0; i < nEvict; i++ {
			n := c20Cap + 1 + rng.Intn(300-c20Cap) // 129..300 plain ids
			if tier == "thorough" && i%4 == 3 {
				n = 1 + rng.Intn(300) // also below the capacity
			}
			e := c20newEnv(run, fmt.Sprintf("evict-%d", i), true)
			c20generate(e, c20params{flavour: "evict", nIDs: n + rng.Intn(20), nOps: 150 + rng.Intn(250), nUIDs: 1 + rng.Intn(4), maxInst: 5}, rng)
			finish(e, "evict")
		}
		for i := 0; i < nRecreate; i++ {
			e := c20newEnv(run, fmt.Sprintf("recreate-%d", i), false)
			c20generate(e, c20params{flavour: "recreate", nIDs: 1 + rng.Intn(10), nOps: 40 + rng.Intn(60), nUIDs: 1 + rng.Intn(2), maxInst: 4}, rng)
			finish(e, "recreate")
		}
	}

	per := 6
	if tier == "thorough" {
		per = 12
	}
	res.CaseFiles = writeShards(outDir, "C20", header, []*caseList{list}, per)
	res.ModelCases = len(list.items)
	res.Evaluations = run.evals
	res.Distinct = len(run.classes)
	res.Rule = "one evaluation = one monitored keystore call (CreateKey/GetKey/HasKey, also those made inside CreateIdentity/Sign/CreateEntry) or one identity-level check (idempotence, the two identity signatures, a signature/entry made with the identity); a class is (operation, status of the id at that keystore: never-created | created and cached there | created and not cached there (evicted, other keystore, restart)) resp. (identity created first / again on the same or another keystore, with the user id cached or not) resp. (sign on the creating or another keystore); distinct_nontrivial = number of classes hit"
	cl := make([]string, 0, len(run.classes))
	for k := range run.classes {
		cl = append(cl, k)
	}
	sort.Strings(cl)
	sort.Ints(sizes)
	sort.Ints(idCounts)
	res.Stats["classes"] = cl
	res.Stats["histories"] = flavours
	if len(sizes) > 0 {
		res.Stats["items_per_history_min_median_max"] = []int{sizes[0], sizes[len(sizes)/2], sizes[len(sizes)-1]}
		res.Stats["stored_ids_per_history_min_median_max"] = []int{idCounts[0], idCounts[len(idCounts)/2], idCounts[len(idCounts)-1]}
		over := 0
		for _, n := range idCounts {
			if n > c20Cap {
				over++
			}
		}
		res.Stats["histories_with_more_ids_than_cache_capacity"] = over
	}
	res.Stats["cache_capacity"] = c20Cap
	res.Stats["monitor_failures_by_key"] = run.nFail
	res.Stats["note_alias_ids_out_of_scope"] = c20aliasProbe()
	for i := 0; i < len(list.labels) && i < 3; i++ {
		res.Samples = append(res.Samples, list.labels[i])
	}
	if len(list.labels) > 4 {
		res.Samples = append(res.Samples, list.labels[len(list.labels)-1])
	}
	return res
}

// c20SpecialIdentities: identities whose identity key has a public point with a leading zero byte in
// X or in Y (1 key in 128 each; found by a deterministic search and put into the datastore the way
// CreateKey stores keys).  The published key must still be the 65-byte uncompressed form, and the three
// signature facts and entry verification must hold as for any other key.
func c20SpecialIdentities(run *c20run, fail func(mon, key, detail string)) {
	ctx := context.Background()
	rd := rand.New(rand.NewSource(20200202))
	want := map[string]int{"X": 1, "Y": 33}
	found := map[string]crypto.PrivKey{}
	for tries := 0; tries < 20000 && len(found) < 2; tries++ {
		priv, pub, err := crypto.GenerateSecp256k1Key(rd)
		if err != nil {
			panic(err)
		}
		raw, _ := pub.Raw()
		pk, err := btcec.ParsePubKey(raw, btcec.S256())
		if err != nil {
			panic(err)
		}
		un := pk.SerializeUncompressed()
		for name, off := range want {
			if _, ok := found[name]; !ok && un[off] == 0 {
				found[name] = priv
			}
		}
	}
	// two keys that are negations of each other modulo the group order (d and n-d): distinct legal keys
	// whose public points share their x coordinate
	if base, _, err := crypto.GenerateSecp256k1Key(rd); err == nil {
		bb, _ := base.Raw()
		nd := new(big.Int).Sub(btcec.S256().N, new(big.Int).SetBytes(bb))
		if neg, err := crypto.UnmarshalSecp256k1PrivateKey(nd.FillBytes(make([]byte, 32))); err == nil {
			found["negation-pair-first"] = base
			found["negation-pair-second"] = neg
		}
	}
	for _, name := range []string{"X", "Y", "negation-pair-first", "negation-pair-second"} {
		special, ok := found[name]
		if !ok {
			continue
		}
		run.evals++
		run.classes["identity-key-with-leading-zero-"+name] = struct{}{}
		ds := dssync.MutexWrap(datastore.NewMapDatastore())
		ks, err := keystore.NewKeystore(ds)
		if err != nil {
			panic(err)
		}
		uid := "special-" + name
		root, err := ks.CreateKey(ctx, uid)
		if err != nil {
			panic(err)
		}
		rootPub, _ := root.GetPublic().Raw()
		sb, _ := special.Raw()
		if err := ds.Put(ctx, datastore.NewKey(hex.EncodeToString(rootPub)), sb); err != nil {
			panic(err)
		}
		idn, err := idp.CreateIdentity(ctx, &idp.CreateIdentityOptions{Keystore: ks, ID: uid, Type: "orbitdb"})
		what := fmt.Sprintf("identity whose key has a public point with %s starting with 00", name)
		if len(name) > 1 {
			what = "identity whose key is one of a pair d, n-d (same x coordinate): " + name
		}
		if err != nil {
			fail("identity-creation", "C20:createidentity-error", what+": "+err.Error())
			continue
		}
		if len(idn.PublicKey) != 65 {
			fail("id-signature", "C20:published-key-unparsable", fmt.Sprintf("%s: published key has %d bytes, not 65", what, len(idn.PublicKey)))
		}
		pub := c20pub(idn.PublicKey)
		if pub == nil {
			fail("id-signature", "C20:published-key-unparsable", what+": PublicKey does not parse")
		} else if ok, err := pub.Verify([]byte(idn.ID), idn.Signatures.ID); err != nil || !ok {
			fail("id-signature", "C20:id-sig-fails", fmt.Sprintf("%s: Signatures.ID does not verify under PublicKey (%v)", what, err))
		}
		if rawID, herr := hex.DecodeString(idn.ID); herr == nil {
			if idPub := c20pub(rawID); idPub != nil {
				msg := []byte(hex.EncodeToString(append(append([]byte{}, idn.PublicKey...), idn.Signatures.ID...)))
				if ok, err := idPub.Verify(msg, idn.Signatures.PublicKey); err != nil || !ok {
					fail("pubkey-signature", "C20:pk-sig-fails", fmt.Sprintf("%s: Signatures.PublicKey does not verify under the key the ID denotes (%v)", what, err))
				}
			}
		}
		api, _ := newAPI()
		en, err := entry.CreateEntry(ctx, api, idn, &entry.Entry{LogID: "c20", Payload: []byte("signed with " + uid)}, nil)
		if err != nil {
			fail("entry-verifies", "C20:entry-sig-fails", what+": CreateEntry: "+err.Error())
		} else if err := en.(*entry.Entry).Verify(idn.Provider, nil); err != nil {
			fail("entry-verifies", "C20:entry-sig-fails", what+": an entry signed with it does not verify: "+err.Error())
		}
	}
}
