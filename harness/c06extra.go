package main

// Scenario monitors that need logs built through LogOptions.Entries (not expressible as a history
// of the engine in loghist.go):
//  * C06: a source log in which ONE entry - at any position, also deep inside a batch of new
//    entries - is unsigned / mis-signed / without key / signed by somebody else; merging it must
//    fail and leave the destination observably unchanged, and the honest source must then merge.
//  * C05/C03: two logs built from one shared entry map must not influence each other.

import (
	"berty.tech/go-ipfs-log/enc"
	"berty.tech/go-ipfs-log/io/cbor"
	"bytes"
	"context"
	"fmt"
	"math"
	"math/rand"

	ipfslog "berty.tech/go-ipfs-log"
	"berty.tech/go-ipfs-log/accesscontroller"
	"berty.tech/go-ipfs-log/entry"
	"berty.tech/go-ipfs-log/entry/sorting"
	idp "berty.tech/go-ipfs-log/identityprovider"
	"berty.tech/go-ipfs-log/iface"
	"github.com/ipfs/go-cid"
)

func cloneEntry(e iface.IPFSLogEntry) *entry.Entry {
	c := e.Copy().(*entry.Entry)
	c.Next = e.GetNext() // Copy de-duplicates; keep the lists exactly
	c.Refs = e.GetRefs()
	return c
}

type payloadAC struct{ deny map[string]bool }

func (p *payloadAC) CanAppend(e accesscontroller.LogEntry, _ idp.Interface, _ accesscontroller.CanAppendAdditionalContext) error {
	if p.deny[string(e.GetPayload())] {
		return fmt.Errorf("payload refused by the harness access controller")
	}
	return nil
}

type c06Stats struct {
	forged, rejected, aliasRuns int
	kinds                       map[string]int
}

func runForgeScenarios(rng *rand.Rand, n int, st *c06Stats, fail func(prop, mon, key, detail string, c interface{})) {
	ctx := context.Background()
	kinds := []string{"nosig", "wrongsig", "nokey", "otherkey", "flipsig", "foreignid", "aclpayload", "forgedhead", "payload", "destkey", "relabel"}
	for it := 0; it < n; it++ {
		w := newWorld()
		// an access controller whose verdict depends on the entry, not only on its writer
		pac := &payloadAC{deny: map[string]bool{}}
		mk := func(id string) *ipfslog.IPFSLog {
			l, err := ipfslog.NewLog(w.api, w.idents[id], &ipfslog.LogOptions{ID: "L", SortFn: sortFnOf(pick(rng, []string{"lww", "hash"})), AccessController: pac,
				Concurrency: uint(pick(rng, []int{0, 0, 1, 2, 16}))})
			if err != nil {
				panic(err)
			}
			return l
		}
		a, b, dest := mk("A"), mk("B"), mk("C")
		na, nb := 1+rng.Intn(12), rng.Intn(8)
		if it%7 == 0 {
			na = 50 + rng.Intn(150) // a large batch
		}
		var desc []string
		for i := 0; i < na; i++ {
			if _, err := a.Append(ctx, []byte(fmt.Sprintf("a%d", i)), &ipfslog.AppendOptions{PointerCount: pick(rng, []int{1, 2, 8})}); err != nil {
				panic(err)
			}
			if i == na/3 && rng.Intn(2) == 0 {
				if _, err := dest.Join(a, -1); err != nil { // dest shares a prefix
					panic(err)
				}
				desc = append(desc, fmt.Sprintf("dest joined after %d", i+1))
			}
		}
		for i := 0; i < nb; i++ {
			if _, err := b.Append(ctx, []byte(fmt.Sprintf("b%d", i)), nil); err != nil {
				panic(err)
			}
		}
		if _, err := a.Join(b, -1); err != nil {
			panic(err)
		}
		if _, err := a.Append(ctx, []byte("top"), nil); err != nil {
			panic(err)
		}
		// candidates = entries of a that dest lacks
		var cands []iface.IPFSLogEntry
		for _, e := range a.GetEntries().Slice() {
			if _, ok := dest.Get(e.GetHash()); !ok {
				cands = append(cands, e)
			}
		}
		// every genuine entry has been verified once in this process (a replica merged the whole log)
		if _, err := mk("D").Join(a, -1); err != nil {
			panic(err)
		}
		victim := cands[rng.Intn(len(cands))]
		kind := kinds[rng.Intn(len(kinds))]
		forgedMap := entry.NewOrderedMap()
		for _, e := range a.GetEntries().Slice() {
			if e.GetHash().String() != victim.GetHash().String() {
				forgedMap.Set(e.GetHash().String(), e)
				continue
			}
			c := cloneEntry(e)
			switch kind {
			case "nosig":
				c.Sig = nil
			case "wrongsig":
				other := cands[rng.Intn(len(cands))]
				if other.GetHash().String() == e.GetHash().String() {
					c.Sig = append([]byte{}, e.GetSig()[:len(e.GetSig())-1]...)
				} else {
					c.Sig = other.GetSig()
				}
			case "flipsig":
				s := append([]byte{}, e.GetSig()...)
				s[rng.Intn(len(s))] ^= 1 << uint(rng.Intn(8))
				c.Sig = s
			case "nokey":
				c.Key = nil
			case "otherkey":
				c.Key = w.idents["D"].PublicKey
			case "destkey":
				c.Key = w.idents["C"].PublicKey // the key of the very log that merges
			case "payload":
				c.Payload = append([]byte("tampered-"), e.GetPayload()...) // same hash, key and signature
			case "relabel":
				// the genuine, validly signed entry, filed under its own hash but CLAIMING the hash of an
				// entry the destination already holds (nothing to relabel with when the destination is empty)
				if held := dest.GetEntries().Slice(); len(held) > 0 {
					c.Hash = held[rng.Intn(len(held))].GetHash()
				}
			}
			forgedMap.Set(e.GetHash().String(), c)
		}
		forgedHeads := a.Heads().Slice()
		switch kind {
		case "foreignid":
			// a correctly signed entry of ANOTHER log, on top of the honest heads, in a log that claims id "L"
			var next []cid.Cid
			for _, h := range a.Heads().Slice() {
				next = append(next, h.GetHash())
			}
			f, err := entry.CreateEntry(ctx, w.api, w.idents["A"], &entry.Entry{LogID: "M", Payload: []byte("from-another-log"), Next: next}, nil)
			if err != nil {
				panic(err)
			}
			forgedMap.Set(f.GetHash().String(), f)
			forgedHeads = []iface.IPFSLogEntry{f}
		case "aclpayload":
			// nothing is forged: the destination's access controller refuses the victim's payload
			pac.deny[string(victim.GetPayload())] = true
		case "forgedhead":
			// the entry map is genuine; the HEAD list holds a tampered copy (same hash, other payload) of the head
			forgedHeads = nil
			for _, h := range a.Heads().Slice() {
				c := cloneEntry(h)
				c.Payload = []byte("forged-head")
				forgedHeads = append(forgedHeads, c)
			}
		}
		forged, err := ipfslog.NewLog(w.api, w.idents["A"], &ipfslog.LogOptions{ID: "L", Entries: forgedMap, Heads: forgedHeads})
		if err != nil {
			panic(err)
		}
		before := snapLog(dest)
		headsBefore := sortedCopy(hashesOf(dest.Heads().Slice()))
		st.forged++
		st.kinds[kind]++
		caseInfo := map[string]interface{}{"scenario": "forge", "kind": kind, "entries_in_source": a.Len(), "new_for_dest": len(cands),
			"victim_payload": string(victim.GetPayload()), "notes": desc, "seed_iteration": it}
		var jerr error
		func() {
			defer func() {
				if r := recover(); r != nil {
					jerr = fmt.Errorf("panic: %v", r)
					fail("C06", "join-no-panic", "C06:join-panics-on-forged-entry", fmt.Sprint(r), caseInfo)
				}
			}()
			_, jerr = dest.Join(forged, -1)
		}()
		if kind == "relabel" {
			// whatever the merge does with the relabelled object, every entry the destination held is still
			// there under its hash, byte for byte
			after := snapLog(dest)
			for hsh, ser := range before.entries {
				if cur, ok := after.entries[hsh]; !ok {
					fail("C05", "entries-never-vanish", "C05:entry-vanished", "a held entry vanished when a log with a relabelled entry was merged", caseInfo)
					break
				} else if cur != ser {
					fail("C05", "entries-immutable", "C05:entry-mutated", "a held entry was replaced by another object when a log with a relabelled entry was merged", caseInfo)
					break
				}
			}
			st.rejected++
			continue
		}
		if kind == "foreignid" || kind == "forgedhead" {
			// entries of another log / unverified objects are never added or exposed (the merge may skip them
			// or fail, it must not admit them): whatever the log lists, returns as heads or linearises is an
			// entry of the log with the log's id that verifies
			listed := map[string][]iface.IPFSLogEntry{"GetEntries": dest.GetEntries().Slice(), "Heads": dest.Heads().Slice(), "Values": dest.Values().Slice()}
			for _, where := range []string{"GetEntries", "Heads", "Values"} {
				for _, e := range listed[where] {
					if e.GetLogID() != "L" {
						fail("C06", "admitted-entries-carry-log-id", "C06:join-admitted-foreign-log-id",
							fmt.Sprintf("after the merge %s() returns an entry with log id %q", where, e.GetLogID()), caseInfo)
						break
					}
					if ee, ok := e.(*entry.Entry); ok {
						if err := ee.Verify(w.idents["A"].Provider, nil); err != nil {
							fail("C06", "admitted-entries-verify", "C06:join-exposes-unverified-entry",
								fmt.Sprintf("after the merge %s() returns an entry (payload %q) that does not verify: %v", where, e.GetPayload(), err), caseInfo)
							break
						}
					}
					if _, ok := dest.Get(e.GetHash()); !ok {
						fail("C02", "head-is-entry", "C02:head-not-entry", fmt.Sprintf("after the merge %s() returns an entry that the log does not hold", where), caseInfo)
						break
					}
				}
			}
			if jerr == nil {
				st.rejected++
				continue
			}
		} else if jerr == nil {
			fail("C06", "forged-entry-rejected", "C06:join-accepted-invalid-entry:"+kind,
				fmt.Sprintf("Join accepted a log containing a %s entry among %d new entries", kind, len(cands)), caseInfo)
		} else {
			st.rejected++
		}
		pac.deny = map[string]bool{} // the honest merge below is not refused
		after := snapLog(dest)
		if jerr != nil && (len(after.entries) != len(before.entries) || !eqStrings(after.values, before.values) ||
			!eqStrings(sortedCopy(hashesOf(dest.Heads().Slice())), headsBefore)) {
			fail("C06", "failed-join-unchanged", "C06:failed-join-changed-log", "a rejected join changed entries, values or heads", caseInfo)
		}
		// the honest source must still merge completely afterwards, and the result must be sound
		if jerr != nil {
			if _, err := dest.Join(a, -1); err != nil {
				fail("C06", "honest-join-after-rejection", "C06:honest-join-fails-after-rejection", err.Error(), caseInfo)
			} else {
				ents := dest.GetEntries().Slice()
				if want := unreferenced(ents); !eqStrings(sortedCopy(hashesOf(dest.Heads().Slice())), want) {
					fail("C02", "heads-exact", "C02:heads-not-unreferenced", "heads wrong after a rejected join followed by an honest one", caseInfo)
				}
				if len(dest.Values().Slice()) != len(ents) {
					fail("C03", "values-complete", "C03:incomplete", "Values() incomplete after a rejected join followed by an honest one", caseInfo)
				}
			}
		}
	}
}

// two logs from one shared OrderedMap (C05: operations on one log never alter another instance)
func runAliasScenarios(rng *rand.Rand, n int, st *c06Stats, fail func(prop, mon, key, detail string, c interface{})) {
	ctx := context.Background()
	for it := 0; it < n; it++ {
		w := newWorld()
		src, _ := ipfslog.NewLog(w.api, w.idents["A"], &ipfslog.LogOptions{ID: "L"})
		k := 1 + rng.Intn(12)
		for i := 0; i < k; i++ {
			if _, err := src.Append(ctx, []byte(fmt.Sprintf("s%d", i)), nil); err != nil {
				panic(err)
			}
		}
		shared := src.GetEntries()
		f1, _ := ipfslog.NewLog(w.api, w.idents["B"], &ipfslog.LogOptions{ID: "L", Entries: shared, Heads: src.Heads().Slice()})
		f2, _ := ipfslog.NewLog(w.api, w.idents["C"], &ipfslog.LogOptions{ID: "L", Entries: shared, Heads: src.Heads().Slice()})
		st.aliasRuns++
		caseInfo := map[string]interface{}{"scenario": "two logs from one entry map", "entries": k, "seed_iteration": it}
		logs := []*ipfslog.IPFSLog{src, f1, f2}
		own := []int{0, 0, 0}
		func() {
			defer func() {
				// a nil entry in a listing makes the snapshot code itself panic: that IS the failure
				if r := recover(); r != nil {
					fail("C05", "other-logs-untouched", "C05:other-log-changed", fmt.Sprintf("a log built from a shared entry map became inconsistent (panic while reading it: %v)", r), caseInfo)
					fail("C03", "values-complete", "C03:incomplete", fmt.Sprintf("a log built from a shared entry map became unreadable: %v", r), caseInfo)
				}
			}()
			for step := 0; step < 6; step++ {
				who := rng.Intn(3)
				snaps := []*logSnap{snapLog(src), snapLog(f1), snapLog(f2)}
				if _, err := logs[who].Append(ctx, []byte(fmt.Sprintf("x%d-%d", who, step)), nil); err != nil {
					panic(err)
				}
				own[who]++
				for j, l := range logs {
					now := snapLog(l)
					listing := l.GetEntries().Slice()
					for _, e := range listing {
						if e == nil {
							fail("C05", "other-logs-untouched", "C05:other-log-changed", "a nil entry appeared in another log's entry listing", caseInfo)
						}
					}
					if j != who && (len(now.entries) != len(snaps[j].entries) || !eqStrings(now.values, snaps[j].values) || len(listing) != len(snaps[j].entries)) {
						fail("C05", "other-logs-untouched", "C05:other-log-changed", fmt.Sprintf("an append on log %d changed log %d built from the same entry map", who, j), caseInfo)
					}
					if want := unreferenced(listing); !eqStrings(sortedCopy(hashesOf(l.Heads().Slice())), want) {
						fail("C02", "heads-exact", "C02:heads-not-unreferenced", fmt.Sprintf("log %d built from a shared entry map: heads are not its unreferenced entries after an append on log %d", j, who), caseInfo)
					}
					if len(now.values) != len(now.entries) || len(listing) != k+own[j] {
						fail("C03", "values-complete", "C03:incomplete", fmt.Sprintf("log %d: %d entries listed, %d in Values(), expected %d", j, len(listing), len(now.values), k+own[j]), caseInfo)
					}
				}
			}
		}()
	}
}

// merging from a PARTIAL log (loaded with a length limit): the destination must keep everything it
// had (C05), its heads must stay the unreferenced entries (C02) and Values() complete (C03)
func runPartialJoinScenarios(rng *rand.Rand, n int, st *c06Stats, fail func(prop, mon, key, detail string, c interface{})) {
	ctx := context.Background()
	for it := 0; it < n; it++ {
		w := newWorld()
		writer, _ := ipfslog.NewLog(w.api, w.idents["A"], &ipfslog.LogOptions{ID: "L"})
		replica, _ := ipfslog.NewLog(w.api, w.idents["B"], &ipfslog.LogOptions{ID: "L"})
		k := 3 + rng.Intn(10)
		joinAt := 1 + rng.Intn(k-1)
		for i := 0; i < k; i++ {
			if _, err := writer.Append(ctx, []byte(fmt.Sprintf("a%d", i)), &ipfslog.AppendOptions{PointerCount: pick(rng, []int{1, 2, 4, 8, 16})}); err != nil {
				panic(err)
			}
			if i+1 == joinAt {
				if _, err := replica.Join(writer, -1); err != nil {
					panic(err)
				}
				if rng.Intn(2) == 0 {
					if _, err := replica.Append(ctx, []byte("own"), nil); err != nil {
						panic(err)
					}
				}
			}
		}
		limit := 1 + rng.Intn(3)
		head := writer.Heads().Slice()[0].GetHash()
		partial, err := ipfslog.NewFromEntryHash(ctx, w.api, w.idents["C"], head, &ipfslog.LogOptions{ID: "L"}, &ipfslog.FetchOptions{Length: &limit})
		if err != nil {
			panic(err)
		}
		st.aliasRuns++
		caseInfo := map[string]interface{}{"scenario": "join from a partially loaded log", "writer_entries": k, "replica_joined_after": joinAt, "load_limit": limit, "seed_iteration": it}
		before := snapLog(replica)
		if _, err := replica.Join(partial, -1); err != nil {
			fail("C06", "honest-join", "C06:partial-log-join-fails", err.Error(), caseInfo)
			continue
		}
		after := snapLog(replica)
		for h := range before.entries {
			if _, ok := after.entries[h]; !ok {
				fail("C05", "entries-never-vanish", "C05:entry-vanished", "an entry vanished after merging a partially loaded log", caseInfo)
				break
			}
		}
		if !isSubsequence(before.values, after.values) {
			fail("C05", "values-subsequence", "C05:values-not-subsequence", fmt.Sprintf("after merging a partially loaded log the previous Values() (%d entries) is not a subsequence of the new one (%d entries)", len(before.values), len(after.values)), caseInfo)
		}
		ents := replica.GetEntries().Slice()
		if want := unreferenced(ents); !eqStrings(sortedCopy(hashesOf(replica.Heads().Slice())), want) {
			fail("C02", "heads-exact", "C02:heads-not-unreferenced", "heads are not the unreferenced entries after merging a partially loaded log", caseInfo)
		}
		if len(after.values) != len(ents) {
			fail("C03", "values-complete", "C03:incomplete", fmt.Sprintf("Values() has %d of %d entries after merging a partially loaded log", len(after.values), len(ents)), caseInfo)
		}
		// a log opened at an EARLIER head over all the cached entries (its entry map exceeds the closure of
		// its heads): a fresh replica that merges it gets exactly the closure of that head
		chain := writer.Values().Slice()
		cut := rng.Intn(len(chain))
		older, err := ipfslog.NewLog(w.api, w.idents["C"], &ipfslog.LogOptions{ID: "L", Entries: writer.GetEntries(), Heads: []iface.IPFSLogEntry{chain[cut]}})
		if err != nil {
			panic(err)
		}
		// the default iteration of a log opened at an earlier head is the causal past of ITS heads, newest first
		{
			ch := make(chan iface.IPFSLogEntry, 4096)
			var got []string
			if err := older.Iterator(&ipfslog.IteratorOptions{}, ch); err != nil {
				fail("C15", "iterator-default-range", "C15:iterator-error", err.Error(), map[string]interface{}{"scenario": "default iteration of a log opened at an earlier head", "head_index": cut})
			} else {
				for e := range ch {
					got = append(got, e.GetHash().String())
				}
				want := hashesOf(older.Values().Slice())
				for a, b := 0, len(want)-1; a < b; a, b = a+1, b-1 {
					want[a], want[b] = want[b], want[a]
				}
				if !eqStrings(got, want) {
					fail("C15", "iterator-default-range", "C15:wrong-range", fmt.Sprintf("default iteration of a log opened at entry %d of %d emits %d entries, the past of its head has %d", cut, k, len(got), len(want)), map[string]interface{}{"scenario": "default iteration of a log opened at an earlier head", "head_index": cut})
				}
			}
		}
		// what a log opened at an earlier head publishes loads to ITS state (its heads, not the newest cached entry)
		if mh, err := older.ToMultihash(ctx); err == nil {
			if re, err := ipfslog.NewFromMultihash(ctx, w.api, w.idents["D"], mh, &ipfslog.LogOptions{ID: "L"}, &ipfslog.FetchOptions{}); err != nil {
				fail("C17", "manifest-loads", "C17:manifest-does-not-load", err.Error(), map[string]interface{}{"scenario": "manifest of a log opened at an earlier head", "head_index": cut})
			} else if got, want := hashesOf(re.Values().Slice()), hashesOf(older.Values().Slice()); !eqStrings(got, want) {
				fail("C17", "manifest-loads-state", "C17:manifest-loads-other-state", fmt.Sprintf("the manifest published by a log opened at entry %d of %d loads %d values, the log has %d", cut, k, len(got), len(want)), map[string]interface{}{"scenario": "manifest of a log opened at an earlier head", "head_index": cut})
			}
		}
		fresh, _ := ipfslog.NewLog(w.api, w.idents["D"], &ipfslog.LogOptions{ID: "L"})
		st.aliasRuns++
		info2 := map[string]interface{}{"scenario": "fresh replica merges a log opened at an earlier head", "writer_entries": k, "head_index": cut, "seed_iteration": it}
		if _, err := fresh.Join(older, -1); err != nil {
			fail("C06", "honest-join", "C06:partial-log-join-fails", err.Error(), info2)
			continue
		}
		fents := fresh.GetEntries().Slice()
		if want := unreferenced(fents); !eqStrings(sortedCopy(hashesOf(fresh.Heads().Slice())), want) {
			fail("C02", "heads-exact", "C02:heads-not-unreferenced", "heads are not the unreferenced entries after merging a log opened at an earlier head", info2)
		}
		if got := fresh.Values().Len(); got != len(fents) || got != cut+1 {
			fail("C03", "values-complete", "C03:incomplete", fmt.Sprintf("fresh replica: %d entries, %d values, the closure of the head has %d", len(fents), got, cut+1), info2)
			fail("C01", "converges", "C01:diverged", fmt.Sprintf("a fresh replica that merged a log opened at entry %d of a chain exposes %d values (holds %d entries) instead of %d", cut, got, len(fents), cut+1), info2)
		}
		// C05: a log opened at an earlier head holds more than the closure of its heads; an unbounded merge
		// with any peer keeps every entry it holds
		if older3, err := ipfslog.NewLog(w.api, w.idents["C"], &ipfslog.LogOptions{ID: "L", Entries: writer.GetEntries(), Heads: []iface.IPFSLogEntry{chain[cut]}}); err == nil {
			info4 := map[string]interface{}{"scenario": "a log opened at an earlier head merges a one-entry peer", "writer_entries": k, "head_index": cut, "seed_iteration": it}
			peer, _ := ipfslog.NewLog(w.api, w.idents["D"], &ipfslog.LogOptions{ID: "L"})
			if _, err := peer.Append(ctx, []byte("peer"), nil); err == nil {
				held := append([]string{}, older3.GetEntries().Keys()...)
				lenBefore := older3.Len()
				viewBefore := hashesOf(older3.Values().Slice())
				if _, err := older3.Join(peer, -1); err == nil {
					if viewAfter := hashesOf(older3.Values().Slice()); !isSubsequence(viewBefore, viewAfter) {
						key := "C05:values-not-subsequence"
						if cut < len(chain)-1 {
							// the given head is named by another supplied entry (known finding K5)
							key = "C05:values-not-subsequence:head-named-by-supplied-entry"
						}
						fail("C05", "values-subsequence", key, fmt.Sprintf("a log opened at entry %d of a chain of %d (all %d entries supplied) showed %d values; after an unbounded merge of an unrelated one-entry peer it shows %d and the earlier view is not a subsequence", cut+1, len(chain), len(chain), len(viewBefore), len(viewAfter)), info4)
					}
					after := older3.GetEntries()
					for _, hk := range held {
						if _, ok := after.Get(hk); !ok {
							fail("C05", "entries-never-vanish", "C05:entry-vanished", "entry "+hk+" vanished from a log opened at an earlier head when it merged a peer (unbounded)", info4)
							break
						}
					}
					if older3.Len() < lenBefore {
						fail("C05", "len-monotone", "C05:len-decreased", fmt.Sprintf("Len() went from %d to %d in an unbounded merge", lenBefore, older3.Len()), info4)
					}
				}
			}
		}
		// an append on a log opened at an earlier head: predecessors = its heads; skip references from its
		// own past and never one of the predecessors
		if older2, err := ipfslog.NewLog(w.api, w.idents["C"], &ipfslog.LogOptions{ID: "L", Entries: writer.GetEntries(), Heads: []iface.IPFSLogEntry{chain[cut]}}); err == nil {
			pc := pick(rng, []int{1, 2, 4, 8})
			info3 := map[string]interface{}{"scenario": "append on a log opened at an earlier head", "writer_entries": k, "head_index": cut, "pointer_count": pc, "seed_iteration": it}
			past := map[string]bool{}
			for _, h := range hashesOf(older2.Values().Slice()) {
				past[h] = true
			}
			if e, err := older2.Append(ctx, []byte("on-top"), &ipfslog.AppendOptions{PointerCount: pc}); err != nil {
				fail("C04", "append-succeeds", "C04:append-failed", err.Error(), info3)
			} else {
				nx := map[string]bool{}
				for _, c := range e.GetNext() {
					nx[c.String()] = true
				}
				if len(nx) != 1 || !nx[chain[cut].GetHash().String()] {
					fail("C04", "next-is-heads", "C04:next-not-heads", fmt.Sprintf("next=%v, the log's head was %s", e.GetNext(), chain[cut].GetHash()), info3)
				}
				for _, c := range e.GetRefs() {
					if nx[c.String()] {
						fail("C04", "refs-disjoint-next", "C04:ref-in-next", "reference "+c.String()+" is also a predecessor", info3)
					}
					if !past[c.String()] {
						fail("C04", "refs-in-past", "C04:ref-outside-past", "reference "+c.String()+" is not in the causal past of the log's heads", info3)
					}
				}
			}
		}
	}
}

// Append on logs the history engine does not produce (C04): logs whose clock was seeded through
// LogOptions.Clock (times around 2^53 and 2^62, where float64 arithmetic would round), and logs
// reloaded from their published heads under each supported ordering, whose own clock lags behind
// their heads.  After every append: next = previous heads, single head, and
// time = max(previous clock, newest previous head) + 1 > every entry already in the log.
func runAppendScenarios(rng *rand.Rand, n int, st *c06Stats, fail func(prop, mon, key, detail string, c interface{})) {
	ctx := context.Background()
	checkAppend := func(l *ipfslog.IPFSLog, payload string, pc int, caseInfo interface{}) {
		before := l.GetEntries().Slice()
		headsBefore := sortedCopy(hashesOf(l.Heads().Slice()))
		want := l.Clock.GetTime()
		for _, h := range l.Heads().Slice() {
			if t := h.GetClock().GetTime(); t > want {
				want = t
			}
		}
		want++
		e, err := l.Append(ctx, []byte(payload), &ipfslog.AppendOptions{PointerCount: pc})
		if err != nil {
			fail("C04", "append-succeeds", "C04:append-failed", err.Error(), caseInfo)
			return
		}
		var next []string
		for _, c := range e.GetNext() {
			next = append(next, c.String())
		}
		if !eqStrings(sortedCopy(next), headsBefore) {
			fail("C04", "next-is-heads", "C04:next-not-heads", fmt.Sprintf("next=%v heads before=%v", next, headsBefore), caseInfo)
		}
		if id := l.Identity; id != nil && !bytes.Equal(e.GetClock().GetID(), id.PublicKey) {
			fail("C04", "clock-id-is-writer", "C04:clock-id", "the new entry's clock id is not the writer's public key", caseInfo)
		}
		if e.GetClock().GetTime() != want {
			fail("C04", "time-is-max-plus-one", "C04:time-not-greater", fmt.Sprintf("new entry has time %d, want max(clock, heads)+1 = %d", e.GetClock().GetTime(), want), caseInfo)
		}
		for _, b := range before {
			if b.GetClock().GetTime() >= e.GetClock().GetTime() {
				fail("C04", "time-dominates", "C04:time-not-greater", fmt.Sprintf("existing entry has time %d >= new time %d", b.GetClock().GetTime(), e.GetClock().GetTime()), caseInfo)
				break
			}
		}
		if hd := hashesOf(l.Heads().Slice()); len(hd) != 1 || hd[0] != e.GetHash().String() {
			fail("C04", "single-head", "C04:not-single-head", fmt.Sprintf("heads after append = %v", hd), caseInfo)
		}
	}
	names := []string{"A", "B", "C"}
	for it := 0; it < n; it++ {
		// 1. seeded clocks
		w := newWorld()
		base := pick(rng, []int{1<<53 - 2, 1<<53 - 1, 1 << 53, 1<<53 + 1, 1<<53 + 7, 1 << 62, 41})
		var logs []*ipfslog.IPFSLog
		// sometimes ONE clock object is handed to every NewLog call, as an application that keeps its
		// options around does: each log must still stamp its entries with its own writer's key
		var sharedClock iface.IPFSLogLamportClock
		if it%3 == 2 {
			sharedClock = entry.NewLamportClock(w.idents["B"].PublicKey, base)
		}
		for i, nm := range names {
			opts := &ipfslog.LogOptions{ID: "L"}
			if sharedClock != nil {
				opts.Clock = sharedClock
			} else if i != 1 {
				// the clock handed to NewLog only carries a time to resume from: sometimes it is the clock of an
				// entry of ANOTHER writer (its id is that writer's key, not ours)
				cid := w.idents[nm].PublicKey
				if rng.Intn(2) == 0 {
					cid = w.idents[names[(i+1)%3]].PublicKey
				}
				opts.Clock = entry.NewLamportClock(cid, base+rng.Intn(3)*i)
			}
			l, err := ipfslog.NewLog(w.api, w.idents[nm], opts)
			if err != nil {
				panic(err)
			}
			logs = append(logs, l)
		}
		st.aliasRuns++
		info := map[string]interface{}{"scenario": "appends and merges on logs with seeded clocks", "base_time": base, "seed_iteration": it}
		for s := 0; s < 10; s++ {
			a := rng.Intn(3)
			if rng.Intn(3) > 0 {
				checkAppend(logs[a], fmt.Sprintf("k%d-%d", a, s), pick(rng, []int{0, 1, 2, 4}), info)
			} else if b := rng.Intn(3); b != a {
				if _, err := logs[a].Join(logs[b], -1); err != nil {
					panic(err)
				}
			}
		}
		// 2. reloaded under each ordering (the reloaded log's own clock lags behind its heads)
		w = newWorld()
		la, _ := ipfslog.NewLog(w.api, w.idents["A"], &ipfslog.LogOptions{ID: "L"})
		lb, _ := ipfslog.NewLog(w.api, w.idents["B"], &ipfslog.LogOptions{ID: "L"})
		na, nb := 1+rng.Intn(4), 1+rng.Intn(4)
		for i := 0; i < na; i++ {
			if _, err := la.Append(ctx, []byte(fmt.Sprintf("a%d", i)), nil); err != nil {
				panic(err)
			}
		}
		for i := 0; i < nb; i++ {
			if _, err := lb.Append(ctx, []byte(fmt.Sprintf("b%d", i)), nil); err != nil {
				panic(err)
			}
		}
		if _, err := la.Join(lb, -1); err != nil {
			panic(err)
		}
		for _, srt := range []string{"lww", "fww", "hash"} {
			for loader := 0; loader < 2; loader++ {
				var lc *ipfslog.IPFSLog
				var err error
				if loader == 0 {
					lc, err = ipfslog.NewFromJSON(ctx, w.api, w.idents["C"], la.ToJSONLog(), &ipfslog.LogOptions{ID: "L", SortFn: sortFnOf(srt)}, &entry.FetchOptions{})
				} else {
					var mh cid.Cid
					if mh, err = la.ToMultihash(ctx); err == nil {
						lc, err = ipfslog.NewFromMultihash(ctx, w.api, w.idents["C"], mh, &ipfslog.LogOptions{ID: "L", SortFn: sortFnOf(srt)}, &ipfslog.FetchOptions{})
					}
				}
				if err != nil {
					panic(err)
				}
				st.aliasRuns++
				info := map[string]interface{}{"scenario": "append on a log reloaded from its published heads", "sort": srt, "loader": []string{"NewFromJSON", "NewFromMultihash"}[loader], "a_entries": na, "b_entries": nb}
				checkAppend(lc, "c0", 1, info)
				checkAppend(lc, "c1", 2, info)
			}
		}
		// 3. opened with known entries and a clock of its own that lags behind them
		for _, lag := range []int{0, na, na + nb + 5} {
			opts := &ipfslog.LogOptions{ID: "L", Entries: la.GetEntries(), Clock: entry.NewLamportClock(w.idents["C"].PublicKey, lag)}
			if rng.Intn(2) == 0 {
				opts.Heads = la.Heads().Slice()
			}
			lo, err := ipfslog.NewLog(w.api, w.idents["C"], opts)
			if err != nil {
				panic(err)
			}
			st.aliasRuns++
			info := map[string]interface{}{"scenario": "append on a log opened with known entries and a clock of its own", "clock_given": lag, "heads_given": opts.Heads != nil, "a_entries": na, "b_entries": nb}
			checkAppend(lo, "o0", 1, info)
			checkAppend(lo, "o1", 2, info)
		}
	}
}

// Bounded merges into a log whose entry index is LARGER than its linearisation (C16, "all pairs of
// logs"): a log loaded from a manifest with one block excluded keeps, through skip references, entries
// that no head reaches.  For every bound: no panic, and the log holds exactly the last min(n, total)
// entries of the linearisation of the unbounded merge (computed on an identically loaded twin).
func runGapScenarios(rng *rand.Rand, n int, st *c06Stats, fail func(prop, mon, key, detail string, c interface{})) {
	ctx := context.Background()
	for it := 0; it < n; it++ {
		w := newWorld()
		src, _ := ipfslog.NewLog(w.api, w.idents["A"], &ipfslog.LogOptions{ID: "L", SortFn: sortFnOf("hash")})
		k := 6 + rng.Intn(8)
		var ents []iface.IPFSLogEntry
		for i := 0; i < k; i++ {
			e, err := src.Append(ctx, []byte(fmt.Sprintf("a%d", i)), &ipfslog.AppendOptions{PointerCount: pick(rng, []int{4, 8})})
			if err != nil {
				panic(err)
			}
			ents = append(ents, e)
		}
		mh, err := src.ToMultihash(ctx)
		if err != nil {
			panic(err)
		}
		remote, _ := ipfslog.NewLog(w.api, w.idents["B"], &ipfslog.LogOptions{ID: "L", SortFn: sortFnOf("hash")})
		for i, nb := 0, 1+rng.Intn(3); i < nb; i++ {
			if _, err := remote.Append(ctx, []byte(fmt.Sprintf("b%d", i)), nil); err != nil {
				panic(err)
			}
		}
		skipped := ents[2+rng.Intn(k-3)].GetHash()
		load := func() *ipfslog.IPFSLog {
			l, err := ipfslog.NewFromMultihash(ctx, w.api, w.idents["A"], mh, &ipfslog.LogOptions{ID: "L", SortFn: sortFnOf("hash")},
				&ipfslog.FetchOptions{ShouldExclude: func(h cid.Cid) bool { return h.Equals(skipped) }})
			if err != nil {
				panic(err)
			}
			return l
		}
		twin := load()
		if _, err := twin.Join(remote, -1); err != nil {
			panic(err)
		}
		full := hashesOf(twin.Values().Slice())
		var sizes []int
		for size := 0; size <= len(full)+2; size++ {
			sizes = append(sizes, size)
		}
		// "beyond the merged size" includes what a caller passes to mean "no limit"
		sizes = append(sizes, 1<<60, math.MaxInt)
		for _, size := range sizes {
			l := load()
			st.aliasRuns++
			info := map[string]interface{}{"scenario": "bounded merge into a log loaded with a gap", "entries_written": k, "index_size": l.Len(),
				"linearisation_size": l.Values().Len(), "bound": size, "seed_iteration": it}
			var jerr error
			panicked := false
			func() {
				defer func() {
					if r := recover(); r != nil {
						panicked = true
						fail("C16", "join-no-panic", "C16:join-panics-on-gap-loaded-log", fmt.Sprintf("Join(size=%d) panicked: %v", size, r), info)
					}
				}()
				_, jerr = l.Join(remote, size)
			}()
			if panicked || jerr != nil {
				continue
			}
			want := full
			if size < len(full) {
				want = full[len(full)-size:]
			}
			if got := hashesOf(l.Values().Slice()); !eqStrings(got, want) {
				fail("C16", "bounded-join-vs-unbounded", "C16:differs-from-unbounded-merge",
					fmt.Sprintf("Join(size=%d) into a gap-loaded log left %d values, the last entries of the unbounded merge are %d", size, len(got), len(want)), info)
			}
			if !eqStrings(sortedCopy(l.GetEntries().Keys()), sortedCopy(want)) {
				fail("C16", "bounded-join-entries", "C16:wrong-entry-set", "entry set differs from the last min(n,total) entries of the unbounded merge", info)
			}
		}
	}
}

// Appends that ask for pinning while the pinning service is down (C02, C17): the block is stored,
// the pin fails, Append must fail and leave the log as it was - heads = unreferenced entries - and
// the log must go on working.
func runPinFaultScenarios(rng *rand.Rand, n int, st *c06Stats, fail func(prop, mon, key, detail string, c interface{})) {
	ctx := context.Background()
	for it := 0; it < n; it++ {
		w := newWorld()
		la, _ := ipfslog.NewLog(w.api, w.idents["A"], &ipfslog.LogOptions{ID: "L"})
		lb, _ := ipfslog.NewLog(w.api, w.idents["B"], &ipfslog.LogOptions{ID: "L"})
		logs := []*ipfslog.IPFSLog{la, lb}
		st.aliasRuns++
		info := map[string]interface{}{"scenario": "pinned appends with a failing pinning service", "seed_iteration": it}
		check := func(l *ipfslog.IPFSLog, what string) {
			ents := l.GetEntries().Slice()
			if want := unreferenced(ents); !eqStrings(sortedCopy(hashesOf(l.Heads().Slice())), want) {
				fail("C02", "heads-exact", "C02:heads-not-unreferenced", "heads are not the unreferenced entries "+what, info)
			}
			if len(l.Values().Slice()) != len(ents) {
				fail("C03", "values-complete", "C03:incomplete", "Values() incomplete "+what, info)
			}
			for _, e := range ents {
				if !w.dag.has(e.GetHash()) {
					fail("C17", "entries-stored", "C17:entry-block-missing", "an entry of the log has no block "+what, info)
				}
			}
		}
		for s := 0; s < 8; s++ {
			l := logs[rng.Intn(2)]
			switch rng.Intn(4) {
			case 0:
				if _, err := l.Join(logs[rng.Intn(2)], -1); err != nil {
					panic(err)
				}
				check(l, "after a merge")
			case 1:
				before := snapLog(l)
				w.dag.failPin = true
				_, err := l.Append(ctx, []byte(fmt.Sprintf("pin-fail-%d", s)), &ipfslog.AppendOptions{Pin: true, PointerCount: 2})
				w.dag.failPin = false
				if err == nil {
					fail("C17", "failed-pin-reports-error", "C17:pin-failure-swallowed", "Append with Pin returned success although pinning failed", info)
				} else if after := snapLog(l); len(after.entries) != len(before.entries) || !eqStrings(after.values, before.values) {
					fail("C05", "failed-append-unchanged", "C05:failed-append-changed-log", "an append whose pin failed changed the log", info)
				}
				check(l, "after an append whose pin failed")
			default:
				if _, err := l.Append(ctx, []byte(fmt.Sprintf("p%d", s)), &ipfslog.AppendOptions{Pin: rng.Intn(2) == 0}); err != nil {
					panic(err)
				}
				check(l, "after an append")
			}
		}
	}
}

// Bounded merges between logs with DIFFERENT orderings (C16): the other log linearises with
// FirstWriteWins, the receiver with its own ordering; the merge keeps the newest entries of the
// RECEIVER's linearisation of the unbounded merge.
func runMixedSortScenarios(rng *rand.Rand, n int, st *c06Stats, fail func(prop, mon, key, detail string, c interface{})) {
	ctx := context.Background()
	for it := 0; it < n; it++ {
		w := newWorld()
		rsort := pick(rng, []string{"lww", "hash"})
		other, _ := ipfslog.NewLog(w.api, w.idents["A"], &ipfslog.LogOptions{ID: "L", SortFn: sortFnOf("fww")})
		side, _ := ipfslog.NewLog(w.api, w.idents["B"], &ipfslog.LogOptions{ID: "L", SortFn: sortFnOf("fww")})
		na, nb := 2+rng.Intn(5), 1+rng.Intn(3)
		for i := 0; i < na; i++ {
			if _, err := other.Append(ctx, []byte(fmt.Sprintf("a%d", i)), nil); err != nil {
				panic(err)
			}
		}
		for i := 0; i < nb; i++ {
			if _, err := side.Append(ctx, []byte(fmt.Sprintf("b%d", i)), nil); err != nil {
				panic(err)
			}
		}
		if _, err := other.Join(side, -1); err != nil { // two heads over branches of unequal height
			panic(err)
		}
		mkReceiver := func() *ipfslog.IPFSLog {
			r, _ := ipfslog.NewLog(w.api, w.idents["C"], &ipfslog.LogOptions{ID: "L", SortFn: sortFnOf(rsort)})
			return r
		}
		twin := mkReceiver()
		if _, err := twin.Join(other, -1); err != nil {
			panic(err)
		}
		full := hashesOf(twin.Values().Slice())
		for size := 0; size <= len(full)+1; size++ {
			r := mkReceiver()
			st.aliasRuns++
			info := map[string]interface{}{"scenario": "bounded merge from a log with another ordering (FirstWriteWins)", "receiver_sort": rsort, "a_entries": na, "b_entries": nb, "bound": size, "seed_iteration": it}
			if _, err := r.Join(other, size); err != nil {
				fail("C16", "bounded-join-succeeds", "C16:join-failed", err.Error(), info)
				continue
			}
			want := full
			if size < len(full) {
				want = full[len(full)-size:]
			}
			if got := hashesOf(r.Values().Slice()); !eqStrings(got, want) {
				fail("C16", "bounded-join-vs-unbounded", "C16:differs-from-unbounded-merge",
					fmt.Sprintf("Join(size=%d) from a log with another ordering left %v, the last entries of the unbounded merge are %v", size, got, want), info)
			}
			if hd := sortedCopy(hashesOf(r.Heads().Slice())); !eqStrings(hd, unreferenced(r.Values().Slice())) {
				fail("C16", "bounded-join-heads", "C16:wrong-heads", "heads are not the unreferenced entries among the kept ones", info)
			}
		}
	}
}

// Two logs with the same id but different codecs (C05: "appends and merges never alter entries held by
// other log instances"): the merging log seals links (cbor with a LinkKey), the merged log uses plain
// cbor or another key.  Whether the merge is refused or not, the other log's entries stay byte-identical
// and still verify with their own codec.
func runMixedCodecScenarios(rng *rand.Rand, n int, st *c06Stats, fail func(prop, mon, key, detail string, c interface{})) {
	ctx := context.Background()
	dio, err := cbor.IO(&entry.Entry{}, &entry.LamportClock{})
	if err != nil {
		panic(err)
	}
	keyed := func(b byte) iface.IO {
		k, err := enc.NewSecretbox(bytes.Repeat([]byte{b}, 32))
		if err != nil {
			panic(err)
		}
		return dio.ApplyOptions(&cbor.Options{LinkKey: k})
	}
	for it := 0; it < n; it++ {
		w := newWorld()
		ownerIO := []iface.IO{dio, keyed(2), nil}[it%3]
		owner, _ := ipfslog.NewLog(w.api, w.idents["A"], &ipfslog.LogOptions{ID: "L", IO: ownerIO})
		merger, _ := ipfslog.NewLog(w.api, w.idents["B"], &ipfslog.LogOptions{ID: "L", IO: keyed(1)})
		for i, k := 0, 2+rng.Intn(5); i < k; i++ {
			if _, err := owner.Append(ctx, []byte(fmt.Sprintf("o%d", i)), &ipfslog.AppendOptions{PointerCount: pick(rng, []int{1, 4})}); err != nil {
				panic(err)
			}
		}
		st.aliasRuns++
		info := map[string]interface{}{"scenario": "merge between logs with different codecs", "owner_codec": []string{"cbor", "cbor+other link key", "default"}[it%3], "merger_codec": "cbor+link key", "seed_iteration": it}
		before := snapLog(owner)
		_, jerr := merger.Join(owner, -1)
		after := snapLog(owner)
		for hsh, ser := range before.entries {
			if after.entries[hsh] != ser {
				fail("C05", "other-logs-untouched", "C05:other-log-changed", fmt.Sprintf("an entry of the merged log was altered by the other log's Join (join error: %v)", jerr), info)
				break
			}
		}
		// what the merge admitted verifies under the MERGING log's codec (that is the check Join makes)
		if jerr == nil {
			for _, e := range merger.GetEntries().Slice() {
				if err := e.(*entry.Entry).Verify(w.idents["A"].Provider, keyed(1)); err != nil {
					fail("C06", "admitted-entries-verify", "C06:join-exposes-unverified-entry", "the merge admitted an entry that does not verify with the merging log's codec: "+err.Error(), info)
					break
				}
			}
		}
		vio := ownerIO
		for _, e := range owner.GetEntries().Slice() {
			if err := e.(*entry.Entry).Verify(w.idents["A"].Provider, vio); err != nil {
				fail("C05", "other-logs-untouched", "C05:other-log-changed", "after another log's Join an entry of the merged log no longer verifies with its own codec: "+err.Error(), info)
				break
			}
		}
	}
}

// checkLinearisation: the statement of C03 on one log (unbounded histories): Values() holds every
// entry exactly once, every entry after its predecessors, sorted by the ordering when that is total.
func checkLinearisation(l *ipfslog.IPFSLog, srt string, fail func(prop, mon, key, detail string, c interface{}), info interface{}) {
	entries := l.GetEntries().Slice()
	vals := l.Values().Slice()
	pos := map[string]int{}
	for i, e := range vals {
		k := e.GetHash().String()
		if _, dup := pos[k]; dup {
			fail("C03", "values-nodup", "C03:duplicate", "Values() contains "+k+" twice", info)
		}
		pos[k] = i
	}
	if len(pos) != len(entries) {
		fail("C03", "values-complete", "C03:incomplete", fmt.Sprintf("Values() has %d distinct entries, the log has %d", len(pos), len(entries)), info)
	}
	for _, e := range vals {
		for _, n := range e.GetNext() {
			if j, ok := pos[n.String()]; ok && j > pos[e.GetHash().String()] {
				fail("C03", "values-causal", "C03:not-causal", fmt.Sprintf("%q (clock %d) is listed before its predecessor %q (clock %d)", e.GetPayload(), e.GetClock().GetTime(), vals[j].GetPayload(), vals[j].GetClock().GetTime()), info)
			}
		}
	}
	if srt == "hash" || !hasTies(entries) {
		fn := sorting.NoZeroes(sortFnOf(srt))
		for i := 0; i+1 < len(vals); i++ {
			v, err := fn(vals[i], vals[i+1])
			if err != nil || v >= 0 {
				fail("C03", "values-sorted", "C03:not-sorted", fmt.Sprintf("Values()[%d] %q (clock %d) is not before Values()[%d] %q (clock %d) in the configured ordering (cmp=%d err=%v)",
					i, vals[i].GetPayload(), vals[i].GetClock().GetTime(), i+1, vals[i+1].GetPayload(), vals[i+1].GetClock().GetTime(), v, err), info)
				break
			}
		}
	}
}

// Linearisation of logs whose clock was handed to them (C03): NewLog takes a clock to resume from
// and, optionally, the entries and heads the log starts with.  The clock may run far ahead (an
// application that seeds it from wall-clock nanoseconds, times around and above 2^53) or lag behind
// the entries given (a fresh clock next to known entries).  After any appends and unbounded merges
// the view must still be a linearisation.
func runSeededClockScenarios(rng *rand.Rand, n int, st *c06Stats, fail func(prop, mon, key, detail string, c interface{})) {
	ctx := context.Background()
	names := []string{"A", "B", "C"}
	for it := 0; it < n; it++ {
		srt := []string{"lww", "hash"}[it%2]
		// 1. clocks far ahead
		w := newWorld()
		base := pick(rng, []int{1<<53 - 2, 1 << 53, 1<<53 + 1, 1700000000000000000, 1 << 62, 1<<31 - 1, 41})
		var logs []*ipfslog.IPFSLog
		for i, nm := range names {
			opts := &ipfslog.LogOptions{ID: "L", SortFn: sortFnOf(srt)}
			if i != 1 {
				opts.Clock = entry.NewLamportClock(w.idents[nm].PublicKey, base+rng.Intn(200)*i)
			}
			l, err := ipfslog.NewLog(w.api, w.idents[nm], opts)
			if err != nil {
				panic(err)
			}
			logs = append(logs, l)
		}
		st.aliasRuns++
		info := map[string]interface{}{"scenario": "appends and unbounded merges on logs opened with a seeded clock", "base_time": base, "sort": srt, "seed_iteration": it}
		for s := 0; s < 12; s++ {
			a := rng.Intn(3)
			if rng.Intn(3) > 0 {
				if _, err := logs[a].Append(ctx, []byte(fmt.Sprintf("k%d-%d", a, s)), &ipfslog.AppendOptions{PointerCount: pick(rng, []int{0, 1, 2})}); err != nil {
					panic(err)
				}
			} else if b := rng.Intn(3); b != a {
				if _, err := logs[a].Join(logs[b], -1); err != nil {
					panic(err)
				}
			}
			checkLinearisation(logs[a], srt, fail, info)
		}
		// 2. a clock that lags behind the entries the log is opened with
		w = newWorld()
		src, _ := ipfslog.NewLog(w.api, w.idents["A"], &ipfslog.LogOptions{ID: "L", SortFn: sortFnOf(srt)})
		k := 2 + rng.Intn(5)
		for i := 0; i < k; i++ {
			if _, err := src.Append(ctx, []byte(fmt.Sprintf("p%d", i+1)), nil); err != nil {
				panic(err)
			}
		}
		lag := pick(rng, []int{0, 0, 1, k - 1, k, k + 3})
		opts := &ipfslog.LogOptions{ID: "L", SortFn: sortFnOf(srt), Entries: src.GetEntries(), Clock: entry.NewLamportClock(w.idents["B"].PublicKey, lag)}
		if rng.Intn(2) == 0 {
			opts.Heads = src.Heads().Slice()
		}
		opened, err := ipfslog.NewLog(w.api, w.idents["B"], opts)
		if err != nil {
			panic(err)
		}
		st.aliasRuns++
		info2 := map[string]interface{}{"scenario": "a log opened with known entries and a clock of its own, then appended to and merged", "entries": k, "clock_given": lag, "heads_given": opts.Heads != nil, "sort": srt, "seed_iteration": it}
		other, _ := ipfslog.NewLog(w.api, w.idents["C"], &ipfslog.LogOptions{ID: "L", SortFn: sortFnOf(srt)})
		for i := 0; i < 1+rng.Intn(k+2); i++ {
			if _, err := other.Append(ctx, []byte(fmt.Sprintf("c%d", i+1)), nil); err != nil {
				panic(err)
			}
		}
		for s := 0; s < 3; s++ {
			if _, err := opened.Append(ctx, []byte(fmt.Sprintf("late%d", s)), nil); err != nil {
				panic(err)
			}
			checkLinearisation(opened, srt, fail, info2)
			if s == 1 {
				if _, err := opened.Join(other, -1); err != nil {
					panic(err)
				}
				checkLinearisation(opened, srt, fail, info2)
			}
		}
		if _, err := other.Join(opened, -1); err != nil {
			panic(err)
		}
		checkLinearisation(other, srt, fail, info2)
	}
}

// A peer whose HEAD is an object that claims the hash of an entry the destination already holds, with other
// (validly signed) content, filed under that hash (C05): whatever the merge does, the held entry stays.
func runHeadTwinScenarios(rng *rand.Rand, n int, st *c06Stats, fail func(prop, mon, key, detail string, c interface{})) {
	ctx := context.Background()
	for it := 0; it < n; it++ {
		w := newWorld()
		writer, _ := ipfslog.NewLog(w.api, w.idents["A"], &ipfslog.LogOptions{ID: "L"})
		k := 2 + rng.Intn(4)
		var es []iface.IPFSLogEntry
		for i := 0; i < k; i++ {
			e, err := writer.Append(ctx, []byte(fmt.Sprintf("a%d", i+1)), nil)
			if err != nil {
				panic(err)
			}
			es = append(es, e)
		}
		dest, _ := ipfslog.NewLog(w.api, w.idents["C"], &ipfslog.LogOptions{ID: "L"})
		if _, err := dest.Join(writer, -1); err != nil {
			panic(err)
		}
		victim := es[1+rng.Intn(k-1)] // never the genesis entry: the twin names the victim's predecessors
		twin, err := entry.CreateEntry(ctx, w.api, w.idents["B"], &entry.Entry{LogID: "L", Payload: []byte("not " + string(victim.GetPayload())), Next: victim.GetNext(), Clock: entry.NewLamportClock(w.idents["B"].PublicKey, victim.GetClock().GetTime())}, nil)
		if err != nil {
			panic(err)
		}
		twin.SetHash(victim.GetHash())
		m := entry.NewOrderedMap()
		for _, e := range es {
			if e.GetHash().Equals(victim.GetHash()) {
				m.Set(e.GetHash().String(), twin)
				break
			}
			m.Set(e.GetHash().String(), e)
		}
		forged, err := ipfslog.NewLog(w.api, w.idents["B"], &ipfslog.LogOptions{ID: "L", Entries: m, Heads: []iface.IPFSLogEntry{twin}})
		if err != nil {
			panic(err)
		}
		st.aliasRuns++
		info := map[string]interface{}{"scenario": "a peer whose head claims the hash of a held entry with other content", "entries": k, "seed_iteration": it}
		before := snapLog(dest)
		_, _ = dest.Join(forged, -1)
		after := snapLog(dest)
		for hsh, ser := range before.entries {
			if cur, ok := after.entries[hsh]; !ok {
				fail("C05", "entries-never-vanish", "C05:entry-vanished", "a held entry vanished when a peer presented another object under its hash as its head", info)
				break
			} else if cur != ser {
				fail("C05", "entries-immutable", "C05:entry-mutated", "a held entry was replaced when a peer presented another object under its hash as its head", info)
				break
			}
		}
		if !isSubsequence(before.values, after.values) {
			fail("C05", "values-subsequence", "C05:values-not-subsequence", "the view changed when a peer presented another object under a held hash as its head", info)
		}
	}
}

// Logs re-opened from the store keep the access controller they are given (C06): each loader is handed a
// controller that refuses one writer; an append by that writer and a merge bringing one of its entries must
// both be refused, exactly as on a log created by NewLog with that controller.
func runReloadedACScenarios(rng *rand.Rand, n int, st *c06Stats, fail func(prop, mon, key, detail string, c interface{})) {
	ctx := context.Background()
	for it := 0; it < n; it++ {
		w := newWorld()
		writer, _ := ipfslog.NewLog(w.api, w.idents["A"], &ipfslog.LogOptions{ID: "L"})
		for i := 0; i < 2+rng.Intn(3); i++ {
			if _, err := writer.Append(ctx, []byte(fmt.Sprintf("a%d", i+1)), nil); err != nil {
				panic(err)
			}
		}
		mh, err := writer.ToMultihash(ctx)
		if err != nil {
			panic(err)
		}
		// a replica in which the refused writer B has appended on top
		other, _ := ipfslog.NewLog(w.api, w.idents["B"], &ipfslog.LogOptions{ID: "L"})
		if _, err := other.Join(writer, -1); err != nil {
			panic(err)
		}
		if _, err := other.Append(ctx, []byte("by-B"), nil); err != nil {
			panic(err)
		}
		names := []string{"NewLog{Entries}", "NewFromMultihash", "NewFromEntryHash", "NewFromJSON", "NewFromEntry"}
		for how, name := range names {
			ac := &denyAC{denied: map[string]bool{string(w.idents["B"].PublicKey): true}}
			opts := &ipfslog.LogOptions{ID: "L", AccessController: ac}
			open := func(id string) (*ipfslog.IPFSLog, error) {
				switch how {
				case 0:
					o := *opts
					o.Entries = writer.GetEntries()
					return ipfslog.NewLog(w.api, w.idents[id], &o)
				case 1:
					return ipfslog.NewFromMultihash(ctx, w.api, w.idents[id], mh, opts, &ipfslog.FetchOptions{})
				case 2:
					return ipfslog.NewFromEntryHash(ctx, w.api, w.idents[id], writer.Heads().Slice()[0].GetHash(), opts, &ipfslog.FetchOptions{})
				case 3:
					return ipfslog.NewFromJSON(ctx, w.api, w.idents[id], writer.ToJSONLog(), opts, &entry.FetchOptions{})
				}
				return ipfslog.NewFromEntry(ctx, w.api, w.idents[id], writer.Heads().Slice(), opts, &entry.FetchOptions{})
			}
			st.aliasRuns++
			info := map[string]interface{}{"scenario": "a log re-opened with an access controller that refuses writer B", "opened_by": name, "seed_iteration": it}
			if l, err := open("C"); err != nil {
				fail("C06", "reload-succeeds", "C06:reload-failed", err.Error(), info)
			} else {
				before := l.Len()
				if _, err := l.Join(other, -1); err == nil {
					fail("C06", "reloaded-log-keeps-controller", "C06:reloaded-log-admits-denied-entry", fmt.Sprintf("the merge of a replica holding an entry of the refused writer succeeded (entries %d -> %d)", before, l.Len()), info)
				} else if l.Len() != before {
					fail("C06", "failed-join-unchanged", "C06:failed-join-changed-log", "the refused merge changed the log", info)
				}
			}
			if l, err := open("B"); err == nil {
				if _, err := l.Append(ctx, []byte("denied"), nil); err == nil {
					fail("C06", "reloaded-log-keeps-controller", "C06:reloaded-log-admits-denied-entry", "an append by the refused writer succeeded on the re-opened log", info)
				}
			}
		}
	}
}

// Logs opened with explicit heads (C02): NewLog{Entries, Heads}, and the loaders, which always pass
// the heads they found.  Such a log must know which of its entries are referenced just as a log
// built by appends does: merging a replica that is several entries behind must leave the heads at
// the unreferenced entries, and the next append must name exactly those.
func runOpenedJoinScenarios(rng *rand.Rand, n int, st *c06Stats, fail func(prop, mon, key, detail string, c interface{})) {
	ctx := context.Background()
	for it := 0; it < n; it++ {
		w := newWorld()
		writer, _ := ipfslog.NewLog(w.api, w.idents["A"], &ipfslog.LogOptions{ID: "L"})
		stale, _ := ipfslog.NewLog(w.api, w.idents["B"], &ipfslog.LogOptions{ID: "L"})
		k := 4 + rng.Intn(5)
		cut := rng.Intn(k - 2) // the stale replica stops after entry #cut: at least two behind
		diverged := rng.Intn(3) == 0
		for i := 0; i < k; i++ {
			if _, err := writer.Append(ctx, []byte(fmt.Sprintf("a%d", i+1)), &ipfslog.AppendOptions{PointerCount: pick(rng, []int{1, 2, 4})}); err != nil {
				panic(err)
			}
			if i == cut {
				if _, err := stale.Join(writer, -1); err != nil {
					panic(err)
				}
				if diverged {
					if _, err := stale.Append(ctx, []byte("b1"), nil); err != nil {
						panic(err)
					}
				}
			}
		}
		mh, err := writer.ToMultihash(ctx)
		if err != nil {
			panic(err)
		}
		for how := 0; how < 5; how++ {
			var opened *ipfslog.IPFSLog
			var err error
			if how == 4 && diverged {
				continue // the stale replica's head is then not an ancestor of the writer's
			}
			switch how {
			case 4:
				// heads announced by two replicas, one of which is behind the other, handed over as they came
				jl := writer.ToJSONLog()
				jl.Heads = append(append([]cid.Cid{}, jl.Heads...), stale.ToJSONLog().Heads...)
				opened, err = ipfslog.NewFromJSON(ctx, w.api, w.idents["C"], jl, &ipfslog.LogOptions{ID: "L"}, &entry.FetchOptions{})
			case 0:
				opened, err = ipfslog.NewLog(w.api, w.idents["C"], &ipfslog.LogOptions{ID: "L", Entries: writer.GetEntries(), Heads: writer.Heads().Slice()})
			case 1:
				opened, err = ipfslog.NewLog(w.api, w.idents["C"], &ipfslog.LogOptions{ID: "L", Entries: writer.GetEntries()})
			case 2:
				opened, err = ipfslog.NewFromMultihash(ctx, w.api, w.idents["C"], mh, &ipfslog.LogOptions{ID: "L"}, &ipfslog.FetchOptions{})
			case 3:
				opened, err = ipfslog.NewFromJSON(ctx, w.api, w.idents["C"], writer.ToJSONLog(), &ipfslog.LogOptions{ID: "L"}, &entry.FetchOptions{})
			}
			if err != nil {
				panic(err)
			}
			st.aliasRuns++
			info := map[string]interface{}{"scenario": "a log opened with its heads given merges a replica that is behind", "entries": k, "stale_replica_stops_after": cut + 1,
				"stale_replica_diverged": diverged, "opened_by": []string{"NewLog{Entries,Heads}", "NewLog{Entries}", "NewFromMultihash", "NewFromJSON", "NewFromJSON with the heads of both replicas"}[how], "seed_iteration": it}
			// right after opening: the heads are the entries nothing in the log names
			if want, got := unreferenced(opened.GetEntries().Slice()), sortedCopy(hashesOf(opened.Heads().Slice())); !eqStrings(got, want) {
				fail("C02", "heads-exact", "C02:heads-not-unreferenced", fmt.Sprintf("right after opening the heads are %v, the unreferenced entries are %v", got, want), info)
			}
			if _, err := opened.Join(stale, -1); err != nil {
				fail("C01", "merge-succeeds", "C01:merge-failed", err.Error(), info)
				continue
			}
			ents := opened.GetEntries().Slice()
			heads := sortedCopy(hashesOf(opened.Heads().Slice()))
			if want := unreferenced(ents); !eqStrings(heads, want) {
				fail("C02", "heads-exact", "C02:heads-not-unreferenced", fmt.Sprintf("after the merge the heads are %d entries, the unreferenced entries are %d (%v vs %v)", len(heads), len(want), heads, want), info)
			}
			if len(opened.Values().Slice()) != len(ents) {
				fail("C03", "values-complete", "C03:incomplete", "Values() incomplete after the merge", info)
			}
			e, err := opened.Append(ctx, []byte("c1"), &ipfslog.AppendOptions{PointerCount: 2})
			if err != nil {
				panic(err)
			}
			var next []string
			for _, c := range e.GetNext() {
				next = append(next, c.String())
			}
			if want := unreferenced(ents); !eqStrings(sortedCopy(next), want) {
				fail("C04", "next-is-heads", "C04:next-not-heads", fmt.Sprintf("the entry appended after the merge names %v, the unreferenced entries were %v", next, want), info)
			}
		}
	}
}

// Back-filling a predecessor the log names but does not hold (C06): after a merge with a size bound a
// log's entries link to entries it dropped.  When such a missing predecessor later arrives through a
// fork that hangs off it, it is a candidate like any other - named by an entry the log already
// verified or not, its signature, key and the access controller decide - and an invalid one must make
// the merge fail and leave the log as it was.
func runBackfillForgeScenarios(rng *rand.Rand, n int, st *c06Stats, fail func(prop, mon, key, detail string, c interface{})) {
	ctx := context.Background()
	kinds := []string{"nosig", "nokey", "payload", "flipsig", "otherkey", "aclpayload"}
	for it := 0; it < n; it++ {
		w := newWorld()
		pac := &payloadAC{deny: map[string]bool{}}
		mk := func(id string) *ipfslog.IPFSLog {
			l, err := ipfslog.NewLog(w.api, w.idents[id], &ipfslog.LogOptions{ID: "L", AccessController: pac})
			if err != nil {
				panic(err)
			}
			return l
		}
		writer, fork, replica := mk("A"), mk("B"), mk("C")
		m, r := 2+rng.Intn(4), 1+rng.Intn(3)
		var chain []iface.IPFSLogEntry
		for i := 0; i < m; i++ {
			e, err := writer.Append(ctx, []byte(fmt.Sprintf("a%d", i+1)), nil)
			if err != nil {
				panic(err)
			}
			chain = append(chain, e)
		}
		if _, err := fork.Join(writer, -1); err != nil {
			panic(err)
		}
		for i := 0; i < 1+rng.Intn(2); i++ {
			if _, err := fork.Append(ctx, []byte(fmt.Sprintf("f%d", i+1)), nil); err != nil {
				panic(err)
			}
		}
		for i := 0; i < r; i++ {
			if _, err := writer.Append(ctx, []byte(fmt.Sprintf("a%d", m+i+1)), nil); err != nil {
				panic(err)
			}
		}
		// the replica keeps the r newest entries: the oldest of them names chain[m-1], which it does not hold
		if _, err := replica.Join(writer, r); err != nil {
			panic(err)
		}
		victim := chain[m-1]
		if _, held := replica.Get(victim.GetHash()); held {
			continue
		}
		kind := kinds[rng.Intn(len(kinds))]
		forgedMap := entry.NewOrderedMap()
		for _, e := range fork.GetEntries().Slice() {
			if e.GetHash().String() != victim.GetHash().String() {
				forgedMap.Set(e.GetHash().String(), e)
				continue
			}
			c := cloneEntry(e)
			switch kind {
			case "nosig":
				c.Sig = nil
			case "nokey":
				c.Key = nil
			case "payload":
				c.Payload = append([]byte("tampered-"), e.GetPayload()...)
			case "flipsig":
				s := append([]byte{}, e.GetSig()...)
				s[rng.Intn(len(s))] ^= 1 << uint(rng.Intn(8))
				c.Sig = s
			case "otherkey":
				c.Key = w.idents["D"].PublicKey
			case "aclpayload":
				pac.deny[string(e.GetPayload())] = true
			}
			forgedMap.Set(e.GetHash().String(), c)
		}
		forged, err := ipfslog.NewLog(w.api, w.idents["B"], &ipfslog.LogOptions{ID: "L", Entries: forgedMap, Heads: fork.Heads().Slice()})
		if err != nil {
			panic(err)
		}
		before := snapLog(replica)
		headsBefore := sortedCopy(hashesOf(replica.Heads().Slice()))
		st.forged++
		st.kinds["backfill-"+kind]++
		info := map[string]interface{}{"scenario": "an invalid entry arrives as the missing predecessor of an entry the log holds", "kind": kind, "chain": m + r,
			"kept_by_bounded_merge": r, "victim_payload": string(victim.GetPayload()), "seed_iteration": it}
		var jerr error
		func() {
			defer func() {
				if rec := recover(); rec != nil {
					jerr = fmt.Errorf("panic: %v", rec)
					fail("C06", "join-no-panic", "C06:join-panics-on-forged-entry", fmt.Sprint(rec), info)
				}
			}()
			_, jerr = replica.Join(forged, -1)
		}()
		if jerr == nil {
			fail("C06", "forged-entry-rejected", "C06:join-accepted-invalid-entry:backfill-"+kind,
				"the merge succeeded although the predecessor it back-filled is invalid ("+kind+")", info)
			continue
		}
		st.rejected++
		after := snapLog(replica)
		if len(after.entries) != len(before.entries) || !eqStrings(after.values, before.values) || !eqStrings(sortedCopy(hashesOf(replica.Heads().Slice())), headsBefore) {
			fail("C06", "failed-join-unchanged", "C06:failed-join-changed-log", "the refused merge changed the log", info)
		}
	}
}
