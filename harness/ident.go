package main

import (
	"context"
	"crypto/sha256"
	"encoding/hex"
	"fmt"

	"github.com/libp2p/go-libp2p/core/crypto"

	"github.com/ipfs/go-datastore"
	dssync "github.com/ipfs/go-datastore/sync"

	idp "berty.tech/go-ipfs-log/identityprovider"
	"berty.tech/go-ipfs-log/keystore"
)

// Deterministic identities: the datastore is pre-seeded with private keys derived from the
// identity's name, so CIDs and signatures are the same in every run (ECDSA signing in libp2p's
// secp256k1 is RFC 6979 deterministic).
func seedKey(name string) []byte {
	for ctr := 0; ; ctr++ {
		h := sha256.Sum256([]byte(fmt.Sprintf("verif-key:%s:%d", name, ctr)))
		// any 32 byte string below the group order is a valid secp256k1 private key; the
		// probability of hitting an invalid one is ~2^-128, the loop is for form only.
		if h[0] != 0xff {
			return h[:]
		}
	}
}

type identEnv struct {
	ds datastore.Datastore
	ks *keystore.Keystore
}

func newIdentEnv(names ...string) *identEnv {
	ds := dssync.MutexWrap(datastore.NewMapDatastore())
	for _, n := range names {
		if err := ds.Put(context.Background(), datastore.NewKey(n), seedKey(n)); err != nil {
			panic(err)
		}
		// CreateIdentity uses a SECOND key, stored under the hex of the first key's compressed
		// public key (it becomes Identity.PublicKey and signs the entries): seed it too, otherwise
		// the keystore generates it at random and CIDs/signatures differ between runs.
		priv, err := crypto.UnmarshalSecp256k1PrivateKey(seedKey(n))
		if err != nil {
			panic(err)
		}
		pub, err := priv.GetPublic().Raw()
		if err != nil {
			panic(err)
		}
		if err := ds.Put(context.Background(), datastore.NewKey(hex.EncodeToString(pub)), seedKey(n+":signing")); err != nil {
			panic(err)
		}
	}
	ks, err := keystore.NewKeystore(ds)
	if err != nil {
		panic(err)
	}
	return &identEnv{ds: ds, ks: ks}
}

func (e *identEnv) identity(name string) *idp.Identity {
	id, err := idp.CreateIdentity(context.Background(), &idp.CreateIdentityOptions{
		Keystore: e.ks, ID: name, Type: "orbitdb",
	})
	if err != nil {
		panic(err)
	}
	return id
}
