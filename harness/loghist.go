package main

// Engine for log histories: executes a history of operations (new replica, append, join,
// set identity, publish, iterate) on REAL ipfslog.IPFSLog instances over the in-memory store,
// evaluates the direct monitors of C01-C06 and C15-C17 after every operation, and records the
// observations the Coq model (Model/System.v, Model/CheckLog.v) is compared with.

import (
	"bytes"
	"context"
	"encoding/hex"
	"fmt"
	"math/rand"
	"sort"
	"strings"
	"time"

	"github.com/ipfs/go-cid"
	cbornode "github.com/ipfs/go-ipld-cbor"

	ipfslog "berty.tech/go-ipfs-log"
	"berty.tech/go-ipfs-log/accesscontroller"
	"berty.tech/go-ipfs-log/enc"
	"berty.tech/go-ipfs-log/entry"
	"berty.tech/go-ipfs-log/entry/sorting"
	"berty.tech/go-ipfs-log/errmsg"
	idp "berty.tech/go-ipfs-log/identityprovider"
	"berty.tech/go-ipfs-log/iface"
	"berty.tech/go-ipfs-log/io/cbor"
)

// ---------------------------------------------------------------------------------------------
// history description (replayable: entries are referred to by creation index)

type iterSpec struct {
	GT     *int  `json:"gt,omitempty"` // index into the list of appended entries; -1 = unknown hash
	GTE    *int  `json:"gte,omitempty"`
	LT     []int `json:"lt,omitempty"`
	LTE    []int `json:"lte,omitempty"`
	HasLT  bool  `json:"has_lt,omitempty"`
	HasLTE bool  `json:"has_lte,omitempty"`
	Amount *int  `json:"amount,omitempty"`
}

type hop struct {
	Kind    string    `json:"kind"`            // new | append | join | setid | publish | iter | open
	Keep    []int     `json:"keep,omitempty"`  // open: the selected entries of replica Src (indices into the list of appended entries), in map order
	Heads   []int     `json:"heads,omitempty"` // open: LogOptions.Heads (entries of replica Src); empty = NewLog finds the heads
	R       int       `json:"r"`
	Src     int       `json:"src,omitempty"`
	LogID   string    `json:"logid,omitempty"`
	Ident   string    `json:"ident,omitempty"`
	Sort    string    `json:"sort,omitempty"` // lww | fww | hash
	Deny    []string  `json:"deny,omitempty"` // identities the access controller refuses
	Payload string    `json:"payload,omitempty"`
	PC      int       `json:"pc,omitempty"`
	Size    int       `json:"size,omitempty"`
	Iter    *iterSpec `json:"iter,omitempty"`
	Pin     bool      `json:"pin,omitempty"`         // append: ask for the entry block to be pinned
	Fault   bool      `json:"fault,omitempty"`       // append/publish: the store refuses every block write during this operation
	Keyed   bool      `json:"keyed,omitempty"`       // new: the log uses the link-encrypting cbor codec (one key per history)
	Clock   int       `json:"clock,omitempty"`       // new: time of the clock handed to NewLog (LogOptions.Clock); 0 = none
	Conc    int       `json:"concurrency,omitempty"` // new/open: LogOptions.Concurrency (0 = the default of 16)
	Stall   string    `json:"stall,omitempty"`       // append: "ctx" = the store is stuck and the caller's 50 ms deadline fires during the block write (must fail like a refused write); "slow" = the block write takes 2.5 s (must succeed, and only return once the block is stored)
}

// access controller refusing a set of identities (by public key)
type denyAC struct{ denied map[string]bool }

func (d *denyAC) CanAppend(e accesscontroller.LogEntry, _ idp.Interface, _ accesscontroller.CanAppendAdditionalContext) error {
	if id := e.GetIdentity(); id != nil && d.denied[string(id.PublicKey)] {
		return fmt.Errorf("denied by harness access controller")
	}
	return nil
}

func sortFnOf(name string) iface.EntrySortFn {
	switch name {
	case "fww":
		return sorting.FirstWriteWins
	case "hash":
		return sorting.SortByEntryHash
	}
	return sorting.LastWriteWins
}

type replica struct {
	log       *ipfslog.IPFSLog
	ac        accesscontroller.Interface
	sort      string
	logID     string
	ident     string
	keyed     bool
	opened    bool // opened over a selection of another replica's entries (not part of the finale exchange)
	namedHead bool // opened with LogOptions.Heads naming an entry that another supplied entry names (known finding K5)
}

type world struct {
	api     *memAPI
	dag     *memDag
	env     *identEnv
	idents  map[string]*idp.Identity
	reps    []*replica
	created []iface.IPFSLogEntry // successful appends, in order
	unknown cid.Cid
	keyedIO iface.IO // set once a replica of this world uses sealed links
}

// sealedIO: the link-encrypting codec shared by the keyed replicas of this world
func (w *world) sealedIO() iface.IO {
	if w.keyedIO == nil {
		key, err := enc.NewSecretbox([]byte("0123456789abcdef0123456789abcdef"))
		if err != nil {
			panic(err)
		}
		dio, err := cbor.IO(&entry.Entry{}, &entry.LamportClock{})
		if err != nil {
			panic(err)
		}
		w.keyedIO = dio.ApplyOptions(&cbor.Options{LinkKey: key})
	}
	return w.keyedIO
}

// linksOf: the CIDs a stored block links to; for an entry written with sealed links, the links its
// holder of the key reads (predecessors, then references) - what the store model records
func (w *world) linksOf(c cid.Cid) []string {
	out := linksOfBlock(c, w.dag.raw(c))
	if len(out) > 0 || w.keyedIO == nil {
		return out
	}
	node, err := w.keyedIO.Read(context.Background(), w.api, c)
	if err != nil || node == nil {
		return out
	}
	e, err := w.keyedIO.DecodeRawEntry(node, c, w.idents["A"].Provider)
	if err != nil || e == nil {
		return out
	}
	for _, l := range append(append([]cid.Cid{}, e.GetNext()...), e.GetRefs()...) {
		out = append(out, l.String())
	}
	return out
}

var identNames = []string{"A", "B", "C", "D", "E", "F"}

func newWorld() *world {
	api, dag := newAPI()
	w := &world{api: api, dag: dag, env: newIdentEnv(identNames...), idents: map[string]*idp.Identity{}}
	for _, n := range identNames {
		w.idents[n] = w.env.identity(n)
	}
	w.unknown = fakeCid("unknown-entry")
	return w
}

// ---------------------------------------------------------------------------------------------
// raw observation after one operation

type blockRaw struct {
	Cid   string
	Links []string
}

type obsRaw struct {
	R         int
	Class     string // ok | errjoin | errdenied | panic | errlte | errlt | errother | badindex
	Entry     iface.IPFSLogEntry
	HasIter   bool
	Iter      []string
	Closed    bool
	SkipState bool
	Entries   []string
	Heads     []string
	Values    []string
	Time      int
	Store     []blockRaw
	Written   string // cid of the (last) block this operation handed to Dag().Add, even if already stored
	Refused   string // cid of the (first) block the store refused during this operation (injected outage)
}

func hashesOf(es []iface.IPFSLogEntry) []string {
	out := make([]string, len(es))
	for i, e := range es {
		out[i] = e.GetHash().String()
	}
	return out
}

func classifyErr(err error) string {
	if err == nil {
		return "ok"
	}
	s := err.Error()
	switch {
	case strings.HasPrefix(s, string(errmsg.ErrLogJoinFailed)):
		return "errjoin"
	case strings.HasPrefix(s, string(errmsg.ErrLogAppendDenied)):
		return "errdenied"
	case strings.HasPrefix(s, string(errmsg.ErrFilterLTENotFound)):
		return "errlte"
	case strings.HasPrefix(s, string(errmsg.ErrFilterLTNotFound)):
		return "errlt"
	}
	return "errother"
}

// linksOfBlock decodes a stored block far enough to list the CIDs it links to
func linksOfBlock(c cid.Cid, data []byte) []string {
	n, err := decodeBlock(c, data)
	if err != nil {
		return nil
	}
	var out []string
	for _, l := range n.Links() {
		out = append(out, l.Cid.String())
	}
	return out
}

// snapshot of one log used by the C05 monitor: hash -> canonical serialisation of the entry
type logSnap struct {
	entries map[string]string
	values  []string
	length  int
}

func serialEntry(e iface.IPFSLogEntry) string {
	id := ""
	if i := e.GetIdentity(); i != nil {
		id = i.ID + "/" + hex.EncodeToString(i.PublicKey)
		if i.Signatures != nil {
			id += "/" + hex.EncodeToString(i.Signatures.ID) + "/" + hex.EncodeToString(i.Signatures.PublicKey)
		}
	}
	ct, cidh := 0, ""
	if c := e.GetClock(); c != nil {
		ct, cidh = c.GetTime(), hex.EncodeToString(c.GetID())
	}
	return fmt.Sprintf("%s|%s|%x|%v|%v|%d|%s|%d|%x|%x|%s|%v", e.GetHash(), e.GetLogID(), e.GetPayload(), e.GetNext(), e.GetRefs(),
		ct, cidh, e.GetV(), e.GetKey(), e.GetSig(), id, e.GetAdditionalData())
}

func snapLog(l *ipfslog.IPFSLog) *logSnap {
	s := &logSnap{entries: map[string]string{}}
	for _, e := range l.GetEntries().Slice() {
		s.entries[e.GetHash().String()] = serialEntry(e)
	}
	s.values = hashesOf(l.Values().Slice())
	s.length = l.Len()
	return s
}

func isSubsequence(a, b []string) bool {
	i := 0
	for _, x := range b {
		if i < len(a) && a[i] == x {
			i++
		}
	}
	return i == len(a)
}

// ---------------------------------------------------------------------------------------------
// execution

type histRun struct {
	gen      func(h *histRun, i int) *hop // produces the next operation (nil = end of history)
	ops      []hop
	obs      []obsRaw
	failures []monitorFailure
	w        *world
	// classification of what happened, for coverage statistics
	forks, merges, tiesPresent, boundedJoins, denied, panics int
	faulted                                                  int // operations run while the store refused writes
	opens                                                    int // replicas opened over a selection of another replica's entries
	iterOpts                                                 map[int]*ipfslog.IteratorOptions
	nEntries                                                 int
	inImpl                                                   bool // true while a library call is executing
	noOracle                                                 bool // replayed copy used as an oracle: no nested oracles
	unbounded                                                map[int]bool
	outside                                                  map[int]bool // replicas outside the histories with re-opened logs (owf): opened under a foreign id or at a named head, or merged from such a log
	joinFailed                                               map[int]bool
}

func (h *histRun) fail(prop, mon, key, detail string, opIdx int) {
	n := 0
	for _, f := range h.failures {
		if f.Key == key {
			n++
		}
	}
	if n >= 2 || len(h.failures) >= 12 {
		return
	}
	h.failures = append(h.failures, monitorFailure{Property: prop, Monitor: mon, Key: key, Detail: detail,
		Case: map[string]interface{}{"history": h.ops[:opIdx+1], "failing_op": opIdx}})
}

func cidAt(w *world, idx int) cid.Cid {
	if idx < 0 || idx >= len(w.created) {
		return w.unknown
	}
	return w.created[idx].GetHash()
}

// tie: two distinct created entries with the same (clock id, time)
func hasTies(created []iface.IPFSLogEntry) bool {
	seen := map[string]string{}
	for _, e := range created {
		k := fmt.Sprintf("%x/%d", e.GetClock().GetID(), e.GetClock().GetTime())
		if h, ok := seen[k]; ok && h != e.GetHash().String() {
			return true
		}
		seen[k] = e.GetHash().String()
	}
	return false
}

func unreferenced(entries []iface.IPFSLogEntry) []string {
	named := map[string]bool{}
	for _, e := range entries {
		for _, n := range e.GetNext() {
			named[n.String()] = true
		}
	}
	var out []string
	for _, e := range entries {
		if !named[e.GetHash().String()] {
			out = append(out, e.GetHash().String())
		}
	}
	sort.Strings(out)
	return out
}

func sortedCopy(a []string) []string {
	b := append([]string{}, a...)
	sort.Strings(b)
	return b
}

func eqStrings(a, b []string) bool {
	if len(a) != len(b) {
		return false
	}
	for i := range a {
		if a[i] != b[i] {
			return false
		}
	}
	return true
}

// structural monitors on the current state of replica r (C02, C03); unbounded = the log was built
// by appends and unbounded joins only
func (h *histRun) monitorState(r int, opIdx int, unbounded bool) {
	rep := h.w.reps[r]
	// logs opened under a foreign id or at a named head (known finding K5) are outside the linearisation theorems
	fail3 := func(mon, key, detail string) {
		if !h.outside[r] {
			h.fail("C03", mon, key, detail, opIdx)
		}
	}
	l := rep.log
	entries := l.GetEntries().Slice()
	heads := hashesOf(l.Heads().Slice())
	raw := hashesOf(l.RawHeads().Slice())
	snap := l.ToSnapshot()
	var snapHeads []string
	for _, c := range snap.Heads {
		snapHeads = append(snapHeads, c.String())
	}
	inLog := map[string]iface.IPFSLogEntry{}
	for _, e := range entries {
		inLog[e.GetHash().String()] = e
	}
	// C02
	if !eqStrings(sortedCopy(heads), sortedCopy(raw)) || !eqStrings(sortedCopy(heads), sortedCopy(snapHeads)) {
		h.fail("C02", "heads-accessors-agree", "C02:accessors-disagree", fmt.Sprintf("Heads=%v RawHeads=%v Snapshot.Heads=%v", heads, raw, snapHeads), opIdx)
	}
	for _, hd := range heads {
		if _, ok := inLog[hd]; !ok {
			h.fail("C02", "head-is-entry", "C02:head-not-entry", "head "+hd+" is not an entry of the log", opIdx)
		}
	}
	// every log of every history - truncated by bounded merges, re-opened over a selection of entries, merged
	// from such logs - has exactly its unreferenced entries as heads (C16_every_log_of_every_history_is_a_log,
	// C16_reopened_logs_are_logs); only logs opened under a foreign id or at a named head are outside
	if unbounded || !h.outside[r] {
		if want := unreferenced(entries); !eqStrings(sortedCopy(heads), want) {
			h.fail("C02", "heads-exact", "C02:heads-not-unreferenced", fmt.Sprintf("heads=%v unreferenced=%v", sortedCopy(heads), want), opIdx)
		}
		if (len(entries) == 0) != (len(heads) == 0) {
			h.fail("C02", "heads-nonempty", "C02:heads-empty", "heads empty iff entries empty violated", opIdx)
		}
	}
	// C03
	vals := l.Values().Slice()
	pos := map[string]int{}
	for i, e := range vals {
		k := e.GetHash().String()
		if _, dup := pos[k]; dup {
			fail3("values-nodup", "C03:duplicate", "Values() contains "+k+" twice")
		}
		pos[k] = i
	}
	if unbounded {
		if len(pos) != len(entries) {
			fail3("values-complete", "C03:incomplete", fmt.Sprintf("Values() has %d distinct entries, log has %d", len(pos), len(entries)))
		}
		for _, e := range entries {
			if _, ok := pos[e.GetHash().String()]; !ok {
				fail3("values-complete", "C03:incomplete", "entry "+e.GetHash().String()+" missing from Values()")
				break
			}
		}
	}
	for _, e := range vals {
		for _, n := range e.GetNext() {
			if j, ok := pos[n.String()]; ok && j > pos[e.GetHash().String()] {
				fail3("values-causal", "C03:not-causal", "predecessor "+n.String()+" placed after "+e.GetHash().String())
			}
		}
	}
	fn := sorting.NoZeroes(sortFnOf(rep.sort))
	total := rep.sort == "hash" || !hasTies(entries)
	if total {
		for i := 0; i+1 < len(vals); i++ {
			v, err := fn(vals[i], vals[i+1])
			if err != nil || v >= 0 {
				fail3("values-sorted", "C03:not-sorted", fmt.Sprintf("Values()[%d] !< Values()[%d] (cmp=%d err=%v)", i, i+1, v, err))
				break
			}
		}
	}
	// C05: what a caller does to a view it was handed does not reach the log (views are the caller's own)
	{
		handed := l.Values()
		want := hashesOf(handed.Slice())
		handed.Reverse()
		if got := hashesOf(l.Values().Slice()); !eqStrings(got, want) {
			h.fail("C05", "view-is-private", "C05:view-shared-with-caller", "reversing the map returned by Values() changed what the next Values() returns", opIdx)
		}
		ents := l.GetEntries()
		wantE := append([]string{}, ents.Keys()...) // Keys() hands out the map's own slice
		ents.Reverse()
		if got := l.GetEntries().Keys(); !eqStrings(got, wantE) {
			h.fail("C05", "view-is-private", "C05:view-shared-with-caller", "reversing the map returned by GetEntries() changed what the next GetEntries() returns", opIdx)
		}
	}
	sv := hashesOf(snap.Values)
	if !eqStrings(sv, hashesOf(vals)) && total {
		fail3("snapshot-values", "C03:snapshot-differs", "ToSnapshot().Values differs from Values()")
	}
}

// causal past of e inside a set of entries (by next), excluding e itself
func causalPast(e iface.IPFSLogEntry, inLog map[string]iface.IPFSLogEntry) map[string]bool {
	past := map[string]bool{}
	stack := []iface.IPFSLogEntry{e}
	for len(stack) > 0 {
		x := stack[len(stack)-1]
		stack = stack[:len(stack)-1]
		for _, n := range x.GetNext() {
			k := n.String()
			if past[k] {
				continue
			}
			past[k] = true
			if p, ok := inLog[k]; ok {
				stack = append(stack, p)
			}
		}
	}
	return past
}

func log2ceil(n int) int {
	k := 0
	for (1 << k) < n {
		k++
	}
	return k
}

func (h *histRun) exec() {
	ctx := context.Background()
	w := h.w
	unbounded := map[int]bool{} // replicas never subjected to a bounded join
	h.unbounded = unbounded
	h.outside = map[int]bool{}
	for i := 0; ; i++ {
		po := h.gen(h, i)
		if po == nil {
			break
		}
		o := *po
		h.ops = append(h.ops, o)
		if !h.noOracle {
			announce(map[string]interface{}{"history": h.ops, "failing_op": i})
		}
		ob := obsRaw{R: o.R, Class: "ok"}
		w.dag.resetLogs()
		storeBefore := len(w.dag.order)
		// C05: snapshots of every log before the op
		snaps := make([]*logSnap, len(w.reps))
		for k, rep := range w.reps {
			snaps[k] = snapLog(rep.log)
		}
		if o.Kind != "new" && o.Kind != "open" && (o.R < 0 || o.R >= len(w.reps)) || ((o.Kind == "join" || o.Kind == "open") && (o.Src < 0 || o.Src >= len(w.reps))) {
			ob.Class = "badindex"
			ob.SkipState = true
			h.obs = append(h.obs, ob)
			continue
		}
		func() {
			defer func() {
				if r := recover(); r != nil {
					if !h.inImpl {
						panic(r) // a bug in the harness itself, not in the implementation
					}
					h.inImpl = false
					ob.Class = "panic"
					h.panics++
					ob.Entry = nil
				}
			}()
			switch o.Kind {
			case "new":
				denied := map[string]bool{}
				for _, d := range o.Deny {
					denied[string(w.idents[d].PublicKey)] = true
				}
				var ac accesscontroller.Interface
				if len(denied) > 0 {
					ac = &denyAC{denied: denied}
				}
				lopts := &ipfslog.LogOptions{ID: o.LogID, SortFn: sortFnOf(o.Sort), AccessController: ac, Concurrency: uint(o.Conc)}
				if o.Keyed {
					lopts.IO = w.sealedIO()
				}
				if o.Clock != 0 {
					lopts.Clock = entry.NewLamportClock(w.idents[o.Ident].PublicKey, o.Clock)
				}
				l, err := ipfslog.NewLog(w.api, w.idents[o.Ident], lopts)
				if err != nil {
					panic(err)
				}
				w.reps = append(w.reps, &replica{log: l, ac: ac, sort: o.Sort, logID: o.LogID, ident: o.Ident, keyed: o.Keyed})
				ob.R = len(w.reps) - 1
				unbounded[ob.R] = true
			case "open":
				// a new replica opened over a selection of replica Src's entries (NewLog with LogOptions.Entries
				// and no heads - what the loaders do with the result of a complete or a limited load)
				src := w.reps[o.Src]
				held := src.log.GetEntries()
				om := entry.NewOrderedMap()
				for _, k := range o.Keep {
					c := cidAt(w, k).String()
					if e, ok := held.Get(c); ok {
						om.Set(c, e)
					}
				}
				denied := map[string]bool{}
				for _, d := range o.Deny {
					denied[string(w.idents[d].PublicKey)] = true
				}
				var ac accesscontroller.Interface
				if len(denied) > 0 {
					ac = &denyAC{denied: denied}
				}
				openID := src.logID
				if o.LogID != "" {
					openID = o.LogID // LogOptions.ID is the caller's: a log may be opened under another id than its entries carry
				}
				lopts := &ipfslog.LogOptions{ID: openID, SortFn: sortFnOf(o.Sort), AccessController: ac, Entries: om}
				seenHead := map[string]bool{}
				for _, k := range o.Heads {
					c := cidAt(w, k).String()
					if e, ok := held.Get(c); ok && !seenHead[c] {
						seenHead[c] = true
						lopts.Heads = append(lopts.Heads, e)
					}
				}
				consistent := len(lopts.Heads) == 0
				if !consistent {
					want := unreferenced(om.Slice())
					consistent = eqStrings(sortedCopy(hashesOf(lopts.Heads)), want)
				}
				if src.keyed {
					lopts.IO = w.sealedIO()
				}
				h.inImpl = true
				l, err := ipfslog.NewLog(w.api, w.idents[o.Ident], lopts)
				h.inImpl = false
				if err != nil {
					panic(err)
				}
				w.reps = append(w.reps, &replica{log: l, ac: ac, sort: o.Sort, logID: openID, ident: o.Ident, keyed: src.keyed, opened: true, namedHead: !consistent})
				ob.R = len(w.reps) - 1
				h.opens++
				// a selection that leaves entries out is causally open, like what a bounded join leaves; so is a log
				// whose entries carry another id than its own
				unbounded[ob.R] = unbounded[o.Src] && om.Len() == held.Len() && openID == src.logID && consistent
				h.outside[ob.R] = h.outside[o.Src] || openID != src.logID || !consistent
			case "append":
				rep := w.reps[o.R]
				before := rep.log.GetEntries().Slice()
				headsBefore := hashesOf(rep.log.Heads().Slice())
				h.inImpl = true
				w.dag.failAdd = o.Fault
				w.dag.stall = o.Stall
				actx, cancel := ctx, func() {}
				if o.Stall == "ctx" {
					actx, cancel = context.WithTimeout(ctx, 50*time.Millisecond)
				}
				e, err := rep.log.Append(actx, []byte(o.Payload), &ipfslog.AppendOptions{PointerCount: o.PC, Pin: o.Pin})
				cancel()
				w.dag.failAdd = false
				w.dag.stall = ""
				h.inImpl = false
				ob.Class = classifyErr(err)
				if o.Stall == "slow" && err == nil && !w.dag.has(e.GetHash()) {
					h.fail("C17", "acknowledged-write-stored", "C17:append-acknowledged-without-block", "Append returned while its (slow) block write had not completed", i)
				}
				if o.Fault || o.Stall == "ctx" {
					h.faulted++
					if err == nil {
						h.fail("C17", "acknowledged-write-stored", "C17:append-acknowledged-without-block", "Append returned success although the store refused the block write", i)
					} else if ob.Class == "errdenied" {
						ob.Class = "errother" // refused by the access controller before the write was attempted: nothing happened either
					}
				}
				if o.Pin && err == nil && (len(w.dag.pins) == 0 || w.dag.pins[len(w.dag.pins)-1] != e.GetHash()) {
					h.fail("C17", "pinned-append-pins", "C17:pin-not-requested", "Append with Pin did not pin the entry block", i)
				}
				if err == nil {
					ob.Entry = e
					w.created = append(w.created, e)
					h.monitorAppend(o, i, rep, e, before, headsBefore)
				} else if ob.Class == "errdenied" {
					h.denied++
					after := snapLog(rep.log)
					if len(after.entries) != len(snaps[o.R].entries) || !eqStrings(sortedCopy(hashesOf(rep.log.Heads().Slice())), sortedCopy(headsBefore)) {
						h.fail("C06", "denied-append-unchanged", "C06:denied-append-changed-log", "a denied append changed entries or heads", i)
					}
				}
			case "join":
				rep, src := w.reps[o.R], w.reps[o.Src]
				var want16 []iface.IPFSLogEntry
				check16 := false
				if o.Size >= 0 && unbounded[o.R] && unbounded[o.Src] && o.R != o.Src && rep.logID == src.logID && !h.outside[o.R] && !h.outside[o.Src] {
					union := map[string]iface.IPFSLogEntry{}
					for _, e := range rep.log.GetEntries().Slice() {
						union[e.GetHash().String()] = e
					}
					for _, e := range src.log.GetEntries().Slice() {
						union[e.GetHash().String()] = e
					}
					for _, e := range union {
						want16 = append(want16, e)
					}
					if rep.sort == "hash" || !hasTies(want16) {
						check16 = true
						sort.Slice(want16, func(a, b int) bool { return want16[a].GetHash().String() < want16[b].GetHash().String() })
						sorting.Sort(sorting.NoZeroes(sortFnOf(rep.sort)), want16, false)
						if o.Size < len(want16) {
							want16 = want16[len(want16)-o.Size:]
						}
					}
				}
				h.inImpl = true
				_, err := rep.log.Join(src.log, o.Size)
				h.inImpl = false
				ob.Class = classifyErr(err)
				if o.Size >= 0 {
					h.boundedJoins++
					unbounded[o.R] = false
				}
				if !unbounded[o.Src] {
					// entries taken from a truncated log: the destination may now hold a causally open set
					unbounded[o.R] = false
				}
				if h.outside[o.Src] {
					h.outside[o.R] = true
				}
				if err != nil && rep.ac == nil && !h.outside[o.Src] && !h.outside[o.R] {
					// every entry of these histories was produced by Append: a log without an access controller
					// of its own admits them all, so the merge succeeds (C06: success iff all missing entries are valid)
					h.fail("C06", "honest-join", "C06:honest-join-failed", "a merge between replicas holding only appended entries, into a log without an access controller, failed: "+err.Error(), i)
					h.fail("C01", "merge-succeeds", "C01:merge-failed", "a merge between replicas holding only appended entries, into a log without an access controller, failed: "+err.Error(), i)
				}
				if err != nil {
					if h.joinFailed == nil {
						h.joinFailed = map[int]bool{}
					}
					h.joinFailed[o.R] = true
					after := snapLog(rep.log)
					if len(after.entries) != len(snaps[o.R].entries) || !eqStrings(after.values, snaps[o.R].values) {
						h.fail("C06", "failed-join-unchanged", "C06:failed-join-changed-log", "a failed join changed the log", i)
					}
				} else {
					if o.Size >= 0 && !h.noOracle && !h.outside[o.R] && !h.outside[o.Src] {
						h.oracle16(o, i)
					}
					if check16 {
						got := hashesOf(rep.log.Values().Slice())
						if !eqStrings(got, hashesOf(want16)) {
							h.fail("C16", "bounded-join-keeps-newest", "C16:wrong-entries", fmt.Sprintf("Join(size=%d): Values()=%v, want the last entries of the full merge %v", o.Size, got, hashesOf(want16)), i)
						}
						if !eqStrings(sortedCopy(rep.log.GetEntries().Keys()), sortedCopy(hashesOf(want16))) {
							h.fail("C16", "bounded-join-entries", "C16:wrong-entry-set", "entry set differs from the last min(n,total) entries of the full merge", i)
						}
						if hd := sortedCopy(hashesOf(rep.log.Heads().Slice())); !eqStrings(hd, unreferenced(want16)) {
							h.fail("C16", "bounded-join-heads", "C16:wrong-heads", fmt.Sprintf("heads=%v, unreferenced among kept=%v", hd, unreferenced(want16)), i)
						}
					}
					h.merges++
					// joining itself, an empty log or a log with another id changes nothing (C01)
					if o.Src == o.R || src.logID != rep.logID || len(snaps[o.Src].entries) == 0 {
						after := snapLog(rep.log)
						if len(after.entries) != len(snaps[o.R].entries) || !eqStrings(after.values, snaps[o.R].values) {
							key := "C01:neutral-join-changed-log"
							if rep.namedHead {
								key += ":head-named-by-supplied-entry"
							}
							h.fail("C01", "neutral-join", key, "joining self/empty/foreign-id log changed the log", i)
						}
					}
				}
			case "setid":
				w.reps[o.R].log.SetIdentity(w.idents[o.Ident])
				w.reps[o.R].ident = o.Ident
			case "publish":
				h.inImpl = true
				w.dag.failAdd = o.Fault
				_, err := w.reps[o.R].log.ToMultihash(ctx)
				w.dag.failAdd = false
				h.inImpl = false
				ob.Class = classifyErr(err)
				if o.Fault {
					h.faulted++
					if err == nil {
						h.fail("C17", "acknowledged-write-stored", "C17:manifest-acknowledged-without-block", "ToMultihash returned a hash although the store refused the block write", i)
					}
				}
			case "iter":
				h.execIter(o, i, &ob)
			}
		}()
		if ob.Class == "panic" && o.Kind == "join" {
			h.fail("C16", "join-no-panic", "C16:join-panics-size-gt-total", fmt.Sprintf("Join(size=%d) panicked", o.Size), i)
		}
		if ob.Class == "panic" && o.Kind == "iter" {
			h.fail("C15", "iterator-no-panic", "C15:iterator-panics", "Iterator panicked", i)
		}
		if ob.Class == "panic" && o.Kind != "join" && o.Kind != "iter" {
			h.fail("C12", "no-panic", "panic:"+o.Kind, "operation panicked", i)
		}
		// state of the touched replica
		if ob.R < len(w.reps) {
			rep := w.reps[ob.R]
			ob.Entries = rep.log.GetEntries().Keys()
			ob.Heads = hashesOf(rep.log.Heads().Slice())
			ob.Values = hashesOf(rep.log.Values().Slice())
			ob.Time = rep.log.Clock.GetTime()
			h.monitorState(ob.R, i, unbounded[ob.R])
		} else {
			ob.SkipState = true
		}
		// blocks written by this op (C17) + closure monitor
		for _, c := range w.dag.order[storeBefore:] {
			links := w.linksOf(c)
			ob.Store = append(ob.Store, blockRaw{Cid: c.String(), Links: links})
		}
		if n := len(w.dag.writes); n > 0 {
			ob.Written = w.dag.writes[n-1].String()
		}
		if len(w.dag.refused) > 0 {
			ob.Refused = w.dag.refused[0].String()
		}
		h.monitorStore(i, storeBefore)
		// C05: append-only
		for k, rep := range w.reps {
			if k >= len(snaps) || snaps[k] == nil {
				continue
			}
			now := snapLog(rep.log)
			if k != ob.R || (o.Kind != "append" && o.Kind != "join") {
				// untouched replica (or read-only op): nothing may change
				if len(now.entries) != len(snaps[k].entries) || !eqStrings(now.values, snaps[k].values) {
					h.fail("C05", "other-logs-untouched", "C05:other-log-changed", fmt.Sprintf("op on replica %d changed replica %d", ob.R, k), i)
				}
			}
			for hsh, ser := range snaps[k].entries {
				cur, ok := now.entries[hsh]
				if unbounded[k] || k != ob.R {
					if !ok {
						h.fail("C05", "entries-never-vanish", "C05:entry-vanished", "entry "+hsh+" vanished from replica", i)
						break
					}
				}
				if ok && cur != ser {
					h.fail("C05", "entries-immutable", "C05:entry-mutated", "entry "+hsh+" changed content", i)
					break
				}
			}
			if unbounded[k] {
				if now.length < snaps[k].length {
					h.fail("C05", "len-monotone", "C05:len-decreased", "Len() decreased", i)
				}
				if !isSubsequence(snaps[k].values, now.values) {
					key := "C05:values-not-subsequence"
					if rep.sort != "hash" && hasTies(rep.log.GetEntries().Slice()) {
						key = "C05:values-not-subsequence:default-order-ties"
					}
					h.fail("C05", "values-subsequence", key, "previous Values() is not a subsequence of the new one", i)
				}
			}
		}
		h.obs = append(h.obs, ob)
		if ob.Class == "panic" {
			// a library call that panicked may have left the log locked or half updated: the history ends here
			// (the panic itself has been recorded above)
			break
		}
	}
	h.nEntries = len(w.created)
	if hasTies(w.created) {
		h.tiesPresent = 1
	}
	if h.boundedJoins > 0 && !h.noOracle {
		h.probeTruncated()
	}
}

// probeTruncated (C16, end of the history): a log left by bounded joins must BE the log holding its
// entries and heads - it has to behave, in every later merge, like a fresh log created from exactly
// those entries and heads.  Every truncated replica and such a twin are merged with every other
// replica in turn and compared after each merge.
func (h *histRun) probeTruncated() {
	w := h.w
	last := len(h.ops) - 1
	for k, rep := range w.reps {
		if h.unbounded[k] || h.outside[k] {
			continue // logs opened under a foreign id or at a named head (known finding K5) are not logs in the sense of the theorems
		}
		twin, err := ipfslog.NewLog(w.api, w.idents[rep.ident], &ipfslog.LogOptions{ID: rep.logID, SortFn: sortFnOf(rep.sort),
			AccessController: rep.ac, Entries: rep.log.GetEntries(), Heads: rep.log.Heads().Slice(), Clock: rep.log.Clock})
		if err != nil {
			panic(err)
		}
		for s, src := range w.reps {
			if s == k || src.logID != rep.logID || h.outside[s] {
				continue
			}
			h.inImpl = true
			_, e1 := rep.log.Join(src.log, -1)
			_, e2 := twin.Join(src.log, -1)
			h.inImpl = false
			a, b := snapLog(rep.log), snapLog(twin)
			ha, hb := sortedCopy(hashesOf(rep.log.Heads().Slice())), sortedCopy(hashesOf(twin.Heads().Slice()))
			if (e1 == nil) != (e2 == nil) || len(a.entries) != len(b.entries) || !eqStrings(ha, hb) || !eqStrings(sortedCopy(a.values), sortedCopy(b.values)) {
				h.fail("C16", "truncated-log-is-a-log", "C16:truncated-log-differs-from-fresh-log-with-same-entries",
					fmt.Sprintf("after the history, merging replica %d into the truncated replica %d gives %d entries, heads %v, %d values; the same merge into a fresh log created from the truncated replica's entries and heads gives %d entries, heads %v, %d values",
						s, k, len(a.entries), ha, len(a.values), len(b.entries), hb, len(b.values)), last)
				break
			}
		}
	}
}

func (h *histRun) monitorStore(opIdx, from int) {
	w := h.w
	// nothing is ever deleted, and every entry of every replica has its block (and the blocks of its
	// predecessors and references) in the store
	if len(w.dag.removed) > 0 {
		h.fail("C17", "store-only-grows", "C17:block-removed", "a block was removed from the store: "+w.dag.removed[0].String(), opIdx)
	}
	for _, rep := range w.reps {
		for _, e := range rep.log.GetEntries().Slice() {
			if !w.dag.has(e.GetHash()) {
				h.fail("C17", "entries-stored", "C17:entry-block-missing", "the block of entry "+e.GetHash().String()+" held by a replica is not in the store", opIdx)
			}
			for _, n := range append(append([]cid.Cid{}, e.GetNext()...), e.GetRefs()...) {
				if !w.dag.has(n) {
					h.fail("C17", "store-closed", "C17:dangling-link", "link "+n.String()+" of a stored entry is not in the store", opIdx)
				}
			}
		}
	}
	// after every single block write the store must be causally closed: check each new block
	// against the blocks written before it
	present := map[string]bool{}
	for _, c := range w.dag.order[:from] {
		present[c.String()] = true
	}
	for _, c := range w.dag.order[from:] {
		for _, l := range w.linksOf(c) {
			if !present[l] {
				h.fail("C17", "store-closed", "C17:dangling-link", "block "+c.String()+" written before its link "+l, opIdx)
			}
		}
		present[c.String()] = true
	}
}

func (h *histRun) monitorAppend(o hop, opIdx int, rep *replica, e iface.IPFSLogEntry, before []iface.IPFSLogEntry, headsBefore []string) {
	inLog := map[string]iface.IPFSLogEntry{}
	for _, b := range before {
		inLog[b.GetHash().String()] = b
	}
	var next []string
	for _, n := range e.GetNext() {
		next = append(next, n.String())
	}
	if !eqStrings(sortedCopy(next), sortedCopy(headsBefore)) {
		h.fail("C04", "next-is-heads", "C04:next-not-heads", fmt.Sprintf("next=%v heads before=%v", next, headsBefore), opIdx)
	}
	id := h.w.idents[rep.ident]
	if !bytes.Equal(e.GetClock().GetID(), id.PublicKey) {
		h.fail("C04", "clock-id-is-writer", "C04:clock-id", "clock id is not the writer's public key", opIdx)
	}
	for _, b := range before {
		if h.outside[o.R] {
			break // a log opened at a named head may hold entries beyond its heads (known finding K5)
		}
		if b.GetClock().GetTime() >= e.GetClock().GetTime() {
			h.fail("C04", "time-dominates", "C04:time-not-greater", fmt.Sprintf("existing entry has time %d >= new time %d", b.GetClock().GetTime(), e.GetClock().GetTime()), opIdx)
			break
		}
	}
	hs := hashesOf(rep.log.Heads().Slice())
	if len(hs) != 1 || hs[0] != e.GetHash().String() {
		h.fail("C04", "single-head", "C04:not-single-head", fmt.Sprintf("heads after append = %v", hs), opIdx)
	}
	past := causalPast(e, inLog)
	seen := map[string]bool{}
	for _, r := range e.GetRefs() {
		k := r.String()
		if !past[k] {
			h.fail("C04", "refs-in-past", "C04:ref-not-in-past", "reference "+k+" is not in the causal past", opIdx)
		}
		if seen[k] {
			h.fail("C04", "refs-nodup", "C04:ref-duplicate", "duplicate reference", opIdx)
		}
		seen[k] = true
		for _, n := range next {
			if n == k {
				h.fail("C04", "refs-disjoint-next", "C04:ref-in-next", "reference is also a predecessor", opIdx)
			}
		}
	}
	pc := o.PC
	if pc <= 0 {
		pc = 1
	}
	if len(e.GetRefs()) > log2ceil(pc)+2 {
		h.fail("C04", "refs-logarithmic", "C04:too-many-refs", fmt.Sprintf("%d refs for pointer count %d", len(e.GetRefs()), pc), opIdx)
	}
	if err := e.Verify(id.Provider, rep.log.IO()); err != nil {
		h.fail("C06", "appended-entry-verifies", "C06:appended-entry-does-not-verify", err.Error(), opIdx)
	}
}

// ---------------------------------------------------------------------------------------------
// iterator

func (h *histRun) execIter(o hop, opIdx int, ob *obsRaw) {
	w := h.w
	rep := w.reps[o.R]
	l := rep.log
	sp := o.Iter
	opts := &ipfslog.IteratorOptions{}
	if !sp.HasLT && !sp.HasLTE {
		// requests without an upper bound reuse ONE options value per replica, as an application that keeps
		// its options around does: only the fields that legitimately vary are set before each call
		if h.iterOpts == nil {
			h.iterOpts = map[int]*ipfslog.IteratorOptions{}
		}
		if h.iterOpts[o.R] == nil {
			h.iterOpts[o.R] = &ipfslog.IteratorOptions{}
		}
		opts = h.iterOpts[o.R]
		opts.GT, opts.GTE, opts.Amount = cid.Cid{}, cid.Cid{}, nil
	}
	if sp.GT != nil {
		opts.GT = cidAt(w, *sp.GT)
	}
	if sp.GTE != nil {
		opts.GTE = cidAt(w, *sp.GTE)
	}
	if sp.HasLT {
		opts.LT = []cid.Cid{}
		for _, x := range sp.LT {
			opts.LT = append(opts.LT, cidAt(w, x))
		}
	}
	if sp.HasLTE {
		opts.LTE = []cid.Cid{}
		for _, x := range sp.LTE {
			opts.LTE = append(opts.LTE, cidAt(w, x))
		}
	}
	opts.Amount = sp.Amount
	ch := make(chan iface.IPFSLogEntry, l.Len()+8)
	done := make(chan error, 1)
	go func() {
		defer func() {
			if r := recover(); r != nil {
				done <- fmt.Errorf("PANIC: %v", r)
			}
		}()
		done <- l.Iterator(opts, ch)
	}()
	var err error
	select {
	case err = <-done:
	case <-time.After(10 * time.Second):
		h.fail("C15", "iterator-returns", "C15:iterator-hangs", "Iterator did not return", opIdx)
		ob.Class = "errother"
		return
	}
	if err != nil && strings.HasPrefix(err.Error(), "PANIC") {
		h.inImpl = true
		panic(err)
	}
	ob.Class = classifyErr(err)
	if err != nil {
		return
	}
	ob.HasIter = true
	// "reports unknown upper bounds as errors": every inclusive bound, and the exclusive bound in force
	// (an amount of zero asks for nothing and is answered before the bounds are looked at: theorem
	// C15_amount_zero; C15_unknown_upper_bound_is_error is stated for every other amount)
	if sp.Amount == nil || *sp.Amount != 0 {
		var ub []cid.Cid
		if sp.HasLTE {
			ub = opts.LTE
		} else if sp.HasLT && len(opts.LT) > 0 {
			ub = opts.LT[len(opts.LT)-1:]
		}
		for i, c := range ub {
			if _, held := l.Get(c); !held {
				h.fail("C15", "unknown-upper-bound-is-an-error", "C15:unknown-upper-bound-accepted",
					fmt.Sprintf("upper bound #%d of %d (%s) is not an entry of the log, yet Iterator returned no error", i+1, len(ub), c), opIdx)
				break
			}
		}
	}
	var got []iface.IPFSLogEntry
	closed := false
loop:
	for {
		select {
		case e, ok := <-ch:
			if !ok {
				closed = true
				break loop
			}
			got = append(got, e)
		default:
			break loop
		}
	}
	ob.Iter = hashesOf(got)
	ob.Closed = closed
	if !closed {
		key := "C15:channel-not-closed"
		if sp.Amount != nil && *sp.Amount == 0 {
			key = "C15:channel-not-closed-amount-0"
		}
		h.fail("C15", "iterator-closes", key, "Iterator returned nil without closing the output channel", opIdx)
	}
	h.monitorIter(o, opIdx, rep, got)
}

// brute-force specification of the iterator (DESIGN C15) on a log whose ordering is total
func (h *histRun) monitorIter(o hop, opIdx int, rep *replica, got []iface.IPFSLogEntry) {
	w := h.w
	sp := o.Iter
	l := rep.log
	entries := l.GetEntries().Slice()
	inLog := map[string]iface.IPFSLogEntry{}
	for _, e := range entries {
		inLog[e.GetHash().String()] = e
	}
	seen := map[string]bool{}
	for _, e := range got {
		if seen[e.GetHash().String()] {
			h.fail("C15", "iterator-nodup", "C15:duplicate", "entry emitted twice", opIdx)
		}
		seen[e.GetHash().String()] = true
		// C15_emits_only_log_entries_in_every_history: whatever the ordering and the shape of the log
		if inLog[e.GetHash().String()] == nil {
			h.fail("C15", "iterator-emits-log-entries", "C15:emits-entry-not-in-log", "Iterator emitted an entry the log does not hold", opIdx)
		}
	}
	total := rep.sort == "hash" || !hasTies(entries)
	fn := sorting.NoZeroes(sortFnOf(rep.sort))
	// start set
	var start []iface.IPFSLogEntry
	switch {
	case sp.HasLTE:
		for _, x := range sp.LTE {
			start = append(start, inLog[cidAt(w, x).String()])
		}
	case sp.HasLT && len(sp.LT) > 0:
		last := inLog[cidAt(w, sp.LT[len(sp.LT)-1]).String()]
		if last == nil {
			return
		}
		for _, n := range last.GetNext() {
			if p, ok := inLog[n.String()]; ok {
				start = append(start, p)
			}
		}
	default:
		start = l.Heads().Slice()
	}
	// R = causal past (inclusive) of start inside the log, newest first
	rset := map[string]iface.IPFSLogEntry{}
	for _, s := range start {
		if s == nil {
			return // unknown bound: an error was expected, handled by the model comparison
		}
		rset[s.GetHash().String()] = s
		for k := range causalPast(s, inLog) {
			if p, ok := inLog[k]; ok {
				rset[k] = p
			}
		}
	}
	// C15_emits_only_the_past_of_the_bounds: soundness of the range under any ordering, ties included
	for _, e := range got {
		if _, ok := rset[e.GetHash().String()]; !ok {
			h.fail("C15", "iterator-within-past", "C15:emits-entry-outside-the-past-of-its-bounds", "Iterator emitted an entry that is not in the causal past of its upper bounds", opIdx)
			break
		}
	}
	if !total {
		return
	}
	var R []iface.IPFSLogEntry
	for _, e := range rset {
		R = append(R, e)
	}
	sorting.Sort(fn, R, true)
	// lower bound
	var want []iface.IPFSLogEntry
	lower := ""
	inclusive := false
	if sp.GTE != nil {
		lower, inclusive = cidAt(w, *sp.GTE).String(), true
	} else if sp.GT != nil {
		lower = cidAt(w, *sp.GT).String()
	}
	if lower != "" {
		if _, ok := rset[lower]; !ok {
			return // lower bound outside the selected range: not in the property's quantifier
		}
		for _, e := range R {
			if e.GetHash().String() == lower {
				if inclusive {
					want = append(want, e)
				}
				break
			}
			want = append(want, e)
		}
		if sp.Amount != nil && *sp.Amount >= 0 && *sp.Amount < len(want) {
			want = want[len(want)-*sp.Amount:]
		}
	} else {
		want = R
		if sp.Amount != nil && *sp.Amount >= 0 && *sp.Amount < len(want) {
			want = want[:*sp.Amount]
		}
	}
	if !eqStrings(hashesOf(want), hashesOf(got)) {
		key := "C15:wrong-range"
		if sp.HasLTE && len(sp.LTE) > 1 && relatedBounds(start, inLog) && sp.Amount != nil && lower == "" {
			key = "C15:related-lte-bounds-counted-twice"
		}
		h.fail("C15", "iterator-range", key, fmt.Sprintf("want %d entries %v, got %d %v", len(want), hashesOf(want), len(got), hashesOf(got)), opIdx)
	}
}

// relatedBounds: some start entry is in the causal past of another
func relatedBounds(start []iface.IPFSLogEntry, inLog map[string]iface.IPFSLogEntry) bool {
	for _, a := range start {
		past := causalPast(a, inLog)
		for _, b := range start {
			if a != b && past[b.GetHash().String()] {
				return true
			}
		}
	}
	return false
}

// ---------------------------------------------------------------------------------------------
// Coq emission

type histRanks struct {
	hashes, keys *ranker
	logids       map[string]int
	payloads     map[string]int
}

func (h *histRun) ranks() *histRanks {
	r := &histRanks{hashes: newRanker(), keys: newRanker(), logids: map[string]int{}, payloads: map[string]int{}}
	r.hashes.add(h.w.unknown.String())
	addE := func(e iface.IPFSLogEntry) {
		r.hashes.add(e.GetHash().String())
		for _, n := range e.GetNext() {
			r.hashes.add(n.String())
		}
		for _, n := range e.GetRefs() {
			r.hashes.add(n.String())
		}
	}
	for _, e := range h.w.created {
		addE(e)
	}
	for _, ob := range h.obs {
		if ob.Entry != nil {
			addE(ob.Entry)
		}
		for _, b := range ob.Store {
			r.hashes.add(b.Cid)
			for _, l := range b.Links {
				r.hashes.add(l)
			}
		}
		for _, x := range ob.Iter {
			r.hashes.add(x)
		}
		if ob.Written != "" {
			r.hashes.add(ob.Written)
		}
		if ob.Refused != "" {
			r.hashes.add(ob.Refused)
		}
	}
	for _, id := range h.w.idents {
		r.keys.add(string(id.PublicKey))
	}
	r.hashes.freeze()
	r.keys.freeze()
	for _, o := range h.ops {
		if o.Kind == "new" || (o.Kind == "open" && o.LogID != "") {
			if _, ok := r.logids[o.LogID]; !ok {
				r.logids[o.LogID] = len(r.logids) + 1
			}
		}
		if o.Kind == "append" {
			if _, ok := r.payloads[o.Payload]; !ok {
				r.payloads[o.Payload] = len(r.payloads) + 1
			}
		}
	}
	return r
}

func (r *histRanks) hashList(hs []string) string {
	v := make([]int, len(hs))
	for i, x := range hs {
		v[i] = r.hashes.rank(x)
	}
	return coqNList(v)
}

func (r *histRanks) cidList(cs []cid.Cid) string {
	v := make([]int, len(cs))
	for i, x := range cs {
		v[i] = r.hashes.rank(x.String())
	}
	return coqNList(v)
}

// openSrcID: the log id of the replica an "open" without an id of its own selects from (replicas are
// numbered in creation order: one per "new"/"open" operation that was executed)
func openSrcID(ops []hop, i int) string {
	var ids []string
	for _, o := range ops[:i] {
		switch o.Kind {
		case "new":
			ids = append(ids, o.LogID)
		case "open":
			if o.Src >= 0 && o.Src < len(ids) {
				id := o.LogID
				if id == "" {
					id = ids[o.Src]
				}
				ids = append(ids, id)
			}
		}
	}
	if s := ops[i].Src; s >= 0 && s < len(ids) {
		return ids[s]
	}
	return ""
}

func sortCoq(s string) string {
	switch s {
	case "fww":
		return "SFww"
	case "hash":
		return "SHash"
	}
	return "SLww"
}

func classCoq(c string) string {
	return map[string]string{"ok": "RcOk", "errjoin": "RcErrJoin", "errdenied": "RcErrDenied", "panic": "RcPanic",
		"errlte": "RcErrLte", "errlt": "RcErrLt", "errother": "RcErrOther", "badindex": "RcBadIndex"}[c]
}

func (r *histRanks) entryCoq(e iface.IPFSLogEntry, payloads map[string]int, logids map[string]int) string {
	key := 0
	if len(e.GetKey()) > 0 {
		key = r.keys.rank(string(e.GetKey()))
	}
	return fmt.Sprintf("(mkEntry %s %s %s %s %s %s %s %s true)", coqN(r.hashes.rank(e.GetHash().String())),
		coqN(logids[e.GetLogID()]), coqN(payloads[string(e.GetPayload())]), r.cidList(e.GetNext()), r.cidList(e.GetRefs()),
		coqZ(int64(e.GetClock().GetTime())), coqN(r.keys.rank(string(e.GetClock().GetID()))), coqN(key))
}

// coq renders the history as a Gallina term of type [history]
func (h *histRun) coq() string {
	r := h.ranks()
	w := h.w
	exact := !hasTies(w.created) || len(w.created) <= 20
	var items []string
	for i, o := range h.ops {
		ob := h.obs[i]
		var op string
		kind := o.Kind
		if (o.Fault || o.Stall == "ctx") && (kind == "append" || kind == "publish") {
			kind += "fail"
		}
		switch kind {
		case "publishfail":
			op = fmt.Sprintf("OFail %s", coqNat(o.R))
		case "appendfail":
			hh := 0
			if ob.Refused != "" {
				hh = r.hashes.rank(ob.Refused)
			}
			op = fmt.Sprintf("OAppendFail %s %s %s %s", coqNat(o.R), coqN(r.payloads[o.Payload]), coqZ(int64(o.PC)), coqN(hh))
		case "new":
			var deny []int
			for _, d := range o.Deny {
				deny = append(deny, r.keys.rank(string(w.idents[d].PublicKey)))
			}
			op = fmt.Sprintf("ONew %s %s %s %s %s", coqN(r.logids[o.LogID]), coqN(r.keys.rank(string(w.idents[o.Ident].PublicKey))), sortCoq(o.Sort), coqNList(deny), coqZ(int64(o.Clock)))
		case "append":
			hh := 0
			if ob.Entry != nil {
				hh = r.hashes.rank(ob.Entry.GetHash().String())
			} else if ob.Written != "" {
				hh = r.hashes.rank(ob.Written) // denied append: the block was written
			}
			op = fmt.Sprintf("OAppend %s %s %s %s", coqNat(o.R), coqN(r.payloads[o.Payload]), coqZ(int64(o.PC)), coqN(hh))
		case "join":
			op = fmt.Sprintf("OJoin %s %s %s", coqNat(o.R), coqNat(o.Src), coqZ(int64(o.Size)))
		case "open":
			var deny, keep []int
			for _, d := range o.Deny {
				deny = append(deny, r.keys.rank(string(w.idents[d].PublicKey)))
			}
			for _, k := range o.Keep {
				keep = append(keep, r.hashes.rank(cidAt(w, k).String()))
			}
			oid := o.LogID
			if oid == "" {
				oid = openSrcID(h.ops, i)
			}
			var hh []int
			for _, k := range o.Heads {
				hh = append(hh, r.hashes.rank(cidAt(w, k).String()))
			}
			op = fmt.Sprintf("OOpen %s %s %s %s %s %s %s", coqNat(o.Src), coqNList(keep), coqNList(hh), coqN(r.logids[oid]), coqN(r.keys.rank(string(w.idents[o.Ident].PublicKey))), sortCoq(o.Sort), coqNList(deny))
		case "setid":
			op = fmt.Sprintf("OSetIdentity %s %s", coqNat(o.R), coqN(r.keys.rank(string(w.idents[o.Ident].PublicKey))))
		case "publish":
			mh := 0
			if ob.Written != "" {
				mh = r.hashes.rank(ob.Written)
			}
			op = fmt.Sprintf("OPublish %s %s", coqNat(o.R), coqN(mh))
		case "iter":
			sp := o.Iter
			optH := func(p *int) string {
				if p == nil {
					return "None"
				}
				return "(Some " + coqN(r.hashes.rank(cidAt(w, *p).String())) + ")"
			}
			optL := func(has bool, xs []int) string {
				if !has {
					return "None"
				}
				v := make([]int, len(xs))
				for k, x := range xs {
					v[k] = r.hashes.rank(cidAt(w, x).String())
				}
				return "(Some " + coqNList(v) + ")"
			}
			am := "None"
			if sp.Amount != nil {
				am = "(Some " + coqZ(int64(*sp.Amount)) + ")"
			}
			op = fmt.Sprintf("OIter %s (mkIter %s %s %s %s %s)", coqNat(o.R), optH(sp.GT), optH(sp.GTE), optL(sp.HasLT, sp.LT), optL(sp.HasLTE, sp.LTE), am)
		}
		ent := "None"
		if ob.Entry != nil {
			ent = "(Some " + r.entryCoq(ob.Entry, r.payloads, r.logids) + ")"
		}
		it := "None"
		if ob.HasIter {
			it = fmt.Sprintf("(Some (%s, %s))", r.hashList(ob.Iter), coqBool(ob.Closed))
		}
		var st []string
		for _, b := range ob.Store {
			st = append(st, fmt.Sprintf("(%s, %s)", coqN(r.hashes.rank(b.Cid)), r.hashList(b.Links)))
		}
		obs := fmt.Sprintf("mkObs %s %s %s %s %s %s %s %s %s %s %s", coqNat(ob.R), classCoq(ob.Class), ent, it,
			coqBool(ob.SkipState), coqBool(exact), r.hashList(ob.Entries), r.hashList(ob.Heads), r.hashList(ob.Values),
			coqZ(int64(ob.Time)), coqList(st))
		items = append(items, fmt.Sprintf("(%s, %s)", op, obs))
	}
	return "[" + strings.Join(items, ";\n   ") + "]"
}

var _ = cbornode.DecodeBlock
var _ = entry.NewOrderedMap
var _ = rand.Int

// oracle16: "the linearisation the unbounded merge would have produced" is obtained by replaying
// the whole history prefix on a fresh world (identities and hence CIDs are deterministic) with
// the bounded join replaced by the unbounded one.
func (h *histRun) oracle16(o hop, i int) {
	ops := append([]hop{}, h.ops[:i]...)
	u := o
	u.Size = -1
	ops = append(ops, u)
	h2 := &histRun{gen: replayGen(ops), w: newWorld(), noOracle: true}
	h2.exec()
	if len(h2.obs) != len(ops) || h2.obs[len(ops)-1].Class != "ok" {
		return
	}
	full := h2.obs[len(ops)-1].Values
	want := full
	if o.Size < len(full) {
		want = full[len(full)-o.Size:]
	}
	rep := h.w.reps[o.R]
	got := hashesOf(rep.log.Values().Slice())
	total := rep.sort == "hash" || !hasTies(h.w.created)
	ok := eqStrings(got, want)
	if !total {
		ok = eqStrings(sortedCopy(got), sortedCopy(want))
	}
	if !ok {
		key := "C16:differs-from-unbounded-merge"
		if o.R == o.Src || h.w.reps[o.R].logID != h.w.reps[o.Src].logID {
			// Join returns early for the same instance / a foreign log id, before the size bound is applied
			key = "C16:no-trim-on-self-or-foreign-id-join"
		}
		h.fail("C16", "bounded-join-vs-unbounded", key,
			fmt.Sprintf("Join(size=%d) left %v, the last entries of the unbounded merge are %v", o.Size, got, want), i)
		return
	}
	// heads = unreferenced among the kept entries
	kept := rep.log.Values().Slice()
	if hd := sortedCopy(hashesOf(rep.log.Heads().Slice())); !eqStrings(hd, unreferenced(kept)) {
		h.fail("C16", "bounded-join-heads", "C16:wrong-heads", fmt.Sprintf("heads=%v, unreferenced among kept=%v", hd, unreferenced(kept)), i)
	}
	if !eqStrings(sortedCopy(rep.log.GetEntries().Keys()), sortedCopy(got)) {
		h.fail("C16", "bounded-join-entries", "C16:entries-not-values", "entry index differs from Values() after a bounded join", i)
	}
}
