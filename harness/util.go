package main

import (
	"encoding/json"
	"fmt"
	"math/rand"
	"os"
	"sort"
	"strings"
)

// ranker maps strings to their rank among all strings registered (order preserving).
type ranker struct {
	set    map[string]struct{}
	ranks  map[string]int
	frozen bool
}

func newRanker() *ranker { return &ranker{set: map[string]struct{}{}} }

func (r *ranker) add(s string) {
	if r.frozen {
		if _, ok := r.ranks[s]; !ok {
			panic("ranker: add after freeze: " + s)
		}
		return
	}
	r.set[s] = struct{}{}
}

func (r *ranker) freeze() {
	keys := make([]string, 0, len(r.set))
	for k := range r.set {
		keys = append(keys, k)
	}
	sort.Strings(keys)
	r.ranks = map[string]int{}
	for i, k := range keys {
		r.ranks[k] = i + 1 // ranks start at 1; 0 is reserved for "undefined"
	}
	r.frozen = true
}

func (r *ranker) rank(s string) int {
	if !r.frozen {
		panic("ranker not frozen")
	}
	v, ok := r.ranks[s]
	if !ok {
		panic("ranker: unknown string " + s)
	}
	return v
}

// ---- Coq literal helpers ----
func coqZ(v int64) string { return fmt.Sprintf("(%d)%%Z", v) }
func coqN(v int) string   { return fmt.Sprintf("%d%%N", v) }
func coqNat(v int) string { return fmt.Sprintf("%d%%nat", v) }
func coqBool(b bool) string {
	if b {
		return "true"
	}
	return "false"
}
func coqList(items []string) string { return "[" + strings.Join(items, "; ") + "]" }
func coqNList(v []int) string {
	s := make([]string, len(v))
	for i, x := range v {
		s[i] = coqN(x)
	}
	return coqList(s)
}
func coqNatList(v []int) string {
	s := make([]string, len(v))
	for i, x := range v {
		s[i] = coqNat(x)
	}
	return coqList(s)
}
func coqOpt(s string, ok bool) string {
	if ok {
		return "(Some " + s + ")"
	}
	return "None"
}

// ---- output ----
type monitorFailure struct {
	Property string      `json:"property"`
	Monitor  string      `json:"monitor"`
	Detail   string      `json:"detail"`
	Case     interface{} `json:"case"`
	Key      string      `json:"key"` // stable identifier used to match known findings
}

type result struct {
	Property     string                 `json:"property"`
	Seed         int64                  `json:"seed"`
	Tier         string                 `json:"tier"`
	Evaluations  int                    `json:"evaluations"`
	Evaluations0 int                    `json:"-"`
	Distinct     int                    `json:"distinct_nontrivial"`
	Rule         string                 `json:"rule"`
	Samples      []interface{}          `json:"samples"`
	Stats        map[string]interface{} `json:"stats"`
	Failures     []monitorFailure       `json:"failures"`
	CaseFiles    []caseFile             `json:"case_files"`
	ModelCases   int                    `json:"model_cases"`
}

// caseFile describes one generated Coq file: it defines, for each list, the cases, and prints
// M = (mismatching indices of list 0, of list 1, ...).
type caseFile struct {
	File  string        `json:"file"`
	Lists []caseListOut `json:"lists"`
}
type caseListOut struct {
	Name   string   `json:"name"`
	Labels []string `json:"labels"`
}

// caseList accumulates Gallina literals of one type together with a replayable label each.
type caseList struct {
	name, typ, checker string // Definition <name> : list <typ>; mismatch function <checker>
	items, labels      []string
	sameAs             *caseList // when set: no own definition, the checker runs over that list's cases
}

func (c *caseList) add(item, label string) {
	c.items = append(c.items, item)
	c.labels = append(c.labels, label)
}

// writeShards splits the case lists over files of at most perShard cases (per list) so that the
// driver can evaluate them in parallel.
func writeShards(outDir, prop, header string, lists []*caseList, perShard int) []caseFile {
	maxLen := 0
	for _, l := range lists {
		if len(l.items) > maxLen {
			maxLen = len(l.items)
		}
	}
	var files []caseFile
	for k := 0; k*perShard < maxLen || k == 0; k++ {
		var sb strings.Builder
		sb.WriteString(header)
		cf := caseFile{File: fmt.Sprintf("%s/Case_%s_%d.v", outDir, prop, k)}
		var ms []string
		for _, l0 := range lists {
			l := l0
			if l0.sameAs != nil {
				l = l0.sameAs
			}
			lo, hi := k*perShard, (k+1)*perShard
			if lo > len(l.items) {
				lo = len(l.items)
			}
			if hi > len(l.items) {
				hi = len(l.items)
			}
			if l0.sameAs == nil {
				fmt.Fprintf(&sb, "Definition %s : list %s := [\n %s\n].\n", l.name, l.typ, strings.Join(l.items[lo:hi], ";\n "))
			}
			ms = append(ms, fmt.Sprintf("%s %s", l0.checker, l.name))
			cf.Lists = append(cf.Lists, caseListOut{Name: l0.name, Labels: l.labels[lo:hi]})
		}
		if len(ms) == 1 {
			ms = append(ms, "@nil nat")
		}
		fmt.Fprintf(&sb, "Definition M := Eval vm_compute in (%s).\nPrint M.\n", strings.Join(ms, ", "))
		writeFile(cf.File, sb.String())
		files = append(files, cf)
	}
	return files
}

func writeJSON(path string, v interface{}) {
	b, err := json.MarshalIndent(v, "", " ")
	if err != nil {
		panic(err)
	}
	if err := os.WriteFile(path, b, 0o644); err != nil {
		panic(err)
	}
}

func writeFile(path, content string) {
	if err := os.WriteFile(path, []byte(content), 0o644); err != nil {
		panic(err)
	}
}

func pick[T any](r *rand.Rand, xs []T) T { return xs[r.Intn(len(xs))] }

func randBytes(rng *rand.Rand, n int) []byte {
	b := make([]byte, n)
	for i := range b {
		b[i] = byte(rng.Intn(256))
	}
	return b
}
