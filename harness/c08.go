package main

// C08: entry encoding is canonical and decoding is its exact inverse.
//
// Drives the real codecs (cbor.IO, its link-encrypting variant, pb.IO) on generated entries and
// manifests.  Monitors evaluate the property's statement on the implementation; every written
// entry / manifest is also recorded (logical value, raw block bytes, value read back) and compared
// with the Coq model (Model/EntryCodec.v over Model/Cbor.v) by Model/Check08.v.

import (
	"bytes"
	"context"
	"encoding/base64"
	"encoding/hex"
	"encoding/json"
	"fmt"
	"math/rand"
	"os"
	"sort"
	"strings"
	"sync"
	"unicode/utf8"

	"github.com/ipfs/go-cid"
	"github.com/ipfs/go-datastore"
	dssync "github.com/ipfs/go-datastore/sync"
	ic "github.com/libp2p/go-libp2p/core/crypto"
	mh "github.com/multiformats/go-multihash"

	ipfslog "berty.tech/go-ipfs-log"
	"berty.tech/go-ipfs-log/enc"
	"berty.tech/go-ipfs-log/entry"
	idp "berty.tech/go-ipfs-log/identityprovider"
	"berty.tech/go-ipfs-log/iface"
	"berty.tech/go-ipfs-log/io/cbor"
	"berty.tech/go-ipfs-log/io/pb"
	"berty.tech/go-ipfs-log/keystore"
)

func init() { register("C08", runC08) }

// ---------------------------------------------------------------------------------------------
// Gallina literals
// byte string literal; long runs of one byte are written as [repeat] and long literals are split
// into chunks (Coq's parser overflows its stack on list literals of tens of thousands of items)
func c08Bytes(b []byte) string {
	if len(b) == 0 {
		return "[]"
	}
	var segs []string
	lit := func(x []byte) {
		for len(x) > 0 {
			n := len(x)
			if n > 1500 {
				n = 1500
			}
			var sb strings.Builder
			sb.WriteByte('[')
			for i, v := range x[:n] {
				if i > 0 {
					sb.WriteByte(';')
				}
				fmt.Fprintf(&sb, "%d", v)
			}
			sb.WriteByte(']')
			segs = append(segs, sb.String())
			x = x[n:]
		}
	}
	start := 0
	for i := 0; i < len(b); {
		j := i
		for j < len(b) && b[j] == b[i] {
			j++
		}
		if j-i >= 200 {
			lit(b[start:i])
			segs = append(segs, fmt.Sprintf("repeat %d (N.to_nat %d)", b[i], j-i))
			start = j
		}
		i = j
	}
	lit(b[start:])
	if len(segs) == 1 {
		return segs[0]
	}
	return "(" + strings.Join(segs, " ++ ") + ")"
}

func c08Cids(l []cid.Cid) string {
	if l == nil {
		return "None"
	}
	parts := make([]string, len(l))
	for i, c := range l {
		parts[i] = c08Bytes(c.Bytes())
	}
	return "(Some [" + strings.Join(parts, "; ") + "])"
}

func c08Identity(i *idp.Identity) string {
	if i == nil {
		return "None"
	}
	sigs := "None"
	if i.Signatures != nil {
		sigs = fmt.Sprintf("(Some (Build_idsig_rec %s %s))", c08Bytes(i.Signatures.ID), c08Bytes(i.Signatures.PublicKey))
	}
	return fmt.Sprintf("(Some (Build_identity_rec %s %s %s %s))", c08Bytes([]byte(i.ID)), c08Bytes([]byte(i.Type)), c08Bytes(i.PublicKey), sigs)
}

func c08Additional(m map[string]string) string {
	keys := make([]string, 0, len(m))
	for k := range m {
		keys = append(keys, k)
	}
	sort.Strings(keys)
	parts := make([]string, len(keys))
	for i, k := range keys {
		parts[i] = fmt.Sprintf("(%s, %s)", c08Bytes([]byte(k)), c08Bytes([]byte(m[k])))
	}
	return "[" + strings.Join(parts, "; ") + "]"
}

func c08Entry(e *entry.Entry) string {
	clock := "None"
	if e.Clock != nil {
		clock = fmt.Sprintf("(Some (Build_clock_rec %s %s))", c08Bytes(e.Clock.ID), coqZ(int64(e.Clock.Time)))
	}
	hash := "None"
	if e.Hash.Defined() {
		hash = "(Some " + c08Bytes(e.Hash.Bytes()) + ")"
	}
	return fmt.Sprintf("(Build_entry %d %s %s %s %s %s %s %s %s %s %s)", e.V, c08Bytes([]byte(e.LogID)), c08Bytes(e.Payload),
		c08Cids(e.Next), c08Cids(e.Refs), clock, c08Bytes(e.Key), c08Bytes(e.Sig), c08Identity(e.Identity), hash, c08Additional(e.AdditionalData))
}

// zero entry used where nothing was read back (write error)
const c08NoEntry = "(Build_entry 0 [] [] None None None [] [] None None [])"

// ---------------------------------------------------------------------------------------------
// generators
func c08Cid(rng *rand.Rand, v0 bool) cid.Cid {
	buf := make([]byte, 8)
	rng.Read(buf)
	h, err := mh.Sum(buf, mh.SHA2_256, -1)
	if err != nil {
		panic(err)
	}
	if v0 {
		return cid.NewCidV0(h)
	}
	return cid.NewCidV1(cid.DagCBOR, h)
}

// nil / empty / k links (k up to max)
func c08CidList(rng *rand.Rand, max int) ([]cid.Cid, string) {
	switch rng.Intn(6) {
	case 0:
		return nil, "nil"
	case 1:
		return []cid.Cid{}, "empty"
	}
	k := 1 + rng.Intn(max)
	out := make([]cid.Cid, k)
	for i := range out {
		out[i] = c08Cid(rng, rng.Intn(5) == 0)
	}
	if k > 1 && rng.Intn(6) == 0 { // a repeated link
		out[k-1] = out[0]
	}
	return out, "k"
}

func c08Payload(rng *rand.Rand) ([]byte, string) {
	r := rng.Intn(56)
	if r == 55 {
		r = 6 // rare: a 4 byte CBOR head
	} else {
		r = r % 7
		if r == 6 {
			r = 7
		}
	}
	switch r {
	case 0:
		return nil, "nil"
	case 1:
		return []byte{}, "empty"
	case 2:
		return []byte("hello world"), "ascii"
	case 3:
		return []byte("héllo wörld ✓ \u0000 \"quoted\""), "utf8"
	case 4:
		return []byte{0xff, 0x01, 0xfe, 0x80, 0x00, 0xc3}, "non-utf8"
	case 5:
		n := 24 + rng.Intn(300) // lengths across the 1 and 2 byte CBOR heads
		b := make([]byte, n)
		rng.Read(b)
		return b, "random-long"
	case 6:
		b := make([]byte, 70000) // 4 byte CBOR head; one long run so that the Coq literal stays small
		for i := range b {
			b[i] = 0x5a
		}
		rng.Read(b[:5])
		rng.Read(b[len(b)-3:])
		return b, "long-64k"
	}
	n := rng.Intn(24)
	b := make([]byte, n)
	rng.Read(b)
	return b, "random-short"
}

func c08RandBytes(rng *rand.Rand, choices ...int) []byte {
	n := choices[rng.Intn(len(choices))]
	if n < 0 {
		return nil
	}
	b := make([]byte, n)
	rng.Read(b)
	return b
}

var c08Times = []int{0, 1, 2, 23, 24, 255, 256, 65535, 65536, 1 << 31, 1<<32 - 1, 1 << 32, 1 << 62, 1<<63 - 1, -1, -24, -25, -256, -257, -(1 << 31), -(1 << 62), -(1 << 63)}

type c08Gen struct {
	e     *entry.Entry
	class string // plain | foreign-keys | foreign-enc
	shape string // distinctness key
}

func c08GenEntry(rng *rand.Rand, idents []*idp.Identity) c08Gen {
	e := &entry.Entry{}
	var shape []string
	switch r := rng.Intn(20); {
	case r == 0:
		e.V = 0
	case r < 4:
		e.V = 1
	case r == 4:
		e.V = uint64(3 + rng.Intn(5))
	case r == 5:
		e.V = 1<<64 - 1
	default:
		e.V = 2
	}
	shape = append(shape, fmt.Sprintf("v%d", c08MinInt(int(e.V&0xff), 3)))
	switch rng.Intn(4) {
	case 0:
		e.LogID = "A"
	case 1:
		e.LogID = ""
	case 2:
		e.LogID = "/orbitdb/zdpuAkk/some-log-name-longer-than-23-bytes"
	default:
		e.LogID = string(c08RandBytes(rng, 1, 5, 30)) // arbitrary bytes in a Go string
	}
	var pc, nc, rc string
	e.Payload, pc = c08Payload(rng)
	e.Next, nc = c08CidList(rng, 5)
	e.Refs, rc = c08CidList(rng, 40)
	shape = append(shape, "p:"+pc, "n:"+nc, "r:"+rc)
	t := c08Times[rng.Intn(len(c08Times))]
	if rng.Intn(4) == 0 {
		t = rng.Int()
	}
	e.Clock = entry.NewLamportClock(c08RandBytes(rng, -1, 0, 1, 33, 65), t)
	switch {
	case t < 0:
		shape = append(shape, "t<0")
	case t < 24:
		shape = append(shape, "t<24")
	case t < 1<<32:
		shape = append(shape, "t<2^32")
	default:
		shape = append(shape, "t>=2^32")
	}
	e.Key = c08RandBytes(rng, -1, 0, 33, 65)
	e.Sig = c08RandBytes(rng, -1, 0, 70, 71, 72)
	switch rng.Intn(4) {
	case 0:
		shape = append(shape, "id:nil")
	case 1:
		e.Identity = &idp.Identity{ID: string(c08RandBytes(rng, 0, 66)), Type: "orbitdb", PublicKey: c08RandBytes(rng, -1, 65),
			Signatures: &idp.IdentitySignature{ID: c08RandBytes(rng, 0, 71), PublicKey: c08RandBytes(rng, -1, 72)}}
		shape = append(shape, "id:random")
	default:
		e.Identity = idents[rng.Intn(len(idents))].Filtered()
		shape = append(shape, "id:real")
	}
	class := "plain"
	switch rng.Intn(12) {
	case 0:
		e.AdditionalData = map[string]string{}
		shape = append(shape, "ad:empty")
	case 1:
		e.AdditionalData = map[string]string{"foo": "bar", "zz": ""}
		if rng.Intn(2) == 0 {
			e.AdditionalData[iface.KeyEncryptedLinks] = "only-one-of-the-two"
		}
		class = "foreign-keys"
		shape = append(shape, "ad:foreign")
	case 2:
		e.AdditionalData = map[string]string{iface.KeyEncryptedLinks: base64.StdEncoding.EncodeToString(c08RandBytes(rng, 0, 40)),
			iface.KeyEncryptedLinksNonce: base64.StdEncoding.EncodeToString(c08RandBytes(rng, 0, 24)), "other": "x"}
		if e.V > 1 {
			class = "foreign-enc"
		} else {
			class = "foreign-keys"
		}
		shape = append(shape, "ad:enc")
	default:
		shape = append(shape, "ad:nil")
	}
	if rng.Intn(40) == 0 && len(e.Next) > 0 {
		e.Next[0] = cid.Undef // cannot be marshalled: ErrEmptyLink
		shape = append(shape, "undef-link")
	}
	return c08Gen{e: e, class: class, shape: strings.Join(shape, ",")}
}

func c08MinInt(a, b int) int {
	if a < b {
		return a
	}
	return b
}

// deep copy with fresh backing arrays and a freshly built AdditionalData map (insertion order
// shuffled): the "same logical entry" for the determinism check
func c08Clone(rng *rand.Rand, e *entry.Entry) *entry.Entry {
	cp := func(b []byte) []byte {
		if b == nil {
			return nil
		}
		return append([]byte{}, b...)
	}
	cpc := func(l []cid.Cid) []cid.Cid {
		if l == nil {
			return nil
		}
		out := make([]cid.Cid, len(l), len(l)+3)
		copy(out, l)
		return out
	}
	out := &entry.Entry{Payload: cp(e.Payload), LogID: e.LogID, Next: cpc(e.Next), Refs: cpc(e.Refs), V: e.V, Key: cp(e.Key), Sig: cp(e.Sig), Hash: e.Hash}
	if e.Clock != nil {
		out.Clock = entry.NewLamportClock(cp(e.Clock.ID), e.Clock.Time)
	}
	if e.Identity != nil {
		i := *e.Identity
		if i.Signatures != nil {
			s := *i.Signatures
			i.Signatures = &s
		}
		out.Identity = &i
	}
	if e.AdditionalData != nil {
		keys := make([]string, 0, len(e.AdditionalData))
		for k := range e.AdditionalData {
			keys = append(keys, k)
		}
		sort.Strings(keys)
		rng.Shuffle(len(keys), func(i, j int) { keys[i], keys[j] = keys[j], keys[i] })
		out.AdditionalData = make(map[string]string, 1+rng.Intn(16))
		for _, k := range keys {
			out.AdditionalData[k] = e.AdditionalData[k]
		}
	}
	return out
}

func c08HasBothEnc(e iface.IPFSLogEntry) bool {
	ad := e.GetAdditionalData()
	_, a := ad[iface.KeyEncryptedLinks]
	_, b := ad[iface.KeyEncryptedLinksNonce]
	return a && b
}

func c08CidsEqual(a, b []cid.Cid) (same bool, nilDiffers bool) {
	if len(a) != len(b) {
		return false, false
	}
	for i := range a {
		if !a[i].Equals(b[i]) {
			return false, false
		}
	}
	return true, (a == nil) != (b == nil)
}

func c08MapsEqual(a, b map[string]string) bool {
	if len(a) != len(b) {
		return false
	}
	for k, v := range a {
		if w, ok := b[k]; !ok || w != v {
			return false
		}
	}
	return true
}

// field by field comparison of what was written with what was read; returns the names that differ
func c08Diff(w *entry.Entry, r iface.IPFSLogEntry, want cid.Cid, skipLinks bool) []string {
	var d []string
	if r.GetV() != w.V {
		d = append(d, "v")
	}
	if r.GetLogID() != w.LogID {
		d = append(d, "id")
	}
	if !bytes.Equal(r.GetPayload(), w.Payload) {
		d = append(d, "payload")
	}
	if !bytes.Equal(r.GetKey(), w.Key) {
		d = append(d, "key")
	}
	if !bytes.Equal(r.GetSig(), w.Sig) {
		d = append(d, "sig")
	}
	if r.GetClock() == nil || !bytes.Equal(r.GetClock().GetID(), w.Clock.ID) {
		d = append(d, "clock.id")
	}
	if r.GetClock() == nil || r.GetClock().GetTime() != w.Clock.Time {
		d = append(d, "clock.time")
	}
	if !skipLinks {
		if same, nd := c08CidsEqual(w.Next, r.GetNext()); !same {
			d = append(d, "next")
		} else if nd {
			d = append(d, "next:nil-vs-empty")
		}
		wantRefs := w.Refs
		if w.V <= 1 {
			wantRefs = nil // the v0/v1 formats have no refs field; Normalize does not write it
		}
		if same, nd := c08CidsEqual(wantRefs, r.GetRefs()); !same {
			d = append(d, "refs")
		} else if nd {
			d = append(d, "refs:nil-vs-empty")
		}
	}
	wi, ri := w.Identity, r.GetIdentity()
	switch {
	case (wi == nil) != (ri == nil):
		d = append(d, "identity")
	case wi != nil:
		if wi.ID != ri.ID || wi.Type != ri.Type || !bytes.Equal(wi.PublicKey, ri.PublicKey) {
			d = append(d, "identity")
		} else if (wi.Signatures == nil) != (ri.Signatures == nil) {
			d = append(d, "identity.signatures")
		} else if wi.Signatures != nil && (!bytes.Equal(wi.Signatures.ID, ri.Signatures.ID) || !bytes.Equal(wi.Signatures.PublicKey, ri.Signatures.PublicKey)) {
			d = append(d, "identity.signatures")
		}
	}
	if !r.GetHash().Equals(want) {
		d = append(d, "hash")
	}
	return d
}

type c08Case struct {
	Kind    string `json:"kind"`
	Class   string `json:"class,omitempty"`
	Entry   string `json:"entry_json,omitempty"`
	Payload string `json:"payload_hex,omitempty"`
	Cid     string `json:"cid,omitempty"`
	Block   string `json:"block_hex,omitempty"`
	Note    string `json:"note,omitempty"`
}

func c08Describe(kind, class string, e *entry.Entry, c cid.Cid, raw []byte) c08Case {
	j, _ := json.Marshal(e)
	if len(j) > 1500 {
		j = append(j[:1500], []byte("...")...)
	}
	p := e.Payload
	if len(p) > 64 {
		p = p[:64]
	}
	blk := raw
	if len(blk) > 400 {
		blk = blk[:400]
	}
	cs := ""
	if c.Defined() {
		cs = c.String()
	}
	return c08Case{Kind: kind, Class: class, Entry: string(j), Payload: hex.EncodeToString(p), Cid: cs, Block: hex.EncodeToString(blk),
		Note: fmt.Sprintf("additional=%v next_nil=%v refs_nil=%v", e.AdditionalData, e.Next == nil, e.Refs == nil)}
}

// ---------------------------------------------------------------------------------------------
// the pinned interoperability vectors of /repo/test (entry_test.go, log_load_test.go,
// utils_fixtures_test.go), with the deterministic test keys of /repo/test/utils.go
var c08TestKeys = map[string]string{
	"userA": "0a135ce157a9ccb8375c2fae0d472f1eade4b40b37704c02df923b78ca03c627",
	"userB": "855f70d3b5224e5af76c23db0792339ca8d968a5a802ff0c5b54d674ef01aaad",
	"userC": "291d4dc915d81e9ebe5627c3f5e7309e819e721ee75e63286baa913497d61c78",
	"userD": "faa2d697318a6f8daeb8f4189fc657e7ae1b24e18c91c3bb9b95ad3c0cc050f8",
	"02a38336e3a47f545a172c9f77674525471ebeda7d6c86140e7a778f67ded92260": "7c6140e9ae4c70eb11600b3d550cc6aac45511b5a660f4e75fe9a7c4e6d1c7b7",
	"03e0480538c2a39951d054e17ff31fde487cb1031d0044a037b53ad2e028a3e77c": "97f64ca2bf7bd6aa2136eb0aa3ce512433bd903b91d48b2208052d6ff286d080",
	"032f7b6ef0432b572b45fcaf27e7f6757cd4123ff5c5266365bec82129b8c5f214": "2b487a932233c8691024c951faaeac207be161797bdda7bd934c0125012a5551",
	"0358df8eb5def772917748fdf8a8b146581ad2041eae48d66cc6865f11783499a6": "1cd65d23d72932f5ca2328988d19a5b11fbab1f4c921ef2471768f1773bd56de",
}

// Fully deterministic identities: CreateIdentity uses two keys, one stored under the identity's
// name and one stored under the hex form of the first key's public key; both are seeded here (the
// shared newIdentEnv seeds only the first, which leaves the identity's public key random per run).
func c08Identities(names ...string) []*idp.Identity {
	ds := dssync.MutexWrap(datastore.NewMapDatastore())
	for _, n := range names {
		seed := seedKey(n)
		if err := ds.Put(context.Background(), datastore.NewKey(n), seed); err != nil {
			panic(err)
		}
		priv, err := ic.UnmarshalSecp256k1PrivateKey(seed)
		if err != nil {
			panic(err)
		}
		pub, err := priv.GetPublic().Raw()
		if err != nil {
			panic(err)
		}
		if err := ds.Put(context.Background(), datastore.NewKey(hex.EncodeToString(pub)), seedKey(n+":identity-key")); err != nil {
			panic(err)
		}
	}
	ks, err := keystore.NewKeystore(ds)
	if err != nil {
		panic(err)
	}
	var out []*idp.Identity
	for _, n := range names {
		id, err := idp.CreateIdentity(context.Background(), &idp.CreateIdentityOptions{Keystore: ks, ID: n, Type: "orbitdb"})
		if err != nil {
			panic(err)
		}
		out = append(out, id)
	}
	return out
}

func c08Hex(s string) []byte {
	b, err := hex.DecodeString(s)
	if err != nil {
		panic(err)
	}
	return b
}

func c08MustCid(s string) cid.Cid {
	c, err := cid.Decode(s)
	if err != nil {
		panic(err)
	}
	return c
}

func c08TestIdentity(name string) *idp.Identity {
	ds := dssync.MutexWrap(datastore.NewMapDatastore())
	for k, v := range c08TestKeys {
		if err := ds.Put(context.Background(), datastore.NewKey(k), c08Hex(v)); err != nil {
			panic(err)
		}
	}
	ks, err := keystore.NewKeystore(ds)
	if err != nil {
		panic(err)
	}
	id, err := idp.CreateIdentity(context.Background(), &idp.CreateIdentityOptions{Keystore: ks, ID: name, Type: "orbitdb"})
	if err != nil {
		panic(err)
	}
	return id
}

const c08V0Key = "0411a0d38181c9374eca3e480ecada96b1a4db9375c5e08c3991557759d22f6f2f902d0dc5364a948035002504d825308b0c257b7cbb35229c2076532531f8f4ef"
const c08V0Sig = "3044022062f4cfc8b8f3cc01283b25eab3eeb295614bb0faa8bd20f026c1487ae663121102207ce415bd7423b66d695338c17122e937259f77d1e86494d3146436f0959fccc6"

func c08V0Fixtures() map[string]*entry.Entry {
	mk := func(hash, payload string, next []cid.Cid) *entry.Entry {
		return &entry.Entry{Hash: c08MustCid(hash), LogID: "A", Payload: []byte(payload), V: 0,
			Clock: entry.NewLamportClock(c08Hex(c08V0Key), 0), Sig: c08Hex(c08V0Sig), Key: c08Hex(c08V0Key), Next: next}
	}
	return map[string]*entry.Entry{
		"hello":      mk("Qmc2DEiLirMH73kHpuFPbt3V65sBrnDWkJYSjUQHXXvghT", "hello", []cid.Cid{}),
		"helloWorld": mk("QmUKMoRrmsYAzQg1nQiD7Fzgpo24zXky7jVJNcZGiSAdhc", "hello world", []cid.Cid{}),
		"helloAgain": mk("QmZ8va2fSjRufV1sD6x5mwi6E5GrSjXHx7RiKFVBzkiUNZ", "hello again", []cid.Cid{c08MustCid("QmUKMoRrmsYAzQg1nQiD7Fzgpo24zXky7jVJNcZGiSAdhc")}),
	}
}

const c08V1Key = "048bef2231e64d5c7147bd4b8afb84abd4126ee8d8335e4b069ac0a65c7be711cea5c1b8d47bc20ebaecdca588600ddf2894675e78b2ef17cf49e7bbaf98080361"

func c08V1Fixtures(provider idp.Interface) []entry.Entry {
	ident := func() *idp.Identity {
		return &idp.Identity{ID: "03e0480538c2a39951d054e17ff31fde487cb1031d0044a037b53ad2e028a3e77c", PublicKey: c08Hex(c08V1Key),
			Signatures: &idp.IdentitySignature{
				ID:        c08Hex("3045022100f5f6f10571d14347aaf34e526ce3419fd64d75ffa7aa73692cbb6aeb6fbc147102203a3e3fa41fa8fcbb9fc7c148af5b640e2f704b20b3a4e0b93fc3a6d44dffb41e"),
				PublicKey: c08Hex("3044022020982b8492be0c184dc29de0a3a3bd86a86ba997756b0bf41ddabd24b47c5acf02203745fda39d7df650a5a478e52bbe879f0cb45c074025a93471414a56077640a4"),
			}, Type: "orbitdb", Provider: provider}
	}
	mk := func(payload string, next []cid.Cid, sig, hash string, t int) entry.Entry {
		return entry.Entry{Payload: []byte(payload), LogID: "A", Next: next, V: 1, Key: c08Hex(c08V1Key), Sig: c08Hex(sig),
			Identity: ident(), Hash: c08MustCid(hash), Clock: entry.NewLamportClock(c08Hex(c08V1Key), t)}
	}
	return []entry.Entry{
		mk("one", []cid.Cid{}, "3045022100f72546c99cf30eda1d394d91209bdb4569408a792caf9dc7c6415fef37a3118d0220645c4a6d218f8fc478af5bab175aaa99e1505d70c2a00997aacafa8de697944e", "zdpuAsJDrLKrAiU8M518eu6mgv9HzS3e1pfH5XC7LUsFgsK5c", 1),
		mk("two", []cid.Cid{c08MustCid("zdpuAsJDrLKrAiU8M518eu6mgv9HzS3e1pfH5XC7LUsFgsK5c")}, "3045022100b85c85c59e6d0952f95e3839e48b43b4073ef26f6f4696d785ce64053cd5869a0220644a4a7a15ddcd2b152611b08bf23b9df7823846719f2d0e4b0aff64190ed146", "zdpuAxgKyiM9qkP9yPKCCqrHer9kCqYyr7KbhucsPwwfh6JB3", 2),
		mk("three", []cid.Cid{c08MustCid("zdpuAxgKyiM9qkP9yPKCCqrHer9kCqYyr7KbhucsPwwfh6JB3")}, "304402206f6a1582bc2c18b63eeb5b1e2280f2700c5d467d60185738702f90f4e655214602202ce0fb6de31b42a24768f274ecb4c1e2ed8529e073cfb361fc1ef5d1e2d75a31", "zdpuAq7PAbQ7iavSdkNUUUrRUba5wSpRDJRsiC8RcvkXdgqYJ", 3),
		mk("four", []cid.Cid{c08MustCid("zdpuAq7PAbQ7iavSdkNUUUrRUba5wSpRDJRsiC8RcvkXdgqYJ")}, "30440220103ff89892856ec222d37b1244199cfb6e39629f155cd80ffa9b6e0b67de98940220391da8dc35e0b99f247c41676b8fb2337879d05dd343c55d9a89275c05076dcc", "zdpuAqgCh78NCXffmFYv4DM2KfhhpY92agJ9sKRB2eq9B5mFA", 4),
		mk("five", []cid.Cid{c08MustCid("zdpuAq7PAbQ7iavSdkNUUUrRUba5wSpRDJRsiC8RcvkXdgqYJ")}, "3044022012a6bad4be1aabec23816bc8ccaf3cb41d43f06adb3f7d55b14fe2ddae37035a02204324d0b9481c351a1b6c391bd9cb960c039f102f950cf2a48fd8648f7615c51f", "zdpuAwNuRc2Kc1aNDdcdSWuxfNpHRJQw8L8APBNHCEFuyU4Xf", 4),
	}
}

// ---------------------------------------------------------------------------------------------
func runC08(seed int64, tier string, outDir string) *result {
	if replayFile != "" {
		// the run is a deterministic function of (seed, tier): a replay re-executes it and prints
		// every monitor failure in full
		var rp struct {
			Seed int64  `json:"seed"`
			Tier string `json:"tier"`
		}
		if b, err := os.ReadFile(replayFile); err == nil && json.Unmarshal(b, &rp) == nil && rp.Tier != "" {
			seed, tier = rp.Seed, rp.Tier
		}
	}
	rng := rand.New(rand.NewSource(seed))
	ctx := context.Background()
	res := &result{Property: "C08", Seed: seed, Tier: tier, Stats: map[string]interface{}{}}
	stats := map[string]int{}
	shapes := map[string]struct{}{}

	fail := func(mon, key, detail string, c interface{}) {
		stats["failure:"+key]++
		if len(res.Failures) < 40 {
			res.Failures = append(res.Failures, monitorFailure{Property: "C08", Monitor: mon, Detail: detail, Case: c, Key: key})
		}
	}
	sample := func(c interface{}) {
		if len(res.Samples) < 6 {
			res.Samples = append(res.Samples, c)
		}
	}

	io, err := cbor.IO(&entry.Entry{}, &entry.LamportClock{})
	if err != nil {
		panic(err)
	}
	pbio, err := pb.IO(&entry.Entry{}, &entry.LamportClock{})
	if err != nil {
		panic(err)
	}
	idents := c08Identities("c08-a", "c08-b", "c08-c")
	provider := idents[0].Provider
	api, d := newAPI()

	encList := &caseList{name: "enc_cases", typ: "enc_case", checker: "mismatches_enc"}
	linkList := &caseList{name: "link_cases", typ: "link_case", checker: "mismatches_link"}
	manList := &caseList{name: "manifest_cases", typ: "manifest_case", checker: "mismatches_manifest"}

	// write in a fresh goroutine (nothing of the encoding may depend on goroutine-local state)
	writeFresh := func(e iface.IPFSLogEntry, a *memAPI, w iface.IO) (c cid.Cid, err error) {
		var wg sync.WaitGroup
		wg.Add(1)
		go func() {
			defer wg.Done()
			defer func() {
				if r := recover(); r != nil {
					err = fmt.Errorf("panic: %v", r)
				}
			}()
			c, err = entry.ToMultihashWithIO(ctx, e, a, nil, w)
		}()
		wg.Wait()
		return
	}

	// ---- one entry through the default codec: all monitors + one model case ----
	checkDefault := func(kind, class string, e *entry.Entry, expectWriteErr bool) (cid.Cid, bool) {
		res.Evaluations++
		c, werr := entry.ToMultihashWithIO(ctx, e, api, nil, io)
		if werr != nil {
			if !expectWriteErr {
				fail("write", "C08:write-error", werr.Error(), c08Describe(kind, class, e, cid.Undef, nil))
			}
			stats["write-error-expected"]++
			encList.add(fmt.Sprintf("Build_enc_case %s true [] [] %s", c08Entry(e), c08NoEntry), kind+" "+class+" write-error")
			return cid.Undef, false
		}
		raw := d.raw(c)
		desc := c08Describe(kind, class, e, c, raw)
		if expectWriteErr {
			fail("write", "C08:write-accepted", "a write that must fail succeeded", desc)
		}
		// the identifier is the hash of the stored bytes
		if sum, _ := mh.Sum(raw, mh.SHA2_256, -1); !bytes.Equal(sum, c.Hash()) || c.Type() != cid.DagCBOR || c.Version() != 1 {
			fail("cid-of-bytes", "C08:cid-not-hash-of-block", "identifier is not CIDv1(dag-cbor, sha2-256(block))", desc)
		}
		// (2) read back, field by field
		back, rerr := entry.FromMultihashWithIO(ctx, api, c, provider, io)
		if rerr != nil {
			fail("readback", "C08:readback-error", rerr.Error(), desc)
			return c, false
		}
		be := back.(*entry.Entry)
		for _, f := range c08Diff(e, back, c, class == "foreign-enc") {
			fail("readback-fields", "C08:readback-field:"+f, "field differs after write+read (default codec)", desc)
		}
		switch class {
		case "plain":
			if len(be.AdditionalData) != 0 {
				fail("readback-fields", "C08:readback-field:additional-data", "additional data appeared", desc)
			}
		case "foreign-keys":
			stats["additional-data-foreign-keys-not-stored"]++
		case "foreign-enc":
			if !c08MapsEqual(map[string]string{iface.KeyEncryptedLinks: e.AdditionalData[iface.KeyEncryptedLinks], iface.KeyEncryptedLinksNonce: e.AdditionalData[iface.KeyEncryptedLinksNonce]}, be.AdditionalData) &&
				(e.AdditionalData[iface.KeyEncryptedLinks] != "" || e.AdditionalData[iface.KeyEncryptedLinksNonce] != "") {
				fail("readback-fields", "C08:readback-field:additional-data", "the link strings stored in the block are not in the entry read back", desc)
			}
		}
		// nil-vs-empty byte strings are not distinguished by the format (hex "" / text ""): count only
		if (e.Key == nil) != (be.Key == nil) || (e.Sig == nil) != (be.Sig == nil) || (e.Payload == nil) != (be.Payload == nil) || (e.Clock.ID == nil) != (be.Clock.ID == nil) {
			stats["nil-byte-string-read-back-as-empty"]++
		}
		if e.V <= 1 && e.Refs != nil {
			stats["v<=1-refs-not-written"]++
		}
		// (3) re-encode what was read
		c2, err2 := writeFresh(back, api, io)
		if err2 != nil || !c2.Equals(c) {
			key := "C08:reencode-cid"
			if class == "foreign-enc" {
				key = "C08:reencode-cid:enc-additional-data"
			}
			fail("reencode", key, fmt.Sprintf("re-encoding the decoded entry gives %v (err %v), written %v", c2, err2, c), desc)
		}
		// (4) the same logical entry again: fresh goroutine, fresh store, shuffled map
		api2, _ := newAPI()
		c3, err3 := writeFresh(c08Clone(rng, e), api2, io)
		if err3 != nil || !c3.Equals(c) {
			fail("deterministic", "C08:nondeterministic", fmt.Sprintf("same logical entry encoded to %v (err %v) and %v", c3, err3, c), desc)
		}
		encList.add(fmt.Sprintf("Build_enc_case %s false %s %s %s", c08Entry(e), c08Bytes(c.Bytes()), c08Bytes(raw), c08Entry(be)), kind+" "+class+" "+c.String())
		sample(desc)
		return c, true
	}

	// ---- (6) pinned interoperability vectors first (fixed corpus) ----
	{
		userA := c08TestIdentity("userA")
		vec := func(name string, got cid.Cid, want string) {
			res.Evaluations++
			stats["interop-vectors"]++
			if !got.Defined() || !got.Equals(c08MustCid(want)) {
				fail("interop", "C08:interop-vector", fmt.Sprintf("%s: got %v, pinned %s", name, got, want), c08Case{Kind: "interop", Note: name})
			}
		}
		create := func(e *entry.Entry) *entry.Entry {
			out, err := entry.CreateEntryWithIO(ctx, api, userA, e, nil, io)
			if err != nil {
				fail("interop", "C08:interop-vector", "CreateEntry failed: "+err.Error(), c08Case{Kind: "interop"})
				return &entry.Entry{}
			}
			return out.(*entry.Entry)
		}
		e0 := create(&entry.Entry{Payload: []byte("hello"), LogID: "A"})
		vec("entry_test: creates an empty entry", e0.Hash, "zdpuAsPdzSyeux5mFsFV1y3WeHAShGNi4xo22cYBYWUdPtxVB")
		e1 := create(&entry.Entry{Payload: []byte("hello world"), LogID: "A"})
		vec("entry_test: creates an entry with payload", e1.Hash, "zdpuAyvJU3TS7LUdfRxwAnJorkz6NfpAWHGypsQEXLZxcCCRC")
		e1w := c08Clone(rng, e1) // as written, before the test ticks its clock
		e1.Clock.Tick()
		e2 := create(&entry.Entry{Payload: []byte("hello again"), LogID: "A", Next: []cid.Cid{e1.Hash}, Clock: e1.Clock})
		vec("entry_test: creates an entry with payload and next", e2.Hash, "zdpuAqsN9Py4EWSfrGYZS8tuokWuiTd9zhS8dhr9XpSGQajP2")
		e3 := create(&entry.Entry{Payload: []byte("hello again"), LogID: "A", Next: []cid.Cid{e1.Hash}})
		vec("entry_test: creates a entry from ipfs hash", e3.Hash, "zdpuAnRGWKPkMHqumqdkRJtzbyW6qAGEiBRv61Zj3Ts4j9tQF")
		for _, e := range []*entry.Entry{e0, e1w, e2, e3} {
			if e.Hash.Defined() {
				if c, ok := checkDefault("interop-created", "plain", c08Clone(rng, entry.Normalize(e, nil)), false); ok {
					vec("re-written created entry", c, e.Hash.String())
				}
			}
		}
		// v1 fixtures: every fixture's Hash field is the identifier of its block
		for i, f := range c08V1Fixtures(userA.Provider) {
			f := f
			want := f.Hash.String()
			if i == 4 {
				// the Hash constant of the fifth fixture ("five") is not the identifier of its own
				// content and no test asserts it; only recorded
				if c, _ := entry.ToMultihashWithIO(ctx, &f, api, nil, io); !c.Equals(f.Hash) {
					stats["v1-fixture-five-hash-constant-unasserted-and-not-its-cid"]++
				}
				continue
			}
			c, _ := entry.ToMultihashWithIO(ctx, &f, api, nil, io)
			vec(fmt.Sprintf("utils_fixtures_test: v1 fixture %d ToMultihash", i), c, want)
			cw, _ := io.Write(ctx, api, &f, nil)
			vec(fmt.Sprintf("utils_fixtures_test: v1 fixture %d io.Write", i), cw, want)
			n := entry.Normalize(&f, nil)
			n.Identity = n.Identity.Filtered()
			if c2, ok := checkDefault("interop-v1", "plain", n, false); ok {
				vec(fmt.Sprintf("v1 fixture %d through the monitors", i), c2, want)
			}
			back, err := entry.FromMultihashWithIO(ctx, api, c08MustCid(want), userA.Provider, io)
			if err != nil || back.GetV() != 1 || string(back.GetPayload()) != string(f.Payload) || back.GetLogID() != "A" ||
				len(back.GetNext()) != len(f.Next) || (len(f.Next) == 1 && !back.GetNext()[0].Equals(f.Next[0])) ||
				!bytes.Equal(back.GetKey(), f.Key) || !bytes.Equal(back.GetSig(), f.Sig) || back.GetClock().GetTime() != f.Clock.Time ||
				!bytes.Equal(back.GetClock().GetID(), f.Clock.ID) || back.GetIdentity() == nil || back.GetIdentity().ID != f.Identity.ID {
				fail("interop", "C08:interop-vector", fmt.Sprintf("v1 fixture %d does not decode to its fields (err %v)", i, err), c08Case{Kind: "interop-v1", Cid: want})
			}
		}
		// v0 fixtures through the legacy codec
		v0 := c08V0Fixtures()
		c, _ := entry.ToMultihashWithIO(ctx, v0["hello"], api, nil, pbio)
		vec("entry_test: multihash of a v0 entry", c, "Qmc2DEiLirMH73kHpuFPbt3V65sBrnDWkJYSjUQHXXvghT")
		c, _ = pbio.Write(ctx, api, v0["helloWorld"], nil)
		vec("entry_test: v0 fixture written with its hash field", c, "QmenUDpFksTa3Q9KmUJYjebqvHJcTF2sGQaCH7orY7bXKC")
		for _, name := range []string{"hello", "helloWorld", "helloAgain"} {
			f := v0[name]
			c, _ := pbio.Write(ctx, api, entry.Normalize(f, nil), nil)
			vec("log_load_test: Backwards-compatibility v0 "+name, c, f.Hash.String())
			c2, _ := pbio.Write(ctx, api, entry.Normalize(f, nil), nil)
			if !c2.Equals(c) {
				fail("deterministic", "C08:nondeterministic", "v0 block written twice differs", c08Case{Kind: "interop-v0", Note: name})
			}
			back, err := entry.FromMultihashWithIO(ctx, api, f.Hash, userA.Provider, pbio)
			res.Evaluations++
			if err != nil {
				fail("interop", "C08:interop-vector", "v0 block does not decode: "+err.Error(), c08Case{Kind: "interop-v0", Note: name})
				continue
			}
			if diff := c08Diff(f, back, f.Hash, false); len(diff) != 0 || back.GetIdentity() != nil {
				fail("interop", "C08:interop-vector", fmt.Sprintf("v0 fixture %s decodes with different %v", name, diff), c08Case{Kind: "interop-v0", Note: name})
			}
			if back.GetNext() == nil {
				fail("interop", "C08:interop-vector", "v0 next decoded as nil", c08Case{Kind: "interop-v0", Note: name})
			}
		}
	}

	// ---- (1)-(4) generated entries, default codec ----
	nGen := 110
	nCreate := 16
	nLink := 24
	nMan := 24
	if tier == "thorough" {
		nGen, nCreate, nLink, nMan = 1500, 150, 250, 200
	}
	for n := 0; n < nGen; n++ {
		g := c08GenEntry(rng, idents)
		shapes[g.shape] = struct{}{}
		stats["class:"+g.class]++
		if !utf8.Valid(g.e.Payload) {
			stats["payload-not-utf8"]++
		}
		expectErr := g.e.V == 0
		for _, c := range g.e.Next {
			if !c.Defined() && g.class != "foreign-enc" { // with both link strings Next is replaced by [] before marshalling
				expectErr = true
			}
		}
		checkDefault("generated", g.class, g.e, expectErr)
	}
	// entries made by the real creation path (signed, identity attached)
	var created []*entry.Entry
	for n := 0; n < nCreate; n++ {
		p, _ := c08Payload(rng)
		var next, refs []cid.Cid
		if len(created) > 0 {
			next = []cid.Cid{created[rng.Intn(len(created))].Hash}
			for i := 0; i < rng.Intn(4); i++ {
				refs = append(refs, created[rng.Intn(len(created))].Hash)
			}
		}
		in := &entry.Entry{Payload: p, LogID: "created", Next: next, Refs: refs}
		if rng.Intn(2) == 0 {
			in.Clock = entry.NewLamportClock(idents[0].PublicKey, c08Times[rng.Intn(14)])
		}
		id := idents[rng.Intn(len(idents))]
		out, err := entry.CreateEntryWithIO(ctx, api, id, in, nil, io)
		res.Evaluations++
		if err != nil {
			fail("write", "C08:write-error", "CreateEntryWithIO: "+err.Error(), c08Describe("created", "plain", in, cid.Undef, nil))
			continue
		}
		oe := out.(*entry.Entry)
		created = append(created, oe)
		w := c08Clone(rng, oe)
		w.Hash = cid.Undef
		if c, ok := checkDefault("created", "plain", w, false); ok && !c.Equals(oe.Hash) {
			fail("deterministic", "C08:nondeterministic", "CreateEntry's identifier differs from ToMultihash of the same entry", c08Describe("created", "plain", oe, c, nil))
		}
		shapes[fmt.Sprintf("created,n:%d,r:%d", len(next), c08MinInt(len(refs), 2))] = struct{}{}
	}

	// ---- (5) link-encrypting codec ----
	keyBytes := make([]byte, 32)
	rng.Read(keyBytes)
	key, err := enc.NewSecretbox(keyBytes)
	if err != nil {
		panic(err)
	}
	otherBytes := append([]byte{}, keyBytes...)
	otherBytes[31] ^= 1
	otherKey, _ := enc.NewSecretbox(otherBytes)
	lio := io.ApplyOptions(&cbor.Options{LinkKey: key})
	oio := io.ApplyOptions(&cbor.Options{LinkKey: otherKey})
	for n := 0; n < nLink; n++ {
		res.Evaluations++
		p, _ := c08Payload(rng)
		if len(p) > 4000 {
			p = p[:4000]
		}
		next, nc := c08CidList(rng, 5)
		refs, rc := c08CidList(rng, 20)
		in := &entry.Entry{Payload: p, LogID: "linked", Next: next, Refs: refs}
		if rng.Intn(2) == 0 {
			in.Clock = entry.NewLamportClock(idents[1].PublicKey, c08Times[rng.Intn(14)])
		}
		shapes["link,n:"+nc+",r:"+rc] = struct{}{}
		lid := idents[rng.Intn(len(idents))]
		out, err := entry.CreateEntryWithIO(ctx, api, lid, in, nil, lio)
		if err != nil {
			fail("write", "C08:write-error", "CreateEntryWithIO (link key): "+err.Error(), c08Describe("link", "link", in, cid.Undef, nil))
			continue
		}
		oe := out.(*entry.Entry)
		raw := d.raw(oe.Hash)
		desc := c08Describe("link", "link", oe, oe.Hash, raw)
		hasLinks := len(oe.Next) > 0 || len(oe.Refs) > 0
		if hasLinks {
			stats["link-entries-with-links"]++
		}
		back, err := entry.FromMultihashWithIO(ctx, api, oe.Hash, provider, lio)
		if err != nil {
			fail("readback", "C08:readback-error", "link key: "+err.Error(), desc)
			continue
		}
		be := back.(*entry.Entry)
		for _, f := range c08Diff(oe, back, oe.Hash, false) {
			fail("readback-fields", "C08:readback-field:"+f, "field differs after write+read with the same link key", desc)
		}
		if !c08MapsEqual(oe.AdditionalData, be.AdditionalData) {
			fail("readback-fields", "C08:readback-field:additional-data",
				fmt.Sprintf("AdditionalData written %d keys (enc_links, enc_links_nonce are stored in the block), read back %d keys", len(oe.AdditionalData), len(be.AdditionalData)), desc)
		}
		// deterministic: the same input entry created again gives the same block
		out2, err := entry.CreateEntryWithIO(ctx, api, lid, in, nil, lio)
		if err != nil || !out2.GetHash().Equals(oe.Hash) {
			fail("deterministic", "C08:nondeterministic", fmt.Sprintf("link key: second creation of the same entry gives another block (err %v)", err), desc)
		}
		// readers without / with another key
		nk, err := entry.FromMultihashWithIO(ctx, api, oe.Hash, provider, io)
		if err != nil {
			fail("readback", "C08:readback-error", "default codec on an encrypted-links block: "+err.Error(), desc)
			continue
		}
		if _, err := entry.FromMultihashWithIO(ctx, api, oe.Hash, provider, oio); (err == nil) == hasLinks {
			stats["link-other-key-unexpected"]++
		}
		// oracle values for the model: base64 and secretbox are third party
		var b64 []string
		plain := "None"
		if hasLinks {
			el, en := oe.AdditionalData[iface.KeyEncryptedLinks], oe.AdditionalData[iface.KeyEncryptedLinksNonce]
			box, err1 := base64.StdEncoding.DecodeString(el)
			nonce, err2 := base64.StdEncoding.DecodeString(en)
			if err1 != nil || err2 != nil {
				fail("readback", "C08:readback-error", "stored link strings are not base64", desc)
				continue
			}
			b64 = []string{fmt.Sprintf("(%s, %s)", c08Bytes([]byte(el)), c08Bytes(box)), fmt.Sprintf("(%s, %s)", c08Bytes([]byte(en)), c08Bytes(nonce))}
			m, err := key.OpenWithNonce(box, nonce)
			if err != nil {
				fail("readback", "C08:readback-error", "stored box does not open with the key", desc)
				continue
			}
			plain = "(Some " + c08Bytes(m) + ")"
		}
		linkList.add(fmt.Sprintf("Build_link_case %s %s %s [%s] %s %s %s", c08Entry(oe), c08Bytes(oe.Hash.Bytes()), c08Bytes(raw),
			strings.Join(b64, "; "), plain, c08Entry(be), c08Entry(nk.(*entry.Entry))), "link "+oe.Hash.String())
		if n < 2 {
			sample(desc)
		}
	}

	// ---- manifests ----
	for n := 0; n < nMan; n++ {
		res.Evaluations++
		heads, hc := c08CidList(rng, 6)
		id := []string{"A", "", "/orbitdb/zdpuAkk/a-log-with-a-longer-name", string(c08RandBytes(rng, 3, 40))}[rng.Intn(4)]
		shapes["manifest,h:"+hc] = struct{}{}
		jl := &iface.JSONLog{ID: id, Heads: heads}
		c, err := io.Write(ctx, api, jl, nil)
		if err != nil {
			fail("write", "C08:write-error", "manifest: "+err.Error(), c08Case{Kind: "manifest", Note: id})
			continue
		}
		raw := d.raw(c)
		desc := c08Case{Kind: "manifest", Cid: c.String(), Block: hex.EncodeToString(raw), Note: fmt.Sprintf("id=%q heads=%v", id, heads)}
		api2, _ := newAPI()
		var c2 cid.Cid
		var wg sync.WaitGroup
		wg.Add(1)
		go func() {
			defer wg.Done()
			c2, _ = io.Write(ctx, api2, &iface.JSONLog{ID: strings.Clone(id), Heads: append([]cid.Cid(nil), heads...)}, nil)
		}()
		wg.Wait()
		if heads != nil && len(heads) == 0 {
			c2, _ = io.Write(ctx, api2, &iface.JSONLog{ID: id, Heads: []cid.Cid{}}, nil)
		}
		if !c2.Equals(c) {
			fail("deterministic", "C08:nondeterministic", fmt.Sprintf("manifest encoded to %v and %v", c, c2), desc)
		}
		node, err := api.Dag().Get(ctx, c)
		if err != nil {
			fail("readback", "C08:readback-error", "manifest: "+err.Error(), desc)
			continue
		}
		back, err := io.DecodeRawJSONLog(node)
		if err != nil {
			fail("readback", "C08:readback-error", "manifest: "+err.Error(), desc)
			continue
		}
		if back.ID != id {
			fail("readback-fields", "C08:readback-field:manifest.id", "", desc)
		}
		if same, nd := c08CidsEqual(heads, back.Heads); !same {
			fail("readback-fields", "C08:readback-field:manifest.heads", "", desc)
		} else if nd {
			fail("readback-fields", "C08:readback-field:manifest.heads:nil-vs-empty", "", desc)
		}
		c3, _ := io.Write(ctx, api, back, nil)
		if !c3.Equals(c) {
			fail("reencode", "C08:reencode-cid", "manifest re-encoded differently", desc)
		}
		manList.add(fmt.Sprintf("Build_manifest_case %s %s %s %s %s", c08Bytes([]byte(id)), c08Cids(heads), c08Bytes(raw), c08Bytes([]byte(back.ID)), c08Cids(back.Heads)), "manifest "+c.String())
	}
	// manifests of real logs: ToMultihash twice, and from a second replica holding the same entries
	for n := 0; n < 4; n++ {
		res.Evaluations++
		l1, err := ipfslog.NewLog(api, idents[0], &ipfslog.LogOptions{ID: "c08log"})
		if err != nil {
			panic(err)
		}
		l2, _ := ipfslog.NewLog(api, idents[1], &ipfslog.LogOptions{ID: "c08log"})
		for i := 0; i <= n; i++ {
			if _, err := l1.Append(ctx, []byte(fmt.Sprintf("a%d-%d", n, i)), nil); err != nil {
				panic(err)
			}
			if _, err := l2.Append(ctx, []byte(fmt.Sprintf("b%d-%d", n, i)), nil); err != nil {
				panic(err)
			}
		}
		if n%2 == 1 {
			if _, err := l1.Join(l2, -1); err != nil {
				panic(err)
			}
		}
		h1, err1 := l1.ToMultihash(ctx)
		h2, err2 := l1.ToMultihash(ctx)
		if err1 != nil || err2 != nil || !h1.Equals(h2) {
			fail("deterministic", "C08:nondeterministic", fmt.Sprintf("log.ToMultihash twice: %v %v (%v %v)", h1, h2, err1, err2), c08Case{Kind: "log-manifest"})
			continue
		}
		l3, _ := ipfslog.NewLog(api, idents[2], &ipfslog.LogOptions{ID: "c08log"})
		if _, err := l3.Join(l1, -1); err == nil {
			if h3, err := l3.ToMultihash(ctx); err != nil || !h3.Equals(h1) {
				fail("deterministic", "C08:nondeterministic", fmt.Sprintf("manifest of a replica with the same entries: %v vs %v (%v)", h3, h1, err), c08Case{Kind: "log-manifest"})
			}
		}
		jl := l1.ToJSONLog()
		raw := d.raw(h1)
		manList.add(fmt.Sprintf("Build_manifest_case %s %s %s %s %s", c08Bytes([]byte(jl.ID)), c08Cids(jl.Heads), c08Bytes(raw), c08Bytes([]byte(jl.ID)), c08Cids(jl.Heads)), "log manifest "+h1.String())
		shapes[fmt.Sprintf("log-manifest,h:%d", len(jl.Heads))] = struct{}{}
	}

	// ---- output ----
	header := "From Coq Require Import List NArith ZArith.\nFrom IpfsLog Require Import Model.Cbor Model.EntryCodec Model.Check08.\nImport ListNotations.\nOpen Scope N_scope.\n"
	per := 12
	res.CaseFiles = writeShards(outDir, "C08", header, []*caseList{encList, linkList, manList}, per)
	res.ModelCases = len(encList.items) + len(linkList.items) + len(manList.items)
	res.Distinct = len(shapes)
	res.Rule = "distinct shape tuples (version class, payload class, next nil/empty/k, refs nil/empty/k, clock-time range, identity kind, AdditionalData kind, undefined link) of generated entries, plus link-codec (next,refs) shapes, manifest head shapes and created-entry link counts"
	for k, v := range stats {
		res.Stats[k] = v
	}
	res.Stats["enc_cases"] = len(encList.items)
	res.Stats["link_cases"] = len(linkList.items)
	res.Stats["manifest_cases"] = len(manList.items)
	res.Stats["generator"] = "payload: nil/empty/ascii/utf8/non-utf8/random 0..23/24..323/70000 bytes; next 0..5, refs 0..40 links (nil, empty, CIDv0 and CIDv1, repeated); clock times from {0,1,23,24,255,256,2^16-1,2^16,2^31,2^32-1,2^32,2^62,2^63-1,-1,-24,-25,-256,-257,-2^31,-2^62,-2^63} or random; v in {0,1,2,3..7,2^64-1}; identity nil/random/real; AdditionalData nil/empty/foreign keys/both link strings"
	// the most direct instance of a finding first (it becomes the replay file)
	sort.SliceStable(res.Failures, func(i, j int) bool {
		ki, _ := res.Failures[i].Case.(c08Case)
		kj, _ := res.Failures[j].Case.(c08Case)
		return ki.Kind == "link" && kj.Kind != "link"
	})
	if replayFile != "" {
		for _, f := range res.Failures {
			b, _ := json.MarshalIndent(f, "", " ")
			fmt.Println(string(b))
		}
	}
	return res
}
