package main

// C13 ("never deadlocks"): an operation that FAILS leaves the log usable.  Each probe makes one
// operation return an error on a fresh log - error returns are the paths on which a lock release is
// most easily forgotten - and then lets a writer and a reader run under a watchdog.  Sequential: the
// only "schedule" needed is "a failed call, then another call".

import (
	"context"
	"fmt"
	"time"

	"github.com/ipfs/go-cid"

	ipfslog "berty.tech/go-ipfs-log"
	"berty.tech/go-ipfs-log/entry"
	"berty.tech/go-ipfs-log/iface"
)

// what a reader was handed is a snapshot: entries, values and heads read before an append began do not
// change when the append happens (sequential half of "readers see a consistent state")
func c13ViewsAreSnapshots(t *c13Tally) {
	ctx := context.Background()
	w := newWorld()
	l, err := ipfslog.NewLog(w.api, w.idents["A"], &ipfslog.LogOptions{ID: "V"})
	if err != nil {
		panic(err)
	}
	for k := 0; k < 3; k++ {
		if _, err := l.Append(ctx, []byte(fmt.Sprintf("v%d", k)), nil); err != nil {
			panic(err)
		}
	}
	c := map[string]interface{}{"scenario": "views read before an append, looked at after it"}
	announce(c)
	ents, vals, heads, raw := l.GetEntries(), l.Values(), l.Heads(), l.RawHeads()
	before := [4]int{ents.Len(), vals.Len(), heads.Len(), raw.Len()}
	headBefore := hashesOf(heads.Slice())
	for k := 0; k < 2; k++ {
		if _, err := l.Append(ctx, []byte(fmt.Sprintf("later%d", k)), nil); err != nil {
			panic(err)
		}
	}
	t.res.Evaluations++
	after := [4]int{ents.Len(), vals.Len(), heads.Len(), raw.Len()}
	if before != after || !eqStrings(headBefore, hashesOf(heads.Slice())) {
		t.addFailure(monitorFailure{Property: t.prop, Monitor: "read-snapshot", Key: t.prop + ":read:view-not-a-snapshot", Case: c,
			Detail: fmt.Sprintf("GetEntries/Values/Heads/RawHeads read before two appends had %v elements, afterwards the SAME values have %v", before, after)})
	}
}

func c13ErrorPaths(t *c13Tally) {
	ctx := context.Background()
	type probe struct {
		name string
		run  func(w *world, full *ipfslog.IPFSLog) (*ipfslog.IPFSLog, error) // returns the log the failing call was made on
	}
	iter := func(l *ipfslog.IPFSLog, o *ipfslog.IteratorOptions) error {
		ch := make(chan iface.IPFSLogEntry, 64)
		return l.Iterator(o, ch)
	}
	partial := func(w *world, full *ipfslog.IPFSLog, from int) *ipfslog.IPFSLog {
		vals := full.Values().Slice()
		l, err := ipfslog.NewLog(w.api, w.idents["A"], &ipfslog.LogOptions{ID: "E", Entries: entry.NewOrderedMapFromEntries(vals[from:])})
		if err != nil {
			panic(err)
		}
		return l
	}
	probes := []probe{
		{"Iterator, exclusive upper bound = the oldest held entry of a log that holds a suffix of its history", func(w *world, full *ipfslog.IPFSLog) (*ipfslog.IPFSLog, error) {
			l := partial(w, full, 2)
			return l, iter(l, &ipfslog.IteratorOptions{LT: []cid.Cid{l.Values().Slice()[0].GetHash()}})
		}},
		{"Iterator, inclusive upper bound that is not held", func(w *world, full *ipfslog.IPFSLog) (*ipfslog.IPFSLog, error) {
			l := partial(w, full, 2)
			return l, iter(l, &ipfslog.IteratorOptions{LTE: []cid.Cid{full.Values().Slice()[0].GetHash()}})
		}},
		{"Iterator, exclusive upper bound that is not held", func(w *world, full *ipfslog.IPFSLog) (*ipfslog.IPFSLog, error) {
			l := partial(w, full, 2)
			return l, iter(l, &ipfslog.IteratorOptions{LT: []cid.Cid{full.Values().Slice()[0].GetHash()}})
		}},
		{"Iterator, unknown bounds of every kind", func(w *world, full *ipfslog.IPFSLog) (*ipfslog.IPFSLog, error) {
			return full, iter(full, &ipfslog.IteratorOptions{GT: w.unknown, LTE: []cid.Cid{w.unknown}})
		}},
		{"Join refused by the access controller", func(w *world, full *ipfslog.IPFSLog) (*ipfslog.IPFSLog, error) {
			l, err := ipfslog.NewLog(w.api, w.idents["B"], &ipfslog.LogOptions{ID: "E", AccessController: &denyAC{denied: map[string]bool{string(w.idents["A"].PublicKey): true}}})
			if err != nil {
				panic(err)
			}
			_, err = l.Join(full, -1)
			return l, err
		}},
		{"Append refused by the access controller", func(w *world, full *ipfslog.IPFSLog) (*ipfslog.IPFSLog, error) {
			l, err := ipfslog.NewLog(w.api, w.idents["A"], &ipfslog.LogOptions{ID: "E", AccessController: &denyAC{denied: map[string]bool{string(w.idents["A"].PublicKey): true}}})
			if err != nil {
				panic(err)
			}
			_, err = l.Append(ctx, []byte("refused"), nil)
			return l, err
		}},
		{"Append while the store refuses writes", func(w *world, full *ipfslog.IPFSLog) (*ipfslog.IPFSLog, error) {
			w.dag.failAdd = true
			_, err := full.Append(ctx, []byte("outage"), nil)
			w.dag.failAdd = false
			return full, err
		}},
		{"ToMultihash of an empty log", func(w *world, full *ipfslog.IPFSLog) (*ipfslog.IPFSLog, error) {
			l, err := ipfslog.NewLog(w.api, w.idents["A"], &ipfslog.LogOptions{ID: "E"})
			if err != nil {
				panic(err)
			}
			_, err = l.ToMultihash(ctx)
			return l, err
		}},
	}
	for _, p := range probes {
		w := newWorld()
		full, err := ipfslog.NewLog(w.api, w.idents["A"], &ipfslog.LogOptions{ID: "E"})
		if err != nil {
			panic(err)
		}
		for k := 0; k < 5; k++ {
			if _, err := full.Append(ctx, []byte(fmt.Sprintf("e%d", k)), nil); err != nil {
				panic(err)
			}
		}
		c := map[string]interface{}{"scenario": "a failed operation, then a writer and a reader on the same log", "failed_operation": p.name}
		announce(c)
		type outcome struct {
			l   *ipfslog.IPFSLog
			err error
		}
		first := make(chan outcome, 1)
		go func() {
			l, err := p.run(w, full)
			first <- outcome{l, err}
		}()
		var o outcome
		select {
		case o = <-first:
		case <-time.After(c13Watchdog):
			t.res.Evaluations++
			t.addFailure(monitorFailure{Property: t.prop, Monitor: "completion", Key: t.prop + ":deadlock", Case: c, Detail: "the operation itself did not return within " + c13Watchdog.String()})
			continue
		}
		t.res.Evaluations++
		if o.err == nil {
			continue // the operation is accepted on this tree: nothing to learn here about error paths
		}
		c["error"] = o.err.Error()
		done := make(chan string, 1)
		go func() {
			// a writer that does not depend on the access controller or the store, then a reader
			o.l.SetIdentity(w.idents["A"])
			_ = o.l.Values()
			done <- ""
		}()
		select {
		case <-done:
		case <-time.After(c13Watchdog):
			t.addFailure(monitorFailure{Property: t.prop, Monitor: "completion", Key: t.prop + ":deadlock", Case: c,
				Detail: fmt.Sprintf("after the call returned %q, SetIdentity followed by Values() on the same log did not complete within %v: the failed call left the log locked", o.err.Error(), c13Watchdog)})
		}
	}
}
