package main

import (
	"flag"
	"fmt"
	"os"
	"path/filepath"
)

func main() {
	prop := flag.String("prop", "", "property id (C01..C20)")
	seed := flag.Int64("seed", 1, "PRNG seed")
	tier := flag.String("tier", "quick", "quick|thorough")
	out := flag.String("out", "", "output directory")
	replay := flag.String("replay", "", "replay file")
	flag.Parse()
	if *out == "" {
		fmt.Fprintln(os.Stderr, "missing -out")
		os.Exit(2)
	}
	if err := os.MkdirAll(*out, 0o755); err != nil {
		panic(err)
	}
	run, ok := runners[*prop]
	if !ok {
		fmt.Fprintln(os.Stderr, "unknown property", *prop)
		os.Exit(2)
	}
	replayFile = *replay
	outDirGlobal = *out
	res := run(*seed, *tier, *out)
	writeJSON(filepath.Join(*out, "result.json"), res)
}

// runners: one entry per property, registered by the property's own file in init().
var runners = map[string]func(seed int64, tier string, outDir string) *result{}

// replayFile is the path given with -replay ("" when none); a runner that supports replay
// re-executes only the recorded case.
var replayFile string

// announce records the case the harness is about to run (current_case.json in the output
// directory): if the process then dies inside the library, the driver reports that case as the
// failing input.
var outDirGlobal string

func announce(c interface{}) {
	if outDirGlobal != "" {
		writeJSON(filepath.Join(outDirGlobal, "current_case.json"), c)
	}
}

func register(prop string, f func(seed int64, tier string, outDir string) *result) {
	runners[prop] = f
}
