package main

import (
	"flag"
	"fmt"
	"os"
	"path/filepath"
)

func main() {
	prop := flag.String("prop", "", "property id (C01..C20)")
	seed := flag.Int64("seed", 1, "PRNG seed")
	tier := flag.String("tier", "quick", "quick|thorough")
	out := flag.String("out", "", "output directory")
	replay := flag.String("replay", "", "replay file")
	flag.Parse()
	if *out == "" {
		fmt.Fprintln(os.Stderr, "missing -out")
		os.Exit(2)
	}
	if err := os.MkdirAll(*out, 0o755); err != nil {
		panic(err)
	}
	_ = replay
	var res *result
	switch *prop {
	case "C19":
		res = runC19(*seed, *tier, *out)
	default:
		fmt.Fprintln(os.Stderr, "unknown property", *prop)
		os.Exit(2)
	}
	writeJSON(filepath.Join(*out, "result.json"), res)
}
