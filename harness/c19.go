package main

// C19: comparator laws and sorting.  Runs the real sorting package on pools of entries mixing
// equal/unequal clock times, clock ids and hashes; evaluates the laws directly (monitor) and
// records every observation for comparison with the Coq model (Model/Order.v).

import (
	"fmt"
	"math"
	"math/rand"
	"sort"
	"strings"

	"github.com/ipfs/go-cid"
	mh "github.com/multiformats/go-multihash"

	"berty.tech/go-ipfs-log/entry"
	"berty.tech/go-ipfs-log/entry/sorting"
	"berty.tech/go-ipfs-log/iface"
)

func fakeCid(s string) cid.Cid {
	h, err := mh.Sum([]byte(s), mh.SHA2_256, -1)
	if err != nil {
		panic(err)
	}
	return cid.NewCidV1(cid.DagCBOR, h)
}

type skey struct {
	Time int    `json:"time"`
	ID   string `json:"id"`   // hex of id bytes
	Hash string `json:"hash"` // cid string
	e    iface.IPFSLogEntry
}

type cmpFn struct {
	name string
	f    func(a, b iface.IPFSLogEntry) (int, error)
}

func c19Fns() []cmpFn {
	return []cmpFn{
		{"lww", sorting.LastWriteWins},
		{"fww", sorting.FirstWriteWins},
		{"hash", sorting.SortByEntryHash},
		{"compare", sorting.Compare},
		{"nz_lww", sorting.NoZeroes(sorting.LastWriteWins)},
		{"nz_fww", sorting.NoZeroes(sorting.FirstWriteWins)},
		{"nz_hash", sorting.NoZeroes(sorting.SortByEntryHash)},
		{"nz_compare", sorting.NoZeroes(sorting.Compare)},
	}
}

func cresStr(v int, err error) string {
	if err != nil {
		return "CErr"
	}
	return "(COk " + coqZ(int64(v)) + ")"
}

func sgn(v int) int {
	if v < 0 {
		return -1
	}
	if v > 0 {
		return 1
	}
	return 0
}

func init() { register("C19", runC19) }

func runC19(seed int64, tier string, outDir string) *result {
	rng := rand.New(rand.NewSource(seed))
	res := &result{Property: "C19", Seed: seed, Tier: tier, Stats: map[string]interface{}{}}

	// ---- pool ----
	// nothing ties a block's clock id to a key: the empty id and the absent id are ids too
	ids := [][]byte{{0x02, 0x10}, {0x02, 0x10, 0x00}, {0x03, 0x01}, {0x02}, {}, nil}
	timesIn := []int{0, 1, 2, 7, 1 << 40, math.MaxInt64}
	timesOut := []int{-1, -5, math.MinInt64, math.MinInt64 + 1}
	nh := 6
	if tier == "thorough" {
		nh = 10
		for i := 0; i < 8; i++ {
			timesIn = append(timesIn, rng.Intn(1<<30))
		}
	}
	var hashes []cid.Cid
	for i := 0; i < nh; i++ {
		hashes = append(hashes, fakeCid(fmt.Sprintf("c19-%d-%d", seed, i)))
	}
	// distinct CIDs over ONE digest (a dag-pb block addressed as CIDv0 and as CIDv1, and the same
	// digest under the dag-cbor codec): they are different hashes and must be ordered
	{
		digest := hashes[0].Hash()
		hashes = append(hashes, cid.NewCidV0(digest), cid.NewCidV1(cid.DagProtobuf, digest))
		nh = len(hashes)
	}
	rk := newRanker()
	for _, id := range ids {
		rk.add(string(id))
	}
	hk := newRanker()
	for _, h := range hashes {
		hk.add(h.String())
	}
	rk.freeze()
	hk.freeze()
	// order preservation of the rank maps is what the model relies on: check it here
	for _, a := range ids {
		for _, b := range ids {
			if sgn(strings.Compare(string(a), string(b))) != sgn(rk.rank(string(a))-rk.rank(string(b))) {
				panic("rank map not order preserving")
			}
		}
	}

	mk := func(t int, id []byte, h cid.Cid) skey {
		e := &entry.Entry{Hash: h, Clock: entry.NewLamportClock(id, t), LogID: "x", Payload: []byte("p")}
		return skey{Time: t, ID: fmt.Sprintf("%x", id), Hash: h.String(), e: e}
	}
	coqKey := func(k skey) string {
		return fmt.Sprintf("(Build_skey %s %s %s)", coqZ(int64(k.Time)),
			coqN(rk.rank(string(k.e.GetClock().GetID()))), coqN(hk.rank(k.Hash)))
	}

	// the same keys on entries of an application-defined type whose clock is an application-defined
	// type too (the codecs and LogOptions take prototypes of both): its Compare orders by time alone,
	// which is all the ordering functions may rely on - they compare the ids themselves
	mkc := func(t int, id []byte, h cid.Cid) skey {
		e := &c19Entry{Entry: &entry.Entry{Hash: h, LogID: "x", Payload: []byte("p")}, clk: &c19TimeClock{id: id, t: t}}
		return skey{Time: t, ID: fmt.Sprintf("%x", id), Hash: h.String(), e: e}
	}
	var poolIn, poolOut, poolCustom []skey
	for _, t := range timesIn {
		for _, id := range ids {
			poolCustom = append(poolCustom, mkc(t, id, hashes[rng.Intn(nh)]))
			if rng.Intn(2) == 0 {
				poolCustom = append(poolCustom, mkc(t, id, hashes[rng.Intn(nh)]))
			}
		}
	}
	for _, t := range timesIn {
		for _, id := range ids {
			// two different hashes per (time,id) so that ties exist
			poolIn = append(poolIn, mk(t, id, hashes[rng.Intn(nh)]))
			if rng.Intn(2) == 0 || tier == "thorough" {
				poolIn = append(poolIn, mk(t, id, hashes[rng.Intn(nh)]))
			}
		}
	}
	for _, t := range timesOut {
		for _, id := range ids[:2] {
			poolOut = append(poolOut, mk(t, id, hashes[rng.Intn(nh)]))
		}
	}
	fns := c19Fns()

	fail := func(mon, key, detail string, c interface{}) {
		if len(res.Failures) < 50 {
			res.Failures = append(res.Failures, monitorFailure{Property: "C19", Monitor: mon, Detail: detail, Case: c, Key: key})
		}
	}

	// ---- pair cases (model comparison) + pair laws (monitor) ----
	header := "From IpfsLog Require Import Model.Order Model.Check19.\nOpen Scope Z_scope.\n"
	pairList := &caseList{name: "pair_cases", typ: "pair_case", checker: "mismatches_pairs"}
	sortList := &caseList{name: "sort_cases", typ: "sort_case", checker: "mismatches_sorts"}
	customList := &caseList{name: "custom_pair_cases", typ: "pair_case", checker: "mismatches_pairs_custom"}
	nPairs, nCustomPairs := 0, 0
	distinctClass := map[string]struct{}{}
	pairs := func(pool []skey, inRange bool, model bool) {
		for _, a := range pool {
			for _, b := range pool {
				obs := make([]string, len(fns))
				vals := make([]int, len(fns))
				errs := make([]error, len(fns))
				for i, fn := range fns {
					v, err := fn.f(a.e, b.e)
					vals[i], errs[i] = v, err
					obs[i] = cresStr(v, err)
				}
				if model {
					pairList.add(fmt.Sprintf("Build_pair_case %s %s %s", coqKey(a), coqKey(b), coqList(obs)),
						fmt.Sprintf("pair a=(%d,%s,%s) b=(%d,%s,%s)", a.Time, a.ID, a.Hash, b.Time, b.ID, b.Hash))
					nPairs++
				} else {
					customList.add(fmt.Sprintf("Build_pair_case %s %s %s", coqKey(a), coqKey(b), coqList(obs)),
						fmt.Sprintf("custom clock type: pair a=(%d,%s,%s) b=(%d,%s,%s)", a.Time, a.ID, a.Hash, b.Time, b.ID, b.Hash))
					nCustomPairs++
				}
				cls := fmt.Sprintf("%d/%d/%d", sgn(a.Time-b.Time)*boolInt(inRange), sgn(strings.Compare(a.ID, b.ID)), sgn(strings.Compare(a.Hash, b.Hash)))
				distinctClass[cls] = struct{}{}
				keySuffix := ""
				if !inRange {
					keySuffix = ":negative-time"
				}
				if !model {
					keySuffix = ":custom-clock-type"
				}
				// monitor: laws on this pair
				lww, fww, hsh, cmp := vals[0], vals[1], vals[2], vals[3]
				hb, _ := sorting.SortByEntryHash(b.e, a.e)
				cb, _ := sorting.Compare(b.e, a.e)
				c := map[string]interface{}{"a": a, "b": b}
				if sgn(hb) != -sgn(hsh) {
					fail("hash-antisymmetric", "C19:hash-antisym"+keySuffix, fmt.Sprintf("hash(a,b)=%d hash(b,a)=%d", hsh, hb), c)
				}
				if sgn(cb) != -sgn(cmp) {
					fail("clock-antisymmetric", "C19:clock-antisym"+keySuffix, fmt.Sprintf("cmp(a,b)=%d cmp(b,a)=%d", cmp, cb), c)
				}
				if a.Hash != b.Hash && hsh == 0 {
					fail("hash-total", "C19:hash-total"+keySuffix, "distinct hashes compare equal", c)
				}
				if a.Hash == b.Hash && a.Time == b.Time && a.ID == b.ID && hsh != 0 {
					fail("hash-irreflexive", "C19:hash-irrefl"+keySuffix, "equal keys compare unequal", c)
				}
				if (a.Time != b.Time || a.ID != b.ID) && sgn(lww) != sgn(hsh) {
					fail("default-same-when-distinct", "C19:lww-eq-hash"+keySuffix, fmt.Sprintf("lww=%d hash=%d", lww, hsh), c)
				}
				if a.Time < b.Time && !(hsh < 0 && lww < 0 && cmp < 0) {
					fail("respects-time", "C19:respects-time"+keySuffix, fmt.Sprintf("a.time<b.time but hash=%d lww=%d cmp=%d", hsh, lww, cmp), c)
				}
				if fww != -lww || sgn(fww) != -sgn(lww) {
					fail("fww-reverse", "C19:fww-reverse"+keySuffix, fmt.Sprintf("lww=%d fww=%d", lww, fww), c)
				}
			}
		}
	}
	pairs(poolIn, true, true)
	pairs(append(append([]skey{}, poolOut...), poolIn[:6]...), false, true)
	pairs(poolCustom, true, false)
	// sorting entries of the custom type with pairwise distinct (time, id): every ordering is total
	// there, so the result cannot depend on the order of the input
	for n := 0; n < 60; n++ {
		used := map[string]bool{}
		var in []iface.IPFSLogEntry
		for _, k := range rng.Perm(len(poolCustom)) {
			c := poolCustom[k]
			if tk := fmt.Sprintf("%d/%s", c.Time, c.ID); !used[tk] && len(in) < 12 {
				used[tk] = true
				in = append(in, c.e)
			}
		}
		fi := []int{0, 1, 2}[n%3]
		a := append([]iface.IPFSLogEntry{}, in...)
		b := make([]iface.IPFSLogEntry, len(in))
		for i, j := range rng.Perm(len(in)) {
			b[i] = in[j]
		}
		sorting.Sort(fns[fi].f, a, n%2 == 0)
		sorting.Sort(fns[fi].f, b, n%2 == 0)
		nCustomPairs++
		for i := range a {
			if a[i] != b[i] {
				fail("sort-deterministic", "C19:sort-order-dependent:custom-clock-type", "sorting a permutation of entries with pairwise distinct (time, id) gave a different order",
					map[string]interface{}{"fn": fns[fi].name, "n": len(in)})
				break
			}
		}
	}

	// ---- triples (monitor only: transitivity) ----
	nTriples := 0
	trip := func(pool []skey, keySuffix string, limit int) {
		for n := 0; n < limit; n++ {
			a, b, c := pick(rng, pool), pick(rng, pool), pick(rng, pool)
			nTriples++
			ab, _ := sorting.SortByEntryHash(a.e, b.e)
			bc, _ := sorting.SortByEntryHash(b.e, c.e)
			ac, _ := sorting.SortByEntryHash(a.e, c.e)
			if ab < 0 && bc < 0 && !(ac < 0) {
				fail("hash-transitive", "C19:hash-trans"+keySuffix, fmt.Sprintf("ab=%d bc=%d ac=%d", ab, bc, ac), map[string]interface{}{"a": a, "b": b, "c": c})
			}
			ab, _ = sorting.Compare(a.e, b.e)
			bc, _ = sorting.Compare(b.e, c.e)
			ac, _ = sorting.Compare(a.e, c.e)
			if ab < 0 && bc < 0 && !(ac < 0) {
				fail("clock-transitive", "C19:clock-trans"+keySuffix, fmt.Sprintf("ab=%d bc=%d ac=%d", ab, bc, ac), map[string]interface{}{"a": a, "b": b, "c": c})
			}
		}
	}
	nt := 20000
	if tier == "thorough" {
		nt = 400000
	}
	trip(poolIn, "", nt)
	trip(append(append([]skey{}, poolOut...), poolIn...), ":negative-time", nt/4)

	// ---- sort cases ----
	nSorts := 0
	nsort := 150
	if tier == "thorough" {
		nsort = 1500
	}
	for n := 0; n < nsort; n++ {
		fi := rng.Intn(len(fns))
		rev := rng.Intn(2) == 0
		// up to 20 elements: sort.SliceStable is a plain insertion sort, which is what the model
		// runs, so the comparison is exact even for the inconsistent comparator LWW is on ties.
		// Longer lists (up to 60) only with distinct hashes and the hash ordering (total order).
		ln := rng.Intn(21)
		long := rng.Intn(5) == 0 || n == 7
		var in []skey
		if long {
			fi = []int{2, 6}[rng.Intn(2)]
			ln = 21 + rng.Intn(40)
			if rng.Intn(8) == 0 || n == 7 {
				ln = 1024 + rng.Intn(2200) // lists beyond a thousand entries (a replica catching up) sort like short ones
			}
			used := map[string]bool{}
			for len(in) < ln {
				k := mk(pick(rng, timesIn), pick(rng, ids), fakeCid(fmt.Sprintf("long-%d-%d-%d", seed, n, len(in))))
				if !used[k.Hash] {
					used[k.Hash] = true
					in = append(in, k)
				}
			}
		} else {
			for len(in) < ln {
				in = append(in, pick(rng, poolIn))
			}
		}
		vals := make([]iface.IPFSLogEntry, len(in))
		for i := range in {
			vals[i] = in[i].e
		}
		sorting.Sort(fns[fi].f, vals, rev)
		if long {
			// long lists use fresh hashes unknown to the rank map: compare by the monitor only
			// (sorted + permutation), and check order independence on a shuffle
			shuf := make([]iface.IPFSLogEntry, len(in))
			for i, j := range rng.Perm(len(in)) {
				shuf[i] = in[j].e
			}
			sorting.Sort(fns[fi].f, shuf, rev)
			for i := range vals {
				if vals[i] != shuf[i] {
					fail("sort-deterministic", "C19:sort-order-dependent", "sorting a permutation of the same distinct entries gave a different order", map[string]interface{}{"fn": fns[fi].name, "rev": rev, "n": len(in)})
					break
				}
			}
			for i := 0; i+1 < len(vals); i++ {
				v, _ := sorting.SortByEntryHash(vals[i], vals[i+1])
				if (rev && v < 0) || (!rev && v > 0) {
					fail("sort-sorted", "C19:sort-unsorted", "output not sorted", map[string]interface{}{"fn": fns[fi].name, "rev": rev, "n": len(in)})
					break
				}
			}
			continue
		}
		outIdx := make([]string, len(vals))
		seen := map[iface.IPFSLogEntry]int{}
		for i, v := range vals {
			seen[v]++
			found := false
			for _, k := range in {
				if k.e == v {
					outIdx[i] = coqKey(k)
					found = true
					break
				}
			}
			if !found {
				fail("sort-permutation", "C19:sort-not-permutation", "output contains an element that is not in the input", nil)
			}
		}
		inCount := map[iface.IPFSLogEntry]int{}
		for _, k := range in {
			inCount[k.e]++
		}
		for e, c := range inCount {
			if seen[e] != c {
				fail("sort-permutation", "C19:sort-not-permutation", "multiplicities differ", nil)
			}
		}
		inStr := make([]string, len(in))
		for i, k := range in {
			inStr[i] = coqKey(k)
		}
		lab := fmt.Sprintf("sort fn=%s rev=%v in=", fns[fi].name, rev)
		for _, k := range in {
			lab += fmt.Sprintf("(%d,%s,%s)", k.Time, k.ID, k.Hash)
		}
		sortList.add(fmt.Sprintf("Build_sort_case %s %s %s %s", coqNat(fi), coqBool(rev), coqList(inStr), coqList(outIdx)), lab)
		nSorts++
	}
	res.CaseFiles = writeShards(outDir, "C19", header, []*caseList{pairList, sortList, customList}, 250)
	res.ModelCases = nPairs + nSorts + len(customList.items)
	// the orderings look at the entries as they are NOW: an entry object that is given another hash
	// after it has been compared (SetHash is public; the codecs and CreateEntry use it) ranks by that hash
	nRehash := 0
	for k := 0; k < 40; k++ {
		id := []byte(fmt.Sprintf("rehash-%d", k%3))
		t := rng.Intn(5)
		hs := []cid.Cid{fakeCid(fmt.Sprintf("rh-a-%d-%d", seed, k)), fakeCid(fmt.Sprintf("rh-b-%d-%d", seed, k)), fakeCid(fmt.Sprintf("rh-c-%d-%d", seed, k))}
		e := &entry.Entry{Hash: hs[0], Clock: entry.NewLamportClock(id, t)}
		o := &entry.Entry{Hash: hs[1], Clock: entry.NewLamportClock(id, t)}
		for step, h := range []cid.Cid{hs[0], hs[2], hs[1], hs[0]} {
			if step > 0 {
				e.SetHash(h)
			}
			nRehash++
			got, err := sorting.SortByEntryHash(e, o)
			want := sgn(strings.Compare(h.String(), hs[1].String()))
			if err != nil || sgn(got) != want {
				fail("hash-tiebreak-current", "C19:tiebreak-ignores-current-hash", fmt.Sprintf("entries with equal clocks: after SetHash the first carries %s, the second %s; the hash ordering answers %d (err %v), the hashes compare %d", h, hs[1], got, err, want), map[string]interface{}{"step": step})
				break
			}
			vals := []iface.IPFSLogEntry{o, e}
			sorting.Sort(sorting.SortByEntryHash, vals, false)
			if want < 0 && vals[0] != iface.IPFSLogEntry(e) || want > 0 && vals[0] != iface.IPFSLogEntry(o) {
				fail("hash-tiebreak-current", "C19:tiebreak-ignores-current-hash", "Sort does not order two equal-clock entries by their current hashes", map[string]interface{}{"step": step})
				break
			}
		}
	}
	res.Evaluations = nPairs + nCustomPairs + nTriples + nSorts + nRehash
	res.Distinct = len(distinctClass)
	res.Rule = "pairs: full square of a pool of sort keys over {times} x {ids} x 2 random hashes (in-range times) plus a pool with negative/extreme times; a pair class is (sign of time diff, sign of id diff, sign of hash diff), distinct_nontrivial counts the classes hit; triples: random; sorts: random lists of 0..20 pool elements (with ties) under all 8 comparator variants, both directions, plus lists of 21..60 distinct entries under the hash ordering"
	cl := make([]string, 0, len(distinctClass))
	for k := range distinctClass {
		cl = append(cl, k)
	}
	sort.Strings(cl)
	res.Stats["pair_cases"] = nPairs
	res.Stats["custom_clock_type_cases"] = nCustomPairs
	res.Stats["triple_cases"] = nTriples
	res.Stats["sort_cases_model"] = nSorts
	res.Stats["pair_classes"] = cl
	res.Samples = []interface{}{pairList.labels[0], pairList.labels[len(pairList.labels)/2], sortList.labels[len(sortList.labels)-1]}
	return res
}

// c19Entry / c19TimeClock: an application-defined entry type with an application-defined clock
type c19Entry struct {
	*entry.Entry
	clk iface.IPFSLogLamportClock
}

func (e *c19Entry) GetClock() iface.IPFSLogLamportClock { return e.clk }

type c19TimeClock struct {
	id []byte
	t  int
}

func (c *c19TimeClock) New() iface.IPFSLogLamportClock { return &c19TimeClock{} }
func (c *c19TimeClock) Defined() bool                  { return c != nil }
func (c *c19TimeClock) GetID() []byte                  { return c.id }
func (c *c19TimeClock) GetTime() int                   { return c.t }
func (c *c19TimeClock) SetID(id []byte)                { c.id = id }
func (c *c19TimeClock) SetTime(t int)                  { c.t = t }
func (c *c19TimeClock) Tick() iface.IPFSLogLamportClock {
	c.t++
	return &c19TimeClock{id: c.id, t: c.t}
}
func (c *c19TimeClock) Merge(o iface.IPFSLogLamportClock) iface.IPFSLogLamportClock {
	if o.GetTime() > c.t {
		c.t = o.GetTime()
	}
	return &c19TimeClock{id: c.id, t: c.t}
}
func (c *c19TimeClock) Compare(o iface.IPFSLogLamportClock) int {
	switch {
	case c.t < o.GetTime():
		return -1
	case c.t > o.GetTime():
		return 1
	}
	return 0
}

func boolInt(b bool) int {
	if b {
		return 1
	}
	return 2
}
