package main

// C11 (and the shared fetcher machinery used by C09 and C10): drives the real entry.FetchAll /
// loaders over stored DAGs built with the real IPFSLog (Append/Join), under injected faults and
// forced or free completion schedules, records the event trace through the verifhook points and
// the store's gate, evaluates the property's monitors directly and writes model cases
// (Model/Check11.v: the Coq model must accept the observed trace and produce the same results).

import (
	"berty.tech/go-ipfs-log/enc"
	"context"
	"encoding/hex"
	"encoding/json"
	"fmt"
	"math/rand"
	"sort"
	"strings"
	"sync"
	"time"

	"github.com/ipfs/go-cid"
	"github.com/ipfs/go-datastore"
	dssync "github.com/ipfs/go-datastore/sync"
	"github.com/libp2p/go-libp2p/core/crypto"

	ipfslog "berty.tech/go-ipfs-log"
	"berty.tech/go-ipfs-log/accesscontroller"
	"berty.tech/go-ipfs-log/entry"
	idp "berty.tech/go-ipfs-log/identityprovider"
	"berty.tech/go-ipfs-log/iface"
	"berty.tech/go-ipfs-log/io/cbor"
	"berty.tech/go-ipfs-log/keystore"
	"berty.tech/go-ipfs-log/verifhook"
)

func init() { register("C11", runC11) }

// ---------------------------------------------------------------------------------------------
// stored DAGs

type c11Entry struct {
	cid   cid.Cid
	next  []cid.Cid
	refs  []cid.Cid
	time  int
	id    string // clock id bytes
	logID string
	e     iface.IPFSLogEntry
}

type c11Dag struct {
	name    string // name of the Coq store definition
	kind    string
	api     *memAPI
	dag     *memDag
	env     *identEnv
	idents  []string
	logs    []*ipfslog.IPFSLog
	entries map[cid.Cid]*c11Entry
	order   []cid.Cid  // entry cids, sorted by cid string
	gate    *c11GateAC // access controller of every replica (refuses appends while gate.deny is set)
}

// c11LinkKey, when set, makes c11IO return a cbor IO that encrypts the next/refs links of the blocks
// it writes (set per history by the runner, before the history's logs are created)
var c11LinkKey []byte

func c11IO() iface.IO {
	io, err := cbor.IO(&entry.Entry{}, &entry.LamportClock{})
	if err != nil {
		panic(err)
	}
	if c11LinkKey != nil {
		key, err := enc.NewSecretbox(c11LinkKey)
		if err != nil {
			panic(err)
		}
		return io.ApplyOptions(&cbor.Options{LinkKey: key})
	}
	return io
}

// c11NewDag creates nrep replicas of one log ("X"); identNames[i] is the identity of replica i
// (repeat a name to let two replicas share an identity, which creates (id,time) ties).
func c11NewDag(kind string, identNames []string) *c11Dag {
	api, dag := newAPI()
	uniq := map[string]bool{}
	var names []string
	for _, n := range identNames {
		if !uniq[n] {
			uniq[n] = true
			names = append(names, n)
		}
	}
	env := c11NewIdentEnv(names...)
	d := &c11Dag{kind: kind, api: api, dag: dag, env: env, idents: identNames, entries: map[cid.Cid]*c11Entry{}, gate: &c11GateAC{}}
	for _, n := range identNames {
		l, err := ipfslog.NewLog(api, env.identity(n), &ipfslog.LogOptions{ID: "X", IO: c11IO(), AccessController: d.gate})
		if err != nil {
			panic(err)
		}
		d.logs = append(d.logs, l)
	}
	return d
}

// c11NewIdentEnv: like newIdentEnv, but ALSO seeds the second key of every identity.
// identityprovider.CreateIdentity signs with two keys: the one stored under the identity's name
// (seeded by newIdentEnv) and one stored under the hex of that key's public key, which the
// keystore creates at random when it is missing.  The second one is the identity's PublicKey,
// i.e. the clock id of every entry, so without this the CIDs and the order of clock ids differ
// from run to run.
func c11NewIdentEnv(names ...string) *identEnv {
	ds := dssync.MutexWrap(datastore.NewMapDatastore())
	for _, n := range names {
		k1 := seedKey(n)
		if err := ds.Put(context.Background(), datastore.NewKey(n), k1); err != nil {
			panic(err)
		}
		priv, err := crypto.UnmarshalSecp256k1PrivateKey(k1)
		if err != nil {
			panic(err)
		}
		pub, err := priv.GetPublic().Raw()
		if err != nil {
			panic(err)
		}
		id := hex.EncodeToString(pub)
		if err := ds.Put(context.Background(), datastore.NewKey(id), seedKey("second:"+n)); err != nil {
			panic(err)
		}
	}
	ks, err := keystore.NewKeystore(ds)
	if err != nil {
		panic(err)
	}
	return &identEnv{ds: ds, ks: ks}
}

func (d *c11Dag) append(r int, payload string, pointerCount int) iface.IPFSLogEntry {
	e, err := d.logs[r].Append(context.Background(), []byte(payload), &ipfslog.AppendOptions{PointerCount: pointerCount})
	if err != nil {
		panic(err)
	}
	d.note(e)
	return e
}

func (d *c11Dag) join(r, s int) {
	if r == s {
		return
	}
	if _, err := d.logs[r].Join(d.logs[s], -1); err != nil {
		panic(err)
	}
}

func (d *c11Dag) note(e iface.IPFSLogEntry) {
	c := e.GetHash()
	if _, ok := d.entries[c]; ok {
		return
	}
	d.entries[c] = &c11Entry{cid: c, next: append([]cid.Cid{}, e.GetNext()...), refs: append([]cid.Cid{}, e.GetRefs()...),
		time: e.GetClock().GetTime(), id: string(e.GetClock().GetID()), logID: e.GetLogID(), e: e}
	d.order = append(d.order, c)
	sort.Slice(d.order, func(i, j int) bool { return d.order[i].String() < d.order[j].String() })
}

// c11RandomHistory performs nsteps random operations (appends with pointer counts 1..64, joins).
func (d *c11Dag) randomHistory(rng *rand.Rand, nsteps int, tag string, afterStep func(step int)) {
	n := len(d.logs)
	for s := 0; s < nsteps; s++ {
		r := rng.Intn(n)
		if n == 1 || rng.Intn(4) > 0 {
			d.append(r, fmt.Sprintf("%s-%d-%d", tag, r, s), 1<<uint(rng.Intn(7)))
		} else {
			o := rng.Intn(n)
			d.join(r, o)
		}
		if afterStep != nil {
			afterStep(s)
		}
	}
}

func c11HeadCids(l *ipfslog.IPFSLog) []cid.Cid {
	var out []cid.Cid
	for _, h := range l.Heads().Slice() {
		out = append(out, h.GetHash())
	}
	return out
}

// ---------------------------------------------------------------------------------------------
// scheduler: records dispatch / return / complete events and controls when a Get returns

type c11Event struct {
	Kind byte // 'D' dispatch, 'R' return (ok), 'F' return (failed), 'C' complete, 'T' timeout
	Cid  cid.Cid
}

type c11Gated struct {
	ch  chan struct{}
	ctx context.Context
}

type c11Sched struct {
	mu        sync.Mutex
	tracked   map[cid.Cid]int
	gated     map[cid.Cid][]*c11Gated
	events    []c11Event
	stamp     int64
	forced    bool
	okOf      func(cid.Cid) bool
	stuck     map[cid.Cid]bool
	timedOut  bool
	delayRng  *rand.Rand
	maxDelay  int // microseconds, free mode
	delayLock sync.Mutex
}

func (s *c11Sched) hook(point string, arg interface{}) {
	c, ok := arg.(cid.Cid)
	if !ok {
		return
	}
	s.mu.Lock()
	switch point {
	case "fetch.dispatch":
		s.events = append(s.events, c11Event{'D', c})
		s.tracked[c]++
	case "fetch.process":
		s.events = append(s.events, c11Event{'C', c})
	}
	s.stamp++
	s.mu.Unlock()
}

// logReturn must be called with s.mu held, BEFORE the Get is allowed to return.
func (s *c11Sched) logReturn(ctx context.Context, c cid.Cid) {
	if ctx.Err() != nil {
		if !s.timedOut {
			s.timedOut = true
			s.events = append(s.events, c11Event{'T', cid.Undef})
		}
		s.events = append(s.events, c11Event{'F', c})
	} else if s.okOf(c) {
		s.events = append(s.events, c11Event{'R', c})
	} else {
		s.events = append(s.events, c11Event{'F', c})
	}
	s.stamp++
}

func (s *c11Sched) gate(ctx context.Context, c cid.Cid) {
	s.mu.Lock()
	if s.tracked[c] == 0 {
		s.mu.Unlock()
		return
	}
	s.tracked[c]--
	if s.stuck[c] {
		s.mu.Unlock()
		<-ctx.Done()
		s.mu.Lock()
		s.logReturn(ctx, c)
		s.mu.Unlock()
		return
	}
	if !s.forced {
		s.mu.Unlock()
		if s.maxDelay > 0 {
			s.delayLock.Lock()
			dl := s.delayRng.Intn(s.maxDelay)
			s.delayLock.Unlock()
			time.Sleep(time.Duration(dl) * time.Microsecond)
		}
		s.mu.Lock()
		s.logReturn(ctx, c)
		s.mu.Unlock()
		return
	}
	g := &c11Gated{ch: make(chan struct{}), ctx: ctx}
	s.gated[c] = append(s.gated[c], g)
	s.stamp++
	s.mu.Unlock()
	select {
	case <-g.ch:
	case <-ctx.Done():
		s.mu.Lock()
		if s.ungate(c, g) {
			s.logReturn(ctx, c)
		}
		s.mu.Unlock()
	}
}

// ungate removes g from the gated list of c (s.mu held); false when it was already released.
func (s *c11Sched) ungate(c cid.Cid, g *c11Gated) bool {
	l := s.gated[c]
	for i, x := range l {
		if x == g {
			l = append(l[:i:i], l[i+1:]...)
			if len(l) == 0 {
				delete(s.gated, c)
			} else {
				s.gated[c] = l
			}
			return true
		}
	}
	return false
}

// settle waits until no hook/gate activity has been seen for a few polls.
func (s *c11Sched) settle(done <-chan struct{}) {
	s.mu.Lock()
	last := s.stamp
	s.mu.Unlock()
	stable := 0
	for stable < 3 {
		select {
		case <-done:
			return
		default:
		}
		time.Sleep(5 * time.Microsecond)
		s.mu.Lock()
		cur := s.stamp
		s.mu.Unlock()
		if cur == last {
			stable++
		} else {
			stable = 0
			last = cur
		}
	}
}

// control releases one gated Get at a time, chosen by choose among the gated cids (sorted).
func (s *c11Sched) control(done <-chan struct{}, choose func(n int) int) {
	for {
		s.settle(done)
		select {
		case <-done:
			return
		default:
		}
		s.mu.Lock()
		if len(s.gated) == 0 {
			s.mu.Unlock()
			time.Sleep(10 * time.Microsecond)
			continue
		}
		keys := make([]cid.Cid, 0, len(s.gated))
		for k := range s.gated {
			keys = append(keys, k)
		}
		sort.Slice(keys, func(i, j int) bool { return keys[i].String() < keys[j].String() })
		k := keys[choose(len(keys))]
		g := s.gated[k][0]
		s.ungate(k, g)
		s.logReturn(g.ctx, k)
		close(g.ch)
		s.mu.Unlock()
	}
}

func (s *c11Sched) releaseAll() {
	s.mu.Lock()
	for k, l := range s.gated {
		delete(s.gated, k)
		for _, g := range l {
			close(g.ch)
		}
	}
	s.mu.Unlock()
}

// ---------------------------------------------------------------------------------------------
// one run

type c11Run struct {
	d       *c11Dag
	starts  []cid.Cid
	length  int // -1 = nil
	conc    int
	timeout time.Duration
	excl    map[cid.Cid]bool
	faults  map[cid.Cid]faultKind
	stuck   map[cid.Cid]bool
	forced  bool
	choose  func(n int) int
	delay   int
	seed    int64
	// what to execute; nil = entry.FetchAll(starts)
	load       func(ctx context.Context, r *c11Run) error
	ignoreGets map[cid.Cid]bool
	// outputs
	events   []c11Event
	results  []cid.Cid
	gets     []cid.Cid
	hung     bool
	skipped  bool // not executed: too many earlier runs hung
	panicked string
	wall     time.Duration
}

func (r *c11Run) retrievable(c cid.Cid) bool {
	if !c.Defined() {
		return false
	}
	_, ok := r.d.entries[c]
	return ok && r.faults[c] == faultNone && !r.stuck[c]
}

func (r *c11Run) fetchOptions() *iface.FetchOptions {
	o := &iface.FetchOptions{Concurrency: r.conc, Timeout: r.timeout, IO: c11IO()}
	if r.length >= 0 {
		l := r.length
		o.Length = &l
	} else if k := r.seed % 4; k != 0 {
		// "no limit" is any negative length (or none at all): -1, -2 and -100 are asked for as well
		l := []int{0, -1, -2, -100}[k]
		o.Length = &l
	}
	if r.excl != nil {
		ex := r.excl
		o.ShouldExclude = func(c cid.Cid) bool { return ex[c] }
	}
	return o
}

var c11HookLock sync.Mutex

// c11Hangs counts runs that hit the watchdog; after a few of them the remaining runs are skipped
// (each would cost the full watchdog delay) - the failures already recorded decide the check.
var c11Hangs int

const c11MaxHangs = 3

func (r *c11Run) run() {
	c11HookLock.Lock()
	defer c11HookLock.Unlock()
	if c11Hangs >= c11MaxHangs {
		r.skipped = true
		return
	}
	d := r.d
	s := &c11Sched{tracked: map[cid.Cid]int{}, gated: map[cid.Cid][]*c11Gated{}, forced: r.forced, stuck: r.stuck,
		okOf: r.retrievable, delayRng: rand.New(rand.NewSource(r.seed)), maxDelay: r.delay}
	d.dag.mu.Lock()
	d.dag.fault = map[cid.Cid]faultKind{}
	for c, k := range r.faults {
		d.dag.fault[c] = k
	}
	d.dag.gate = s.gate
	d.dag.gets = nil
	d.dag.mu.Unlock()
	verifhook.SetHandler(s.hook)
	done := make(chan struct{})
	finished := make(chan struct{})
	if r.forced {
		go func() {
			s.control(done, r.choose)
			close(finished)
		}()
	} else {
		close(finished)
	}
	t0 := time.Now()
	resCh := make(chan struct{})
	go func() {
		defer func() {
			if p := recover(); p != nil {
				r.panicked = fmt.Sprint(p)
			}
			close(resCh)
		}()
		ctx := context.Background()
		if r.load != nil {
			if err := r.load(ctx, r); err != nil {
				r.panicked = "error: " + err.Error()
			}
		} else {
			out := entry.FetchAll(ctx, d.api, r.starts, r.fetchOptions())
			for _, e := range out {
				r.results = append(r.results, e.GetHash())
			}
		}
	}()
	select {
	case <-resCh:
	case <-time.After(10*time.Second + r.timeout):
		r.hung = true
		c11Hangs++
	}
	r.wall = time.Since(t0)
	close(done)
	s.releaseAll()
	<-finished
	verifhook.SetHandler(nil)
	d.dag.mu.Lock()
	d.dag.gate = nil
	d.dag.fault = map[cid.Cid]faultKind{}
	for _, c := range d.dag.gets {
		if !r.ignoreGets[c] {
			r.gets = append(r.gets, c)
		}
	}
	d.dag.mu.Unlock()
	s.mu.Lock()
	r.events = append([]c11Event{}, s.events...)
	s.mu.Unlock()
}

// expected computes, by brute force over the store, the hashes that have a reason to be requested
// and the entries reachable through retrievable, non-excluded entries.
func (r *c11Run) expected() (requested map[cid.Cid]bool, reach map[cid.Cid]bool) {
	requested = map[cid.Cid]bool{}
	reach = map[cid.Cid]bool{}
	var todo []cid.Cid
	want := func(c cid.Cid) {
		if !c.Defined() || r.excl[c] || requested[c] {
			return
		}
		requested[c] = true
		todo = append(todo, c)
	}
	for _, c := range r.starts {
		want(c)
	}
	for len(todo) > 0 {
		c := todo[0]
		todo = todo[1:]
		if !r.retrievable(c) {
			continue
		}
		reach[c] = true
		e := r.d.entries[c]
		for _, n := range e.next {
			want(n)
		}
		for _, n := range e.refs {
			want(n)
		}
	}
	return
}

// ---------------------------------------------------------------------------------------------
// canonicalisation and Coq output

type c11Canon struct {
	hashes *ranker
	ids    *ranker
	logids *ranker
}

func newC11Canon() *c11Canon {
	return &c11Canon{hashes: newRanker(), ids: newRanker(), logids: newRanker()}
}

func (k *c11Canon) addDag(d *c11Dag) {
	for c, e := range d.entries {
		k.hashes.add(c.String())
		for _, n := range e.next {
			k.hashes.add(n.String())
		}
		for _, n := range e.refs {
			k.hashes.add(n.String())
		}
		k.ids.add(e.id)
		k.logids.add(e.logID)
	}
}

func (k *c11Canon) addCids(cs []cid.Cid) {
	for _, c := range cs {
		if c.Defined() {
			k.hashes.add(c.String())
		}
	}
}

func (k *c11Canon) freeze() {
	k.hashes.freeze()
	k.ids.freeze()
	k.logids.freeze()
}

func (k *c11Canon) h(c cid.Cid) int {
	if !c.Defined() {
		return 0
	}
	return k.hashes.rank(c.String())
}

func (k *c11Canon) hs(cs []cid.Cid) []int {
	out := make([]int, len(cs))
	for i, c := range cs {
		out[i] = k.h(c)
	}
	return out
}

func (k *c11Canon) set(m map[cid.Cid]bool) []int {
	var out []int
	for c, v := range m {
		if v {
			out = append(out, k.h(c))
		}
	}
	sort.Ints(out)
	return out
}

func (k *c11Canon) faultSet(m map[cid.Cid]faultKind, stuck map[cid.Cid]bool) []int {
	var out []int
	for c, v := range m {
		if v != faultNone {
			out = append(out, k.h(c))
		}
	}
	sort.Ints(out)
	return out
}

func (k *c11Canon) entryLit(e *c11Entry) string {
	return fmt.Sprintf("(Build_fentry %s %s %s %s %s %s)", coqN(k.h(e.cid)), coqNList(k.hs(e.next)), coqNList(k.hs(e.refs)),
		coqZ(int64(e.time)), coqN(k.ids.rank(e.id)), coqN(k.logids.rank(e.logID)))
}

func (k *c11Canon) storeDef(d *c11Dag) string {
	var items []string
	for _, c := range d.order {
		e := d.entries[c]
		items = append(items, fmt.Sprintf("(%s, %s)", coqN(k.h(c)), k.entryLit(e)))
	}
	return fmt.Sprintf("Definition %s : store := %s.\n", d.name, coqList(items))
}

func (k *c11Canon) eventsLit(evs []c11Event) string {
	items := make([]string, len(evs))
	for i, e := range evs {
		switch e.Kind {
		case 'D':
			items[i] = "EvDispatch " + coqN(k.h(e.Cid))
		case 'R':
			items[i] = "EvReturn " + coqN(k.h(e.Cid)) + " true"
		case 'F':
			items[i] = "EvReturn " + coqN(k.h(e.Cid)) + " false"
		case 'C':
			items[i] = "EvComplete " + coqN(k.h(e.Cid))
		case 'T':
			items[i] = "EvTimeout"
		}
	}
	return coqList(items)
}

func (k *c11Canon) traceStr(evs []c11Event) string {
	var sb strings.Builder
	for _, e := range evs {
		if e.Kind == 'T' {
			sb.WriteString("T ")
		} else {
			fmt.Fprintf(&sb, "%c%d ", e.Kind, k.h(e.Cid))
		}
	}
	return strings.TrimSpace(sb.String())
}

// fetchCaseLit renders a Check11.fetch_case
func (k *c11Canon) fetchCaseLit(r *c11Run) string {
	excl := k.set(r.excl)
	// stuck blocks stay retrievable in the model's store: their Get fails only because of the timeout
	faulty := k.faultSet(r.faults, nil)
	return fmt.Sprintf("Build_fetch_case %s %s %s %s %s %s %s %s %s %s", r.d.name, coqNList(faulty), coqNList(excl),
		coqZ(int64(r.length)), coqNat(r.conc), coqBool(r.timeout > 0), coqNList(k.hs(r.starts)), k.eventsLit(r.events),
		coqNList(k.hs(r.results)), coqNList(k.hs(r.gets)))
}

func (k *c11Canon) runLabel(r *c11Run, what string) string {
	m := map[string]interface{}{
		"what": what, "dag": r.d.name, "kind": r.d.kind, "starts": k.hs(r.starts), "length": r.length, "conc": r.conc,
		"timeout_ms": int(r.timeout / time.Millisecond), "excluded": k.set(r.excl), "faulty": k.faultSet(r.faults, nil),
		"stuck": k.set(r.stuck), "forced": r.forced, "trace": k.traceStr(r.events), "results": k.hs(r.results),
	}
	b, _ := json.Marshal(m)
	return string(b)
}

func (k *c11Canon) dagDesc(d *c11Dag) interface{} {
	var ents []map[string]interface{}
	for _, c := range d.order {
		e := d.entries[c]
		ents = append(ents, map[string]interface{}{"h": k.h(c), "next": k.hs(e.next), "refs": k.hs(e.refs), "time": e.time,
			"id": k.ids.rank(e.id), "cid": c.String()})
	}
	return map[string]interface{}{"name": d.name, "kind": d.kind, "idents": d.idents, "entries": ents}
}

// ---------------------------------------------------------------------------------------------
// monitors

type c11Monitor struct {
	prop     string
	res      *result
	failures map[string]int
}

func (m *c11Monitor) fail(mon, key, detail string, c interface{}) {
	if m.failures == nil {
		m.failures = map[string]int{}
	}
	m.failures[key]++
	if m.failures[key] <= 3 && len(m.res.Failures) < 60 {
		m.res.Failures = append(m.res.Failures, monitorFailure{Property: m.prop, Monitor: mon, Detail: detail, Case: c, Key: key})
	}
}

func c11HasDup(cs []cid.Cid) bool {
	seen := map[cid.Cid]bool{}
	for _, c := range cs {
		if seen[c] {
			return true
		}
		seen[c] = true
	}
	return false
}

// c11Check evaluates the C11 monitors on a finished run.  exact = results must equal the reachable
// set (no timeout); otherwise they must be a subset.
func c11Check(m *c11Monitor, k func() interface{}, r *c11Run) {
	if r.skipped {
		return
	}
	if r.hung {
		m.fail("terminates", "C11:hang", "FetchAll did not return within the watchdog limit", k())
		return
	}
	if r.panicked != "" {
		m.fail("terminates", "C11:panic", r.panicked, k())
		return
	}
	if c11HasDup(r.results) {
		m.fail("no-duplicate-result", "C11:dup-result", "an entry was returned twice", k())
	}
	if c11HasDup(r.gets) {
		m.fail("request-once", "C11:dup-request", "a hash was requested from the store twice", k())
	}
	for _, c := range r.gets {
		if !c.Defined() {
			m.fail("request-once", "C11:undefined-request", "the undefined CID was requested", k())
		}
		if r.excl[c] {
			m.fail("request-once", "C11:excluded-request", "an excluded hash was requested", k())
		}
	}
	requested, reach := r.expected()
	got := map[cid.Cid]bool{}
	for _, c := range r.results {
		got[c] = true
		if !reach[c] {
			m.fail("exact-reachable-set", "C11:unreachable-result", "a returned entry is not reachable through retrievable non-excluded entries", k())
		}
	}
	for _, c := range r.gets {
		if !requested[c] {
			m.fail("request-once", "C11:unmotivated-request", "a hash was requested that no retrievable fetched block links to", k())
		}
	}
	if r.load != nil {
		// a loader run: the fetch result is not observable, only the requests are
		return
	}
	if r.timeout == 0 && len(r.stuck) == 0 {
		for c := range reach {
			if !got[c] {
				m.fail("exact-reachable-set", "C11:missing-result", "a reachable entry was not returned", k())
				break
			}
		}
	} else if r.timeout > 0 {
		if r.wall > r.timeout+1500*time.Millisecond {
			m.fail("terminates-within-timeout", "C11:timeout-overrun", fmt.Sprintf("returned after %v with timeout %v", r.wall, r.timeout), k())
		}
	}
}

// c11Explore runs f with every sequence of choices (depth first), at most maxRuns times; returns
// the number of runs and whether the exploration was exhaustive.
func c11Explore(maxRuns int, f func(choose func(n int) int)) (int, bool) {
	var prefix []int
	for runs := 1; ; runs++ {
		var taken, widths []int
		pos := 0
		choose := func(n int) int {
			c := 0
			if pos < len(prefix) {
				c = prefix[pos]
			}
			if c >= n {
				c = n - 1
			}
			taken = append(taken, c)
			widths = append(widths, n)
			pos++
			return c
		}
		f(choose)
		i := len(taken) - 1
		for i >= 0 && taken[i]+1 >= widths[i] {
			i--
		}
		if i < 0 {
			return runs, true
		}
		if runs >= maxRuns {
			return runs, false
		}
		prefix = append(append([]int{}, taken[:i]...), taken[i]+1)
	}
}

// ---------------------------------------------------------------------------------------------
// DAG corpus shared by the three runners

func c11Corpus(rng *rand.Rand, tier string, prefix string) []*c11Dag {
	var dags []*c11Dag
	add := func(d *c11Dag) {
		d.name = fmt.Sprintf("st_%s%d", prefix, len(dags))
		dags = append(dags, d)
	}
	// tiny: single entry; linear 3; fork of 2+2 joined
	{
		d := c11NewDag("single", []string{"A"})
		d.append(0, "s0", 1)
		add(d)
	}
	{
		d := c11NewDag("linear3", []string{"A"})
		for i := 0; i < 3; i++ {
			d.append(0, fmt.Sprintf("l%d", i), 1)
		}
		add(d)
	}
	{
		d := c11NewDag("fork4", []string{"A", "B"})
		d.append(0, "a0", 1)
		d.append(1, "b0", 1)
		d.join(0, 1)
		d.append(0, "a1", 2)
		d.append(1, "b1", 1)
		d.join(0, 1)
		add(d)
	}
	{
		d := c11NewDag("diamond5", []string{"A", "B"})
		d.append(0, "a0", 1)
		d.join(1, 0)
		d.append(0, "a1", 1)
		d.append(1, "b1", 1)
		d.join(0, 1)
		d.append(0, "a2", 4)
		d.append(1, "b2", 1)
		d.join(0, 1)
		add(d)
	}
	{
		d := c11NewDag("linear8refs", []string{"A"})
		for i := 0; i < 8; i++ {
			d.append(0, fmt.Sprintf("r%d", i), 1<<uint(i%5+1))
		}
		add(d)
	}
	{
		d := c11NewDag("threeheads8", []string{"A", "B", "C"})
		d.append(0, "a0", 1)
		d.join(1, 0)
		d.join(2, 0)
		d.append(0, "a1", 2)
		d.append(0, "a2", 4)
		d.append(1, "b1", 2)
		d.append(1, "b2", 2)
		d.append(2, "c1", 1)
		d.append(2, "c2", 8)
		d.join(0, 1)
		d.join(0, 2)
		add(d)
	}
	{
		// entries with an EMPTY payload are legal (Append accepts them) and must load like any other
		d := c11NewDag("emptypayload5", []string{"A"})
		for _, p := range []string{"one", "two", "", "four", ""} {
			d.append(0, p, 2)
		}
		add(d)
	}
	{
		// a merge entry (two predecessors) right at the limit boundary, older than what is kept
		d := c11NewDag("mergeatlimit4", []string{"A", "B"})
		d.append(0, "x1", 1)
		d.append(1, "y1", 1)
		d.join(0, 1)
		d.append(0, "j", 1)
		d.append(0, "k", 1)
		add(d)
	}
	{
		d := c11NewDag("mergeatlimit7", []string{"A", "B", "C"})
		d.append(0, "x1", 1)
		d.append(1, "y1", 1)
		d.append(2, "z1", 1)
		d.append(2, "z2", 1)
		d.join(0, 1)
		d.join(0, 2)
		d.append(0, "j", 1)
		d.append(0, "k", 2)
		d.append(0, "m", 1)
		add(d)
	}
	{
		// clock gaps: appends refused by the access controller tick the clock without adding an entry
		d := c11NewDag("clockgap4", []string{"A"})
		gate := &c11GateAC{}
		l, err := ipfslog.NewLog(d.api, d.env.identity("A"), &ipfslog.LogOptions{ID: "X", IO: c11IO(), AccessController: gate})
		if err != nil {
			panic(err)
		}
		d.logs[0] = l
		d.append(0, "a", 1)
		d.append(0, "b", 1)
		d.append(0, "c", 1)
		gate.deny = true
		for i := 0; i < 2; i++ {
			if _, err := l.Append(context.Background(), []byte("refused"), nil); err == nil {
				panic("gate did not refuse")
			}
		}
		gate.deny = false
		d.append(0, "f", 1)
		d.append(0, "g", 2)
		add(d)
	}
	nrand := 6
	if tier == "thorough" {
		nrand = 24
	}
	for i := 0; i < nrand; i++ {
		names := [][]string{{"A", "B"}, {"A", "B", "C"}, {"A", "B", "A"}, {"A", "B", "C", "D"}, {"A"}}[rng.Intn(5)]
		steps := 6 + rng.Intn(18)
		if tier == "thorough" && i%4 == 0 {
			steps = 30 + rng.Intn(40)
		}
		d := c11NewDag("random", names)
		d.randomHistory(rng, steps, fmt.Sprintf("%s%d", prefix, i), nil)
		// merge everything into replica 0 (keeps several heads when replicas are concurrent)
		for r := 1; r < len(d.logs); r++ {
			if rng.Intn(3) > 0 {
				d.join(0, r)
			}
		}
		if len(d.entries) == 0 {
			d.append(0, "x", 1)
		}
		add(d)
	}
	return dags
}

// c11GateAC refuses every append while deny is set
type c11GateAC struct{ deny bool }

func (g *c11GateAC) CanAppend(accesscontroller.LogEntry, idp.Interface, accesscontroller.CanAppendAdditionalContext) error {
	if g.deny {
		return fmt.Errorf("refused by gate")
	}
	return nil
}

// ---------------------------------------------------------------------------------------------

func runC11(seed int64, tier string, outDir string) *result {
	rng := rand.New(rand.NewSource(seed))
	res := &result{Property: "C11", Seed: seed, Tier: tier, Stats: map[string]interface{}{}}
	mon := &c11Monitor{prop: "C11", res: res}
	thorough := tier == "thorough"
	dags := c11Corpus(rng, tier, "")
	canon := newC11Canon()
	unknown := fakeCid(fmt.Sprintf("c11-unknown-%d", seed)) // a hash nobody stored
	canon.addCids([]cid.Cid{unknown})
	for _, d := range dags {
		canon.addDag(d)
	}
	canon.freeze()

	var runs []*c11Run
	var whats []string
	stats := map[string]int{}
	traces := map[string]struct{}{}
	exec := func(what string, r *c11Run) {
		r.seed = rng.Int63()
		r.run()
		runs = append(runs, r)
		whats = append(whats, what)
		stats[what]++
		c11Check(mon, func() interface{} { return json.RawMessage(canon.runLabel(r, what)) }, r)
		traces[r.d.name+"|"+fmt.Sprint(canon.faultSet(r.faults, nil), canon.set(r.excl), r.conc, r.length)+"|"+canon.traceStr(r.events)] = struct{}{}
	}
	randChoose := func() func(n int) int {
		rr := rand.New(rand.NewSource(rng.Int63()))
		return func(n int) int { return rr.Intn(n) }
	}
	kinds := []faultKind{faultAbsent, faultError, faultGarble, faultTimeout}
	exhaustive := 0
	exploredAll := 0

	for _, d := range dags {
		heads := c11HeadCids(d.logs[0])
		n := len(d.order)
		// (A) no faults: forced random schedules and free runs at several concurrency levels
		for _, conc := range []int{1, 2, 3, 8} {
			reps := 2
			if thorough {
				reps = 6
			}
			for i := 0; i < reps; i++ {
				exec("plain-forced", &c11Run{d: d, starts: heads, length: -1, conc: conc, forced: true, choose: randChoose()})
			}
			exec("plain-free", &c11Run{d: d, starts: heads, length: -1, conc: conc, delay: 80})
		}
		// start-hash variations: undefined, duplicate, unknown hashes, arbitrary entries
		{
			starts := append([]cid.Cid{cid.Undef, unknown}, heads...)
			starts = append(starts, heads...)
			starts = append(starts, d.order[rng.Intn(n)])
			exec("odd-starts", &c11Run{d: d, starts: starts, length: -1, conc: 1 + rng.Intn(8), forced: true, choose: randChoose()})
		}
		// (B) all completion orders for tiny DAGs
		if n <= 5 {
			for _, conc := range []int{1, 2, 8} {
				limit := 400
				if thorough {
					limit = 4000
				}
				cnt, all := c11Explore(limit, func(choose func(n int) int) {
					exec("all-orders", &c11Run{d: d, starts: heads, length: -1, conc: conc, forced: true, choose: choose})
				})
				_ = cnt
				if all {
					exploredAll++
				}
			}
		}
		// (C) faults
		faultRun := func(subset []cid.Cid, kind int) {
			f := map[cid.Cid]faultKind{}
			for _, c := range subset {
				if kind < len(kinds) {
					f[c] = kinds[kind]
				} else {
					f[c] = kinds[rng.Intn(len(kinds))]
				}
			}
			r := &c11Run{d: d, starts: heads, length: -1, conc: 1 + rng.Intn(8), faults: f}
			if rng.Intn(4) == 0 {
				r.delay = 60 // "slow" blocks: free run with random delays
			} else {
				r.forced = true
				r.choose = randChoose()
			}
			exec("faults", r)
		}
		if n <= 8 && (n <= 5 || thorough || d.kind == "linear8refs" || d.kind == "threeheads8") {
			for mask := 1; mask < 1<<uint(n); mask++ {
				var subset []cid.Cid
				for i := 0; i < n; i++ {
					if mask&(1<<uint(i)) != 0 {
						subset = append(subset, d.order[i])
					}
				}
				if n <= 5 || thorough {
					for kind := 0; kind <= len(kinds); kind++ { // each kind, then a random mix
						faultRun(subset, kind)
					}
				} else {
					faultRun(subset, mask%(len(kinds)+1))
				}
			}
			exhaustive++
		} else {
			reps := 12
			if thorough {
				reps = 60
			}
			for i := 0; i < reps; i++ {
				var subset []cid.Cid
				p := []float64{0.1, 0.3, 0.6}[rng.Intn(3)]
				for _, c := range d.order {
					if rng.Float64() < p {
						subset = append(subset, c)
					}
				}
				faultRun(subset, rng.Intn(len(kinds)+1))
			}
		}
		// (D) excluded hashes (with and without faults)
		for i := 0; i < 4; i++ {
			ex := map[cid.Cid]bool{}
			for _, c := range d.order {
				if rng.Intn(4) == 0 {
					ex[c] = true
				}
			}
			f := map[cid.Cid]faultKind{}
			if i%2 == 1 {
				for _, c := range d.order {
					if rng.Intn(5) == 0 {
						f[c] = kinds[rng.Intn(len(kinds))]
					}
				}
			}
			exec("excluded", &c11Run{d: d, starts: heads, length: -1, conc: 1 + rng.Intn(8), excl: ex, faults: f, forced: true, choose: randChoose()})
		}
	}
	// (E) timeout: one block never answers until the context is cancelled
	ntimeout := 6
	if thorough {
		ntimeout = 30
	}
	for i := 0; i < ntimeout; i++ {
		d := dags[rng.Intn(len(dags))]
		heads := c11HeadCids(d.logs[0])
		stuck := map[cid.Cid]bool{d.order[rng.Intn(len(d.order))]: true}
		if i%3 == 2 {
			stuck[d.order[rng.Intn(len(d.order))]] = true
		}
		exec("timeout", &c11Run{d: d, starts: heads, length: -1, conc: 1 + rng.Intn(4), timeout: 120 * time.Millisecond, stuck: stuck,
			forced: i%2 == 0, choose: randChoose(), delay: 30})
	}
	// the same through each of the four loaders: FetchOptions.Timeout bounds the load although the caller's
	// own context never ends
	for i, tries := 0, 0; i < 2 && tries < 50; tries++ {
		d := dags[rng.Intn(len(dags))]
		src := d.logs[0]
		if src.Len() < 2 {
			continue
		}
		i++
		held := src.GetEntries().Slice()
		stuckCid := held[rng.Intn(len(held))].GetHash() // a block every unbounded load of this log asks for
		ident := d.env.identity(d.idents[0])
		tmo := 150 * time.Millisecond
		loaders := map[string]func(ctx context.Context) error{
			"NewFromMultihash": func(ctx context.Context) error {
				mh, err := src.ToMultihash(ctx)
				if err != nil {
					return err
				}
				_, err = ipfslog.NewFromMultihash(ctx, d.api, ident, mh, &ipfslog.LogOptions{IO: c11IO()}, &ipfslog.FetchOptions{Timeout: tmo})
				return err
			},
			"NewFromEntryHash": func(ctx context.Context) error {
				_, err := ipfslog.NewFromEntryHash(ctx, d.api, ident, src.Heads().Slice()[0].GetHash(), &ipfslog.LogOptions{ID: src.GetID(), IO: c11IO()}, &ipfslog.FetchOptions{Timeout: tmo})
				return err
			},
			"NewFromJSON": func(ctx context.Context) error {
				_, err := ipfslog.NewFromJSON(ctx, d.api, ident, src.ToJSONLog(), &ipfslog.LogOptions{IO: c11IO()}, &entry.FetchOptions{Timeout: tmo})
				return err
			},
			"NewFromEntry": func(ctx context.Context) error {
				_, err := ipfslog.NewFromEntry(ctx, d.api, ident, src.Heads().Slice(), &ipfslog.LogOptions{IO: c11IO()}, &entry.FetchOptions{Timeout: tmo})
				return err
			},
		}
		for _, name := range []string{"NewFromMultihash", "NewFromEntryHash", "NewFromJSON", "NewFromEntry"} {
			res.Evaluations++
			// the caller's context never ends, or has its own - much later - deadline
			ctx, cancel := context.WithCancel(context.Background())
			if i%2 == 1 {
				ctx, cancel = context.WithTimeout(context.Background(), 30*time.Second)
			}
			d.dag.gate = func(gctx context.Context, c cid.Cid) {
				if c == stuckCid {
					<-gctx.Done()
				}
			}
			done := make(chan struct{})
			t0 := time.Now()
			go func() { _ = loaders[name](ctx); close(done) }()
			select {
			case <-done:
				if w := time.Since(t0); w > tmo+2*time.Second {
					mon.fail("terminates-within-timeout", "C11:timeout-overrun", fmt.Sprintf("%s with Timeout %v and one stuck block returned after %v", name, tmo, w), map[string]interface{}{"loader": name, "dag": d.name})
				}
			case <-time.After(tmo + 6*time.Second):
				mon.fail("terminates-within-timeout", "C11:timeout-overrun", fmt.Sprintf("%s with Timeout %v and one stuck block had not returned after %v (the caller's own context never ends)", name, tmo, tmo+6*time.Second), map[string]interface{}{"loader": name, "dag": d.name})
			}
			cancel()
			<-done
			d.dag.gate = nil
		}
	}
	// timeout configured but never reached
	for i := 0; i < 4; i++ {
		d := dags[rng.Intn(len(dags))]
		exec("timeout-unused", &c11Run{d: d, starts: c11HeadCids(d.logs[0]), length: -1, conc: 1 + rng.Intn(4), timeout: 5 * time.Second,
			forced: true, choose: randChoose()})
	}

	// ---- model cases ----
	var hdr strings.Builder
	hdr.WriteString("From IpfsLog Require Import Model.Order Model.Fetcher Model.Check11.\nOpen Scope Z_scope.\n")
	for _, d := range dags {
		hdr.WriteString(canon.storeDef(d))
	}
	list := &caseList{name: "fetch_cases", typ: "fetch_case", checker: "mismatches_fetch"}
	for i, r := range runs {
		if r.hung || r.skipped || r.panicked != "" {
			continue
		}
		list.add(canon.fetchCaseLit(r), canon.runLabel(r, whats[i]))
	}
	res.CaseFiles = writeShards(outDir, "C11", hdr.String(), []*caseList{list}, 400)
	res.ModelCases = len(list.items)
	res.Evaluations = len(runs)
	res.Distinct = len(traces)
	res.Rule = "one evaluation = one entry.FetchAll run on a stored DAG; two runs are the same case when DAG, fault set, excluded set, concurrency and the recorded event trace (dispatch/return/complete order) coincide; distinct_nontrivial = number of distinct such tuples"
	var sizes []int
	for _, d := range dags {
		sizes = append(sizes, len(d.order))
	}
	res.Stats["dag_sizes"] = sizes
	res.Stats["runs_by_kind"] = stats
	res.Stats["dags_with_exhaustive_fault_subsets"] = exhaustive
	res.Stats["exhaustive_order_explorations_completed"] = exploredAll
	var descs []interface{}
	for i, d := range dags {
		if i < 6 {
			descs = append(descs, canon.dagDesc(d))
		}
	}
	writeJSON(outDir+"/c11_dags.json", descs)
	for _, i := range []int{0, len(runs) / 2, len(runs) - 1} {
		res.Samples = append(res.Samples, json.RawMessage(canon.runLabel(runs[i], whats[i])))
	}
	return res
}
