package main

// In-memory stand-in for the IPFS node.  The library only ever calls ipfs.Dag().Add/Get and, when
// asked to pin, ipfs.Pin().Add, so a struct that embeds a nil coreiface.CoreAPI and overrides Dag()
// and Pin() is a sufficient store.

import (
	"bytes"
	"context"
	"fmt"
	"sync"
	"time"

	"github.com/ipfs/boxo/path"
	blocks "github.com/ipfs/go-block-format"
	"github.com/ipfs/go-cid"
	cbornode "github.com/ipfs/go-ipld-cbor"
	ipld "github.com/ipfs/go-ipld-format"
	dag "github.com/ipfs/go-merkledag"
	coreiface "github.com/ipfs/kubo/core/coreiface"
	"github.com/ipfs/kubo/core/coreiface/options"
)

type faultKind int

const (
	faultNone    faultKind = iota
	faultAbsent            // Get returns "not found"
	faultError             // Get returns an I/O error
	faultGarble            // Get returns a block that does not decode as an entry
	faultTimeout           // Get fails with the store's OWN deadline error (wraps context.DeadlineExceeded) although the caller's context is alive
)

type memDag struct {
	mu      sync.Mutex
	blocks  map[cid.Cid][]byte
	order   []cid.Cid // write order (first write of each cid)
	writes  []cid.Cid // every Add call
	gets    []cid.Cid // every Get call, in call order
	removed []cid.Cid // every Remove call
	fault   map[cid.Cid]faultKind
	failAdd bool      // while set, Add stores nothing and returns an error (store outage)
	failPin bool      // while set, Pin().Add fails although the block is stored (pinning service down)
	stall   string    // "ctx": Add abandons the put when the caller's context ends (and waits for that); "slow": Add takes 2.5 s
	refused []cid.Cid // blocks whose Add was refused because of failAdd
	pins    []cid.Cid // every Pin().Add call whose block is in the store
	// onAdd is called (outside the lock) after a block was stored
	onAdd func(c cid.Cid)
	// gate, when set, is called by Get before it answers; it may block (forced schedules)
	gate func(ctx context.Context, c cid.Cid)
}

func newMemDag() *memDag {
	return &memDag{blocks: map[cid.Cid][]byte{}, fault: map[cid.Cid]faultKind{}}
}

func (m *memDag) Add(ctx context.Context, n ipld.Node) error {
	m.mu.Lock()
	if m.failAdd {
		m.refused = append(m.refused, n.Cid())
		m.mu.Unlock()
		return fmt.Errorf("injected write failure for %s", n.Cid())
	}
	switch m.stall {
	case "ctx":
		// a store that is stuck and gives the put up when the caller's context ends
		m.refused = append(m.refused, n.Cid())
		m.mu.Unlock()
		<-ctx.Done()
		return ctx.Err()
	case "slow":
		m.mu.Unlock()
		time.Sleep(2500 * time.Millisecond)
		m.mu.Lock()
	case "brief":
		m.mu.Unlock()
		time.Sleep(120 * time.Millisecond)
		m.mu.Lock()
	case "manifest":
		// entry blocks are written at once, manifests (CBOR maps with a "heads" key) take 300 ms
		if bytes.Contains(n.RawData(), []byte("\x65heads")) {
			m.mu.Unlock()
			time.Sleep(300 * time.Millisecond)
			m.mu.Lock()
		}
	}
	if _, ok := m.blocks[n.Cid()]; !ok {
		m.order = append(m.order, n.Cid())
	}
	m.writes = append(m.writes, n.Cid())
	m.blocks[n.Cid()] = n.RawData()
	hook := m.onAdd
	m.mu.Unlock()
	if hook != nil {
		hook(n.Cid())
	}
	return nil
}

func (m *memDag) AddMany(ctx context.Context, ns []ipld.Node) error {
	for _, n := range ns {
		if err := m.Add(ctx, n); err != nil {
			return err
		}
	}
	return nil
}

func (m *memDag) putRaw(c cid.Cid, data []byte) {
	m.mu.Lock()
	defer m.mu.Unlock()
	if _, ok := m.blocks[c]; !ok {
		m.order = append(m.order, c)
	}
	m.blocks[c] = data
}

func (m *memDag) has(c cid.Cid) bool {
	m.mu.Lock()
	defer m.mu.Unlock()
	_, ok := m.blocks[c]
	return ok
}

func (m *memDag) raw(c cid.Cid) []byte {
	m.mu.Lock()
	defer m.mu.Unlock()
	return m.blocks[c]
}

func (m *memDag) resetLogs() {
	m.mu.Lock()
	defer m.mu.Unlock()
	m.gets = nil
	m.writes = nil
	m.refused = nil
}

func (m *memDag) Get(ctx context.Context, c cid.Cid) (ipld.Node, error) {
	m.mu.Lock()
	m.gets = append(m.gets, c)
	data, ok := m.blocks[c]
	fk := m.fault[c]
	gate := m.gate
	m.mu.Unlock()
	if gate != nil {
		gate(ctx, c)
	}
	if err := ctx.Err(); err != nil {
		return nil, err
	}
	switch fk {
	case faultAbsent:
		return nil, ipld.ErrNotFound{Cid: c}
	case faultError:
		return nil, fmt.Errorf("injected i/o error for %s", c)
	case faultTimeout:
		return nil, fmt.Errorf("provider search for %s gave up: %w", c, context.DeadlineExceeded)
	case faultGarble:
		// a well-formed CBOR block that is not an entry: the text string "garbage"
		n, err := cbornode.WrapObject("garbage", 0x12, -1)
		if err != nil {
			return nil, err
		}
		return n, nil
	}
	if !ok {
		return nil, ipld.ErrNotFound{Cid: c}
	}
	return decodeBlock(c, data)
}

func decodeBlock(c cid.Cid, data []byte) (ipld.Node, error) {
	blk, err := blocks.NewBlockWithCid(data, c)
	if err != nil {
		return nil, err
	}
	switch c.Type() {
	case cid.DagCBOR:
		return cbornode.DecodeBlock(blk)
	case cid.DagProtobuf:
		return dag.DecodeProtobufBlock(blk)
	}
	return nil, fmt.Errorf("unknown codec %d", c.Type())
}

func (m *memDag) GetMany(ctx context.Context, cs []cid.Cid) <-chan *ipld.NodeOption {
	panic("GetMany not used by go-ipfs-log")
}
func (m *memDag) Remove(ctx context.Context, c cid.Cid) error {
	// go-ipfs-log never removes blocks; a store that honours Remove lets the checks see it if it does
	m.mu.Lock()
	defer m.mu.Unlock()
	delete(m.blocks, c)
	m.removed = append(m.removed, c)
	return nil
}
func (m *memDag) RemoveMany(ctx context.Context, cs []cid.Cid) error {
	for _, c := range cs {
		if err := m.Remove(ctx, c); err != nil {
			return err
		}
	}
	return nil
}
func (m *memDag) Pinning() ipld.NodeAdder { return m }

// snapshot returns a copy of the store restricted to the first n written blocks.
func (m *memDag) snapshot(n int) *memDag {
	m.mu.Lock()
	defer m.mu.Unlock()
	out := newMemDag()
	for i := 0; i < n && i < len(m.order); i++ {
		c := m.order[i]
		out.blocks[c] = m.blocks[c]
		out.order = append(out.order, c)
	}
	return out
}

type memAPI struct {
	coreiface.CoreAPI
	d *memDag
}

func (a *memAPI) Dag() coreiface.APIDagService { return a.d }
func (a *memAPI) Pin() coreiface.PinAPI        { return &memPin{d: a.d} }
func (a *memAPI) Block() coreiface.BlockAPI    { return &memBlock{d: a.d} }

// memBlock: go-ipfs-log has no business removing blocks; a store that honours Block().Rm lets the
// checks see it if it does (the removal is recorded like Dag().Remove)
type memBlock struct {
	coreiface.BlockAPI
	d *memDag
}

func (b *memBlock) Rm(ctx context.Context, pth path.Path, _ ...options.BlockRmOption) error {
	ip, err := path.NewImmutablePath(pth)
	if err != nil {
		return err
	}
	return b.d.Remove(ctx, ip.RootCid())
}

// memPin: pinning a block that is in the store succeeds, pinning an absent block fails (as a node
// that cannot fetch it would); everything else is unused by go-ipfs-log
type memPin struct {
	coreiface.PinAPI
	d *memDag
}

func (p *memPin) Add(ctx context.Context, pth path.Path, _ ...options.PinAddOption) error {
	ip, err := path.NewImmutablePath(pth)
	if err != nil {
		return err
	}
	c := ip.RootCid()
	p.d.mu.Lock()
	defer p.d.mu.Unlock()
	if _, ok := p.d.blocks[c]; !ok {
		return fmt.Errorf("cannot pin %s: block not found", c)
	}
	if p.d.failPin {
		return fmt.Errorf("injected pin failure for %s", c)
	}
	p.d.pins = append(p.d.pins, c)
	return nil
}

func newAPI() (*memAPI, *memDag) {
	d := newMemDag()
	return &memAPI{d: d}, d
}
