package main

// C12: untrusted blocks and manifests cannot crash the process.
//
//  * structure-aware stream: entry / manifest maps with every field absent, null, of a wrong type,
//    nested structs mutilated, extra fields, non-map values - written with go-ipld-cbor's canonical
//    encoder, decoded through the real DecodeRawEntry / DecodeRawJSONLog under recover; the outcome
//    class (value / error / panic) is also compared with the Coq model (Model/Check12.v);
//  * raw stream: bit flips, truncations, splices of real blocks and random bytes;
//  * legacy codec: JSON variants inside protobuf nodes;
//  * such blocks placed at every position of a stored log: the loaders (FetchAll, NewFromEntryHash,
//    NewFromMultihash) run in CHILD PROCESSES, because they decode on worker goroutines where a
//    panic cannot be recovered and kills the process; the remaining history must load;
//  * on every entry that is returned: all accessors, comparators, Verify, re-encoding.

import (
	"berty.tech/go-ipfs-log/enc"
	"bufio"
	"bytes"
	"context"
	"encoding/base64"
	"encoding/hex"
	"encoding/json"
	"fmt"
	"math"
	"math/rand"
	"os"
	"os/exec"
	"regexp"
	"sort"
	"strings"
	"time"

	"github.com/ipfs/go-cid"
	cbornode "github.com/ipfs/go-ipld-cbor"
	format "github.com/ipfs/go-ipld-format"
	dag "github.com/ipfs/go-merkledag"

	ipfslog "berty.tech/go-ipfs-log"
	"berty.tech/go-ipfs-log/entry"
	"berty.tech/go-ipfs-log/entry/sorting"
	idp "berty.tech/go-ipfs-log/identityprovider"
	"berty.tech/go-ipfs-log/iface"
	"berty.tech/go-ipfs-log/io/cbor"
	"berty.tech/go-ipfs-log/io/pb"
)

func init() { register("C12", runC12) }

// a node that only carries bytes: DecodeRawEntry / DecodeRawJSONLog read nothing but RawData()
type c12RawNode struct {
	format.Node
	data []byte
}

func (n c12RawNode) RawData() []byte { return n.data }

type c12Fail struct {
	Key    string `json:"key"`
	Detail string `json:"detail"`
}

// guard runs f and reports a panic as (true, message)
func c12Guard(f func()) (panicked bool, msg string) {
	defer func() {
		if r := recover(); r != nil {
			panicked, msg = true, fmt.Sprint(r)
		}
	}()
	f()
	return
}

// every accessor, comparator, verification and re-encoding on an entry the library returned
func c12Exercise(e iface.IPFSLogEntry, others []iface.IPFSLogEntry, provider idp.Interface, io iface.IO) []c12Fail {
	var out []c12Fail
	try := func(name string, f func()) {
		if p, msg := c12Guard(f); p {
			out = append(out, c12Fail{"C12:panic:accessor:" + name, msg})
		}
	}
	try("getters", func() {
		_ = e.GetPayload()
		_ = e.GetLogID()
		_ = e.GetNext()
		_ = e.GetRefs()
		_ = e.GetV()
		_ = e.GetKey()
		_ = e.GetSig()
		_ = e.GetIdentity()
		_ = e.GetHash()
		_ = e.GetAdditionalData()
		_ = e.Defined()
	})
	try("clock", func() { c := e.GetClock(); _ = c.GetID(); _ = c.GetTime(); _ = c.Compare(c); _ = c.Defined() })
	try("identity", func() {
		if i := e.GetIdentity(); i != nil {
			_ = i.Filtered()
			_, _ = i.GetPublicKey()
			_ = i.Signatures.ID
		}
	})
	try("copy", func() { _ = e.Copy() })
	try("valid", func() { _ = e.IsValid() })
	try("equals", func() { _ = e.Equals(e); _ = e.IsParent(e) })
	all := append([]iface.IPFSLogEntry{e}, others...)
	for _, o := range all {
		o := o
		try("sort", func() {
			_, _ = sorting.LastWriteWins(e, o)
			_, _ = sorting.LastWriteWins(o, e)
			_, _ = sorting.SortByEntryHash(e, o)
			_, _ = sorting.Compare(e, o)
			_, _ = sorting.NoZeroes(sorting.LastWriteWins)(e, o)
		})
	}
	try("sortlist", func() { l := append([]iface.IPFSLogEntry{}, all...); sorting.Sort(sorting.SortByEntryHash, l, false) })
	// twice with the same provider: an answer remembered from the first call must be as safe as the first
	try("verify", func() { _ = e.Verify(provider, io); _ = e.Verify(provider, io) })
	try("reencode", func() { a, _ := newAPI(); _, _ = entry.ToMultihashWithIO(context.Background(), e, a, nil, io) })
	try("hashable", func() { _, _ = entry.ToHashable(e) })
	return out
}

// ---- value lattice for wrong types ----
func c12Wrong(valid cid.Cid) map[string]interface{} {
	return map[string]interface{}{
		"null": nil, "uint": 5, "negint": -3, "big": uint64(1) << 63, "text": "zz", "hex": "00ff", "bytes": []byte{1, 2}, "emptybytes": []byte{},
		"list0": []interface{}{}, "list1": []interface{}{1}, "map0": map[string]interface{}{}, "map1": map[string]interface{}{"id": 1},
		"link": valid, "links": []interface{}{valid}, "bool": true,
	}
}

func c12CloneMap(m map[string]interface{}) map[string]interface{} {
	o := map[string]interface{}{}
	for k, v := range m {
		if sub, ok := v.(map[string]interface{}); ok {
			o[k] = c12CloneMap(sub)
		} else {
			o[k] = v
		}
	}
	return o
}

type c12Mut struct {
	label string
	val   interface{} // what is encoded as the block
}

// mutations of one entry map (decoded generically from a real block)
func c12EntryMutations(rng *rand.Rand, base map[string]interface{}, valid cid.Cid, tier string) []c12Mut {
	fields := []string{"v", "id", "key", "sig", "hash", "next", "refs", "clock", "payload", "identity"}
	var out []c12Mut
	add := func(label string, f func(m map[string]interface{})) {
		m := c12CloneMap(base)
		f(m)
		out = append(out, c12Mut{label, m})
	}
	out = append(out, c12Mut{"unchanged", c12CloneMap(base)}, c12Mut{"empty-map", map[string]interface{}{}})
	for name, v := range c12Wrong(valid) {
		out = append(out, c12Mut{"toplevel:" + name, v})
	}
	wrong := c12Wrong(valid)
	names := make([]string, 0, len(wrong))
	for n := range wrong {
		names = append(names, n)
	}
	sort.Strings(names)
	for _, f := range fields {
		f := f
		add("absent:"+f, func(m map[string]interface{}) { delete(m, f) })
		add("only:"+f, func(m map[string]interface{}) {
			for k := range m {
				if k != f {
					delete(m, k)
				}
			}
		})
		for _, n := range names {
			n := n
			add("field:"+f+"="+n, func(m map[string]interface{}) { m[f] = wrong[n] })
		}
	}
	add("extra-field", func(m map[string]interface{}) { m["zzz"] = 1 })
	add("enc-fields", func(m map[string]interface{}) { m["enc_links"] = "AAAA"; m["enc_links_nonce"] = "AAAA" })
	add("enc-fields-wrong", func(m map[string]interface{}) { m["enc_links"] = 5 })
	// subsets of absent fields
	nsub := 120
	if tier == "thorough" {
		nsub = 1024
	}
	for i := 0; i < nsub; i++ {
		mask := i
		if tier != "thorough" {
			mask = rng.Intn(1024)
		}
		add(fmt.Sprintf("absent-subset:%010b", mask), func(m map[string]interface{}) {
			for b, f := range fields {
				if mask&(1<<b) != 0 {
					delete(m, f)
				}
			}
		})
	}
	// every pair of absent fields (two optional fields missing together)
	for i, f1 := range fields {
		for _, f2 := range fields[i+1:] {
			f1, f2 := f1, f2
			add("absent-subset:pair:"+f1+"+"+f2, func(m map[string]interface{}) { delete(m, f1); delete(m, f2) })
		}
	}
	// nested structs
	for _, n := range names {
		n := n
		add("clock.id="+n, func(m map[string]interface{}) { m["clock"].(map[string]interface{})["id"] = wrong[n] })
		add("clock.time="+n, func(m map[string]interface{}) { m["clock"].(map[string]interface{})["time"] = wrong[n] })
		if id, ok := base["identity"].(map[string]interface{}); ok && id != nil {
			add("identity.signatures="+n, func(m map[string]interface{}) { m["identity"].(map[string]interface{})["signatures"] = wrong[n] })
			add("identity.publicKey="+n, func(m map[string]interface{}) { m["identity"].(map[string]interface{})["publicKey"] = wrong[n] })
			add("identity.id="+n, func(m map[string]interface{}) { m["identity"].(map[string]interface{})["id"] = wrong[n] })
			add("identity.signatures.id="+n, func(m map[string]interface{}) {
				m["identity"].(map[string]interface{})["signatures"].(map[string]interface{})["id"] = wrong[n]
			})
		}
	}
	// well-formed entries with legal but unusual clock times (the time is a signed integer on the wire)
	for _, t := range []int64{-1, -1 << 40, math.MinInt64, math.MaxInt64, 1 << 40} {
		t := t
		add(fmt.Sprintf("clock.time=int:%d", t), func(m map[string]interface{}) { m["clock"].(map[string]interface{})["time"] = t })
	}
	add("clock={}", func(m map[string]interface{}) { m["clock"] = map[string]interface{}{} })
	add("clock-extra", func(m map[string]interface{}) { m["clock"].(map[string]interface{})["x"] = 1 })
	add("clock.id-absent", func(m map[string]interface{}) { delete(m["clock"].(map[string]interface{}), "id") })
	add("clock.time-absent", func(m map[string]interface{}) { delete(m["clock"].(map[string]interface{}), "time") })
	if _, ok := base["identity"].(map[string]interface{}); ok {
		add("identity={}", func(m map[string]interface{}) { m["identity"] = map[string]interface{}{} })
		add("identity.signatures-absent", func(m map[string]interface{}) { delete(m["identity"].(map[string]interface{}), "signatures") })
		add("identity.signatures={}", func(m map[string]interface{}) {
			m["identity"].(map[string]interface{})["signatures"] = map[string]interface{}{}
		})
		add("identity-extra", func(m map[string]interface{}) { m["identity"].(map[string]interface{})["x"] = "y" })
	}
	for _, s := range []string{"0", "zz", "0g", "ABCDEF", "abc"} {
		s := s
		add("key="+s, func(m map[string]interface{}) { m["key"] = s })
		add("sig="+s, func(m map[string]interface{}) { m["sig"] = s })
		add("clock.id="+s, func(m map[string]interface{}) { m["clock"].(map[string]interface{})["id"] = s })
	}
	for name, l := range map[string][]interface{}{
		"null-item": {nil}, "untagged-cid-bytes-item": {append([]byte{0}, valid.Bytes()...)}, "bad-multibase-item": {append([]byte{1}, valid.Bytes()...)}, "empty-bytes-item": {[]byte{}}, "text-item": {"x"}, "int-item": {7}, "nested": {[]interface{}{valid}}, "mixed": {valid, 3},
	} {
		l := l
		add("next="+name, func(m map[string]interface{}) { m["next"] = l })
		add("refs="+name, func(m map[string]interface{}) { m["refs"] = l })
	}
	return out
}

func c12ManifestMutations(valid cid.Cid) []c12Mut {
	base := map[string]interface{}{"id": "X", "heads": []interface{}{valid}}
	out := []c12Mut{{"unchanged", base}, {"empty-map", map[string]interface{}{}}}
	for name, v := range c12Wrong(valid) {
		out = append(out, c12Mut{"toplevel:" + name, v},
			c12Mut{"id=" + name, map[string]interface{}{"id": v, "heads": []interface{}{valid}}},
			c12Mut{"heads=" + name, map[string]interface{}{"id": "X", "heads": v}},
			c12Mut{"heads-item=" + name, map[string]interface{}{"id": "X", "heads": []interface{}{v}}})
	}
	out = append(out, c12Mut{"id-absent", map[string]interface{}{"heads": []interface{}{valid}}},
		c12Mut{"heads-absent", map[string]interface{}{"id": "X"}}, c12Mut{"extra", map[string]interface{}{"id": "X", "heads": []interface{}{valid}, "z": 1}})
	return out
}

// ---- jobs for the child process ----
type c12Job struct {
	Label    string            `json:"label"`
	Blocks   map[string]string `json:"blocks"` // cid -> hex
	Head     string            `json:"head"`
	Manifest string            `json:"manifest"` // "" = none
	Expect   []string          `json:"expect"`   // entries that must be loaded from Head
	Codec    string            `json:"codec"`    // cbor | pb
}

type c12JobResult struct {
	Job      int       `json:"job"`
	Failures []c12Fail `json:"failures"`
}

func c12ChildIdentity() *idp.Identity { return c08Identities("c12-a", "c12-b")[0] }

func c12RunJob(job c12Job, id *idp.Identity) []c12Fail {
	var fails []c12Fail
	ctx, cancel := context.WithTimeout(context.Background(), 20*time.Second)
	defer cancel()
	api, d := newAPI()
	for cs, hx := range job.Blocks {
		c, err := cid.Decode(cs)
		if err != nil {
			continue
		}
		raw, _ := hex.DecodeString(hx)
		d.putRaw(c, raw)
	}
	var io iface.IO
	if job.Codec == "pb" {
		io, _ = pb.IO(&entry.Entry{}, &entry.LamportClock{})
	} else {
		cio, _ := cbor.IO(&entry.Entry{}, &entry.LamportClock{})
		io = cio
	}
	head, _ := cid.Decode(job.Head)
	check := func(where string, got []iface.IPFSLogEntry) {
		have := map[string]bool{}
		for _, e := range got {
			have[e.GetHash().String()] = true
		}
		for _, want := range job.Expect {
			if !have[want] {
				fails = append(fails, c12Fail{"C12:history-not-loaded:" + where, fmt.Sprintf("%s: entry %s, reachable without the bad block, was not loaded (%d loaded)", job.Label, want, len(got))})
				break
			}
		}
		for i, e := range got {
			if i < 3 {
				fails = append(fails, c12Exercise(e, got, id.Provider, io)...)
			}
		}
	}
	done := make(chan struct{})
	go func() {
		defer close(done)
		if p, msg := c12Guard(func() {
			check("FetchAll", entry.FetchAll(ctx, api, []cid.Cid{head}, &entry.FetchOptions{IO: io}))
		}); p {
			fails = append(fails, c12Fail{"C12:panic:FetchAll", msg})
		}
		// the same with a single fetch slot: one bad block must not use up the fetcher's capacity
		if p, msg := c12Guard(func() {
			check("FetchAll-concurrency-1", entry.FetchAll(ctx, api, []cid.Cid{head}, &entry.FetchOptions{IO: io, Concurrency: 1, Timeout: 8 * time.Second}))
		}); p {
			fails = append(fails, c12Fail{"C12:panic:FetchAll", msg})
		}
		if p, msg := c12Guard(func() {
			l, err := ipfslog.NewFromEntryHash(ctx, api, id, head, &ipfslog.LogOptions{ID: "c12", IO: io}, &ipfslog.FetchOptions{})
			if err == nil {
				check("NewFromEntryHash", l.GetEntries().Slice())
				_ = l.Values().Slice()
				_ = l.Heads()
				_, _ = l.ToMultihash(ctx)
				l2, _ := ipfslog.NewLog(api, id, &ipfslog.LogOptions{ID: "c12", IO: io})
				_, _ = l2.Join(l, -1)
			} else if len(job.Expect) > 0 {
				fails = append(fails, c12Fail{"C12:history-not-loaded:NewFromEntryHash", job.Label + ": " + err.Error()})
			}
		}); p {
			fails = append(fails, c12Fail{"C12:panic:NewFromEntryHash", msg})
		}
		// the same without LogOptions.ID (the field is optional), and through NewFromEntry's id-less path
		if p, msg := c12Guard(func() {
			l, err := ipfslog.NewFromEntryHash(ctx, api, id, head, &ipfslog.LogOptions{IO: io}, &ipfslog.FetchOptions{})
			if err == nil && l != nil {
				_ = l.Values().Slice()
				_ = l.GetID()
			}
		}); p {
			fails = append(fails, c12Fail{"C12:panic:NewFromEntryHash", "without LogOptions.ID: " + msg})
		}
		if job.Manifest != "" {
			mc, _ := cid.Decode(job.Manifest)
			if p, msg := c12Guard(func() {
				l, err := ipfslog.NewFromMultihash(ctx, api, id, mc, &ipfslog.LogOptions{ID: "c12", IO: io}, &ipfslog.FetchOptions{})
				if err == nil && l != nil {
					check("NewFromMultihash", l.GetEntries().Slice())
					_ = l.Values().Slice()
				}
			}); p {
				fails = append(fails, c12Fail{"C12:panic:NewFromMultihash", msg})
			}
		}
	}()
	select {
	case <-done:
	case <-time.After(40 * time.Second):
		fails = append(fails, c12Fail{"C12:hang:loader", job.Label})
	}
	return fails
}

func c12Child(spec string) {
	// c12child:<jobsfile>:<start>:<resultsfile>
	parts := strings.Split(spec, ":")
	var jobs []c12Job
	b, err := os.ReadFile(parts[1])
	if err != nil || json.Unmarshal(b, &jobs) != nil {
		os.Exit(3)
	}
	start := 0
	fmt.Sscanf(parts[2], "%d", &start)
	out, err := os.OpenFile(parts[3], os.O_APPEND|os.O_CREATE|os.O_WRONLY, 0o644)
	if err != nil {
		os.Exit(3)
	}
	id := c12ChildIdentity()
	for k := start; k < len(jobs); k++ {
		r := c12JobResult{Job: k, Failures: c12RunJob(jobs[k], id)}
		line, _ := json.Marshal(r)
		out.Write(append(line, '\n'))
		out.Sync()
	}
	os.Exit(0)
}

var c12Frame = regexp.MustCompile(`berty\.tech/go-ipfs-log/([A-Za-z0-9_/.()*]+)\(`)

// run all jobs in child processes; a child that dies marks the job it was working on
func c12RunJobs(all []c12Job, seed int64, tier, outDir string) map[int][]c12Fail {
	res := map[int][]c12Fail{}
	const chunk = 120 // a crashed child is restarted and re-reads its job file: keep the files small
	for base := 0; base < len(all); base += chunk {
		end := base + chunk
		if end > len(all) {
			end = len(all)
		}
		for k, v := range c12RunChunk(all[base:end], seed, tier, outDir) {
			res[base+k] = v
		}
	}
	return res
}

func c12RunChunk(jobs []c12Job, seed int64, tier, outDir string) map[int][]c12Fail {
	res := map[int][]c12Fail{}
	jf := outDir + "/c12_jobs.json"
	rf := outDir + "/c12_results.jsonl"
	os.Remove(rf)
	writeJSON(jf, jobs)
	start := 0
	for start < len(jobs) {
		cmd := exec.Command(os.Args[0], "-prop", "C12", "-seed", fmt.Sprint(seed), "-tier", tier, "-out", outDir, "-replay", fmt.Sprintf("c12child:%s:%d:%s", jf, start, rf))
		var stderr bytes.Buffer
		cmd.Stderr = &stderr
		cmd.Stdout = &stderr
		err := cmd.Run()
		// read what was completed
		doneUpTo := start - 1
		if f, e := os.Open(rf); e == nil {
			sc := bufio.NewScanner(f)
			sc.Buffer(make([]byte, 1<<20), 1<<26)
			for sc.Scan() {
				var r c12JobResult
				if json.Unmarshal(sc.Bytes(), &r) == nil {
					res[r.Job] = r.Failures
					if r.Job > doneUpTo {
						doneUpTo = r.Job
					}
				}
			}
			f.Close()
		}
		if err == nil {
			break
		}
		crashed := doneUpTo + 1
		if crashed >= len(jobs) {
			break
		}
		msg := stderr.String()
		where := "unknown"
		first := ""
		for _, line := range strings.Split(msg, "\n") {
			if strings.HasPrefix(line, "panic:") && first == "" {
				first = line
			}
			if m := c12Frame.FindStringSubmatch(line); m != nil && !strings.Contains(line, "verifhook") {
				where = m[1]
				break
			}
		}
		res[crashed] = append(res[crashed], c12Fail{"C12:panic:process-crash:" + where, fmt.Sprintf("%s: the process died while loading (%v): %s", jobs[crashed].Label, err, first)})
		start = crashed + 1
	}
	os.Remove(jf)
	os.Remove(rf)
	return res
}

func runC12(seed int64, tier string, outDir string) *result {
	if strings.HasPrefix(replayFile, "c12child:") {
		c12Child(replayFile)
	}
	rng := rand.New(rand.NewSource(seed))
	ctx := context.Background()
	res := &result{Property: "C12", Seed: seed, Tier: tier, Stats: map[string]interface{}{}}
	stats := map[string]int{}
	shapes := map[string]struct{}{}
	fail := func(mon, key, detail string, c interface{}) {
		stats["failure:"+key]++
		if stats["failure:"+key] <= 5 && len(res.Failures) < 120 {
			res.Failures = append(res.Failures, monitorFailure{Property: "C12", Monitor: mon, Detail: detail, Case: c, Key: key})
		}
	}
	cio, err := cbor.IO(&entry.Entry{}, &entry.LamportClock{})
	if err != nil {
		panic(err)
	}
	pbio, _ := pb.IO(&entry.Entry{}, &entry.LamportClock{})
	idents := c08Identities("c12-a", "c12-b")
	provider := idents[0].Provider
	api, d := newAPI()
	decList := &caseList{name: "dec_cases", typ: "dec_case", checker: "mismatches_dec"}

	// ---- a stored log: two writers, refs, one join ----
	la, _ := ipfslog.NewLog(api, idents[0], &ipfslog.LogOptions{ID: "c12"})
	nlog := 7
	var ents []iface.IPFSLogEntry
	for i := 0; i < nlog; i++ {
		e, err := la.Append(ctx, []byte(fmt.Sprintf("entry-%d", i)), &iface.AppendOptions{PointerCount: 4})
		if err != nil {
			panic(err)
		}
		ents = append(ents, e)
	}
	head := ents[len(ents)-1].GetHash()
	manifest, err := la.ToMultihash(ctx)
	if err != nil {
		panic(err)
	}
	snapshot := map[string]string{}
	for _, c := range d.order {
		snapshot[c.String()] = hex.EncodeToString(d.raw(c))
	}
	// reachability from the head without passing through a given bad entry
	links := map[string][]string{}
	for _, e := range ents {
		for _, c := range append(append([]cid.Cid{}, e.GetNext()...), e.GetRefs()...) {
			links[e.GetHash().String()] = append(links[e.GetHash().String()], c.String())
		}
	}
	reachable := func(bad string) []string {
		seen := map[string]bool{}
		var out []string
		var walk func(c string)
		walk = func(c string) {
			if seen[c] || c == bad {
				return
			}
			seen[c] = true
			out = append(out, c)
			for _, n := range links[c] {
				walk(n)
			}
		}
		walk(head.String())
		sort.Strings(out)
		return out
	}

	var base map[string]interface{}
	if err := cbornode.DecodeInto(d.raw(ents[3].GetHash()), &base); err != nil {
		panic(err)
	}
	valid := ents[0].GetHash()

	// ---- structured entry blocks: direct decode + model case ----
	muts := c12EntryMutations(rng, base, valid, tier)
	type decoded struct {
		mut   c12Mut
		raw   []byte
		class int
	}
	var dec []decoded
	for _, m := range muts {
		res.Evaluations++
		node, err := cbornode.WrapObject(m.val, 0x12, -1)
		if err != nil {
			stats["unencodable-mutation"]++
			continue
		}
		raw := node.RawData()
		shapes["entry:"+strings.SplitN(m.label, "=", 2)[0]] = struct{}{}
		class := 1
		var got iface.IPFSLogEntry
		p, msg := c12Guard(func() {
			e, err := cio.DecodeRawEntry(c12RawNode{data: raw}, node.Cid(), provider)
			if err == nil {
				class, got = 0, e
			}
		})
		desc := c08Case{Kind: "structured-entry", Note: m.label, Block: hex.EncodeToString(raw)}
		if p {
			class = 2
			fail("decode", "C12:panic:DecodeRawEntry", fmt.Sprintf("%s: %s", m.label, msg), desc)
		}
		stats[fmt.Sprintf("entry-outcome-%d", class)]++
		if got != nil {
			for _, f := range c12Exercise(got, ents[:2], provider, cio) {
				fail("accessors", f.Key, m.label+": "+f.Detail, desc)
			}
		}
		// through the store as well (go-ipld-cbor's generic decode first)
		d.putRaw(node.Cid(), raw)
		if p, msg := c12Guard(func() { _, _ = entry.FromMultihashWithIO(ctx, api, node.Cid(), provider, cio) }); p && class != 2 {
			fail("decode", "C12:panic:FromMultihashWithIO", fmt.Sprintf("%s: %s", m.label, msg), desc)
		}
		decList.add(fmt.Sprintf("Build_dec_case false %s %d", c08Bytes(raw), class), "entry "+m.label)
		dec = append(dec, decoded{m, raw, class})
		if len(res.Samples) < 5 && class == 2 {
			res.Samples = append(res.Samples, desc)
		}
	}

	// ---- manifests ----
	for _, m := range c12ManifestMutations(valid) {
		res.Evaluations++
		node, err := cbornode.WrapObject(m.val, 0x12, -1)
		if err != nil {
			continue
		}
		raw := node.RawData()
		shapes["manifest:"+strings.SplitN(m.label, "=", 2)[0]] = struct{}{}
		class := 1
		p, msg := c12Guard(func() {
			jl, err := cio.DecodeRawJSONLog(c12RawNode{data: raw})
			if err == nil && jl != nil {
				class = 0
				_ = jl.ID
				for _, h := range jl.Heads {
					_ = h.String()
				}
			}
		})
		if p {
			class = 2
			fail("decode", "C12:panic:DecodeRawJSONLog", m.label+": "+msg, c08Case{Kind: "structured-manifest", Note: m.label, Block: hex.EncodeToString(raw)})
		}
		stats[fmt.Sprintf("manifest-outcome-%d", class)]++
		decList.add(fmt.Sprintf("Build_dec_case true %s %d", c08Bytes(raw), class), "manifest "+m.label)
	}

	// ---- blocks with sealed links, decoded by a reader that HOLDS a link key ----
	// (the inner CBOR of enc_links is decoded by the library's own atlas, and the nonce and the
	// sealed bytes come from the untrusted block: neither may crash the reader)
	{
		key, err := enc.NewSecretbox([]byte("0123456789abcdef0123456789abcdef"))
		if err != nil {
			panic(err)
		}
		kio := cio.ApplyOptions(&cbor.Options{LinkKey: key})
		tryKeyed := func(label string, encLinks, nonce []byte) {
			res.Evaluations++
			m := c12CloneMap(base)
			m["next"] = []interface{}{}
			m["refs"] = []interface{}{}
			m["enc_links"] = base64.StdEncoding.EncodeToString(encLinks)
			m["enc_links_nonce"] = base64.StdEncoding.EncodeToString(nonce)
			node, err := cbornode.WrapObject(m, 0x12, -1)
			if err != nil {
				stats["unencodable-mutation"]++
				return
			}
			raw := node.RawData()
			shapes["keyed:"+strings.SplitN(label, "=", 2)[0]] = struct{}{}
			desc := c08Case{Kind: "sealed-links-entry", Note: label, Block: hex.EncodeToString(raw)}
			var got iface.IPFSLogEntry
			if p, msg := c12Guard(func() {
				if e, err := kio.DecodeRawEntry(c12RawNode{data: raw}, node.Cid(), provider); err == nil {
					got = e
				}
			}); p {
				fail("decode", "C12:panic:DecodeRawEntry:link-key", fmt.Sprintf("%s: %s", label, msg), desc)
			}
			stats["keyed-decodes"]++
			if got != nil {
				stats["keyed-decodes-accepted"]++
				for _, f := range c12Exercise(got, ents[:2], provider, kio) {
					fail("accessors", f.Key, label+": "+f.Detail, desc)
				}
			}
			d.putRaw(node.Cid(), raw)
			if p, msg := c12Guard(func() { _, _ = entry.FromMultihashWithIO(ctx, api, node.Cid(), provider, kio) }); p {
				fail("decode", "C12:panic:FromMultihashWithIO:link-key", fmt.Sprintf("%s: %s", label, msg), desc)
			}
		}
		// (a) arbitrary sealed bytes and nonces of every length around the legal one
		for nl := 0; nl <= 40; nl++ {
			for _, el := range []int{1, 15, 16, 17, 40, 80} {
				tryKeyed(fmt.Sprintf("nonce-len=%d/enc-len=%d", nl, el), randBytes(rng, el), randBytes(rng, nl))
			}
		}
		// (b) inner payloads sealed by a key holder: hostile link lists
		h := func(s string) []byte { b, _ := hex.DecodeString(s); return b }
		vb := append([]byte{0}, valid.Bytes()...)
		link := func(b []byte) []byte { // tag 42 over a byte string (lengths < 256)
			out := []byte{0xd8, 0x2a}
			if len(b) < 24 {
				out = append(out, 0x40+byte(len(b)))
			} else {
				out = append(out, 0x58, byte(len(b)))
			}
			return append(out, b...)
		}
		inner := func(next [][]byte, refs [][]byte) []byte {
			out := []byte{0xa2, 0x64, 'n', 'e', 'x', 't', 0x80 + byte(len(next))}
			for _, n := range next {
				out = append(out, n...)
			}
			out = append(out, 0x64, 'r', 'e', 'f', 's', 0x80+byte(len(refs)))
			for _, n := range refs {
				out = append(out, n...)
			}
			return out
		}
		payloads := map[string][]byte{
			"inner=valid":              inner([][]byte{link(vb)}, nil),
			"inner=empty-link":         inner([][]byte{link(nil)}, nil),
			"inner=prefix-only-link":   inner([][]byte{link([]byte{0})}, nil),
			"inner=wrong-multibase":    inner([][]byte{link(append([]byte{1}, valid.Bytes()...))}, nil),
			"inner=truncated-cid":      inner([][]byte{link(vb[:len(vb)/2])}, nil),
			"inner=one-byte-link":      inner([][]byte{link([]byte{7})}, nil),
			"inner=empty-ref":          inner(nil, [][]byte{link(nil)}),
			"inner=tag42-over-int":     inner([][]byte{{0xd8, 0x2a, 0x05}}, nil),
			"inner=tag42-over-text":    inner([][]byte{{0xd8, 0x2a, 0x61, 'x'}}, nil),
			"inner=untagged-bytes":     inner([][]byte{{0x41, 0x00}}, nil),
			"inner=next-not-a-list":    h("a2646e65787405647265667380"),
			"inner=null":               {0xf6},
			"inner=empty":              {},
			"inner=garbage":            randBytes(rng, 30),
			"inner=many-links-and-bad": inner([][]byte{link(vb), link(vb), link(nil)}, [][]byte{link(vb)}),
		}
		var labels []string
		for k := range payloads {
			labels = append(labels, k)
		}
		sort.Strings(labels)
		for _, lb := range labels {
			nonce := randBytes(rng, 24)
			sealed, err := key.SealWithNonce(payloads[lb], nonce)
			if err != nil {
				panic(err)
			}
			tryKeyed(lb, sealed, nonce)
		}
	}

	// ---- raw mutated bytes ----
	nraw := 3000
	if tier == "thorough" {
		nraw = 60000
	}
	seeds := [][]byte{d.raw(ents[0].GetHash()), d.raw(ents[5].GetHash()), d.raw(manifest)}
	for n := 0; n < nraw; n++ {
		res.Evaluations++
		src := seeds[rng.Intn(len(seeds))]
		b := append([]byte{}, src...)
		kind := rng.Intn(6)
		switch kind {
		case 0:
			for k := 0; k <= rng.Intn(3); k++ {
				b[rng.Intn(len(b))] ^= 1 << uint(rng.Intn(8))
			}
		case 1:
			b = b[:rng.Intn(len(b))]
		case 2:
			i := rng.Intn(len(b))
			b = append(append(append([]byte{}, b[:i]...), byte(rng.Intn(256))), b[i:]...)
		case 3:
			i, j := rng.Intn(len(b)), rng.Intn(len(b))
			if i > j {
				i, j = j, i
			}
			b = append(append([]byte{}, b[:i]...), b[j:]...)
		case 4:
			b = make([]byte, rng.Intn(64))
			rng.Read(b)
		case 5:
			b[rng.Intn(len(b))] = byte(rng.Intn(256))
			b[rng.Intn(len(b))] = byte(rng.Intn(256))
		}
		shapes[fmt.Sprintf("raw:%d", kind)] = struct{}{}
		desc := c08Case{Kind: "raw-bytes", Block: hex.EncodeToString(b)}
		var got iface.IPFSLogEntry
		if p, msg := c12Guard(func() {
			e, err := cio.DecodeRawEntry(c12RawNode{data: b}, valid, provider)
			if err == nil {
				got = e
			}
		}); p {
			fail("decode", "C12:panic:DecodeRawEntry", "raw bytes: "+msg, desc)
			stats["raw-panic"]++
		}
		if got != nil {
			stats["raw-decoded-to-entry"]++
			for _, f := range c12Exercise(got, nil, provider, cio) {
				fail("accessors", f.Key, "raw bytes: "+f.Detail, desc)
			}
		}
		if p, msg := c12Guard(func() { _, _ = cio.DecodeRawJSONLog(c12RawNode{data: b}) }); p {
			fail("decode", "C12:panic:DecodeRawJSONLog", "raw bytes: "+msg, desc)
		}
		if p, msg := c12Guard(func() { _, _ = pbio.DecodeRawEntry(c12RawNode{data: b}, valid, provider) }); p {
			fail("decode", "C12:panic:pb.DecodeRawEntry", "raw bytes: "+msg, desc)
		}
		if p, msg := c12Guard(func() { _, _ = decodeBlock(valid, b) }); p {
			stats["third-party-block-decoder-panic"]++
			_ = msg
		}
	}

	// ---- legacy codec: JSON variants in protobuf nodes ----
	v0json := []string{`{}`, `null`, `[]`, `5`, `"x"`, `{"clock":null}`, `{"clock":{}}`, `{"clock":{"id":"zz","time":1}}`, `{"clock":{"id":"00","time":"x"}}`,
		`{"clock":{"id":"00","time":1}}`, `{"clock":{"id":"00","time":1},"hash":"notacid"}`, `{"clock":{"id":"00","time":1},"hash":null}`,
		`{"clock":{"id":"00","time":1},"next":["x"]}`, `{"clock":{"id":"00","time":1},"next":null}`, `{"clock":{"id":"00","time":1},"next":[null]}`,
		`{"clock":{"id":"00","time":1},"key":"zz"}`, `{"clock":{"id":"00","time":1},"sig":"0"}`, `{"clock":{"id":"00","time":1},"v":"x"}`,
		`{"clock":{"id":"00","time":1},"v":-1}`, `{"clock":{"id":"00","time":1e99}}`, `{"clock":5}`, `{"clock":[]}`, `{"id":5}`, `{"payload":{}}`, `{"next":{}}`,
		`{"clock":{"id":"00","time":1},"id":"A","payload":"p","next":[],"v":0,"key":"00","sig":"00"}`, `{"clock":`, ``}
	for _, js := range v0json {
		res.Evaluations++
		shapes["v0:"+js] = struct{}{}
		node := &dag.ProtoNode{}
		node.SetData([]byte(js))
		var got iface.IPFSLogEntry
		desc := c08Case{Kind: "v0-json", Note: js}
		if p, msg := c12Guard(func() {
			e, err := pbio.DecodeRawEntry(node, node.Cid(), provider)
			if err == nil {
				got = e
			}
		}); p {
			fail("decode", "C12:panic:pb.DecodeRawEntry", js+": "+msg, desc)
			stats["v0-panic"]++
		}
		if got != nil {
			for _, f := range c12Exercise(got, nil, provider, pbio) {
				fail("accessors", f.Key, js+": "+f.Detail, desc)
			}
		}
		if p, msg := c12Guard(func() { _, _ = pbio.DecodeRawJSONLog(c12RawNode{data: []byte(js)}) }); p {
			fail("decode", "C12:panic:pb.DecodeRawJSONLog", js+": "+msg, desc)
		}
	}

	// ---- bad blocks at every position of the stored log: loaders in child processes ----
	var jobs []c12Job
	pick12 := []string{"empty-map", "absent:clock", "field:clock=null", "field:identity=map0", "identity.signatures=null", "field:next=text", "field:payload=uint", "toplevel:text", "key=zz", "extra-field", "absent-subset", "clock.time=negint", "clock.time=int:"}
	posStep := 1
	for _, dm := range dec {
		use := tier == "thorough"
		for _, p := range pick12 {
			if strings.HasPrefix(dm.mut.label, p) {
				use = true
			}
		}
		if !use || (strings.HasPrefix(dm.mut.label, "absent-subset") && rng.Intn(12) != 0 && tier != "thorough") {
			continue
		}
		if tier == "thorough" && strings.HasPrefix(dm.mut.label, "absent-subset") && rng.Intn(16) != 0 {
			continue
		}
		for pos := 0; pos < len(ents); pos += posStep {
			if strings.HasPrefix(dm.mut.label, "absent-subset") && pos != 2 {
				continue
			}
			if tier == "thorough" && pos%3 != 0 {
				picked := false
				for _, p := range pick12 {
					if strings.HasPrefix(dm.mut.label, p) {
						picked = true
					}
				}
				if !picked {
					continue
				}
			}
			bad := ents[pos].GetHash().String()
			blocks := map[string]string{}
			for k, v := range snapshot {
				blocks[k] = v
			}
			blocks[bad] = hex.EncodeToString(dm.raw)
			exp := reachable(bad)
			if dm.class == 0 {
				exp = nil // the mutated block still decodes to an entry (possibly with other links): nothing to demand
			}
			jobs = append(jobs, c12Job{Label: fmt.Sprintf("%s at position %d/%d", dm.mut.label, pos, len(ents)), Blocks: blocks, Head: head.String(), Manifest: manifest.String(), Expect: exp, Codec: "cbor"})
		}
	}
	// raw garbage and a missing block at a position; a mutilated manifest
	for pos := 0; pos < len(ents); pos++ {
		bad := ents[pos].GetHash().String()
		for _, g := range [][]byte{{}, {0xff}, {0xa1, 0x61}, bytes.Repeat([]byte{0x9f}, 40)} {
			blocks := map[string]string{}
			for k, v := range snapshot {
				blocks[k] = v
			}
			blocks[bad] = hex.EncodeToString(g)
			jobs = append(jobs, c12Job{Label: fmt.Sprintf("garbage %x at position %d", g, pos), Blocks: blocks, Head: head.String(), Manifest: manifest.String(), Expect: reachable(bad), Codec: "cbor"})
		}
	}
	for _, m := range c12ManifestMutations(head) {
		node, err := cbornode.WrapObject(m.val, 0x12, -1)
		if err != nil {
			continue
		}
		blocks := map[string]string{}
		for k, v := range snapshot {
			blocks[k] = v
		}
		blocks[manifest.String()] = hex.EncodeToString(node.RawData())
		jobs = append(jobs, c12Job{Label: "manifest " + m.label, Blocks: blocks, Head: head.String(), Manifest: manifest.String(), Expect: reachable(""), Codec: "cbor"})
	}
	stats["loader-jobs"] = len(jobs)
	jr := c12RunJobs(jobs, seed, tier, outDir)
	for k, fs := range jr {
		for _, f := range fs {
			fail("loaders", f.Key, f.Detail, c08Case{Kind: "stored-log", Note: jobs[k].Label})
		}
	}
	res.Evaluations += len(jobs)
	for _, j := range jobs {
		shapes["job:"+strings.SplitN(j.Label, " at ", 2)[0]] = struct{}{}
	}

	// the most telling failure first
	sort.SliceStable(res.Failures, func(i, j int) bool {
		return strings.HasPrefix(res.Failures[i].Key, "C12:panic:process-crash") && !strings.HasPrefix(res.Failures[j].Key, "C12:panic:process-crash")
	})
	header := "From Coq Require Import List NArith ZArith.\nFrom IpfsLog Require Import Model.Cbor Model.EntryCodec Model.Check08 Model.Check12.\nImport ListNotations.\nOpen Scope N_scope.\n"
	res.CaseFiles = writeShards(outDir, "C12", header, []*caseList{decList}, 80)
	res.ModelCases = len(decList.items)
	res.Distinct = len(shapes)
	res.Rule = "distinct mutation kinds: (entry|manifest field, kind of damage) for structured blocks, raw mutation operator, v0 JSON document, (mutation, position) job classes for stored logs"
	for k, v := range stats {
		res.Stats[k] = v
	}
	res.Stats["generator"] = "entry maps from a real block with each of 10 fields absent / alone / replaced by 15 wrongly typed values, random (quick) or all 1024 (thorough) absent-subsets, nested clock / identity / signatures damage, non-hex strings, malformed link lists, extra and non-map top levels; 60 manifest variants; raw bit flips, truncations, insertions, deletions, random bytes; 28 v0 JSON documents in protobuf nodes; each selected bad block at every position of a 7 entry log with refs, loaders run in child processes"
	return res
}
